(* C46 -- proofs about the truth-table model of CLP(B) *)
From Coq Require Import List NArith ZArith Bool Lia Sorted.
From V Require Import C46.Model.
Import ListNotations.

(* ---------- induction principle for the nested datatype *)
Lemma formula_ind' (P : formula -> Prop)
  (Hc : forall b, P (FConst b)) (Hv : forall v, P (FVar v))
  (Hn : forall a, P a -> P (FNot a))
  (Hb : forall o a b, P a -> P b -> P (FBin o a b))
  (Hcard : forall rs es, Forall P es -> P (FCard rs es))
  (Hor : forall es, Forall P es -> P (FOrL es))
  (Hand : forall es, Forall P es -> P (FAndL es)) : forall f, P f.
Proof.
  fix IH 1. intros [b|v|a|o a b|rs es|es|es].
  - apply Hc.
  - apply Hv.
  - apply Hn, IH.
  - apply Hb; apply IH.
  - apply Hcard. induction es as [|e es IHes]; constructor; [apply IH | exact IHes].
  - apply Hor. induction es as [|e es IHes]; constructor; [apply IH | exact IHes].
  - apply Hand. induction es as [|e es IHes]; constructor; [apply IH | exact IHes].
Qed.

(* ---------- small list facts *)
Lemma existsb_map {A} (f : A -> bool) l : existsb f l = existsb (fun b => b) (map f l).
Proof. induction l as [|x l IH]; cbn; [reflexivity | rewrite IH; reflexivity]. Qed.

Lemma forallb_map {A} (f : A -> bool) l : forallb f l = forallb (fun b => b) (map f l).
Proof. induction l as [|x l IH]; cbn; [reflexivity | rewrite IH; reflexivity]. Qed.

Lemma count_true_filter {A} (f : A -> bool) l : count_true (map f l) = length (filter f l).
Proof.
  induction l as [|x l IH]; cbn; [reflexivity|].
  destruct (f x); cbn; rewrite IH; reflexivity.
Qed.

(* ---------- only the occurring variables matter *)
Lemma map_eval_ext r1 r2 es :
  Forall (fun e => (forall v, In v (vars e) -> r1 v = r2 v) -> eval r1 e = eval r2 e) es ->
  (forall v, In v (flat_map vars es) -> r1 v = r2 v) -> map (eval r1) es = map (eval r2) es.
Proof.
  intros HF. induction HF as [|e es He HF IH]; intros H; cbn; [reflexivity|].
  cbn in H. f_equal.
  - apply He. intros v Hv. apply H, in_or_app. left; exact Hv.
  - apply IH. intros v Hv. apply H, in_or_app. right; exact Hv.
Qed.

Lemma eval_ext r1 r2 f : (forall v, In v (vars f) -> r1 v = r2 v) -> eval r1 f = eval r2 f.
Proof.
  induction f as [b|v|a IHa|o a b IHa IHb|rs es IHes|es IHes|es IHes] using formula_ind'; intros H.
  - reflexivity.
  - cbn. apply H. left; reflexivity.
  - cbn. f_equal. apply IHa. exact H.
  - cbn. cbn in H. f_equal; [apply IHa | apply IHb]; intros v Hv; apply H, in_or_app; auto.
  - cbn [eval]. rewrite (map_eval_ext r1 r2 es IHes H). reflexivity.
  - cbn [eval]. rewrite (existsb_map (eval r1)), (existsb_map (eval r2)).
    rewrite (map_eval_ext r1 r2 es IHes H). reflexivity.
  - cbn [eval]. rewrite (forallb_map (eval r1)), (forallb_map (eval r2)).
    rewrite (map_eval_ext r1 r2 es IHes H). reflexivity.
Qed.

(* ---------- dedup *)
Lemma In_dedup x l : In x (dedup l) <-> In x l.
Proof.
  induction l as [|y l IH]; cbn; [tauto|].
  rewrite filter_In, IH. split.
  - intros [H|[H _]]; auto.
  - intros [H|H]; [left; exact H|].
    destruct (N.eqb y x) eqn:E.
    + left. apply N.eqb_eq. exact E.
    + right. split; [exact H | reflexivity].
Qed.

Lemma NoDup_dedup l : NoDup (dedup l).
Proof.
  induction l as [|y l IH]; cbn; [constructor|].
  constructor.
  - rewrite filter_In. intros [_ H]. rewrite N.eqb_refl in H. discriminate.
  - apply NoDup_filter. exact IH.
Qed.

Lemma In_uvars x f : In x (uvars f) <-> In x (vars f).
Proof. apply In_dedup. Qed.

(* ---------- assignments *)
Lemma In_assignments n bs : In bs (assignments n) <-> length bs = n.
Proof.
  revert bs. induction n as [|n IH]; intros bs; cbn [assignments].
  - split.
    + intros [H|[]]. subst. reflexivity.
    + intros H. destruct bs; [left; reflexivity | discriminate].
  - rewrite in_app_iff, !in_map_iff. split.
    + intros [[cs [E H]]|[cs [E H]]]; subst; cbn; f_equal; apply IH; exact H.
    + intros H. destruct bs as [|b bs]; [discriminate|]. cbn in H.
      assert (Hl : In bs (assignments n)) by (apply IH; lia).
      destruct b; [right | left]; exists bs; auto.
Qed.

Lemma SS_app {A} (R : A -> A -> Prop) l1 l2 :
  StronglySorted R l1 -> StronglySorted R l2 -> (forall a b, In a l1 -> In b l2 -> R a b) ->
  StronglySorted R (l1 ++ l2).
Proof.
  intros H1 H2 H. induction H1 as [|a l1 Hs IH Hf]; cbn; [exact H2|].
  constructor.
  - apply IH. intros x y Hx Hy. apply H; [right; exact Hx | exact Hy].
  - apply Forall_app. split; [exact Hf|].
    apply Forall_forall. intros y Hy. apply H; [left; reflexivity | exact Hy].
Qed.

Lemma SS_map_cons b l : StronglySorted lex_lt l -> StronglySorted lex_lt (map (cons b) l).
Proof.
  intros H. induction H as [|a l Hs IH Hf]; cbn; constructor; [exact IH|].
  apply Forall_forall. intros y Hy. apply in_map_iff in Hy. destruct Hy as [z [E Hz]]. subst.
  cbn. right. split; [reflexivity|]. rewrite Forall_forall in Hf. apply Hf. exact Hz.
Qed.

Lemma SS_filter {A} (R : A -> A -> Prop) (p : A -> bool) l : StronglySorted R l -> StronglySorted R (filter p l).
Proof.
  intros H. induction H as [|a l Hs IH Hf]; cbn; [constructor|].
  destruct (p a); [|exact IH].
  constructor; [exact IH|].
  apply Forall_forall. intros y Hy. apply filter_In in Hy. rewrite Forall_forall in Hf. apply Hf, Hy.
Qed.

Lemma assignments_sorted n : StronglySorted lex_lt (assignments n).
Proof.
  induction n as [|n IH]; cbn [assignments].
  - constructor; constructor.
  - apply SS_app; try (apply SS_map_cons; exact IH).
    intros a b Ha Hb. apply in_map_iff in Ha. apply in_map_iff in Hb.
    destruct Ha as [a' [Ea _]]. destruct Hb as [b' [Eb _]]. subst. cbn. left. split; reflexivity.
Qed.

Lemma lex_lt_irrefl a : ~ lex_lt a a.
Proof.
  induction a as [|x a IH]; cbn; [tauto|].
  intros [[H1 H2]|[_ H]]; [congruence | exact (IH H)].
Qed.

Lemma SS_NoDup l : StronglySorted lex_lt l -> NoDup l.
Proof.
  intros H. induction H as [|a l Hs IH Hf]; constructor; [|exact IH].
  intros Hin. rewrite Forall_forall in Hf. exact (lex_lt_irrefl a (Hf a Hin)).
Qed.

(* ---------- env *)
Lemma env_map rho vs v : In v vs -> env vs (map rho vs) v = rho v.
Proof.
  induction vs as [|x vs IH]; intros H; [destruct H|].
  cbn. destruct (N.eqb v x) eqn:E.
  - apply N.eqb_eq in E. subst. reflexivity.
  - apply IH. destruct H as [H|H]; [|exact H]. subst. rewrite N.eqb_refl in E. discriminate.
Qed.

Lemma map_env_id vs : NoDup vs -> forall bs, length bs = length vs -> map (env vs bs) vs = bs.
Proof.
  intros H. induction H as [|x vs Hx Hnd IH]; intros bs Hl.
  - destruct bs; [reflexivity | discriminate].
  - destruct bs as [|b bs]; [discriminate|]. cbn in Hl. cbn [map env]. rewrite N.eqb_refl. f_equal.
    transitivity (map (env vs bs) vs); [|apply IH; lia].
    apply map_ext_in. intros v Hv. cbn. destruct (N.eqb v x) eqn:E; [|reflexivity].
    apply N.eqb_eq in E. subst. contradiction.
Qed.

Lemma holds_map rho vs f : incl (vars f) vs -> holds vs f (map rho vs) = eval rho f.
Proof.
  intros H. unfold holds. apply eval_ext. intros v Hv. apply env_map. apply H. exact Hv.
Qed.

Lemma incl_vars_uvars f : incl (vars f) (uvars f).
Proof. intros v Hv. apply In_uvars. exact Hv. Qed.

(* ---------- sat / valid / taut *)
Lemma sat_dec_spec f : sat_dec f = true <-> exists rho, eval rho f = true.
Proof.
  unfold sat_dec. rewrite existsb_exists. split.
  - intros [bs [_ H]]. exists (env (uvars f) bs). exact H.
  - intros [rho H]. exists (map rho (uvars f)). split.
    + apply In_assignments. apply map_length.
    + rewrite holds_map by apply incl_vars_uvars. exact H.
Qed.

Lemma valid_dec_spec f : valid_dec f = true <-> forall rho, eval rho f = true.
Proof.
  unfold valid_dec. rewrite forallb_forall. split.
  - intros H rho. rewrite <- (holds_map rho (uvars f) f) by apply incl_vars_uvars.
    apply H. apply In_assignments. apply map_length.
  - intros H bs _. apply H.
Qed.

Lemma sat_dec_false f : sat_dec f = false <-> forall rho, eval rho f = false.
Proof.
  split.
  - intros H rho. destruct (eval rho f) eqn:E; [|reflexivity].
    assert (Hs : sat_dec f = true) by (apply sat_dec_spec; exists rho; exact E). congruence.
  - intros H. destruct (sat_dec f) eqn:E; [|reflexivity].
    apply sat_dec_spec in E. destruct E as [rho E]. rewrite H in E. discriminate.
Qed.

Lemma taut_spec f :
  (taut_dec f = Some true <-> forall rho, eval rho f = true) /\
  (taut_dec f = Some false <-> forall rho, eval rho f = false) /\
  (taut_dec f = None <-> (exists rho, eval rho f = true) /\ (exists rho, eval rho f = false)).
Proof.
  unfold taut_dec.
  destruct (sat_dec f) eqn:Es; cbn [negb].
  - pose proof (proj1 (sat_dec_spec f) Es) as [r0 Hr0].
    destruct (valid_dec f) eqn:Ev.
    + pose proof (proj1 (valid_dec_spec f) Ev) as Hv.
      split; [|split].
      * split; [intros _; exact Hv | reflexivity].
      * split; [discriminate | intros H; rewrite H in Hr0; discriminate].
      * split; [discriminate|]. intros [_ [r Hr]]. rewrite Hv in Hr. discriminate.
    + split; [|split].
      * split; [discriminate|]. intros H. apply valid_dec_spec in H. congruence.
      * split; [discriminate|]. intros H. rewrite H in Hr0. discriminate.
      * split; [|reflexivity]. intros _. split; [exists r0; exact Hr0|].
        unfold valid_dec in Ev.
        assert (Hn : exists bs, In bs (assignments (length (uvars f))) /\ holds (uvars f) f bs = false).
        { clear -Ev. induction (assignments (length (uvars f))) as [|a l IH]; cbn in Ev; [discriminate|].
          destruct (holds (uvars f) f a) eqn:E.
          - cbn in Ev. destruct (IH Ev) as [bs [Hi Hb]]. exists bs. split; [right; exact Hi | exact Hb].
          - exists a. split; [left; reflexivity | exact E]. }
        destruct Hn as [bs [_ Hb]]. exists (env (uvars f) bs). exact Hb.
  - pose proof (proj1 (sat_dec_false f) Es) as Hf.
    split; [|split].
    + split; [discriminate|]. intros H. specialize (H (fun _ => false)). rewrite Hf in H. discriminate.
    + split; [intros _; exact Hf | reflexivity].
    + split; [discriminate|]. intros [[r Hr] _]. rewrite Hf in Hr. discriminate.
Qed.

Lemma map_eq_on {A B} (h k : A -> B) l : map h l = map k l -> forall v, In v l -> h v = k v.
Proof.
  induction l as [|x l IH]; cbn; intros E v Hv; [destruct Hv|].
  inversion E. destruct Hv as [Hv|Hv]; [subst; assumption | apply IH; assumption].
Qed.

(* ---------- models *)
Lemma In_models vs f bs : In bs (models vs f) <-> length bs = length vs /\ eval (env vs bs) f = true.
Proof. unfold models. rewrite filter_In, In_assignments. unfold holds. tauto. Qed.

Lemma models_sorted vs f : StronglySorted lex_lt (models vs f).
Proof. apply SS_filter, assignments_sorted. Qed.

Lemma models_NoDup vs f : NoDup (models vs f).
Proof. apply SS_NoDup, models_sorted. Qed.

Lemma models_complete vs f rho : incl (vars f) vs -> eval rho f = true -> In (map rho vs) (models vs f).
Proof.
  intros Hi H. apply In_models. split; [apply map_length|].
  change (holds vs f (map rho vs) = true). rewrite holds_map by exact Hi. exact H.
Qed.

Lemma models_and vs f g bs : In bs (models vs (FBin OAnd f g)) <-> In bs (models vs f) /\ In bs (models vs g).
Proof. rewrite !In_models. cbn [eval binop_sem]. rewrite andb_true_iff. tauto. Qed.

Lemma count_models f :
  count f = N.of_nat (length (models (uvars f) f)) /\
  NoDup (models (uvars f) f) /\
  (forall bs, In bs (models (uvars f) f) <-> length bs = length (uvars f) /\ eval (env (uvars f) bs) f = true) /\
  (forall rho, eval rho f = true -> In (map rho (uvars f)) (models (uvars f) f)) /\
  (forall r1 r2 : N -> bool, map r1 (uvars f) = map r2 (uvars f) <-> forall v, In v (vars f) -> r1 v = r2 v).
Proof.
  split; [reflexivity|]. split; [apply models_NoDup|]. split; [intros bs; apply In_models|].
  split; [intros rho; apply models_complete, incl_vars_uvars|].
  intros r1 r2. split.
  - intros H v Hv. apply In_uvars in Hv.
    exact (map_eq_on r1 r2 _ H v Hv).
  - intros H. apply map_ext_in. intros v Hv. apply H, In_uvars, Hv.
Qed.

(* ---------- card *)
Lemma card_sem rho rs es :
  eval rho (FCard rs es) = true <->
  exists r, In r rs /\ range_has (Z.of_nat (length (filter (eval rho) es))) r.
Proof.
  cbn [eval]. unfold in_ranges. rewrite existsb_exists, count_true_filter.
  split; intros [r [Hr H]]; exists r; (split; [exact Hr|]); destruct r as [i|a b]; cbn in *.
  - apply Z.eqb_eq. exact H.
  - apply andb_true_iff in H. destruct H as [H1 H2]. split; apply Z.leb_le; assumption.
  - apply Z.eqb_eq. exact H.
  - apply andb_true_iff. destruct H as [H1 H2]. split; apply Z.leb_le; assumption.
Qed.

(* ---------- n-ary forms *)
Lemma orl_sem rho es : eval rho (FOrL es) = true <-> exists e, In e es /\ eval rho e = true.
Proof. cbn [eval]. apply existsb_exists. Qed.

Lemma andl_sem rho es : eval rho (FAndL es) = true <-> forall e, In e es -> eval rho e = true.
Proof. cbn [eval]. apply forallb_forall. Qed.

(* ---------- the synonym rewriting of sat_rewrite/2 *)
Lemma fold_or_eval rho (h : formula -> formula) es acc :
  Forall (fun e => eval rho (h e) = eval rho e) es ->
  eval rho (fold_left (fun a e => FBin OOr a (h e)) es acc) = orb (eval rho acc) (existsb (eval rho) es).
Proof.
  intros HF. revert acc. induction HF as [|e es He HF IH]; intros acc; cbn [fold_left existsb].
  - rewrite orb_false_r. reflexivity.
  - rewrite IH. cbn [eval binop_sem]. rewrite He, orb_assoc. reflexivity.
Qed.

Lemma fold_and_eval rho (h : formula -> formula) es acc :
  Forall (fun e => eval rho (h e) = eval rho e) es ->
  eval rho (fold_left (fun a e => FBin OAnd a (h e)) es acc) = andb (eval rho acc) (forallb (eval rho) es).
Proof.
  intros HF. revert acc. induction HF as [|e es He HF IH]; intros acc; cbn [fold_left forallb].
  - rewrite andb_true_r. reflexivity.
  - rewrite IH. cbn [eval binop_sem]. rewrite He, andb_assoc. reflexivity.
Qed.

Lemma rewrite_eval rho f : eval rho (rewrite f) = eval rho f.
Proof.
  induction f as [b|v|a IHa|o a b IHa IHb|rs es IHes|es IHes|es IHes] using formula_ind'.
  - reflexivity.
  - reflexivity.
  - cbn [rewrite fnot eval binop_sem]. rewrite IHa. reflexivity.
  - cbn [rewrite]. destruct o; cbn [fnot eval binop_sem]; rewrite IHa, IHb;
      destruct (eval rho a), (eval rho b); reflexivity.
  - cbn [rewrite eval]. rewrite map_map. f_equal. f_equal. f_equal.
    induction IHes as [|e es He HF IH]; cbn; [reflexivity | rewrite He, IH; reflexivity].
  - cbn [rewrite]. rewrite fold_or_eval by exact IHes. reflexivity.
  - cbn [rewrite]. rewrite fold_and_eval by exact IHes. reflexivity.
Qed.

Lemma fold_or_core (h : formula -> formula) es acc :
  Forall (fun e => core (h e) = true) es -> core acc = true ->
  core (fold_left (fun a e => FBin OOr a (h e)) es acc) = true.
Proof.
  intros HF. revert acc. induction HF as [|e es He HF IH]; intros acc Ha; cbn [fold_left]; [exact Ha|].
  apply IH. cbn. rewrite Ha, He. reflexivity.
Qed.

Lemma fold_and_core (h : formula -> formula) es acc :
  Forall (fun e => core (h e) = true) es -> core acc = true ->
  core (fold_left (fun a e => FBin OAnd a (h e)) es acc) = true.
Proof.
  intros HF. revert acc. induction HF as [|e es He HF IH]; intros acc Ha; cbn [fold_left]; [exact Ha|].
  apply IH. cbn. rewrite Ha, He. reflexivity.
Qed.

Lemma rewrite_is_core f : core (rewrite f) = true.
Proof.
  induction f as [b|v|a IHa|o a b IHa IHb|rs es IHes|es IHes|es IHes] using formula_ind'.
  - reflexivity.
  - reflexivity.
  - cbn. exact IHa.
  - cbn [rewrite]. destruct o; cbn; rewrite IHa, IHb; reflexivity.
  - cbn [rewrite core]. rewrite forallb_forall. intros x Hx. apply in_map_iff in Hx.
    destruct Hx as [e [E He]]. subst. rewrite Forall_forall in IHes. apply IHes, He.
  - cbn [rewrite]. apply fold_or_core; [exact IHes | reflexivity].
  - cbn [rewrite]. apply fold_and_core; [exact IHes | reflexivity].
Qed.

Lemma fold_or_vars v (h : formula -> formula) es acc :
  Forall (fun e => In v (vars (h e)) <-> In v (vars e)) es ->
  (In v (vars (fold_left (fun a e => FBin OOr a (h e)) es acc)) <-> In v (vars acc) \/ In v (flat_map vars es)).
Proof.
  intros HF. revert acc. induction HF as [|e es He HF IH]; intros acc; cbn [fold_left flat_map].
  - cbn. tauto.
  - rewrite IH. cbn [vars]. rewrite !in_app_iff, He. tauto.
Qed.

Lemma fold_and_vars v (h : formula -> formula) es acc :
  Forall (fun e => In v (vars (h e)) <-> In v (vars e)) es ->
  (In v (vars (fold_left (fun a e => FBin OAnd a (h e)) es acc)) <-> In v (vars acc) \/ In v (flat_map vars es)).
Proof.
  intros HF. revert acc. induction HF as [|e es He HF IH]; intros acc; cbn [fold_left flat_map].
  - cbn. tauto.
  - rewrite IH. cbn [vars]. rewrite !in_app_iff, He. tauto.
Qed.

Lemma rewrite_vars v f : In v (vars (rewrite f)) <-> In v (vars f).
Proof.
  induction f as [b|x|a IHa|o a b IHa IHb|rs es IHes|es IHes|es IHes] using formula_ind'.
  - reflexivity.
  - reflexivity.
  - cbn. exact IHa.
  - cbn [rewrite]. destruct o; cbn [fnot vars]; cbn [app]; rewrite !in_app_iff, IHa, IHb; tauto.
  - cbn [rewrite vars]. rewrite !in_flat_map. split.
    + intros [x [Hx Hv]]. apply in_map_iff in Hx. destruct Hx as [e [E He]]. subst.
      exists e. split; [exact He|]. rewrite Forall_forall in IHes. apply IHes; assumption.
    + intros [e [He Hv]]. exists (rewrite e). split; [apply in_map; exact He|].
      rewrite Forall_forall in IHes. apply IHes; assumption.
  - cbn [rewrite vars]. rewrite fold_or_vars by exact IHes. cbn. tauto.
  - cbn [rewrite vars]. rewrite fold_and_vars by exact IHes. cbn. tauto.
Qed.

Lemma index_order_spec f : NoDup (index_order f) /\ forall v, In v (index_order f) <-> In v (vars f).
Proof.
  split; [apply NoDup_dedup|]. intros v. unfold index_order. rewrite In_dedup. apply rewrite_vars.
Qed.

(* ---------- labeling in another variable order enumerates the same set *)
Lemma NoDup_map_inj_in {A B} (h : A -> B) l :
  (forall x y, In x l -> In y l -> h x = h y -> x = y) -> NoDup l -> NoDup (map h l).
Proof.
  intros Hinj H. induction H as [|a l Ha Hnd IH]; cbn; constructor.
  - intros Hin. apply in_map_iff in Hin. destruct Hin as [y [E Hy]].
    assert (y = a) by (apply Hinj; [right; exact Hy | left; reflexivity | exact E]). subst. contradiction.
  - apply IH. intros x y Hx Hy. apply Hinj; right; assumption.
Qed.

Lemma label_seq_spec ord tmpl f :
  NoDup ord -> NoDup tmpl -> incl ord tmpl -> incl tmpl ord -> incl (vars f) tmpl ->
  NoDup (label_seq ord tmpl f) /\ forall cs, In cs (label_seq ord tmpl f) <-> In cs (models tmpl f).
Proof.
  intros Hno Hnt Hot Hto Hv. unfold label_seq. split.
  - apply NoDup_map_inj_in; [|apply models_NoDup].
    intros x y Hx Hy E. apply In_models in Hx. apply In_models in Hy.
    destruct Hx as [Lx _]. destruct Hy as [Ly _].
    rewrite <- (map_env_id ord Hno x Lx), <- (map_env_id ord Hno y Ly).
    apply map_ext_in. intros v Hvin. apply (map_eq_on _ _ tmpl E). apply Hot. exact Hvin.
  - intros cs. rewrite in_map_iff. split.
    + intros [bs [E Hb]]. subst cs. apply In_models in Hb. destruct Hb as [Lb Hb].
      apply In_models. split; [apply map_length|].
      rewrite <- Hb. apply eval_ext. intros v Hvin. apply env_map. apply Hv. exact Hvin.
    + intros Hc. apply In_models in Hc. destruct Hc as [Lc Hc].
      exists (map (env tmpl cs) ord). split.
      * rewrite <- (map_env_id tmpl Hnt cs Lc) at 2. apply map_ext_in. intros v Hvin.
        apply env_map. apply Hto. exact Hvin.
      * apply In_models. split; [apply map_length|].
        rewrite <- Hc. apply eval_ext. intros v Hvin. apply env_map. apply Hto, Hv. exact Hvin.
Qed.

(* ---------- constraints posted before *)
Lemma taut_under_spec g f :
  (taut_under g f = Some false <-> forall rho, eval rho g = true -> eval rho f = false) /\
  (taut_under g f = Some true <-> (exists rho, eval rho g = true /\ eval rho f = true) /\
                                  forall rho, eval rho g = true -> eval rho f = true).
Proof.
  unfold taut_under.
  destruct (sat_dec (FBin OAnd g f)) eqn:Es; cbn [negb].
  - pose proof (proj1 (sat_dec_spec _) Es) as [r0 Hr0]. cbn [eval binop_sem] in Hr0.
    apply andb_true_iff in Hr0. destruct Hr0 as [Hg0 Hf0].
    split.
    + split.
      * destruct (valid_dec (FBin OLe g f)); discriminate.
      * intros H. specialize (H r0 Hg0). congruence.
    + destruct (valid_dec (FBin OLe g f)) eqn:Ev.
      * split; [|reflexivity]. intros _. split; [exists r0; auto|].
        intros rho Hg. pose proof (proj1 (valid_dec_spec _) Ev rho) as H. cbn [eval binop_sem] in H.
        rewrite Hg in H. exact H.
      * split; [discriminate|]. intros [_ H].
        assert (Hv : valid_dec (FBin OLe g f) = true).
        { apply valid_dec_spec. intros rho. cbn [eval binop_sem]. destruct (eval rho g) eqn:Eg; [|reflexivity].
          rewrite (H rho Eg). reflexivity. }
        congruence.
  - pose proof (proj1 (sat_dec_false _) Es) as Hf. cbn [eval binop_sem] in Hf.
    split.
    + split; [|reflexivity]. intros _ rho Hg. specialize (Hf rho). rewrite Hg in Hf. exact Hf.
    + split; [discriminate|]. intros [[rho [Hg Hff]] _]. specialize (Hf rho). rewrite Hg, Hff in Hf. discriminate.
Qed.

Lemma env_app_l vs ws bs cs v : length bs = length vs -> In v vs -> env (vs ++ ws) (bs ++ cs) v = env vs bs v.
Proof.
  revert bs. induction vs as [|x vs IH]; intros bs Hl Hv; [destruct Hv|].
  destruct bs as [|b bs]; [discriminate|]. cbn in Hl. cbn.
  destruct (N.eqb v x) eqn:E; [reflexivity|].
  apply IH; [lia|]. destruct Hv as [Hv|Hv]; [|exact Hv]. subst. rewrite N.eqb_refl in E. discriminate.
Qed.

Lemma env_app_r vs ws bs cs v : length bs = length vs -> ~ In v vs -> env (vs ++ ws) (bs ++ cs) v = env ws cs v.
Proof.
  revert bs. induction vs as [|x vs IH]; intros bs Hl Hv.
  - destruct bs; [reflexivity | discriminate].
  - destruct bs as [|b bs]; [discriminate|]. cbn in Hl. cbn.
    destruct (N.eqb v x) eqn:E.
    + apply N.eqb_eq in E. subst. exfalso. apply Hv. left; reflexivity.
    + apply IH; [lia|]. intros H. apply Hv. right; exact H.
Qed.

Lemma In_other_vars v g f : In v (other_vars g f) <-> In v (vars g) /\ ~ In v (vars f).
Proof.
  unfold other_vars. rewrite filter_In, In_uvars, negb_true_iff. split.
  - intros [Hg H]. split; [exact Hg|]. intros Hf. apply In_uvars in Hf.
    assert (Hx : existsb (N.eqb v) (uvars f) = true).
    { apply existsb_exists. exists v. split; [exact Hf | apply N.eqb_refl]. }
    congruence.
  - intros [Hg Hf]. split; [exact Hg|].
    destruct (existsb (N.eqb v) (uvars f)) eqn:E; [|reflexivity].
    apply existsb_exists in E. destruct E as [w [Hw E]]. apply N.eqb_eq in E. subst.
    apply In_uvars in Hw. contradiction.
Qed.

Lemma models_under_spec g f bs :
  In bs (models_under g f) <->
  length bs = length (uvars f) /\
  exists rho, (forall v, In v (vars f) -> rho v = env (uvars f) bs v) /\ eval rho g = true /\ eval rho f = true.
Proof.
  unfold models_under. rewrite filter_In, In_assignments, existsb_exists. split.
  - intros [Hl [cs [Hc H]]]. split; [exact Hl|].
    exists (env (uvars f ++ other_vars g f) (bs ++ cs)).
    cbn [eval binop_sem] in H. apply andb_true_iff in H. destruct H as [Hg Hf].
    split; [|split; assumption].
    intros v Hv. apply env_app_l; [exact Hl | apply In_uvars; exact Hv].
  - intros [Hl [rho [Hag [Hg Hf]]]]. split; [exact Hl|].
    exists (map rho (other_vars g f)). split; [apply In_assignments, map_length|].
    assert (Hagree : forall v, In v (vars g) \/ In v (vars f) ->
                     env (uvars f ++ other_vars g f) (bs ++ map rho (other_vars g f)) v = rho v).
    { intros v Hv.
      destruct (in_dec N.eq_dec v (uvars f)) as [Hin|Hnin].
      - rewrite env_app_l by assumption. symmetry. apply Hag. apply In_uvars. exact Hin.
      - rewrite env_app_r by assumption. apply env_map. apply In_other_vars.
        rewrite In_uvars in Hnin. tauto. }
    cbn [eval binop_sem]. apply andb_true_iff. split.
    + rewrite <- Hg. apply eval_ext. intros v Hv. apply Hagree. left; exact Hv.
    + rewrite <- Hf. apply eval_ext. intros v Hv. apply Hagree. right; exact Hv.
Qed.

Lemma models_under_NoDup g f : NoDup (models_under g f).
Proof. apply SS_NoDup. unfold models_under. apply SS_filter, assignments_sorted. Qed.

(* ---------- the comparison functions mean what they say *)
Lemma bools_eqb_eq l m : bools_eqb l m = true <-> l = m.
Proof.
  unfold bools_eqb. revert m. induction l as [|x l IH]; intros [|y m]; cbn; try (split; [discriminate | discriminate]).
  - tauto.
  - rewrite andb_true_iff, IH, eqb_true_iff. split; [intros [? ?]; subst; reflexivity | intros E; inversion E; auto].
Qed.

Lemma mem_In x l : mem x l = true <-> In x l.
Proof.
  unfold mem. rewrite existsb_exists. split.
  - intros [y [Hy E]]. apply bools_eqb_eq in E. subst. exact Hy.
  - intros H. exists x. split; [exact H | apply bools_eqb_eq; reflexivity].
Qed.

Lemma nodupb_NoDup l : nodupb l = true <-> NoDup l.
Proof.
  induction l as [|x l IH]; cbn.
  - split; [constructor | reflexivity].
  - rewrite andb_true_iff, negb_true_iff, IH. split.
    + intros [Hm Hn]. constructor; [|exact Hn]. intros Hin. apply mem_In in Hin. congruence.
    + intros H. inversion H as [|? ? Hx Hn]; subst. split; [|exact Hn].
      destruct (mem x l) eqn:E; [|reflexivity]. apply mem_In in E. contradiction.
Qed.

Lemma same_set_spec l m : same_set l m = true <-> NoDup l /\ forall x, In x l <-> In x m.
Proof.
  unfold same_set. rewrite !andb_true_iff, nodupb_NoDup, !forallb_forall. split.
  - intros [Hn [H1 H2]]. split; [exact Hn|]. intros x. split; intros H; apply mem_In; auto.
  - intros [Hn H]. split; [exact Hn|]. split; intros x Hx; apply mem_In, H, Hx.
Qed.

Lemma check_label_set_spec f tmpl o :
  check_label_set f tmpl o = true <->
  NoDup o /\ forall bs, In bs o <-> length bs = length tmpl /\ eval (env tmpl bs) f = true.
Proof.
  unfold check_label_set. rewrite same_set_spec. split; intros [Hn H]; (split; [exact Hn|]); intros bs.
  - rewrite H. apply In_models.
  - rewrite H. symmetry. apply In_models.
Qed.
