(* C30 -- what happens around a failed heap growth: (1) the failing operation itself is atomic (C33.Model.step
   returns HErr with the length unchanged), (2) the error that is then thrown is the term
   error(resource_error(memory), []) stored once, at machine creation, at the bottom of the heap; it must still be
   there whatever was allocated, backtracked over or truncated since.  This file models (2): the heap as a list of
   cells above a reserved prefix, choice points recording heap tops, queries recording the heap top for their stub
   choice point (Machine::run_query), backtracking truncating to the recorded top.  No proofs in this file. *)
From Coq Require Import List NArith Bool Arith.
Import ListNotations.

Inductive cell := Reserved (n : nat) | Data (n : nat).

Record mstate := { heap : list cell; tops : list nat (* recorded heap tops, newest first *) }.

Definition prefix (base : nat) : list cell := map Reserved (seq 0 base).
Definition init (base : nat) : mstate := {| heap := prefix base; tops := [] |}.

Inductive mop :=
| Alloc (k : nat) (ok : bool)     (* allocate k cells; ok = false: the growth fails, nothing is written, the error is thrown *)
| Try                             (* a choice point records the heap top *)
| Query                           (* run_query: the stub choice point records the heap top (0 in the unrepaired code) *)
| Backtrack.                      (* truncate to the newest recorded top and drop it *)

Definition mstep (stub_records_top : bool) (s : mstate) (o : mop) : mstate * bool (* an error was thrown *) :=
  match o with
  | Alloc k true => ({| heap := heap s ++ map Data (seq (length (heap s)) k); tops := tops s |}, false)
  | Alloc _ false => (s, true)
  | Try => ({| heap := heap s; tops := length (heap s) :: tops s |}, false)
  | Query => ({| heap := heap s; tops := (if stub_records_top then length (heap s) else 0) :: tops s |}, false)
  | Backtrack => match tops s with
                 | [] => (s, false)
                 | t :: r => ({| heap := firstn t (heap s); tops := r |}, false)
                 end
  end.

Definition mrun (stub_records_top : bool) (s : mstate) (ops : list mop) : mstate :=
  fold_left (fun s o => fst (mstep stub_records_top s o)) ops s.

(* the term that a failed allocation throws is read from the reserved prefix *)
Definition thrown_term (base : nat) (s : mstate) : list cell := firstn base (heap s).

Fixpoint cells_eqb (a b : list cell) : bool :=
  match a, b with
  | [], [] => true
  | Reserved x :: a', Reserved y :: b' => Nat.eqb x y && cells_eqb a' b'
  | Data x :: a', Data y :: b' => Nat.eqb x y && cells_eqb a' b'
  | _, _ => false
  end.

(* ---------- correspondence with the real heap under injected growth failures (C33's mirror, continuing after errors) *)
From V Require Import C33.Model.
Fixpoint trace_all (ok : nat -> bool) (h : C33.Model.heap) (ops : list hop) : list (N * N * bool) :=
  match ops with
  | [] => []
  | o :: r =>
    match step ok h o with
    | None => []
    | Some (HErr h') => (blen h', bcap h', false) :: trace_all ok h' r
    | Some (HOk h' _ _) => (blen h', bcap h', true) :: trace_all ok h' r
    end
  end.
Definition fail_window (from count : nat) (k : nat) : bool := negb (Nat.leb from k && Nat.ltb k (from + count)).
Definition check_trace_fail (cap_cells : N) (from count : nat) (ops : list hop) (observed : list (N * N * bool)) : bool :=
  obs_eqb (trace_all (fail_window from count) {| blen := 0; bcap := (8 * cap_cells)%N; grows := 0 |} ops) observed.
