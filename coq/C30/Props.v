(* C30 -- pinned property theorems (nothing else lives here) *)
From Coq Require Import List NArith Bool.
From V Require Import C33.Model C33.Proofs C30.Model C30.Proofs.
Import ListNotations.

(* (1) a heap operation that reports an allocation failure has not written anything and has not moved the length,
   for every operation, fill level and allocator behaviour (mirror of heap.rs, proved in C33) *)
Theorem alloc_failure_atomic : forall ok h o h', inv h -> step ok h o = Some (HErr h') -> blen h' = blen h /\ inv h'.
Proof. exact alloc_failure_atomic_proof. Qed.
Print Assumptions alloc_failure_atomic.

(* (2) whatever sequence of allocations (successful or failed), choice points, queries and backtracking happened,
   the pre-allocated error term that a failed allocation throws is still intact at the bottom of the heap *)
Theorem resource_error_term_survives : forall base ops, thrown_term base (mrun true (init base) ops) = prefix base.
Proof. exact resource_error_term_survives_proof. Qed.
Print Assumptions resource_error_term_survives.

Theorem failed_alloc_throws_and_leaves_state : forall b s k,
  fst (mstep b s (Alloc k false)) = s /\ snd (mstep b s (Alloc k false)) = true.
Proof. exact failed_alloc_atomic_proof. Qed.
Print Assumptions failed_alloc_throws_and_leaves_state.

(* non-vacuity: with the unrepaired run_query (the stub choice point records heap top 0) a query that is
   backtracked over destroys the error term, so a later failed allocation throws garbage *)
Example unrepaired_stub_loses_the_term :
  cells_eqb (thrown_term 6 (mrun false (init 6) [Query; Alloc 10 true; Backtrack; Query; Alloc 4 true])) (prefix 6) = false.
Proof. vm_compute. reflexivity. Qed.
Example repaired_stub_keeps_the_term :
  cells_eqb (thrown_term 6 (mrun true (init 6) [Query; Alloc 10 true; Backtrack; Query; Alloc 4 true])) (prefix 6) = true.
Proof. vm_compute. reflexivity. Qed.
