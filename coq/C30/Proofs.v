From Coq Require Import List NArith Bool Arith Lia.
From V Require Import C30.Model.
Import ListNotations.

Definition Inv (base : nat) (s : mstate) : Prop :=
  firstn base (heap s) = prefix base /\ (base <= length (heap s)) /\ Forall (fun t => base <= t) (tops s).

Lemma prefix_length base : length (prefix base) = base.
Proof. unfold prefix. rewrite map_length, seq_length. reflexivity. Qed.

Lemma firstn_firstn_le {A} (l : list A) a b : a <= b -> firstn a (firstn b l) = firstn a l.
Proof. intros H. rewrite firstn_firstn. f_equal. lia. Qed.

Lemma mstep_inv base s o : Inv base s -> Inv base (fst (mstep true s o)).
Proof.
  intros (Hp & Hl & Ht). destruct o as [k [|]| | |]; cbn [mstep fst].
  - unfold Inv; cbn [heap tops]. repeat split; auto.
    + rewrite firstn_app. replace (base - length (heap s)) with 0 by lia. cbn [firstn]. rewrite app_nil_r. exact Hp.
    + rewrite app_length. lia.
  - repeat split; auto.
  - unfold Inv; cbn [heap tops]. repeat split; auto.
  - unfold Inv; cbn [heap tops]. repeat split; auto.
  - destruct (tops s) as [|t r] eqn:E; cbn [fst]; [repeat split; auto; rewrite E; auto|].
    inversion Ht as [|? ? Hb Hr]; subst. unfold Inv; cbn [heap tops]. repeat split; auto.
    + rewrite firstn_firstn_le by auto. exact Hp.
    + rewrite firstn_length. lia.
Qed.

Lemma mrun_inv base ops : forall s, Inv base s -> Inv base (mrun true s ops).
Proof. induction ops as [|o r IH]; intros s H; cbn [mrun fold_left]; auto. apply IH. apply mstep_inv. exact H. Qed.

Lemma init_inv base : Inv base (init base).
Proof.
  unfold Inv, init; cbn [heap tops]. rewrite <- (prefix_length base) at 1. rewrite firstn_all.
  repeat split; auto. rewrite prefix_length. lia.
Qed.

Theorem resource_error_term_survives_proof base ops : thrown_term base (mrun true (init base) ops) = prefix base.
Proof. exact (proj1 (mrun_inv base ops _ (init_inv base))). Qed.

Theorem failed_alloc_atomic_proof b s k : fst (mstep b s (Alloc k false)) = s /\ snd (mstep b s (Alloc k false)) = true.
Proof. split; reflexivity. Qed.
