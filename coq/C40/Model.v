(* C40 -- call_with_inference_limit/3.

   Part 1 (solutions): a goal is abstracted to the sequence of its solutions, each with the number of inferences
   needed to reach it from the previous one, and an ending:
       EndDet        the last solution leaves no choice point
       EndFail c     after the last solution c more inferences lead to failure
       EndThrow c    after the last solution c more inferences lead to an exception
   run cum L sols e = the answers of call_with_inference_limit(G, L, R) in order:
       OSol a RTrue / OSol a RCut   solution a with R = true / R = !
       OExceeded                    R = inference_limit_exceeded   (always the last answer)
       OThrew                       the exception of G propagates
   cum = true : the budget L is shared by all solutions (what iso_ext.pl does: on backtracking into G the counter is
                re-installed with  Diff is L - (Count1 - Count0));
   cum = false: every solution gets a fresh budget L (the wording of the documentation: "limits the number of
                inferences for each solution of Goal").  All theorems hold for both and for any costs.
   A solution that needs c inferences is reached iff c <= budget (the counter fires on the tick at which
   local_count = limit, machine_state.rs increment_call_count).

   Part 2 (counter): a mirror of struct CWIL (machine_state.rs): local count, stack of (absolute threshold, owner);
   add_limit keeps the enclosing threshold when it is not larger than the new one ("only the last limit is in power"
   is implemented as the minimum), remove_limit pops, a tick fires when count = threshold. *)
From Coq Require Import NArith List Bool.
Import ListNotations.
Open Scope N_scope.

(* ------------------------------------------------------------------ part 1 *)
Inductive rv := RTrue | RCut.
Inductive ending := EndDet | EndFail (c : N) | EndThrow (c : N).
Inductive outcome := OSol (a : N) (r : rv) | OExceeded | OThrew.

Definition end_outcomes (budget : N) (e : ending) : list outcome :=
  match e with
  | EndDet => []
  | EndFail c => if budget <? c then [OExceeded] else []
  | EndThrow c => if budget <? c then [OExceeded] else [OThrew]
  end.

Definition last_det (rest : list (N * N)) (e : ending) : bool :=
  match rest, e with [], EndDet => true | _, _ => false end.

Fixpoint run_from (cum : bool) (L budget : N) (sols : list (N * N)) (e : ending) : list outcome :=
  match sols with
  | [] => end_outcomes budget e
  | (a, c) :: rest =>
      if budget <? c then [OExceeded]
      else if last_det rest e then [OSol a RCut]
      else OSol a RTrue :: run_from cum L (if cum then budget - c else L) rest e
  end.

Definition run (cum : bool) (L : N) (sols : list (N * N)) (e : ending) : list outcome := run_from cum L L sols e.

(* call(G) without a limit *)
Fixpoint plain (sols : list (N * N)) (e : ending) : list outcome :=
  match sols with
  | [] => match e with EndThrow _ => [OThrew] | _ => [] end
  | (a, c) :: rest => if last_det rest e then [OSol a RCut] else OSol a RTrue :: plain rest e
  end.

Definition end_cost (e : ending) : N := match e with EndDet => 0 | EndFail c => c | EndThrow c => c end.
Fixpoint total (sols : list (N * N)) (e : ending) : N :=
  match sols with [] => end_cost e | (_, c) :: rest => c + total rest e end.

Definition is_sol (o : outcome) : bool := match o with OSol _ _ => true | _ => false end.

(* ---- comparison with observations *)
Definition rv_eqb (a b : rv) : bool := match a, b with RTrue, RTrue => true | RCut, RCut => true | _, _ => false end.
Definition outcome_eqb (a b : outcome) : bool :=
  match a, b with
  | OSol x r, OSol y s => (x =? y) && rv_eqb r s
  | OExceeded, OExceeded => true
  | OThrew, OThrew => true
  | _, _ => false
  end.
Fixpoint outcomes_eqb (a b : list outcome) : bool :=
  match a, b with
  | [], [] => true
  | x :: a', y :: b' => outcome_eqb x y && outcomes_eqb a' b'
  | _, _ => false
  end.

(* limits lo, lo+1, .., lo+n-1 *)
Fixpoint range (lo : N) (n : nat) : list N := match n with O => [] | S m => lo :: range (lo + 1) m end.

(* the observed table: segments (lo, length, answers) meaning: every limit in [lo, lo+length) gave these answers *)
Definition check_table (cum : bool) (sols : list (N * N)) (e : ending) (segs : list (N * N * list outcome)) : bool :=
  forallb (fun s => match s with (lo, n, obs) =>
             forallb (fun L => outcomes_eqb (run cum L sols e) obs) (range lo (N.to_nat n)) end) segs.

(* ------------------------------------------------------------------ part 2: the counter *)
Inductive ev := Tick | Enter (L : N) | Leave.
Inductive cres := Completed (count : N) | Fired (owner : nat).

(* stack entries: (absolute threshold, owner = depth of the call that installed it) *)
Definition push (count : N) (stk : list (N * nat)) (L : N) : list (N * nat) :=
  let t := L + count in
  match stk with
  | (l, d) :: _ => if l <=? t then (l, d) :: stk else (t, S (length stk)) :: stk
  | [] => [(t, 1%nat)]
  end.

Fixpoint go (count : N) (stk : list (N * nat)) (t : list ev) : cres :=
  match t with
  | [] => Completed count
  | Tick :: r =>
      match stk with
      | [] => go count stk r                                   (* no limit installed: nothing is counted *)
      | (l, d) :: _ => if count =? l then Fired d else go (count + 1) stk r
      end
  | Enter L :: r => go count (push count stk L) r
  | Leave :: r => go count (tl stk) r
  end.

Definition ticks (n : nat) : list ev := repeat Tick n.
