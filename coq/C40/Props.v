(* C40 -- pinned property theorems (nothing else lives here) *)
From Coq Require Import NArith List Bool.
From V Require Import C40.Model C40.Proofs.
Import ListNotations.
Open Scope N_scope.

(* The answers of call_with_inference_limit(G, L, R) are a function of the goal's cost profile and of L
   (the model is a function: stated for the record, it is trivial). *)
Theorem limit_deterministic : forall cum L sols e o1 o2, o1 = run cum L sols e -> o2 = run cum L sols e -> o1 = o2.
Proof. intros. subst. reflexivity. Qed.
Print Assumptions limit_deterministic.

(* every limit yields a prefix of the solutions (with their R values) and then possibly inference_limit_exceeded,
   or exactly the answers of call(G) *)
Theorem answers_are_prefix_then_exceeded : forall cum L sols e,
  run cum L sols e = plain sols e \/
  exists k, run cum L sols e = firstn k (plain sols e) ++ [OExceeded] /\ forallb is_sol (firstn k (plain sols e)) = true.
Proof. intros. unfold run. apply run_from_shape. Qed.
Print Assumptions answers_are_prefix_then_exceeded.

(* if the limit L yields (at least) k solutions, every larger limit yields the same first k answers, R included *)
Theorem limit_monotone : forall cum sols e L L' k,
  L <= L' ->
  forallb is_sol (firstn k (run cum L sols e)) = true -> (k <= length (run cum L sols e))%nat ->
  firstn k (run cum L' sols e) = firstn k (run cum L sols e).
Proof. exact limit_monotone_l. Qed.
Print Assumptions limit_monotone.

(* a limit at least the total number of inferences of G is invisible *)
Theorem unlimited_equals_call : forall cum sols e L, total sols e <= L -> run cum L sols e = plain sols e.
Proof. exact unlimited_l. Qed.
Print Assumptions unlimited_equals_call.

(* R = ! exactly for the last solution when it leaves no choice point, R = true otherwise; the i-th answer is the i-th solution *)
Theorem R_values : forall cum L sols e i a r,
  nth_error (run cum L sols e) i = Some (OSol a r) ->
  exists c, nth_error sols i = Some (a, c) /\ (r = RCut <-> (S i = length sols /\ e = EndDet)).
Proof. exact r_values_l. Qed.
Print Assumptions R_values.

(* shared budget (the implemented behaviour): at least k solutions are obtained iff L covers the first k costs --
   so the least sufficient limits found by the sweep determine the costs *)
Theorem least_sufficient_limit : forall L sols e k, (k <= length sols)%nat ->
  ((k <= nsols (run true L sols e))%nat <-> psum k sols <= L).
Proof. exact threshold_l. Qed.
Print Assumptions least_sufficient_limit.

(* ---- the counter (mirror of struct CWIL): nesting *)
(* a nested call_with_inference_limit whose own limit suffices is invisible to every enclosing counter *)
Theorem nested_does_not_disturb_outer : forall count l d stk Li b rest, count <= l -> N.of_nat b <= Li ->
  go count ((l, d) :: stk) (Enter Li :: ticks b ++ Leave :: rest) = go count ((l, d) :: stk) (ticks b ++ rest).
Proof. exact generous_inner_l. Qed.
Print Assumptions nested_does_not_disturb_outer.

(* an inner limit exhausted before the enclosing one is reported by the inner call only *)
Theorem inner_exceeded_reported_by_inner : forall count l d stk Li b rest, Li + count < l -> Li < N.of_nat b ->
  go count ((l, d) :: stk) (Enter Li :: ticks b ++ rest) = Fired (S (length ((l, d) :: stk))).
Proof. exact inner_exceeded_l. Qed.
Print Assumptions inner_exceeded_reported_by_inner.

(* the enclosing limit keeps counting inside the nested call and fires there when it is exhausted first *)
Theorem outer_limit_fires_inside_nested : forall count l d stk Li b rest, count <= l -> l < count + N.of_nat b -> l <= Li + count ->
  go count ((l, d) :: stk) (Enter Li :: ticks b ++ rest) = Fired d.
Proof. exact outer_exceeded_l. Qed.
Print Assumptions outer_limit_fires_inside_nested.

Theorem single_limit : forall count L n rest,
  go count [] (Enter L :: ticks n ++ rest) =
  if N.of_nat n <=? L then go (count + N.of_nat n) [(L + count, 1%nat)] rest else Fired 1.
Proof. exact toplevel_l. Qed.
Print Assumptions single_limit.

(* what a passing table comparison establishes: the model reproduces the observed answers at every limit of every segment *)
Theorem check_table_sound : forall cum sols e segs, check_table cum sols e segs = true ->
  forall lo n obs, In (lo, n, obs) segs -> forall L, lo <= L < lo + n -> run cum L sols e = obs.
Proof. exact check_table_l. Qed.
Print Assumptions check_table_sound.

(* ---- non-vacuity: member(X,[a,b,c]) observed on the implementation: thresholds 2, 4, 6 *)
Example ex_member : map (fun L => run true L [(0,2);(1,2);(2,2)] EndDet) [0;1;2;3;4;5;6;100] =
  [[OExceeded]; [OExceeded]; [OSol 0 RTrue; OExceeded]; [OSol 0 RTrue; OExceeded];
   [OSol 0 RTrue; OSol 1 RTrue; OExceeded]; [OSol 0 RTrue; OSol 1 RTrue; OExceeded];
   [OSol 0 RTrue; OSol 1 RTrue; OSol 2 RCut]; [OSol 0 RTrue; OSol 1 RTrue; OSol 2 RCut]].
Proof. vm_compute. reflexivity. Qed.
Example ex_per_solution : run false 2 [(0,2);(1,2);(2,2)] EndDet = [OSol 0 RTrue; OSol 1 RTrue; OSol 2 RCut].
Proof. vm_compute. reflexivity. Qed.
Example ex_throw : run true 12 [(1,5);(2,4)] (EndThrow 4) = [OSol 1 RTrue; OSol 2 RTrue; OExceeded] /\
                   run true 13 [(1,5);(2,4)] (EndThrow 4) = [OSol 1 RTrue; OSol 2 RTrue; OThrew].
Proof. vm_compute. split; reflexivity. Qed.
Example ex_nested : go 0 [] (Enter 10 :: ticks 3 ++ Enter 100 :: ticks 4 ++ Leave :: ticks 2 ++ [Leave]) = Completed 9 /\
                    go 0 [] (Enter 10 :: ticks 3 ++ Enter 2 :: ticks 4 ++ Leave :: ticks 2 ++ [Leave]) = Fired 2 /\
                    go 0 [] (Enter 6 :: ticks 3 ++ Enter 100 :: ticks 4 ++ Leave :: ticks 2 ++ [Leave]) = Fired 1.
Proof. vm_compute. repeat split; reflexivity. Qed.
