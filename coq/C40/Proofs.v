(* C40 -- proofs about the inference-limit model *)
From Coq Require Import Arith NArith List Bool Lia.
From V Require Import C40.Model.
Import ListNotations.
Open Scope N_scope.

(* ------------------------------------------------------------------ answers are a prefix of the solutions, then possibly exceeded *)
Lemma run_from_shape : forall cum L sols e b,
  run_from cum L b sols e = plain sols e \/
  exists k, run_from cum L b sols e = firstn k (plain sols e) ++ [OExceeded] /\ forallb is_sol (firstn k (plain sols e)) = true.
Proof.
  intros cum L sols e. induction sols as [|[a c] rest IH]; intro b; cbn [run_from plain].
  - destruct e as [|c|c]; cbn [end_outcomes].
    + left. reflexivity.
    + destruct (b <? c); [right; exists 0%nat; split; reflexivity | left; reflexivity].
    + destruct (b <? c); [right; exists 0%nat; split; reflexivity | left; reflexivity].
  - destruct (b <? c); [right; exists 0%nat; split; reflexivity|].
    destruct (last_det rest e); [left; reflexivity|].
    destruct (IH (if cum then b - c else L)) as [H|[k [H1 H2]]].
    + left. rewrite H. reflexivity.
    + right. exists (S k). cbn [firstn app forallb is_sol]. rewrite H1. split; [reflexivity | exact H2].
Qed.

(* ------------------------------------------------------------------ monotone in the limit *)
Lemma mono_gen : forall cum sols e L L', L <= L' -> forall b b' k,
  b <= b' ->
  forallb is_sol (firstn k (run_from cum L b sols e)) = true -> (k <= length (run_from cum L b sols e))%nat ->
  firstn k (run_from cum L' b' sols e) = firstn k (run_from cum L b sols e).
Proof.
  intros cum sols e L L' HL. induction sols as [|[a c] rest IH]; intros b b' k Hb Hs Hk.
  - destruct k as [|k]; [reflexivity|]. cbn [run_from] in *.
    destruct e as [|c|c]; cbn [end_outcomes] in *.
    + cbn in Hk. lia.
    + destruct (b <? c); cbn in Hs, Hk; [discriminate | lia].
    + destruct (b <? c); cbn in Hs; discriminate.
  - destruct k as [|k]; [reflexivity|]. cbn [run_from] in *.
    destruct (N.ltb_spec b c) as [Hlt|Hge]; [cbn in Hs; discriminate|].
    destruct (N.ltb_spec b' c) as [Hlt'|Hge']; [lia|].
    destruct (last_det rest e); [reflexivity|].
    cbn [firstn forallb is_sol andb length] in *. f_equal.
    apply IH; [destruct cum; lia | exact Hs | lia].
Qed.

Lemma limit_monotone_l : forall cum sols e L L' k,
  L <= L' ->
  forallb is_sol (firstn k (run cum L sols e)) = true -> (k <= length (run cum L sols e))%nat ->
  firstn k (run cum L' sols e) = firstn k (run cum L sols e).
Proof. intros. unfold run in *. apply mono_gen; assumption. Qed.

(* ------------------------------------------------------------------ a limit above the total cost is invisible *)
Lemma unlimited_gen : forall cum sols e L b, total sols e <= b -> total sols e <= L -> run_from cum L b sols e = plain sols e.
Proof.
  intros cum sols e L. induction sols as [|[a c] rest IH]; intros b Hb HL; cbn [run_from plain total] in *.
  - destruct e as [|c|c]; cbn [end_outcomes end_cost] in *; try reflexivity;
      destruct (N.ltb_spec b c); try reflexivity; lia.
  - destruct (N.ltb_spec b c); [lia|]. destruct (last_det rest e); [reflexivity|].
    f_equal. apply IH; [destruct cum; lia | lia].
Qed.

Lemma unlimited_l : forall cum sols e L, total sols e <= L -> run cum L sols e = plain sols e.
Proof. intros. unfold run. apply unlimited_gen; assumption. Qed.

(* ------------------------------------------------------------------ R values *)
Lemma last_det_spec : forall rest e, last_det rest e = true <-> rest = [] /\ e = EndDet.
Proof.
  intros rest e. destruct rest as [|x rest]; destruct e; cbn; split; intro H; try discriminate; try tauto;
    destruct H as [H1 H2]; discriminate.
Qed.

Lemma r_values_gen : forall cum L sols e b i a r,
  nth_error (run_from cum L b sols e) i = Some (OSol a r) ->
  exists c, nth_error sols i = Some (a, c) /\ (r = RCut <-> (S i = length sols /\ e = EndDet)).
Proof.
  intros cum L sols e. induction sols as [|[a0 c0] rest IH]; intros b i a r H; cbn [run_from] in H.
  - destruct e as [|c|c]; cbn [end_outcomes] in H.
    + destruct i; discriminate.
    + destruct (b <? c); destruct i as [|[|i]]; discriminate.
    + destruct (b <? c); destruct i as [|[|i]]; discriminate.
  - destruct (b <? c0); [destruct i as [|[|i]]; discriminate|].
    destruct (last_det rest e) eqn:ELD.
    + apply last_det_spec in ELD. destruct ELD as [-> ->].
      destruct i as [|[|i]]; try discriminate. injection H as <- <-. exists c0. split; [reflexivity|]. cbn. tauto.
    + destruct i as [|i].
      * injection H as <- <-. exists c0. split; [reflexivity|]. split; [discriminate|].
        intros [Hl He]. cbn [length] in Hl. assert (rest = []) by (destruct rest; [reflexivity | cbn in Hl; lia]).
        subst. cbn in ELD. discriminate.
      * cbn [nth_error] in H. destruct (IH _ _ _ _ H) as [c [H1 H2]]. exists c. split; [exact H1|].
        cbn [length]. rewrite H2. split; intros [Hl He]; split; try assumption; lia.
Qed.

Lemma r_values_l : forall cum L sols e i a r,
  nth_error (run cum L sols e) i = Some (OSol a r) ->
  exists c, nth_error sols i = Some (a, c) /\ (r = RCut <-> (S i = length sols /\ e = EndDet)).
Proof. intros cum L sols e i a r. unfold run. apply r_values_gen. Qed.

(* ------------------------------------------------------------------ the least sufficient limits (shared budget) *)
Fixpoint psum (k : nat) (sols : list (N * N)) : N :=
  match k, sols with
  | S k', (_, c) :: rest => c + psum k' rest
  | _, _ => 0
  end.

Definition nsols (l : list outcome) : nat := length (filter is_sol l).

Lemma threshold_gen : forall L sols e b k, (k <= length sols)%nat ->
  ((k <= nsols (run_from true L b sols e))%nat <-> psum k sols <= b).
Proof.
  intros L sols e. induction sols as [|[a c] rest IH]; intros b k Hk.
  - cbn [length] in Hk. assert (k = 0%nat) by lia. subst. cbn [psum]. split; intro; lia.
  - destruct k as [|k]; [cbn [psum]; split; intro; lia|].
    cbn [length] in Hk. cbn [run_from psum].
    destruct (N.ltb_spec b c) as [Hlt|Hge].
    + unfold nsols. cbn. split; intro; lia.
    + destruct (last_det rest e) eqn:ELD.
      * apply last_det_spec in ELD. destruct ELD as [-> ->]. cbn [length] in Hk. assert (k = 0%nat) by lia. subst.
        unfold nsols. cbn. split; intro; lia.
      * unfold nsols in *. cbn [filter is_sol length]. specialize (IH (b - c) k ltac:(lia)). split; intro H.
        -- assert (H' : (k <= length (filter is_sol (run_from true L (b - c) rest e)))%nat) by lia. apply IH in H'. lia.
        -- assert (H' : psum k rest <= b - c) by lia. apply IH in H'. lia.
Qed.

Lemma threshold_l : forall L sols e k, (k <= length sols)%nat ->
  ((k <= nsols (run true L sols e))%nat <-> psum k sols <= L).
Proof. intros. unfold run. apply threshold_gen. assumption. Qed.

(* ------------------------------------------------------------------ the counter *)
Lemma go_ticks : forall n count l d stk rest, count <= l ->
  go count ((l, d) :: stk) (ticks n ++ rest) =
  if count + N.of_nat n <=? l then go (count + N.of_nat n) ((l, d) :: stk) rest else Fired d.
Proof.
  induction n as [|n IH]; intros count l d stk rest Hle.
  - cbn [ticks repeat app]. replace (count + N.of_nat 0) with count by lia.
    destruct (N.leb_spec count l); [reflexivity | lia].
  - cbn [ticks repeat app go]. fold (ticks n). destruct (N.eqb_spec count l) as [E|NE].
    + subst. destruct (N.leb_spec (l + N.of_nat (S n)) l); [lia | reflexivity].
    + rewrite IH by lia. replace (count + 1 + N.of_nat n) with (count + N.of_nat (S n)) by lia. reflexivity.
Qed.

(* a nested call whose own limit is not exhausted is invisible to every enclosing counter: the enclosing count
   advances by exactly the inferences made inside, and the enclosing limit still fires at the same inference *)
Lemma generous_inner_l : forall count l d stk Li b rest, count <= l -> N.of_nat b <= Li ->
  go count ((l, d) :: stk) (Enter Li :: ticks b ++ Leave :: rest) = go count ((l, d) :: stk) (ticks b ++ rest).
Proof.
  intros count l d stk Li b rest Hle Hb. cbn [go push]. destruct (N.leb_spec l (Li + count)) as [H|H].
  - rewrite !go_ticks by assumption. destruct (count + N.of_nat b <=? l); reflexivity.
  - rewrite !go_ticks by lia.
    destruct (N.leb_spec (count + N.of_nat b) (Li + count)); [|lia].
    destruct (N.leb_spec (count + N.of_nat b) l); [|lia]. reflexivity.
Qed.

(* an inner limit that is exhausted while the enclosing one is not is reported by the inner call *)
Lemma inner_exceeded_l : forall count l d stk Li b rest, Li + count < l -> Li < N.of_nat b ->
  go count ((l, d) :: stk) (Enter Li :: ticks b ++ rest) = Fired (S (length ((l, d) :: stk))).
Proof.
  intros count l d stk Li b rest H1 H2. cbn [go push]. destruct (N.leb_spec l (Li + count)); [lia|].
  rewrite go_ticks by lia. destruct (N.leb_spec (count + N.of_nat b) (Li + count)); [lia | reflexivity].
Qed.

(* an enclosing limit that is exhausted first (or at the same inference) is reported by the enclosing call *)
Lemma outer_exceeded_l : forall count l d stk Li b rest, count <= l -> l < count + N.of_nat b -> l <= Li + count ->
  go count ((l, d) :: stk) (Enter Li :: ticks b ++ rest) = Fired d.
Proof.
  intros count l d stk Li b rest H0 H1 H2. cbn [go push]. destruct (N.leb_spec l (Li + count)); [|lia].
  rewrite go_ticks by lia. destruct (N.leb_spec (count + N.of_nat b) l); [lia | reflexivity].
Qed.

Lemma toplevel_l : forall count L n rest,
  go count [] (Enter L :: ticks n ++ rest) =
  if N.of_nat n <=? L then go (count + N.of_nat n) [(L + count, 1%nat)] rest else Fired 1.
Proof.
  intros count L n rest. cbn [go push]. rewrite go_ticks by lia.
  destruct (N.leb_spec (count + N.of_nat n) (L + count)); destruct (N.leb_spec (N.of_nat n) L); try lia; reflexivity.
Qed.

(* ------------------------------------------------------------------ comparison functions *)
Lemma outcomes_eqb_spec : forall a b, outcomes_eqb a b = true <-> a = b.
Proof.
  induction a as [|x a IH]; destruct b as [|y b]; cbn [outcomes_eqb]; split; intro H; try reflexivity; try discriminate.
  - apply andb_true_iff in H. destruct H as [H1 H2]. apply IH in H2. subst. f_equal.
    destruct x as [p r| |], y as [q s| |]; cbn [outcome_eqb] in H1; try discriminate; try reflexivity.
    apply andb_true_iff in H1. destruct H1 as [H1 H3]. apply N.eqb_eq in H1. subst.
    destruct r, s; cbn in H3; try discriminate; reflexivity.
  - injection H as -> ->. apply andb_true_iff. split; [|apply IH; reflexivity].
    destruct y as [q s| |]; cbn [outcome_eqb]; try reflexivity. rewrite N.eqb_refl. destruct s; reflexivity.
Qed.

Lemma in_range : forall n lo L, In L (range lo n) <-> lo <= L < lo + N.of_nat n.
Proof.
  induction n as [|n IH]; intros lo L; cbn [range In].
  - split; [tauto | lia].
  - rewrite IH. split; [intros [<-|H]; lia | intro H; destruct (N.eq_dec lo L); [left; assumption | right; lia]].
Qed.

Lemma check_table_l : forall cum sols e segs, check_table cum sols e segs = true ->
  forall lo n obs, In (lo, n, obs) segs -> forall L, lo <= L < lo + n -> run cum L sols e = obs.
Proof.
  intros cum sols e segs H lo n obs HIn L HL. unfold check_table in H. rewrite forallb_forall in H.
  specialize (H _ HIn). cbn in H. rewrite forallb_forall in H. apply outcomes_eqb_spec. apply H.
  apply in_range. rewrite N2Nat.id. exact HL.
Qed.
