From Coq Require Import ZArith NArith List Bool Lia.
From V Require Import Base.Term Engine.Sld Engine.SldProofs C08.Model.
Import ListNotations.

Lemma clauses_of_app : forall p1 p2 f n, clauses_of (p1 ++ p2) f n = clauses_of p1 f n ++ clauses_of p2 f n.
Proof. intros. unfold clauses_of. apply filter_app. Qed.

(* filtering an interleaving interleaves the filtered lists *)
Lemma interleave_filter : forall (A : Type) (P : A -> bool) l1 l2 l,
  Interleave l1 l2 l -> Interleave (filter P l1) (filter P l2) (filter P l).
Proof.
  intros A P l1 l2 l H. induction H as [| x l1 l2 l H IH | x l1 l2 l H IH]; cbn [filter].
  - constructor.
  - destruct (P x); [constructor |]; exact IH.
  - destruct (P x); [constructor |]; exact IH.
Qed.

Lemma interleave_nil_r : forall (A : Type) (l1 l : list A), Interleave l1 [] l -> l = l1.
Proof.
  intros A l1 l H. remember [] as l2 eqn:E. induction H as [| x l1 l2 l H IH | x l1 l2 l H IH].
  - reflexivity.
  - rewrite IH by exact E. reflexivity.
  - discriminate.
Qed.

Lemma interleave_nil_l : forall (A : Type) (l2 l : list A), Interleave [] l2 l -> l = l2.
Proof.
  intros A l2 l H. remember [] as l1 eqn:E. induction H as [| x l1 l2 l H IH | x l1 l2 l H IH].
  - reflexivity.
  - discriminate.
  - rewrite IH by exact E. reflexivity.
Qed.

(* the clause sequence of a predicate is not changed by interleaving the text with clauses of other predicates *)
Lemma interleave_other_preds : forall p1 p2 p f n,
  Interleave p1 p2 p -> clauses_of p2 f n = [] -> clauses_of p f n = clauses_of p1 f n.
Proof.
  intros p1 p2 p f n H H2. unfold clauses_of in *.
  pose proof (interleave_filter clause (has_key f n) p1 p2 p H) as Hi.
  rewrite H2 in Hi. apply interleave_nil_r. exact Hi.
Qed.

(* ... and, for every interleaving, it is an interleaving of the two parts' sequences (each part's order is kept) *)
Lemma interleave_clauses_of : forall p1 p2 p f n,
  Interleave p1 p2 p -> Interleave (clauses_of p1 f n) (clauses_of p2 f n) (clauses_of p f n).
Proof. intros. unfold clauses_of. apply interleave_filter. assumption. Qed.

Lemma fold_assertz : forall cs db, fold_left assertz cs db = db ++ cs.
Proof.
  induction cs as [| c r IH]; intros db; cbn [fold_left].
  - rewrite app_nil_r. reflexivity.
  - rewrite IH. unfold assertz. rewrite <- app_assoc. reflexivity.
Qed.

Lemma assertz_all_id : forall cs, assertz_all cs = cs.
Proof. intros. unfold assertz_all. rewrite fold_assertz. reflexivity. Qed.

(* the three loading modes give the same completed runs *)
Lemma same_clauses_same_answers : forall p p' q tmpl n a b l,
  (forall f k, clauses_of p f k = clauses_of p' f k) ->
  solve n p q tmpl = Done a b l -> solve n p' q tmpl = Done a b l.
Proof. exact solve_depends_on_clauses_of. Qed.

(* call/N: the goal with its last arguments split off is the goal *)
Lemma add_args_split : forall f pre post, pre <> [] \/ post <> [] ->
  add_args (match pre with [] => Atom f | _ => Cmp f pre end) post = inl (Cmp f (pre ++ post)).
Proof.
  intros f pre post H. destruct pre as [| x r].
  - cbn. destruct post as [| y r']; [destruct H as [H | H]; congruence | reflexivity].
  - reflexivity.
Qed.

Lemma apply_nil : forall t, apply [] t = t.
Proof.
  induction t using term_ind'; cbn; try reflexivity.
  f_equal. induction H as [| x l Hx Hl IH]; cbn; [reflexivity |]. rewrite Hx, IH. reflexivity.
Qed.

Lemma map_apply_app : forall s a b, map (apply s) (a ++ b) = map (apply s) a ++ map (apply s) b.
Proof. intros. apply map_app. Qed.

(* call(p(a1..ai), a(i+1)..an) runs exactly as call(p(a1..an)) when the split-off arguments are already
   instantiated by the current substitution (e.g. they are fresh variables or ground) *)
Lemma call_split : forall ex f pre post s k, pre <> [] ->
  map (apply (sub s)) post = post ->
  do_call ex (Cmp f pre) post s k = do_call ex (Cmp f (pre ++ post)) [] s k.
Proof.
  intros ex f pre post s k Hne Hp. unfold do_call. cbn [apply add_args].
  rewrite app_nil_r. rewrite map_app. rewrite Hp. reflexivity.
Qed.
