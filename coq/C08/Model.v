(* C08 -- loading modes as operations on clause lists, over the reference interpreter Engine/Sld.v.
   consult (contiguous)      : the program text in order
   discontiguous pieces      : any interleaving of the predicates' clause sequences (each predicate's own order kept)
   dynamic + assertz         : the database obtained by assertz-ing the clauses in textual order
   call/N with split args    : add_args of the first arguments and the rest *)
From Coq Require Import ZArith NArith List Bool.
From V Require Export Base.Term Engine.Sld.
Import ListNotations.

(* p is an interleaving of p1 and p2 (relative orders kept) *)
Inductive Interleave {A : Type} : list A -> list A -> list A -> Prop :=
| IL_nil : Interleave [] [] []
| IL_left : forall x l1 l2 l, Interleave l1 l2 l -> Interleave (x :: l1) l2 (x :: l)
| IL_right : forall x l1 l2 l, Interleave l1 l2 l -> Interleave l1 (x :: l2) (x :: l).

(* assertz adds at the end of the database *)
Definition assertz (db : program) (c : clause) : program := db ++ [c].
Definition assertz_all (cs : list clause) : program := fold_left assertz cs [].

(* stable regrouping of a program by predicate (what a contiguous text of the same clauses looks like) *)
Definition clause_key (c : clause) : option (list N * nat) := head_key (fst c).
Definition key_eqb (a b : option (list N * nat)) : bool :=
  match a, b with
  | Some (f, n), Some (g, m) => name_eqb f g && Nat.eqb n m
  | None, None => true
  | _, _ => false
  end.
Fixpoint nodup_keys (seen : list (option (list N * nat))) (p : program) : list (option (list N * nat)) :=
  match p with
  | [] => []
  | c :: r => if existsb (key_eqb (clause_key c)) seen then nodup_keys seen r
              else clause_key c :: nodup_keys (clause_key c :: seen) r
  end.
Definition regroup (p : program) : program :=
  flat_map (fun k => filter (fun c => key_eqb (clause_key c) k) p) (nodup_keys [] p).
