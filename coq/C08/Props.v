(* C08 -- pinned property theorems (nothing else lives here) *)
From Coq Require Import ZArith NArith List Bool String.
From V Require Import Base.Term Engine.Sld Engine.SldProofs C08.Model C08.Proofs C07.Model.
Import ListNotations.

(* The interpreter consults the program only through the per-predicate clause sequences: two clause stores with the
   same sequence for every predicate give the same answers, exception and log for every query. *)
Theorem load_mode_irrelevant : forall p p' q tmpl n a b l,
  (forall f k, clauses_of p f k = clauses_of p' f k) ->
  solve n p q tmpl = Done a b l -> solve n p' q tmpl = Done a b l.
Proof. exact same_clauses_same_answers. Qed.
Print Assumptions load_mode_irrelevant.

(* discontiguous text: interleaving the clauses of a predicate with clauses of other predicates does not change its sequence *)
Theorem discontiguous_pieces_same_sequence : forall p1 p2 p f n,
  Interleave p1 p2 p -> clauses_of p2 f n = [] -> clauses_of p f n = clauses_of p1 f n.
Proof. exact interleave_other_preds. Qed.
Print Assumptions discontiguous_pieces_same_sequence.

Theorem interleaving_keeps_each_order : forall p1 p2 p f n,
  Interleave p1 p2 p -> Interleave (clauses_of p1 f n) (clauses_of p2 f n) (clauses_of p f n).
Proof. exact interleave_clauses_of. Qed.
Print Assumptions interleaving_keeps_each_order.

Theorem consult_pieces_concatenate : forall p1 p2 f n,
  clauses_of (p1 ++ p2) f n = clauses_of p1 f n ++ clauses_of p2 f n.
Proof. exact clauses_of_app. Qed.
Print Assumptions consult_pieces_concatenate.

(* dynamic + assertz in textual order builds the consulted clause list *)
Theorem assertz_in_order_is_consult : forall cs, assertz_all cs = cs.
Proof. exact assertz_all_id. Qed.
Print Assumptions assertz_in_order_is_consult.

(* a goal passed to call/N with its last arguments split off is the same call *)
Theorem call_n_split_law : forall ex f pre post s k, pre <> [] ->
  map (apply (sub s)) post = post ->
  do_call ex (Cmp f pre) post s k = do_call ex (Cmp f (pre ++ post)) [] s k.
Proof. exact call_split. Qed.
Print Assumptions call_n_split_law.

Theorem call_n_builds_goal : forall f pre post, pre <> [] \/ post <> [] ->
  add_args (match pre with [] => Atom f | _ => Cmp f pre end) post = inl (Cmp f (pre ++ post)).
Proof. exact add_args_split. Qed.
Print Assumptions call_n_builds_goal.

(* ... and call/N is opaque to cut (the documented exception) *)
Theorem call_n_opaque_to_cut : forall ex g extra s k id,
  snd (do_call ex g extra s k) = SCut id -> id <> ctr s.
Proof. exact call_opaque_law. Qed.
Print Assumptions call_n_opaque_to_cut.

(* non-vacuity *)
Local Open Scope string_scope.
Example ex_interleave : Interleave [1; 2] [7] [1; 7; 2].
Proof. repeat constructor. Qed.
Example ex_modes :
  solve 20 ex_facts (cm "p" [Var 0]) (Var 0) = Done [Int 1; Int 2; Int 3] None [] /\
  solve 20 (assertz_all ex_facts) (cm "p" [Var 0]) (Var 0) = Done [Int 1; Int 2; Int 3] None [].
Proof. vm_compute. auto. Qed.
