(* C45 -- lemmas about the model of variables/1, variable_names/1, singletons/1 *)
From Coq Require Import List NArith ZArith Bool Lia.
Import ListNotations.
From V Require Import C45.Model.
Open Scope N_scope.

Lemma name_eqb_eq : forall a b, name_eqb a b = true <-> a = b.
Proof.
  induction a as [|x a IH]; destruct b as [|y b]; cbn [name_eqb]; split; intros H; try reflexivity; try discriminate.
  - apply andb_true_iff in H as [H1 H2]. apply N.eqb_eq in H1. apply IH in H2. subst. reflexivity.
  - injection H as -> ->. rewrite N.eqb_refl. cbn [andb]. apply IH. reflexivity.
Qed.

Lemma name_eqb_refl : forall a, name_eqb a a = true.
Proof. intros; apply name_eqb_eq; reflexivity. Qed.

Lemma name_eqb_neq : forall a b, name_eqb a b = false <-> a <> b.
Proof.
  intros a b. split.
  - intros H E. apply name_eqb_eq in E. congruence.
  - intros H. destruct (name_eqb a b) eqn:E; [apply name_eqb_eq in E; contradiction | reflexivity].
Qed.

Lemma mem_In : forall n l, mem n l = true <-> In n l.
Proof.
  intros n l. unfold mem. rewrite existsb_exists. split.
  - intros (x & Hx & E). apply name_eqb_eq in E. subst. exact Hx.
  - intros H. exists n. split; [exact H | apply name_eqb_refl].
Qed.

Lemma mem_not_In : forall n l, mem n l = false <-> ~ In n l.
Proof.
  intros n l. split.
  - intros H I. apply mem_In in I. congruence.
  - intros H. destruct (mem n l) eqn:E; [apply mem_In in E; contradiction | reflexivity].
Qed.

(* ================================================================ variables *)
Lemma var_keys_named : forall ts seen pos n, In (KNamed n) (var_keys seen pos ts) ->
  ~ In n seen /\ In n ts /\ named n = true.
Proof.
  induction ts as [|t r IH]; intros seen pos n H; cbn [var_keys] in H; [contradiction|].
  destruct (is_anon t) eqn:A.
  - destruct H as [H|H]; [discriminate|]. destruct (IH _ _ _ H) as (H1 & H2 & H3). repeat split; auto. right; exact H2.
  - destruct (mem t seen) eqn:M.
    + destruct (IH _ _ _ H) as (H1 & H2 & H3). repeat split; auto. right; exact H2.
    + destruct H as [H|H].
      * injection H as <-. repeat split; [apply mem_not_In; exact M | left; reflexivity | unfold named; rewrite A; reflexivity].
      * destruct (IH _ _ _ H) as (H1 & H2 & H3). repeat split; auto.
        -- intros I. apply H1. right. exact I.
        -- right; exact H2.
Qed.

Lemma var_keys_anon : forall ts seen pos p, In (KAnon p) (var_keys seen pos ts) -> pos <= p.
Proof.
  induction ts as [|t r IH]; intros seen pos p H; cbn [var_keys] in H; [contradiction|].
  destruct (is_anon t).
  - destruct H as [H|H]; [injection H as <-; lia | apply IH in H; lia].
  - destruct (mem t seen); [apply IH in H; lia|].
    destruct H as [H|H]; [discriminate | apply IH in H; lia].
Qed.

Lemma var_keys_nodup : forall ts seen pos, NoDup (var_keys seen pos ts).
Proof.
  induction ts as [|t r IH]; intros seen pos; cbn [var_keys]; [constructor|].
  destruct (is_anon t).
  - constructor; [|apply IH]. intros H. apply var_keys_anon in H. lia.
  - destruct (mem t seen); [apply IH|].
    constructor; [|apply IH]. intros H. apply var_keys_named in H as (H & _). apply H. left. reflexivity.
Qed.

(* every token occurrence denotes a variable of the list (or a named variable seen before the segment) *)
Lemma var_keys_complete : forall ts seen pos i t, nth_error ts i = Some t ->
  In (key_of t (pos + N.of_nat i)) (var_keys seen pos ts) \/ (named t = true /\ In t seen).
Proof.
  induction ts as [|u r IH]; intros seen pos i t H; [destruct i; discriminate|].
  cbn [var_keys]. destruct i as [|i].
  - cbn [nth_error] in H. injection H as ->. change (N.of_nat 0) with 0. rewrite N.add_0_r. unfold key_of.
    destruct (is_anon t) eqn:A; [left; left; reflexivity|].
    destruct (mem t seen) eqn:M.
    + right. split; [unfold named; rewrite A; reflexivity | apply mem_In; exact M].
    + left. left. reflexivity.
  - cbn [nth_error] in H.
    replace (pos + N.of_nat (S i)) with ((pos + 1) + N.of_nat i) by lia.
    destruct (is_anon u) eqn:A.
    + destruct (IH seen (pos + 1) i t H) as [I|I]; [left; right; exact I | right; exact I].
    + destruct (mem u seen) eqn:M.
      * destruct (IH seen (pos + 1) i t H) as [I|I]; [left; exact I | right; exact I].
      * destruct (IH (u :: seen) (pos + 1) i t H) as [I|[I1 I2]]; [left; right; exact I|].
        destruct I2 as [<-|I2]; [|right; split; assumption].
        left. left. unfold key_of. unfold named in I1. destruct (is_anon u); [discriminate | reflexivity].
Qed.

(* the names seen after a segment *)
Fixpoint seen_after (seen : list vname) (ts : list vname) : list vname :=
  match ts with
  | [] => seen
  | t :: r => if is_anon t || mem t seen then seen_after seen r else seen_after (t :: seen) r
  end.

Lemma var_keys_app : forall a b seen pos,
  var_keys seen pos (a ++ b) = var_keys seen pos a ++ var_keys (seen_after seen a) (pos + N.of_nat (length a)) b.
Proof.
  induction a as [|t r IH]; intros b seen pos.
  - cbn [app var_keys seen_after length]. change (N.of_nat 0) with 0. rewrite N.add_0_r. reflexivity.
  - cbn [app var_keys seen_after length].
    replace (pos + N.of_nat (S (length r))) with ((pos + 1) + N.of_nat (length r)) by lia.
    destruct (is_anon t); cbn [orb].
    + rewrite IH. reflexivity.
    + destruct (mem t seen); rewrite IH; reflexivity.
Qed.

Lemma variables_spec : forall ts,
  NoDup (variables ts) /\
  (forall i t, nth_error ts i = Some t -> In (key_of t (N.of_nat i)) (variables ts)) /\
  (forall ts2, exists ext, variables (ts ++ ts2) = variables ts ++ ext).
Proof.
  intros ts. unfold variables. split; [apply var_keys_nodup|]. split.
  - intros i t H. destruct (var_keys_complete ts [] 0 i t H) as [I|[_ []]]. rewrite N.add_0_l in I. exact I.
  - intros ts2. rewrite var_keys_app. eexists. reflexivity.
Qed.

(* two occurrences denote the same variable iff they are the same named token (or the same occurrence) *)
Lemma key_of_same : forall t1 p1 t2 p2, key_of t1 p1 = key_of t2 p2 <->
  (is_anon t1 = true /\ is_anon t2 = true /\ p1 = p2) \/ (named t1 = true /\ named t2 = true /\ t1 = t2).
Proof.
  intros t1 p1 t2 p2. unfold key_of, named. destruct (is_anon t1) eqn:A1, (is_anon t2) eqn:A2; cbn [negb]; split; intros H.
  - injection H as ->. left. auto.
  - destruct H as [(_ & _ & ->)|(H & _)]; [reflexivity | discriminate].
  - discriminate.
  - destruct H as [(_ & H & _)|(H & _)]; discriminate.
  - discriminate.
  - destruct H as [(H & _)|(_ & H & _)]; discriminate.
  - injection H as ->. right. auto.
  - destruct H as [(H & _)|(_ & _ & ->)]; [discriminate | reflexivity].
Qed.

(* ================================================================ variable_names *)
Definition named_of (l : list vkey) : list vname :=
  flat_map (fun k => match k with KNamed n => [n] | KAnon _ => [] end) l.

Lemma first_names_named_of : forall ts seen pos, first_names seen ts = named_of (var_keys seen pos ts).
Proof.
  induction ts as [|t r IH]; intros seen pos; cbn [first_names var_keys]; [reflexivity|].
  destruct (is_anon t); cbn [orb].
  - unfold named_of. cbn [flat_map app]. apply IH.
  - destruct (mem t seen); [apply IH|]. unfold named_of. cbn [flat_map app]. f_equal. apply IH.
Qed.

Lemma named_of_In : forall l n, In n (named_of l) <-> In (KNamed n) l.
Proof.
  induction l as [|k l IH]; intros n; cbn [named_of flat_map]; [tauto|].
  rewrite in_app_iff. fold (named_of l). rewrite IH. destruct k as [m|p]; cbn [In]; split; intros H.
  - destruct H as [[->|[]]|H]; [left; reflexivity | right; exact H].
  - destruct H as [H|H]; [injection H as ->; left; left; reflexivity | right; exact H].
  - destruct H as [[]|H]. right; exact H.
  - destruct H as [H|H]; [discriminate | right; exact H].
Qed.

Lemma named_of_nodup : forall l, NoDup l -> NoDup (named_of l).
Proof.
  induction l as [|k l IH]; intros H; [constructor|]. inversion H as [|? ? Hn Hd]; subst.
  unfold named_of. cbn [flat_map]. fold (named_of l). destruct k as [m|p]; cbn [app]; [|apply IH; exact Hd].
  constructor; [|apply IH; exact Hd]. intros I. apply named_of_In in I. contradiction.
Qed.

Lemma var_names_spec : forall ts,
  var_names ts = named_of (variables ts) /\
  NoDup (var_names ts) /\
  (forall n, In n (var_names ts) <-> named n = true /\ In n ts).
Proof.
  intros ts. unfold var_names, variables.
  pose proof (first_names_named_of ts [] 0) as E. split; [exact E|]. split.
  - rewrite E. apply named_of_nodup. apply var_keys_nodup.
  - intros n. rewrite E, named_of_In. split.
    + intros H. apply var_keys_named in H as (_ & H1 & H2). split; assumption.
    + intros [H1 H2]. apply In_nth_error in H2 as (i & H2).
      destruct (var_keys_complete ts [] 0 i n H2) as [I|[_ []]].
      unfold key_of in I. unfold named in H1. destruct (is_anon n); [discriminate | exact I].
Qed.

(* ================================================================ singletons *)
Lemma count_In : forall n ts, count n ts <> O <-> In n ts.
Proof.
  intros n ts; induction ts as [|t r IH]; cbn [count In]; [split; [intros H; contradiction | intros []]|].
  destruct (name_eqb n t) eqn:E.
  - apply name_eqb_eq in E. subst. split; [intros _; left; reflexivity | intros _; discriminate].
  - apply name_eqb_neq in E. rewrite IH. split; [intros H; right; exact H | intros [H|H]; [congruence | exact H]].
Qed.

Lemma singletons_In : forall ts n, In n (singletons ts) <-> named n = true /\ count n ts = 1%nat.
Proof.
  intros ts n. unfold singletons. rewrite filter_In. destruct (var_names_spec ts) as (_ & _ & V). rewrite V. split.
  - intros [[H1 _] H2]. apply Nat.eqb_eq in H2. split; assumption.
  - intros [H1 H2]. split; [split; [exact H1 | apply count_In; lia] | apply Nat.eqb_eq; exact H2].
Qed.

(* ================================================================ consistency *)
Lemma var_keys_length : forall ts seen pos,
  length (var_keys seen pos ts) = (length (first_names seen ts) + length (filter is_anon ts))%nat.
Proof.
  induction ts as [|t r IH]; intros seen pos; cbn [var_keys first_names filter length]; [reflexivity|].
  destruct (is_anon t); cbn [orb length].
  - rewrite IH. lia.
  - destruct (mem t seen); cbn [length]; rewrite IH; lia.
Qed.

Lemma filter_len_le : forall (A : Type) (f : A -> bool) l, (length (filter f l) <= length l)%nat.
Proof. induction l as [|x l IH]; cbn [filter length]; [lia|]. destruct (f x); cbn [length]; lia. Qed.

Lemma consistent : forall ts,
  incl (singletons ts) (var_names ts) /\
  (forall n, In n (var_names ts) -> In (KNamed n) (variables ts)) /\
  length (variables ts) = (length (var_names ts) + length (filter is_anon ts))%nat /\
  (length (singletons ts) <= length (var_names ts))%nat /\
  NoDup (singletons ts).
Proof.
  intros ts. destruct (var_names_spec ts) as (E & ND & _). repeat split.
  - intros n H. unfold singletons in H. apply filter_In in H as [H _]. exact H.
  - intros n H. rewrite E in H. apply named_of_In. exact H.
  - apply var_keys_length.
  - unfold singletons. apply filter_len_le.
  - unfold singletons. apply NoDup_filter. exact ND.
Qed.

(* the numbering used for the observables: a variable's number is its position in variables/1 *)
Lemma index_of_found : forall l k i, In k l -> exists j, (j < length l)%nat /\ index_of k l i = i + N.of_nat j /\ nth_error l j = Some k.
Proof.
  induction l as [|x l IH]; intros k i H; [contradiction|]. cbn [index_of].
  destruct (key_eqb k x) eqn:E.
  - exists O. cbn [length nth_error]. repeat split; try lia.
    f_equal. destruct k, x; cbn [key_eqb] in E; try discriminate;
      [apply name_eqb_eq in E | apply N.eqb_eq in E]; subst; reflexivity.
  - destruct H as [->|H].
    + exfalso. destruct k; cbn [key_eqb] in E; [rewrite name_eqb_refl in E | rewrite N.eqb_refl in E]; discriminate.
    + destruct (IH k (i + 1) H) as (j & J1 & J2 & J3). exists (S j). cbn [length nth_error]. repeat split; try lia; assumption.
Qed.
