(* C45 -- reference model of read_term/2's options variables/1, variable_names/1, singletons/1.
   A clause text is abstracted as the sequence of its variable tokens in left-to-right order (each token is its
   name, a list of code points; the token "_" is the anonymous variable).  No proofs in this file. *)
From Coq Require Import List NArith ZArith Bool Uint63.
Import ListNotations.
Open Scope N_scope.

Definition vname := list N.

Fixpoint name_eqb (a b : vname) : bool :=
  match a, b with
  | [], [] => true
  | x :: a', y :: b' => (x =? y) && name_eqb a' b'
  | _, _ => false
  end.

(* the anonymous variable is the token consisting of exactly one underscore; _A, _1, __ are named *)
Definition is_anon (n : vname) : bool := name_eqb n [95].
Definition named (n : vname) : bool := negb (is_anon n).
Definition mem (n : vname) (l : list vname) : bool := existsb (name_eqb n) l.

(* a variable of the clause: a named variable, or the anonymous variable at token position pos *)
Inductive vkey := KNamed (n : vname) | KAnon (pos : N).

Definition key_of (t : vname) (pos : N) : vkey := if is_anon t then KAnon pos else KNamed t.

Definition key_eqb (a b : vkey) : bool :=
  match a, b with
  | KNamed x, KNamed y => name_eqb x y
  | KAnon p, KAnon q => p =? q
  | _, _ => false
  end.

(* variables/1: the distinct variables in order of first occurrence; every _ is a variable of its own *)
Fixpoint var_keys (seen : list vname) (pos : N) (ts : list vname) : list vkey :=
  match ts with
  | [] => []
  | t :: r =>
    if is_anon t then KAnon pos :: var_keys seen (pos + 1) r
    else if mem t seen then var_keys seen (pos + 1) r
    else KNamed t :: var_keys (t :: seen) (pos + 1) r
  end.
Definition variables (ts : list vname) : list vkey := var_keys [] 0 ts.

(* variable_names/1: the named variables in order of first occurrence *)
Fixpoint first_names (seen : list vname) (ts : list vname) : list vname :=
  match ts with
  | [] => []
  | t :: r =>
    if is_anon t || mem t seen then first_names seen r
    else t :: first_names (t :: seen) r
  end.
Definition var_names (ts : list vname) : list vname := first_names [] ts.

Fixpoint count (n : vname) (ts : list vname) : nat :=
  match ts with
  | [] => O
  | t :: r => if name_eqb n t then S (count n r) else count n r
  end.

(* singletons/1: the named variables that occur exactly once *)
Definition singletons (ts : list vname) : list vname :=
  filter (fun n => Nat.eqb (count n ts) 1) (var_names ts).

(* ---------------------------------------------------------------- observables: variables numbered by position *)
Fixpoint index_of (k : vkey) (l : list vkey) (i : N) : N :=
  match l with
  | [] => i                      (* not found: one past the end *)
  | x :: r => if key_eqb k x then i else index_of k r (i + 1)
  end.

Fixpoint occ_keys (pos : N) (ts : list vname) : list vkey :=
  match ts with
  | [] => []
  | t :: r => key_of t pos :: occ_keys (pos + 1) r
  end.

(* for every variable occurrence of the term (depth first, left to right) the number of its variable *)
Definition occurrences (ts : list vname) : list N :=
  map (fun k => index_of k (variables ts) 0) (occ_keys 0 ts).

Fixpoint seqN (start : N) (len : nat) : list N :=
  match len with O => [] | S l => start :: seqN (start + 1) l end.

Definition variables_obs (ts : list vname) : list N := seqN 0 (length (variables ts)).
Definition names_obs (ts : list vname) (ns : list vname) : list (vname * N) :=
  map (fun n => (n, index_of (KNamed n) (variables ts) 0)) ns.

Fixpoint listN_eqb (a b : list N) : bool :=
  match a, b with
  | [], [] => true
  | x :: a', y :: b' => (x =? y) && listN_eqb a' b'
  | _, _ => false
  end.

Definition pair_eqb (a b : vname * N) : bool := name_eqb (fst a) (fst b) && (snd a =? snd b).

Fixpoint pairs_eqb (a b : list (vname * N)) : bool :=
  match a, b with
  | [], [] => true
  | x :: a', y :: b' => pair_eqb x y && pairs_eqb a' b'
  | _, _ => false
  end.

Definition pairs_incl (a b : list (vname * N)) : bool := forallb (fun x => existsb (pair_eqb x) b) a.
(* the order of the singletons list is not constrained by the property *)
Definition pairs_same_set (a b : list (vname * N)) : bool :=
  Nat.eqb (length a) (length b) && pairs_incl a b && pairs_incl b a.

Definition occ_ok ts (occ : list N) := listN_eqb (occurrences ts) occ.
Definition vars_ok ts (vs : list N) := listN_eqb (variables_obs ts) vs.
Definition names_ok ts (vns : list (vname * N)) := pairs_eqb (names_obs ts (var_names ts)) vns.
Definition sing_ok ts (ss : list (vname * N)) := pairs_same_set (names_obs ts (singletons ts)) ss.

Definition chk (ts : list vname) (occ vs : list N) (vns ss : list (vname * N)) : bool :=
  occ_ok ts occ && vars_ok ts vs && names_ok ts vns && sing_ok ts ss.

(* ---------------------------------------------------------------- packed cases (primitive integers parse fast)
   [ntok; name..; nocc; idx..; nvs; idx..; nvn; name; idx; ..; nss; name; idx; ..]; a name is one integer holding up to
   three 21-bit code points, first in the low bits *)
Definition zi (x : int) : Z := Uint63.to_Z x.
Definition ni (x : int) : N := Z.to_N (zi x).

Definition unpack_name (x : int) : vname :=
  let z := zi x in
  let c0 := Z.to_N (Z.land z 2097151) in
  let c1 := Z.to_N (Z.land (Z.shiftr z 21) 2097151) in
  let c2 := Z.to_N (Z.shiftr z 42) in
  if c1 =? 0 then [c0] else if c2 =? 0 then [c0; c1] else [c0; c1; c2].

Fixpoint take {A} (f : int -> A) (n : nat) (l : list int) : list A * list int :=
  match n with
  | O => ([], l)
  | S m => match l with x :: r => let '(a, r') := take f m r in (f x :: a, r') | [] => ([], []) end
  end.

Fixpoint take_pairs (n : nat) (l : list int) : list (vname * N) * list int :=
  match n with
  | O => ([], l)
  | S m => match l with
           | x :: y :: r => let '(a, r') := take_pairs m r in ((unpack_name x, ni y) :: a, r')
           | _ => ([], [])
           end
  end.

Definition counted {A} (tk : nat -> list int -> list A * list int) (l : list int) : list A * list int :=
  match l with n :: r => tk (Z.to_nat (zi n)) r | [] => ([], []) end.

Definition decode (l : list int) :=
  let '(ts, r0) := counted (take unpack_name) l in
  let '(occ, r1) := counted (take ni) r0 in
  let '(vs, r2) := counted (take ni) r1 in
  let '(vns, r3) := counted take_pairs r2 in
  let '(ss, r4) := counted take_pairs r3 in
  (ts, occ, vs, vns, ss, r4).

Definition chkp (l : list int) : bool :=
  let '(ts, occ, vs, vns, ss, r4) := decode l in
  match r4 with [] => chk ts occ vs vns ss | _ => false end.

(* which component fails: 0 term sharing, 1 variables, 2 variable_names, 3 singletons *)
Definition diagp (k : int) (l : list int) : bool :=
  let '(ts, occ, vs, vns, ss, r4) := decode l in
  let kz := zi k in
  if (kz =? 0)%Z then occ_ok ts occ else if (kz =? 1)%Z then vars_ok ts vs
  else if (kz =? 2)%Z then names_ok ts vns else sing_ok ts ss.
