(* C45 -- pinned property theorems (nothing else lives here).
   ts is the sequence of variable tokens of a clause text in left-to-right order (names as code point lists; "_" is the
   anonymous variable).  A variable of the clause is KNamed name or KAnon position (coq/C45/Model.v). *)
From Coq Require Import List NArith ZArith Bool.
Import ListNotations.
From V Require Import C45.Model C45.Proofs.
Open Scope N_scope.

(* variables/1 has no duplicates, contains the variable of every token occurrence (each _ its own), and is in
   first-occurrence order: the variables of a prefix of the text are a prefix of the variables of the whole text *)
Theorem variables_first_occurrence_nodup : forall ts,
  NoDup (variables ts) /\
  (forall i t, nth_error ts i = Some t -> In (key_of t (N.of_nat i)) (variables ts)) /\
  (forall ts2, exists ext, variables (ts ++ ts2) = variables ts ++ ext).
Proof. exact variables_spec. Qed.
Print Assumptions variables_first_occurrence_nodup.

(* two token occurrences denote the same variable exactly when they are the same named token (or the same occurrence) *)
Theorem same_variable_iff_same_name : forall t1 p1 t2 p2, key_of t1 p1 = key_of t2 p2 <->
  (is_anon t1 = true /\ is_anon t2 = true /\ p1 = p2) \/ (named t1 = true /\ named t2 = true /\ t1 = t2).
Proof. exact key_of_same. Qed.
Print Assumptions same_variable_iff_same_name.

(* variable_names/1 is variables/1 with the anonymous variables removed (same order), without duplicates, and contains
   exactly the tokens other than "_" (so _A, _1, __ are included) *)
Theorem variable_names_named_only_in_order : forall ts,
  var_names ts = named_of (variables ts) /\
  NoDup (var_names ts) /\
  (forall n, In n (var_names ts) <-> named n = true /\ In n ts).
Proof. exact var_names_spec. Qed.
Print Assumptions variable_names_named_only_in_order.

Theorem singletons_spec : forall ts n, In n (singletons ts) <-> named n = true /\ count n ts = 1%nat.
Proof. exact singletons_In. Qed.
Print Assumptions singletons_spec.

Theorem options_consistent : forall ts,
  incl (singletons ts) (var_names ts) /\
  (forall n, In n (var_names ts) -> In (KNamed n) (variables ts)) /\
  length (variables ts) = (length (var_names ts) + length (filter is_anon ts))%nat /\
  (length (singletons ts) <= length (var_names ts))%nat /\
  NoDup (singletons ts).
Proof. exact consistent. Qed.
Print Assumptions options_consistent.

(* the number reported for a variable of the list is its position in variables/1 *)
Theorem numbering_is_position : forall l k i, In k l ->
  exists j, (j < length l)%nat /\ index_of k l i = i + N.of_nat j /\ nth_error l j = Some k.
Proof. exact index_of_found. Qed.
Print Assumptions numbering_is_position.

(* ---- landmarks: f(X, _, _A, X, _, __) *)
Example ex_tokens :
  let ts := [[88]; [95]; [95; 65]; [88]; [95]; [95; 95]] in
  variables ts = [KNamed [88]; KAnon 1; KNamed [95; 65]; KAnon 4; KNamed [95; 95]] /\
  var_names ts = [[88]; [95; 65]; [95; 95]] /\
  singletons ts = [[95; 65]; [95; 95]] /\
  occurrences ts = [0; 1; 2; 0; 3; 4].
Proof. vm_compute. repeat split; reflexivity. Qed.
(* the implementation's answer for f(_,_) (one variable reported) is rejected, the right one accepted *)
Example ex_anon_pair :
  vars_ok [[95]; [95]] [0] = false /\ vars_ok [[95]; [95]] [0; 1] = true.
Proof. vm_compute. split; reflexivity. Qed.
