(* C54 -- pinned property theorems (nothing else lives here) *)
From Coq Require Import ZArith NArith List Bool Permutation String.
From V Require Import Base.Term C10.Model C26.Model C26.Proofs C54.Model C54.Proofs.
Import ListNotations.

(* the reified =/3 is exhaustive and exclusive: every solution of the store solves exactly one of its answers, every
   solution of an answer solves the store, and the answer's truth value is whether the two terms are equal there *)
Theorem eq_t_exhaustive_exclusive : forall a b, texact (eq_t a b) (fun g => term_eqb (inst g a) (inst g b)).
Proof. exact eq_t_exact_l. Qed.
Print Assumptions eq_t_exhaustive_exclusive.

(* ... and so is every condition built with =/3, dif/3, ','/3 and ';'/3, with the direct evaluation as truth value *)
Theorem cond_t_exhaustive_exclusive : forall c, texact (cond_t c) (fun g => ceval g c).
Proof. exact cond_t_exact_l. Qed.
Print Assumptions cond_t_exhaustive_exclusive.

(* if_(C,T,E) has the answers of ( call(C,true), T ; call(C,false), E ) *)
Theorem if_equiv_disjunction : forall c T E st, Permutation (ans_if c T E st) (ans_disj c T E st).
Proof. exact if_equiv_disjunction_l. Qed.
Print Assumptions if_equiv_disjunction.

(* every solution of the store that satisfies (C and T) or (not C and E) is a solution of exactly one answer of
   if_(C,T,E); every solution of an answer is such a solution: nothing lost, nothing duplicated, nothing invented *)
Theorem no_answer_lost_or_duplicated : forall c T E sT sE, gexact T sT -> gexact E sE ->
  gexact (ans_if c T E) (fun g => if ceval g c then sT g else sE g).
Proof. exact if_exact_l. Qed.
Print Assumptions no_answer_lost_or_duplicated.

(* the instance that the correspondence runs *)
Theorem if_then_else_bindings_exact : forall c, gexact (run_core (KIf c)) (fun g => g o1 = if ceval g c then a_then else a_else).
Proof. exact run_if_exact_l. Qed.
Print Assumptions if_then_else_bindings_exact.

(* A = B and dif(A,B) themselves are exact *)
Theorem unify_exact : forall a b, gexact (unify_g a b) (fun g => inst g a = inst g b).
Proof. exact unify_exact_l. Qed.
Print Assumptions unify_exact.
Theorem dif_exact : forall a b, gexact (dif_g a b) (fun g => inst g a <> inst g b).
Proof. exact dif_exact_l. Qed.
Print Assumptions dif_exact.

(* the plain disjunction ( C+, T ; C-, E ) written with =/2 and dif/2 has the same solutions as if_(C,T,E)
   (its answers may overlap, so "same" is as sets of solutions) *)
Theorem plain_disjunction_same_solutions : forall c T E sT sE, gexact T sT -> gexact E sE -> forall st g, sat g st ->
  ((exists st', In st' (ans_if c T E st) /\ sat g st') <-> (exists st', In st' (ans_plain c T E st) /\ sat g st')).
Proof. exact plain_same_solutions_l. Qed.
Print Assumptions plain_disjunction_same_solutions.

(* on ground lists tfilter(=(X),L,Fs) is filter, memberd_t is membership, tmember succeeds once iff member *)
Theorem tfilter_spec : forall x l st s, solve (fst st) = Some s -> vars x = [] -> (forall e, In e l -> vars e = []) ->
  run_core (KTfilter x l) st = unify_g (Var o1) (tlist (filter (term_eqb x) l)) st.
Proof. exact tfilter_spec_l. Qed.
Print Assumptions tfilter_spec.
Theorem memberd_t_spec : forall e l st s, solve (fst st) = Some s -> vars e = [] -> (forall x, In x l -> vars x = []) ->
  run_core (KMemberd e l) st = unify_g (Var o1) (tbool (existsb (term_eqb e) l)) st.
Proof. exact memberd_t_spec_l. Qed.
Print Assumptions memberd_t_spec.
Theorem tmember_spec : forall x l st s, solve (fst st) = Some s -> vars x = [] -> (forall e, In e l -> vars e = []) ->
  tmember_m x l st = if existsb (term_eqb x) l then [st] else [].
Proof. exact tmember_ground. Qed.
Print Assumptions tmember_spec.

(* the comparison of answers is reflexive; check_case is the conjunction of its two parts *)
Theorem same_answers_reflexive : forall l, same_answers l l = true.
Proof. exact same_answers_refl. Qed.
Print Assumptions same_answers_reflexive.
Theorem check_case_is_conjunction : forall pre k post impl, check_case pre k post impl = true <->
  chk_model pre k post impl = true /\ chk_ground pre k post impl = true.
Proof. exact check_case_spec_l. Qed.
Print Assumptions check_case_is_conjunction.

(* non-vacuity *)
Definition c1 : rcond := ROr (REq vx a_a) (REq vy (af vx)).
Example ex_sat : sat (fun _ => a_a) empty.
Proof. split. intros a b []. intros p []. Qed.
Example ex_if_answers : model_answers [] (KIf c1) [] =
  [([a_a; vy; vz; a_then], []); ([vx; af vx; vz; a_then], [(vx, a_a)]); ([vx; vy; vz; a_else], [(vx, a_a); (vy, af vx)])].
Proof. vm_compute. reflexivity. Qed.
Example ex_if_ground : model_ground_ok [] (KIf c1) [] = true.
Proof. vm_compute. reflexivity. Qed.
Example ex_plain_ground : model_ground_ok [(0%N, a_a)] (KPlain c1) [(1%N, a_b)] = true.
Proof. vm_compute. reflexivity. Qed.
Example ex_tfilter : map fst (tfilter_m vx [a_a; vy; a_b] empty) = [[a_a; vy]; [a_a]; [vy; a_b]; [vy]; [a_b]; []].
Proof. vm_compute. reflexivity. Qed.
Example ex_tfilter_ground : run_case [] (KTfilter a_a [a_a; a_b; a_a]) [] = [([(Var o1, tlist [a_a; a_a])], [])].
Proof. vm_compute. reflexivity. Qed.
Example ex_lost_answer : check_case [] (KIf c1) [] [([a_a; w0; w1; a_then], []); ([w0; w1; w2; a_else], [(w0, a_a); (w1, af w0)])] = false.
Proof. vm_compute. reflexivity. Qed.
Example ex_duplicate_answer : chk_ground [] (KIf (REq vx a_a)) [] [([a_a; w0; w1; a_then], []); ([w0; w1; w2; a_else], [(w0, a_a)]); ([w0; w1; w2; a_else], [(w0, a_a)])] = false.
Proof. vm_compute. reflexivity. Qed.
Example ex_unsound_answer : chk_ground [] (KIf (REq vx a_a)) [] [([a_a; w0; w1; a_then], []); ([w0; w1; w2; a_else], [])] = false.
Proof. vm_compute. reflexivity. Qed.

(* the compact text form used by the check decodes to the case it stands for *)
Example ex_decode : decode "xa/I|=xa=yfx/yb/a0bt,;012e,0a1f0"%string =
  Some ([(0%N, a_a)], KIf c1, [(1%N, a_b)], [([a_a; w0; a_b; a_then], []); ([w0; w1; w2; a_else], [(w0, a_a); (w1, af w0)])]).
Proof. vm_compute. reflexivity. Qed.
Example ex_decode_list : decode "/Lxaycbn//aacan,"%string = Some ([], KTfilter vx [a_a; vy; tlist [a_b]], [], [([a_a; a_a; tlist [a_a]], [])]).
Proof. vm_compute. reflexivity. Qed.
Example ex_decode_no_answers : decode "/Exab//"%string = Some ([], KTmember vx [a_a; a_b], [], []).
Proof. vm_compute. reflexivity. Qed.
Example ex_decode_rejects : decode "/I=xg//"%string = None /\ check_case_s "/I=xg//"%string = false.
Proof. vm_compute. auto. Qed.
