(* C54 -- proofs about the model of library(reif): the reified conditions are exhaustive and exclusive on the
   solutions of a store, if_/3 covers every solution of (Cond,Then ; not Cond,Else) exactly once. *)
From Coq Require Import ZArith NArith List Bool Lia Permutation.
From V Require Import Base.Term C10.Model C10.Proofs C26.Model C26.Proofs C54.Model.
Import ListNotations.

(* ------------------------------------------------------------------ solutions of a store *)
(* a valuation (any assignment of terms to the variables) solves a store when it unifies every equation and
   makes no dif pair identical *)
Definition sat (g : valuation) (st : store) : Prop :=
  unifier (fst st) g /\ forall p, In p (snd st) -> inst g (fst p) <> inst g (snd p).

(* exactly one element of the list satisfies P (the list may contain further elements that do not) *)
Inductive exactly1 {A : Type} (P : A -> Prop) : list A -> Prop :=
| e1_here : forall x l, P x -> (forall y, In y l -> ~ P y) -> exactly1 P (x :: l)
| e1_later : forall x l, ~ P x -> exactly1 P l -> exactly1 P (x :: l).

Definition none {A : Type} (P : A -> Prop) (l : list A) : Prop := forall y, In y l -> ~ P y.

Lemma exactly1_app_l : forall (A : Type) (P : A -> Prop) l1 l2, exactly1 P l1 -> none P l2 -> exactly1 P (l1 ++ l2).
Proof.
  intros A P l1 l2 H N. induction H as [x l Hx Hn|x l Hx H IH]; simpl.
  - apply e1_here; auto. intros y Hy. apply in_app_or in Hy. destruct Hy; auto.
  - apply e1_later; auto.
Qed.

Lemma exactly1_app_r : forall (A : Type) (P : A -> Prop) l1 l2, none P l1 -> exactly1 P l2 -> exactly1 P (l1 ++ l2).
Proof.
  intros A P l1 l2 N H. induction l1 as [|x l1 IH]; simpl; auto.
  apply e1_later. apply N. left. auto. apply IH. intros y Hy. apply N. right. auto.
Qed.

Lemma none_app : forall (A : Type) (P : A -> Prop) l1 l2, none P l1 -> none P l2 -> none P (l1 ++ l2).
Proof. intros A P l1 l2 N1 N2 y Hy. apply in_app_or in Hy. destruct Hy; auto. Qed.

Lemma none_flat_map : forall (A B : Type) (P : A -> Prop) (Q : B -> Prop) (K : A -> list B) l,
  none P l -> (forall x, In x l -> ~ P x -> none Q (K x)) -> none Q (flat_map K l).
Proof.
  intros A B P Q K l N H y Hy. apply in_flat_map in Hy. destruct Hy as [x [Hx Hy]]. apply (H x); auto.
Qed.

Lemma exactly1_flat_map : forall (A B : Type) (P : A -> Prop) (Q : B -> Prop) (K : A -> list B) l,
  exactly1 P l -> (forall x, In x l -> P x -> exactly1 Q (K x)) -> (forall x, In x l -> ~ P x -> none Q (K x)) ->
  exactly1 Q (flat_map K l).
Proof.
  intros A B P Q K l H. induction H as [x l Hx Hn|x l Hx H IH]; simpl; intros H1 H0.
  - apply exactly1_app_l.
    + apply H1; simpl; auto.
    + apply (none_flat_map _ _ P Q K l Hn). intros y Hy Hp. apply H0; simpl; auto.
  - apply exactly1_app_r.
    + apply H0; simpl; auto.
    + apply IH; intros y Hy Hp; [apply H1|apply H0]; simpl; auto.
Qed.

Lemma exactly1_map : forall (A B : Type) (P : A -> Prop) (Q : B -> Prop) (f : A -> B) l,
  (forall x, Q (f x) <-> P x) -> exactly1 P l -> exactly1 Q (map f l).
Proof.
  intros A B P Q f l E H. induction H as [x l Hx Hn|x l Hx H IH]; simpl.
  - apply e1_here. apply E. auto. intros y Hy. apply in_map_iff in Hy. destruct Hy as [z [<- Hz]]. rewrite E. auto.
  - apply e1_later; auto. rewrite E. auto.
Qed.

Lemma exactly1_exists : forall (A : Type) (P : A -> Prop) l, exactly1 P l -> exists x, In x l /\ P x.
Proof.
  intros A P l H. induction H as [x l Hx Hn|x l Hx H [y [Hy Py]]]. exists x. split; simpl; auto. exists y. split; simpl; auto.
Qed.

(* ------------------------------------------------------------------ consistency *)
Lemma sat_solvable : forall g st, sat g st -> exists s, solve (fst st) = Some s /\ is_mgu (fst st) s.
Proof.
  intros g st [U _]. destruct (solve (fst st)) as [s|] eqn:Hs.
  - exists s. split; auto. apply solve_some. auto.
  - exfalso. eapply solve_none; eauto.
Qed.

Lemma sat_consistent : forall g E D, sat g (E, D) -> consistent E D = true.
Proof.
  intros g E D H. destruct (sat_solvable g _ H) as [s [Hs M]]. simpl in *. unfold consistent. rewrite Hs.
  apply negb_true_iff. apply not_true_is_false. intro Hx. apply existsb_exists in Hx. destruct Hx as [p [Hp Hi]].
  destruct H as [U N]. apply (N p Hp). apply (mgu_identical _ _ _ _ M). apply identical_true. auto. auto.
Qed.

Lemma sat_extend : forall g E D a b, sat g (E ++ [(a, b)], D) <-> sat g (E, D) /\ inst g a = inst g b.
Proof.
  intros g E D a b. unfold sat. simpl. split.
  - intros [U N]. split; [split|]; auto.
    + eapply unifier_incl; [|exact U]. apply incl_appl, incl_refl.
    + apply U. apply in_or_app. right. left. auto.
  - intros [[U N] H]. split; auto. intros x y Hin. apply in_app_or in Hin. destruct Hin as [Hin|[E0|[]]]; auto.
    injection E0 as <- <-. auto.
Qed.

Lemma sat_add_dif : forall g E D a b, sat g (E, D ++ [(a, b)]) <-> sat g (E, D) /\ inst g a <> inst g b.
Proof.
  intros g E D a b. unfold sat. simpl. split.
  - intros [U N]. split; [split|]; auto.
    + intros p Hp. apply N. apply in_or_app. auto.
    + apply (N (a, b)). apply in_or_app. right. left. auto.
  - intros [[U N] H]. split; auto. intros p Hp. apply in_app_or in Hp. destruct Hp as [Hp|[<-|[]]]; auto.
Qed.

(* ------------------------------------------------------------------ A = B and dif(A,B) *)
Lemma unify_g_shape : forall a b st st', In st' (unify_g a b st) -> st' = (fst st ++ [(a, b)], snd st).
Proof.
  intros a b st st' H. unfold unify_g in H. destruct (consistent (fst st ++ [(a, b)]) (snd st)); simpl in H.
  destruct H as [<-|[]]. auto. contradiction.
Qed.

Lemma unify_g_sat : forall g a b st, sat g st -> inst g a = inst g b ->
  unify_g a b st = [(fst st ++ [(a, b)], snd st)].
Proof.
  intros g a b [E D] H Hab. unfold unify_g. simpl.
  rewrite (sat_consistent g (E ++ [(a, b)]) D). auto. apply sat_extend. auto.
Qed.

(* a goal is exact for a specification: every solution of the store that satisfies the specification is a solution
   of exactly one answer, and every solution of an answer is a solution of the store that satisfies it *)
Definition gexact (G : goal) (spec : valuation -> Prop) : Prop :=
  (forall st g, sat g st -> spec g -> exactly1 (sat g) (G st)) /\
  (forall st g st', In st' (G st) -> sat g st' -> sat g st /\ spec g).

Lemma unify_exact_l : forall a b, gexact (unify_g a b) (fun g => inst g a = inst g b).
Proof.
  intros a b. split.
  - intros [E D] g H Hab. rewrite (unify_g_sat g a b _ H Hab). simpl. apply e1_here.
    apply sat_extend. auto. intros y [].
  - intros [E D] g st' Hin Hs. apply unify_g_shape in Hin. subst st'. simpl in Hs. apply sat_extend in Hs. auto.
Qed.

Lemma dif_g_cases : forall a b st, (forall g, ~ sat g st) \/
  exists s, solve (fst st) = Some s /\ is_mgu (fst st) s /\
    ((identical s a b = true /\ dif_g a b st = []) \/
     (identical s a b = false /\ unify_g a b st = [] /\ dif_g a b st = [st]) \/
     (identical s a b = false /\ unify_g a b st = [(fst st ++ [(a, b)], snd st)] /\ dif_g a b st = [(fst st, snd st ++ [(a, b)])])).
Proof.
  intros a b st. unfold dif_g. destruct (solve (fst st)) as [s|] eqn:Hs.
  - right. exists s. split; auto. split. apply solve_some; auto.
    destruct (identical s a b) eqn:Hi; auto. right.
    destruct (unify_g a b st) as [|u r] eqn:Hu; auto. right. split; auto. split; auto.
    assert (Hin : In u (unify_g a b st)) by (rewrite Hu; left; auto).
    apply unify_g_shape in Hin. subst u.
    unfold unify_g in Hu. destruct (consistent (fst st ++ [(a, b)]) (snd st)); try discriminate. injection Hu as <-. auto.
  - left. intros g [U _]. eapply solve_none; eauto.
Qed.

Lemma dif_exact_l : forall a b, gexact (dif_g a b) (fun g => inst g a <> inst g b).
Proof.
  intros a b. split.
  - intros st g H Hab. destruct (dif_g_cases a b st) as [N|[s [Hs [M [[Hi Hd]|[[Hi [Hu Hd]]|[Hi [Hu Hd]]]]]]]].
    + exfalso. eapply N; eauto.
    + exfalso. apply Hab. apply (mgu_identical _ _ _ _ M). apply identical_true. auto. apply H.
    + rewrite Hd. apply e1_here; [auto | intros y []].
    + rewrite Hd. apply e1_here. destruct st as [E D]. apply sat_add_dif. auto. intros y [].
  - intros st g st' Hin Hsat. destruct (dif_g_cases a b st) as [N|[s [Hs [M [[Hi Hd]|[[Hi [Hu Hd]]|[Hi [Hu Hd]]]]]]]].
    + unfold dif_g in Hin. destruct (solve (fst st)) eqn:E0.
      * exfalso. destruct (identical s a b). contradiction.
        destruct (unify_g a b st); destruct Hin as [<-|[]].
        -- eapply N; eauto.
        -- destruct st as [E D]. apply sat_add_dif in Hsat. eapply N. apply Hsat.
      * contradiction.
    + rewrite Hd in Hin. contradiction.
    + rewrite Hd in Hin. destruct Hin as [<-|[]]. split; auto. intro Hab.
      rewrite (unify_g_sat g a b st Hsat Hab) in Hu. discriminate.
    + rewrite Hd in Hin. destruct Hin as [<-|[]]. destruct st as [E D]. apply sat_add_dif in Hsat. auto.
Qed.

(* ------------------------------------------------------------------ the reified conditions *)
(* exhaustive and exclusive: every solution of the store is a solution of exactly one answer; every solution of an
   answer is a solution of the store, and the truth value of the answer is the direct evaluation of the condition *)
Definition texact (C : store -> list (bool * store)) (ev : valuation -> bool) : Prop :=
  (forall st g, sat g st -> exactly1 (fun p => sat g (snd p)) (C st)) /\
  (forall st g p, In p (C st) -> sat g (snd p) -> sat g st /\ fst p = ev g).

Lemma eq_t_cases : forall a b st, (forall g, ~ sat g st) \/
  exists s, solve (fst st) = Some s /\ is_mgu (fst st) s /\
    ((identical s a b = true /\ eq_t a b st = [(true, st)]) \/
     (identical s a b = false /\ unify_g a b st = [] /\ eq_t a b st = [(false, st)]) \/
     (identical s a b = false /\ eq_t a b st = [(true, (fst st ++ [(a, b)], snd st)); (false, (fst st, snd st ++ [(a, b)]))])).
Proof.
  intros a b st. unfold eq_t. destruct (solve (fst st)) as [s|] eqn:Hs.
  - right. exists s. split; auto. split. apply solve_some; auto.
    destruct (identical s a b) eqn:Hi; auto. right.
    destruct (unify_g a b st) as [|u r] eqn:Hu; auto. right. split; auto.
    assert (Hin : In u (unify_g a b st)) by (rewrite Hu; left; auto).
    apply unify_g_shape in Hin. subst u. auto.
  - left. intros g [U _]. eapply solve_none; eauto.
Qed.

Lemma term_eqb_false : forall a b, term_eqb a b = false <-> a <> b.
Proof.
  intros a b. split.
  - intros H E. subst. rewrite term_eqb_refl in H. discriminate.
  - intro H. destruct (term_eqb a b) eqn:E; auto. apply term_eqb_true in E. contradiction.
Qed.

Lemma eq_t_exact_l : forall a b, texact (eq_t a b) (fun g => term_eqb (inst g a) (inst g b)).
Proof.
  intros a b. split.
  - intros st g H. destruct (eq_t_cases a b st) as [N|[s [Hs [M [[Hi He]|[[Hi [Hu He]]|[Hi He]]]]]]]; rewrite ?He.
    + exfalso. eapply N; eauto.
    + apply e1_here; [simpl; auto | intros y []].
    + apply e1_here; [simpl; auto | intros y []].
    + destruct st as [E D]. simpl. destruct (term_eqb (inst g a) (inst g b)) eqn:Hab.
      * apply term_eqb_true in Hab. apply e1_here; simpl. apply sat_extend. auto.
        intros y [<-|[]]. simpl. intro Hy. apply sat_add_dif in Hy. tauto.
      * apply term_eqb_false in Hab. apply e1_later; simpl. intro Hy. apply sat_extend in Hy. tauto.
        apply e1_here; simpl. apply sat_add_dif. auto. intros y [].
  - intros st g p Hin Hsat. destruct (eq_t_cases a b st) as [N|[s [Hs [M [[Hi He]|[[Hi [Hu He]]|[Hi He]]]]]]].
    + exfalso. unfold eq_t in Hin. destruct (solve (fst st)) eqn:E0; try contradiction.
      destruct (identical s a b). destruct Hin as [<-|[]]. eapply N; eauto.
      destruct (unify_g a b st) eqn:Hu.
      * destruct Hin as [<-|[]]. eapply N; eauto.
      * assert (Hs0 : In s0 (unify_g a b st)) by (rewrite Hu; left; auto). apply unify_g_shape in Hs0. subst s0.
        destruct st as [E D]. destruct Hin as [<-|[<-|[]]]; simpl in Hsat.
        apply sat_extend in Hsat. eapply N. apply Hsat. apply sat_add_dif in Hsat. eapply N. apply Hsat.
    + rewrite He in Hin. destruct Hin as [<-|[]]. simpl in *. split; auto. symmetry. apply term_eqb_eq.
      apply (mgu_identical _ _ _ _ M). apply identical_true. auto. apply Hsat.
    + rewrite He in Hin. destruct Hin as [<-|[]]. simpl in *. split; auto. symmetry. apply term_eqb_false. intro Hab.
      rewrite (unify_g_sat g a b st Hsat Hab) in Hu. discriminate.
    + rewrite He in Hin. destruct st as [E D]. destruct Hin as [<-|[<-|[]]]; simpl in *.
      * apply sat_extend in Hsat. destruct Hsat as [H1 H2]. split; auto. symmetry. apply term_eqb_eq. auto.
      * apply sat_add_dif in Hsat. destruct Hsat as [H1 H2]. split; auto. symmetry. apply term_eqb_false. auto.
Qed.

Lemma texact_neg : forall C ev, texact C ev -> texact (fun st => map neg_truth (C st)) (fun g => negb (ev g)).
Proof.
  intros C ev [H1 H2]. split.
  - intros st g H. apply (exactly1_map _ _ (fun p => sat g (snd p))); auto. intros [t s]. simpl. tauto.
  - intros st g p Hin Hsat. apply in_map_iff in Hin. destruct Hin as [q [<- Hq]]. simpl in *.
    destruct (H2 st g q Hq Hsat) as [Hs Ht]. split; auto. rewrite Ht. auto.
Qed.

Lemma cond_t_exact_l : forall c, texact (cond_t c) (fun g => ceval g c).
Proof.
  induction c as [a b|a b|c [IHc1 IHc2] d [IHd1 IHd2]|c [IHc1 IHc2] d [IHd1 IHd2]]; simpl.
  - apply eq_t_exact_l.
  - apply (texact_neg _ _ (eq_t_exact_l a b)).
  - split.
    + intros st g H. eapply exactly1_flat_map. apply IHc1; eauto.
      * intros [t s] _ Hp. simpl in *. destruct t. apply IHd1; auto. apply e1_here; [auto | intros y []].
      * intros [t s] _ Hp. simpl in *. destruct t.
        -- intros q Hq Hsq. apply Hp. eapply IHd2; eauto.
        -- intros q [<-|[]]. auto.
    + intros st g q Hin Hsat. apply in_flat_map in Hin. destruct Hin as [[t s] [Hp Hq]]. simpl in Hq. destruct t.
      * destruct (IHd2 s g q Hq Hsat) as [Hs Ht]. destruct (IHc2 st g _ Hp Hs) as [Hst Htc]. simpl in Htc.
        split; auto. rewrite <- Htc. simpl. auto.
      * destruct Hq as [<-|[]]. simpl in *. destruct (IHc2 st g _ Hp Hsat) as [Hst Htc]. simpl in Htc.
        split; auto. rewrite <- Htc. auto.
  - split.
    + intros st g H. eapply exactly1_flat_map. apply IHc1; eauto.
      * intros [t s] _ Hp. simpl in *. destruct t. apply e1_here; [auto | intros y []]. apply IHd1; auto.
      * intros [t s] _ Hp. simpl in *. destruct t.
        -- intros q [<-|[]]. auto.
        -- intros q Hq Hsq. apply Hp. eapply IHd2; eauto.
    + intros st g q Hin Hsat. apply in_flat_map in Hin. destruct Hin as [[t s] [Hp Hq]]. simpl in Hq. destruct t.
      * destruct Hq as [<-|[]]. simpl in *. destruct (IHc2 st g _ Hp Hsat) as [Hst Htc]. simpl in Htc.
        split; auto. rewrite <- Htc. auto.
      * destruct (IHd2 s g q Hq Hsat) as [Hs Ht]. destruct (IHc2 st g _ Hp Hs) as [Hst Htc]. simpl in Htc.
        split; auto. rewrite <- Htc. simpl. auto.
Qed.

(* ------------------------------------------------------------------ if_/3 *)
Lemma if_exact_l : forall c T E sT sE, gexact T sT -> gexact E sE ->
  gexact (ans_if c T E) (fun g => if ceval g c then sT g else sE g).
Proof.
  intros c T E sT sE [T1 T2] [E1 E2]. destruct (cond_t_exact_l c) as [C1 C2]. unfold ans_if. split.
  - intros st g H Hspec. eapply exactly1_flat_map. apply C1; eauto.
    + intros [t s] Hin Hp. simpl in *. destruct (C2 st g _ Hin Hp) as [_ Ht]. simpl in Ht. rewrite <- Ht in Hspec.
      destruct t; [apply T1|apply E1]; auto.
    + intros [t s] Hin Hp. simpl in *. intros st' Hst' Hsat. apply Hp.
      destruct t; [eapply T2|eapply E2]; eauto.
  - intros st g st' Hin Hsat. apply in_flat_map in Hin. destruct Hin as [[t s] [Hp Hq]]. simpl in Hq.
    destruct t.
    + destruct (T2 s g st' Hq Hsat) as [Hs Hsp]. destruct (C2 st g _ Hp Hs) as [Hst Ht]. simpl in Ht.
      split; auto. rewrite <- Ht. auto.
    + destruct (E2 s g st' Hq Hsat) as [Hs Hsp]. destruct (C2 st g _ Hp Hs) as [Hst Ht]. simpl in Ht.
      split; auto. rewrite <- Ht. auto.
Qed.

(* the same answers as the explicit disjunction ( call(C,true), Then ; call(C,false), Else ) *)
Lemma if_split_perm : forall (T E : goal) (l : list (bool * store)),
  Permutation (flat_map (fun p : bool * store => if fst p then T (snd p) else E (snd p)) l)
              (flat_map T (map snd (filter (fun p : bool * store => Bool.eqb (fst p) true) l)) ++
               flat_map E (map snd (filter (fun p : bool * store => Bool.eqb (fst p) false) l))).
Proof.
  intros T E. induction l as [|[t s] l IH]; simpl; auto.
  destruct t; simpl.
  - rewrite <- app_assoc. apply Permutation_app_head. auto.
  - eapply perm_trans. apply Permutation_app_head. exact IH. apply Permutation_app_swap_app.
Qed.

Lemma if_equiv_disjunction_l : forall c T E st, Permutation (ans_if c T E st) (ans_disj c T E st).
Proof. intros. unfold ans_if, ans_disj, disj, conj, call_t. apply if_split_perm. Qed.

(* ------------------------------------------------------------------ the plain disjunction with =/2 and dif/2 *)
(* a goal covers a specification: every solution of the store satisfying it is a solution of SOME answer (possibly of
   several), and every solution of an answer is a solution of the store that satisfies it *)
Definition gcovers (G : goal) (spec : valuation -> Prop) : Prop :=
  (forall st g, sat g st -> spec g -> exists st', In st' (G st) /\ sat g st') /\
  (forall st g st', In st' (G st) -> sat g st' -> sat g st /\ spec g).

Lemma gexact_covers : forall G s, gexact G s -> gcovers G s.
Proof. intros G s [H1 H2]. split; auto. intros st g Hs Hsp. apply exactly1_exists. auto. Qed.

Lemma covers_ext : forall G s1 s2, (forall g, s1 g <-> s2 g) -> gcovers G s1 -> gcovers G s2.
Proof.
  intros G s1 s2 E [H1 H2]. split.
  - intros st g Hs Hsp. apply H1; auto. apply E. auto.
  - intros st g st' Hin Hs. destruct (H2 st g st' Hin Hs). split; auto. apply E. auto.
Qed.

Lemma conj_covers : forall G H s1 s2, gcovers G s1 -> gcovers H s2 -> gcovers (conj G H) (fun g => s1 g /\ s2 g).
Proof.
  intros G H s1 s2 [G1 G2] [H1 H2]. unfold conj. split.
  - intros st g Hs [Hs1 Hs2]. destruct (G1 st g Hs Hs1) as [st1 [Hin1 Hsat1]].
    destruct (H1 st1 g Hsat1 Hs2) as [st2 [Hin2 Hsat2]]. exists st2. split; auto. apply in_flat_map. eauto.
  - intros st g st' Hin Hs. apply in_flat_map in Hin. destruct Hin as [st1 [Hin1 Hin2]].
    destruct (H2 st1 g st' Hin2 Hs) as [Hs1 Hsp2]. destruct (G2 st g st1 Hin1 Hs1). auto.
Qed.

Lemma disj_covers : forall G H s1 s2, gcovers G s1 -> gcovers H s2 -> gcovers (disj G H) (fun g => s1 g \/ s2 g).
Proof.
  intros G H s1 s2 [G1 G2] [H1 H2]. unfold disj. split.
  - intros st g Hs [Hs1|Hs2].
    + destruct (G1 st g Hs Hs1) as [st1 [Hin1 Hsat1]]. exists st1. split; auto. apply in_or_app. auto.
    + destruct (H1 st g Hs Hs2) as [st1 [Hin1 Hsat1]]. exists st1. split; auto. apply in_or_app. auto.
  - intros st g st' Hin Hs. apply in_app_or in Hin. destruct Hin as [Hin|Hin].
    + destruct (G2 st g st' Hin Hs). auto.
    + destruct (H2 st g st' Hin Hs). auto.
Qed.

Lemma pos_neg_covers : forall c, gcovers (pos c) (fun g => ceval g c = true) /\ gcovers (neg c) (fun g => ceval g c = false).
Proof.
  induction c as [a b|a b|c [IHc1 IHc2] d [IHd1 IHd2]|c [IHc1 IHc2] d [IHd1 IHd2]]; simpl.
  - split.
    + eapply covers_ext; [|apply gexact_covers, unify_exact_l]. intro g. simpl. symmetry. apply term_eqb_eq.
    + eapply covers_ext; [|apply gexact_covers, dif_exact_l]. intro g. simpl. symmetry. apply term_eqb_false.
  - split.
    + eapply covers_ext; [|apply gexact_covers, dif_exact_l]. intro g. simpl. rewrite negb_true_iff. symmetry. apply term_eqb_false.
    + eapply covers_ext; [|apply gexact_covers, unify_exact_l]. intro g. simpl. rewrite negb_false_iff. symmetry. apply term_eqb_eq.
  - split.
    + eapply covers_ext; [|apply conj_covers; eauto]. intro g. simpl. symmetry. apply andb_true_iff.
    + eapply covers_ext; [|apply disj_covers; eauto]. intro g. simpl. symmetry. apply andb_false_iff.
  - split.
    + eapply covers_ext; [|apply disj_covers; eauto]. intro g. simpl. symmetry. apply orb_true_iff.
    + eapply covers_ext; [|apply conj_covers; eauto]. intro g. simpl. symmetry. apply orb_false_iff.
Qed.

Lemma plain_covers_l : forall c T E sT sE, gexact T sT -> gexact E sE ->
  gcovers (ans_plain c T E) (fun g => if ceval g c then sT g else sE g).
Proof.
  intros c T E sT sE HT HE. destruct (pos_neg_covers c) as [P N]. unfold ans_plain.
  eapply covers_ext; [|apply disj_covers; apply conj_covers; [exact P|apply gexact_covers; exact HT|exact N|apply gexact_covers; exact HE]].
  intro g. simpl. destruct (ceval g c); split; intro H.
  - destruct H as [[_ H]|[H _]]; auto. discriminate.
  - left. auto.
  - destruct H as [[H _]|[_ H]]; auto. discriminate.
  - right. auto.
Qed.

Lemma plain_same_solutions_l : forall c T E sT sE, gexact T sT -> gexact E sE -> forall st g, sat g st ->
  ((exists st', In st' (ans_if c T E st) /\ sat g st') <-> (exists st', In st' (ans_plain c T E st) /\ sat g st')).
Proof.
  intros c T E sT sE HT HE st g Hs.
  destruct (gexact_covers _ _ (if_exact_l c T E sT sE HT HE)) as [I1 I2].
  destruct (plain_covers_l c T E sT sE HT HE) as [P1 P2].
  split; intros [st' [Hin Hsat]].
  - apply P1; auto. eapply I2; eauto.
  - apply I1; auto. eapply P2; eauto.
Qed.

(* the instance run by the correspondence: Then is R = then, Else is R = else *)
Lemma run_if_exact_l : forall c, gexact (run_core (KIf c)) (fun g => g o1 = if ceval g c then a_then else a_else).
Proof.
  intro c. simpl. destruct (if_exact_l c _ _ _ _ (unify_exact_l (Var o1) a_then) (unify_exact_l (Var o1) a_else)) as [H1 H2].
  split.
  - intros st g Hs Hsp. apply H1; auto. simpl. destruct (ceval g c); auto.
  - intros st g st' Hin Hsat. destruct (H2 st g st' Hin Hsat) as [Hs Hsp]. split; auto. simpl in Hsp. destruct (ceval g c); auto.
Qed.

(* ------------------------------------------------------------------ ground lists *)
Lemma apply_ground : forall s t, vars t = [] -> apply s t = t.
Proof. intros s t H. rewrite apply_inst. apply inst_ground. auto. Qed.

Lemma eq_t_ground : forall a b st s, solve (fst st) = Some s -> vars a = [] -> vars b = [] ->
  eq_t a b st = [(term_eqb a b, st)].
Proof.
  intros a b st s Hs Ha Hb. unfold eq_t. rewrite Hs. unfold identical. rewrite (apply_ground s a Ha), (apply_ground s b Hb).
  destruct (term_eqb a b) eqn:E; auto.
  assert (Hu : unify_g a b st = []).
  { unfold unify_g, consistent. destruct (solve (fst st ++ [(a, b)])) as [s'|] eqn:Hs'; auto.
    exfalso. destruct (solve_some _ _ Hs') as [U _].
    assert (Hab : inst (sfun s') a = inst (sfun s') b) by (apply U; apply in_or_app; right; left; auto).
    rewrite (inst_ground _ a Ha), (inst_ground _ b Hb) in Hab. apply term_eqb_false in E. contradiction. }
  rewrite Hu. auto.
Qed.

Lemma term_eqb_sym : forall a b, term_eqb a b = term_eqb b a.
Proof. intros a b. apply bool_eq_iff. rewrite !term_eqb_eq. split; auto. Qed.

Lemma tfilter_ground : forall x l st s, solve (fst st) = Some s -> vars x = [] -> (forall e, In e l -> vars e = []) ->
  tfilter_m x l st = [(filter (term_eqb x) l, st)].
Proof.
  intros x l st s Hs Hx. induction l as [|e l IH]; simpl; intro Hl; auto.
  rewrite (eq_t_ground x e st s Hs Hx) by (apply Hl; auto). simpl. rewrite IH by (intros; apply Hl; auto). simpl.
  destruct (term_eqb x e); auto.
Qed.

Lemma tfilter_spec_l : forall x l st s, solve (fst st) = Some s -> vars x = [] -> (forall e, In e l -> vars e = []) ->
  run_core (KTfilter x l) st = unify_g (Var o1) (tlist (filter (term_eqb x) l)) st.
Proof.
  intros x l st s Hs Hx Hl. simpl. rewrite (tfilter_ground x l st s Hs Hx Hl). simpl. apply app_nil_r.
Qed.

Lemma memberd_ground : forall e l st s, solve (fst st) = Some s -> vars e = [] -> (forall x, In x l -> vars x = []) ->
  memberd_m e l st = [(existsb (term_eqb e) l, st)].
Proof.
  intros e l st s Hs He. induction l as [|x l IH]; simpl; intro Hl; auto.
  rewrite (eq_t_ground x e st s Hs) by (auto; apply Hl; auto). simpl. rewrite (term_eqb_sym e x).
  destruct (term_eqb x e); simpl; auto. rewrite IH by (intros; apply Hl; auto). auto.
Qed.

Lemma memberd_t_spec_l : forall e l st s, solve (fst st) = Some s -> vars e = [] -> (forall x, In x l -> vars x = []) ->
  run_core (KMemberd e l) st = unify_g (Var o1) (tbool (existsb (term_eqb e) l)) st.
Proof.
  intros e l st s Hs He Hl. simpl. rewrite (memberd_ground e l st s Hs He Hl). simpl. apply app_nil_r.
Qed.

Lemma tmember_ground : forall x l st s, solve (fst st) = Some s -> vars x = [] -> (forall e, In e l -> vars e = []) ->
  tmember_m x l st = if existsb (term_eqb x) l then [st] else [].
Proof.
  intros x l st s Hs Hx. induction l as [|e l IH]; simpl; intro Hl; auto.
  rewrite (eq_t_ground x e st s Hs Hx) by (apply Hl; auto). simpl.
  destruct (term_eqb x e); simpl; auto. rewrite IH by (intros; apply Hl; auto). apply app_nil_r.
Qed.

(* ------------------------------------------------------------------ the comparison functions *)
Lemma dif_entails_refl : forall p, dif_entails p p = true.
Proof. intros [a b]. apply dif_entails_spec_l. auto. Qed.

Lemma difs_cover_refl : forall D, difs_cover D D = true.
Proof.
  intro D. unfold difs_cover. apply forallb_forall. intros q Hq. apply existsb_exists. exists q. split; auto. apply dif_entails_refl.
Qed.

Lemma tlist_eqb_refl : forall l, tlist_eqb l l = true.
Proof. induction l as [|x l IH]; simpl; auto. unfold tlist_eqb in *. simpl. rewrite term_eqb_refl, IH. auto. Qed.

Lemma answer_eqb_refl : forall x, answer_eqb x x = true.
Proof. intro x. unfold answer_eqb, difs_equiv. rewrite tlist_eqb_refl, difs_cover_refl. auto. Qed.

Lemma same_answers_refl : forall l, same_answers l l = true.
Proof. induction l as [|x l IH]; simpl; auto. rewrite answer_eqb_refl. auto. Qed.

Lemma check_case_spec_l : forall pre k post impl, check_case pre k post impl = true <->
  chk_model pre k post impl = true /\ chk_ground pre k post impl = true.
Proof. intros. unfold check_case. apply andb_true_iff. Qed.
