(* C54 -- reference model of library(reif): if_/3, (=)/3, dif/3, (',')/3, (;)/3, tfilter/3, tpartition/4,
   memberd_t/3, tmember/2, over constraint stores (equations posted so far + dif pairs posted so far).

   A store is a pair (E, D): the equations and the dif pairs accumulated on one branch of the computation; its
   solutions are the valuations that unify every equation and make no dif pair identical (Proofs.v: sat).  A goal
   maps a store to the list of the stores of its answers, in Prolog's order.  The tests "identical" and
   "unifiable" under a store are made under the mgu of its equations (C26.Model.solve = C10's unify_oc).

   The reified predicates follow src/lib/reif.pl clause by clause; \=/2 is aware of dif constraints, as in the
   implementation (the attribute hooks run inside it).  No proofs in this file. *)
From Coq Require Import ZArith NArith List Bool Ascii String.
From V Require Import Base.Term C10.Model C26.Model.
Import ListNotations.

Definition store := (list eqn * list (term * term))%type.
Definition empty : store := ([], []).

(* the equations are solvable and no dif pair is identical under their mgu *)
Definition consistent (E : list eqn) (D : list (term * term)) : bool :=
  match solve E with
  | None => false
  | Some s => negb (existsb (fun p => identical s (fst p) (snd p)) D)
  end.

(* A = B *)
Definition unify_g (a b : term) (st : store) : list store :=
  let E' := fst st ++ [(a, b)] in
  if consistent E' (snd st) then [(E', snd st)] else [].

(* dif(A,B) of library(dif):  A \== B, ( A \= B -> true ; attach ) *)
Definition dif_g (a b : term) (st : store) : list store :=
  match solve (fst st) with
  | None => []
  | Some s =>
      if identical s a b then []
      else match unify_g a b st with
           | [] => [st]
           | _ => [(fst st, snd st ++ [(a, b)])]
           end
  end.

(* =(X, Y, T):  X == Y -> T = true ; X \= Y -> T = false ; T = true, X = Y ; T = false, dif(X, Y) *)
Definition eq_t (a b : term) (st : store) : list (bool * store) :=
  match solve (fst st) with
  | None => []
  | Some s =>
      if identical s a b then [(true, st)]
      else match unify_g a b st with
           | [] => [(false, st)]
           | u :: _ => [(true, u); (false, (fst st, snd st ++ [(a, b)]))]
           end
  end.

Inductive rcond :=
| REq (a b : term)            (* A = B *)
| RDif (a b : term)           (* dif(A, B) *)
| RAnd (c d : rcond)          (* (C , D) *)
| ROr (c d : rcond).          (* (C ; D) *)

Definition neg_truth (p : (bool * store)%type) : (bool * store)%type := (negb (fst p), snd p).

(* call(C, T): the truth values with their stores.
   ','(A,B,T) :- if_(A, call(B,T), T = false).     ';'(A,B,T) :- if_(A, T = true, call(B,T)). *)
Fixpoint cond_t (c : rcond) (st : store) : list (bool * store) :=
  match c with
  | REq a b => eq_t a b st
  | RDif a b => map neg_truth (eq_t a b st)
  | RAnd c d => flat_map (fun p : bool * store => if fst p then cond_t d (snd p) else [(false, snd p)]) (cond_t c st)
  | ROr c d => flat_map (fun p : bool * store => if fst p then [(true, snd p)] else cond_t d (snd p)) (cond_t c st)
  end.

Definition goal := store -> list store.

(* if_(C, Then, Else) *)
Definition ans_if (c : rcond) (th el : goal) : goal :=
  fun st => flat_map (fun p : bool * store => if fst p then th (snd p) else el (snd p)) (cond_t c st).

(* call(C, true) / call(C, false) *)
Definition call_t (c : rcond) (truth : bool) : goal :=
  fun st => map snd (filter (fun p : bool * store => Bool.eqb (fst p) truth) (cond_t c st)).

Definition conj (g h : goal) : goal := fun st => flat_map h (g st).
Definition disj (g h : goal) : goal := fun st => g st ++ h st.

(* ( call(C, true), Then ; call(C, false), Else ) *)
Definition ans_disj (c : rcond) (th el : goal) : goal :=
  disj (conj (call_t c true) th) (conj (call_t c false) el).

(* the condition and its negation as plain goals with =/2 and dif/2 *)
Fixpoint pos (c : rcond) : goal :=
  match c with
  | REq a b => unify_g a b
  | RDif a b => dif_g a b
  | RAnd c d => conj (pos c) (pos d)
  | ROr c d => disj (pos c) (pos d)
  end.
Fixpoint neg (c : rcond) : goal :=
  match c with
  | REq a b => dif_g a b
  | RDif a b => unify_g a b
  | RAnd c d => disj (neg c) (neg d)
  | ROr c d => conj (neg c) (neg d)
  end.
(* ( Cond, Then ; not Cond, Else ) *)
Definition ans_plain (c : rcond) (th el : goal) : goal :=
  disj (conj (pos c) th) (conj (neg c) el).

(* ------------------------------------------------------------------ list predicates *)
(* tfilter(=(X), Es, Fs): the elements kept, per answer *)
Fixpoint tfilter_m (x : term) (l : list term) (st : store) : list (list term * store) :=
  match l with
  | [] => [([], st)]
  | e :: es =>
      flat_map (fun p : bool * store => map (fun q : list term * store => (if fst p then e :: fst q else fst q, snd q)) (tfilter_m x es (snd p)))
               (eq_t x e st)
  end.

(* tpartition(=(X), Es, Ts, Fs) *)
Fixpoint tpartition_m (x : term) (l : list term) (st : store) : list ((list term * list term) * store) :=
  match l with
  | [] => [(([], []), st)]
  | e :: es =>
      flat_map (fun p : bool * store => map (fun q : (list term * list term) * store => (if fst p then (e :: fst (fst q), snd (fst q)) else (fst (fst q), e :: snd (fst q)), snd q))
                             (tpartition_m x es (snd p)))
               (eq_t x e st)
  end.

(* memberd_t(E, Xs, T):  i_memberd_t([X|Xs], E, T) :- if_(X = E, T = true, i_memberd_t(Xs, E, T)) *)
Fixpoint memberd_m (e : term) (l : list term) (st : store) : list (bool * store) :=
  match l with
  | [] => [(false, st)]
  | x :: xs => flat_map (fun p : bool * store => if fst p then [(true, snd p)] else memberd_m e xs (snd p)) (eq_t x e st)
  end.

(* tmember(=(X), Es):  tmember(P_2, [X|Xs]) :- if_(call(P_2, X), true, tmember(P_2, Xs)) *)
Fixpoint tmember_m (x : term) (l : list term) (st : store) : list store :=
  match l with
  | [] => []
  | e :: es => flat_map (fun p : bool * store => if fst p then [snd p] else tmember_m x es (snd p)) (eq_t x e st)
  end.

Definition a_true : term := Atom [116; 114; 117; 101]%N.
Definition a_false : term := Atom [102; 97; 108; 115; 101]%N.
Definition a_then : term := Atom [116; 104; 101; 110]%N.
Definition a_else : term := Atom [101; 108; 115; 101]%N.
Definition tbool (b : bool) : term := if b then a_true else a_false.

(* ------------------------------------------------------------------ the cases of the correspondence *)
(* output variables *)
Definition o1 : N := 10%N.
Definition o2 : N := 11%N.

Inductive core :=
| KIf (c : rcond)               (* if_(C, R = then, R = else) *)
| KDisj (c : rcond)             (* ( call(C,true), R = then ; call(C,false), R = else ) *)
| KPlain (c : rcond)            (* ( C+, R = then ; C-, R = else ) with =/2 and dif/2 *)
| KTfilter (x : term) (l : list term)      (* tfilter(=(X), L, O1) *)
| KTpartition (x : term) (l : list term)   (* tpartition(=(X), L, O1, O2) *)
| KMemberd (e : term) (l : list term)      (* memberd_t(E, L, O1) *)
| KTmember (x : term) (l : list term).     (* tmember(=(X), L) *)

Definition run_core (k : core) : goal :=
  match k with
  | KIf c => ans_if c (unify_g (Var o1) a_then) (unify_g (Var o1) a_else)
  | KDisj c => ans_disj c (unify_g (Var o1) a_then) (unify_g (Var o1) a_else)
  | KPlain c => ans_plain c (unify_g (Var o1) a_then) (unify_g (Var o1) a_else)
  | KTfilter x l => fun st => flat_map (fun p => unify_g (Var o1) (tlist (fst p)) (snd p)) (tfilter_m x l st)
  | KTpartition x l => fun st => flat_map (fun p => conj (unify_g (Var o1) (tlist (fst (fst p)))) (unify_g (Var o2) (tlist (snd (fst p)))) (snd p))
                                          (tpartition_m x l st)
  | KMemberd e l => fun st => flat_map (fun p => unify_g (Var o1) (tbool (fst p)) (snd p)) (memberd_m e l st)
  | KTmember x l => tmember_m x l
  end.

Definition outs (k : core) : list N :=
  match k with
  | KTpartition _ _ => [o1; o2]
  | KTmember _ _ => []
  | _ => [o1]
  end.

Fixpoint bind_all (bs : list (N * term)) : goal :=
  match bs with
  | [] => fun st => [st]
  | (x, v) :: r => conj (unify_g (Var x) v) (bind_all r)
  end.

(* Pre-bindings, Core, Post-bindings *)
Definition run_case (pre : list (N * term)) (k : core) (post : list (N * term)) : list store :=
  conj (bind_all pre) (conj (run_core k) (bind_all post)) empty.

(* ------------------------------------------------------------------ observables *)
(* an answer as shown: values of the query variables and the residual dif pairs (those still unifiable), under the mgu *)
Definition answer := (list term * list (term * term))%type.

Definition show (qv : list N) (st : store) : answer :=
  match solve (fst st) with
  | None => ([], [])
  | Some s => (bindings s qv,
               map (fun p => (apply s (fst p), apply s (snd p))) (filter (fun p => unifiable s (fst p) (snd p)) (snd st)))
  end.

(* same answer up to renaming of variables and logical equivalence of the residual dif sets *)
Definition answer_eqb (x y : answer) : bool :=
  tlist_eqb (canon (fst x)) (canon (fst y)) &&
  difs_equiv (ren_pairs (lvars (fst x)) (snd x)) (ren_pairs (lvars (fst y)) (snd y)).

Fixpoint remove_first (x : answer) (l : list answer) : option (list answer) :=
  match l with
  | [] => None
  | y :: r => if answer_eqb x y then Some r
              else match remove_first x r with Some r' => Some (y :: r') | None => None end
  end.

(* equal as multisets of answers *)
Fixpoint same_answers (l m : list answer) : bool :=
  match l with
  | [] => match m with [] => true | _ => false end
  | x :: r => match remove_first x m with Some m' => same_answers r m' | None => false end
  end.

Definition qvars (k : core) : list N := [0; 1; 2]%N ++ outs k.

Definition model_answers (pre : list (N * term)) (k : core) (post : list (N * term)) : list answer :=
  map (show (qvars k)) (run_case pre k post).

(* ------------------------------------------------------------------ direct evaluation on ground instances *)
Definition valuation := N -> term.

Fixpoint ceval (g : valuation) (c : rcond) : bool :=
  match c with
  | REq a b => term_eqb (inst g a) (inst g b)
  | RDif a b => negb (term_eqb (inst g a) (inst g b))
  | RAnd c d => ceval g c && ceval g d
  | ROr c d => ceval g c || ceval g d
  end.

(* the output tuples a ground instance of the inputs must come with *)
Definition expected (k : core) (g : valuation) : list (list term) :=
  match k with
  | KIf c | KDisj c | KPlain c => [[if ceval g c then a_then else a_else]]
  | KTfilter x l => [[tlist (filter (term_eqb (inst g x)) (map (inst g) l))]]
  | KTpartition x l => [[tlist (filter (term_eqb (inst g x)) (map (inst g) l));
                         tlist (filter (fun e => negb (term_eqb (inst g x) e)) (map (inst g) l))]]
  | KMemberd e l => [[tbool (existsb (term_eqb (inst g e)) (map (inst g) l))]]
  | KTmember x l => if existsb (term_eqb (inst g x)) (map (inst g) l) then [[]] else []
  end.

Definition af (t : term) : term := Cmp [102%N] [t].
Definition a_a : term := Atom [97%N].
Definition a_b : term := Atom [98%N].
(* the (subterm-closed) universe of the ground instances *)
Definition universe : list term := [a_a; a_b; af a_a; af a_b].

Definition in_universe (t : term) : bool := existsb (term_eqb t) universe.

Fixpoint assignments (vs : list N) : list (list (N * term)) :=
  match vs with
  | [] => [[]]
  | v :: r => flat_map (fun h => map (fun u => (v, u) :: h) universe) (assignments r)
  end.

(* the same, the variables of [pinned] taking the single value a *)
Fixpoint assignments_p (vs : list N) (pinned : list N) : list (list (N * term)) :=
  match vs with
  | [] => [[]]
  | v :: r => flat_map (fun h => map (fun u => (v, u) :: h) (if existsb (N.eqb v) pinned then [a_a] else universe))
                       (assignments_p r pinned)
  end.

Fixpoint cvars (c : rcond) : list N :=
  match c with
  | REq a b | RDif a b => vars a ++ vars b
  | RAnd c d | ROr c d => cvars c ++ cvars d
  end.
Definition core_vars (k : core) : list N :=
  match k with
  | KIf c | KDisj c | KPlain c => cvars c
  | KTfilter x l | KTpartition x l | KMemberd x l | KTmember x l => vars x ++ flat_map vars l
  end.
(* the inputs among X,Y,Z that the case does not mention: every answer must leave them free, so one value stands for all *)
Definition unused_inputs (pre : list (N * term)) (k : core) (post : list (N * term)) : list N :=
  let used := map fst pre ++ map fst post ++ core_vars k in
  filter (fun v => negb (existsb (N.eqb v) used)) [0; 1; 2]%N.

Definition val_of (h : list (N * term)) : valuation :=
  fun x => match lookup x h with Some t => t | None => Var x end.

Fixpoint nodupN (l : list N) : list N :=
  match l with
  | [] => []
  | x :: r => if existsb (N.eqb x) r then nodupN r else x :: nodupN r
  end.

Definition occurrences (v : N) (a : answer) : nat :=
  List.length (filter (N.eqb v) (lvars (fst a) ++ flat_map (fun p => vars (fst p) ++ vars (snd p)) (snd a))).

(* the variables of an answer that are the whole value of an unused input and occur nowhere else *)
Definition pinned_of (a : answer) (unused : list N) : list N :=
  flat_map (fun i => match nth_error (fst a) (N.to_nat i) with
                     | Some (Var v) => if Nat.eqb (occurrences v a) 1 then [v] else []
                     | _ => []
                     end) unused.

(* the ground instances (over the universe, inputs X,Y,Z first) of one shown answer *)
Definition instances (unused : list N) (a : answer) : list (list term) :=
  flat_map (fun h => let g := val_of h in
                     let tuple := map (inst g) (fst a) in
                     if forallb in_universe (firstn 3 tuple)
                        && forallb (fun p => negb (term_eqb (inst g (fst p)) (inst g (snd p)))) (snd a)
                     then [tuple] else [])
           (assignments_p (nodupN (lvars (fst a))) (pinned_of a unused)).

Definition holds_bindings (g : valuation) (bs : list (N * term)) : bool :=
  forallb (fun p => term_eqb (g (fst p)) (snd p)) bs.

Definition spec_instances (pre : list (N * term)) (k : core) (post : list (N * term)) : list (list term) :=
  flat_map (fun h => let g := val_of h in
                     if holds_bindings g pre && holds_bindings g post
                     then map (fun o => map g [0; 1; 2]%N ++ o) (expected k g) else [])
           (assignments_p [0; 1; 2]%N (unused_inputs pre k post)).

(* the same comparison organised by input assignment (each ground instance of the inputs X,Y,Z is numbered) *)
Fixpoint uidx (t : term) (l : list term) (i : N) : N :=
  match l with
  | [] => i
  | u :: r => if term_eqb t u then i else uidx t r (N.succ i)
  end.
Definition tuple_index (ins : list term) : N := fold_left (fun acc t => (acc * 5 + uidx t universe 0)%N) ins 0%N.

Definition indexed (tuple : list term) : N * list term := (tuple_index (firstn 3 tuple), skipn 3 tuple).

(* for every assignment of the inputs: its number and the output tuples expected with it (none when a binding of the case
   does not hold) *)
Definition spec_indexed (pre : list (N * term)) (k : core) (post : list (N * term)) : list (N * list (list term)) :=
  map (fun h => let g := val_of h in
                (tuple_index (map g [0; 1; 2]%N),
                 if holds_bindings g pre && holds_bindings g post then expected k g else []))
      (assignments_p [0; 1; 2]%N (unused_inputs pre k post)).

(* exact: every expected ground instance is covered by exactly one answer and nothing else is covered;
   otherwise: covered at least once and nothing else is covered *)
Definition ground_ok (exact : bool) (spec : list (N * list (list term))) (got : list (N * list term)) : bool :=
  forallb (fun sp : N * list (list term) =>
             let mine := filter (fun t : N * list term => N.eqb (fst t) (fst sp)) got in
             forallb (fun t : N * list term => existsb (tlist_eqb (snd t)) (snd sp)) mine &&
             forallb (fun o => let c := List.length (filter (fun t : N * list term => tlist_eqb (snd t) o) mine) in
                               if exact then Nat.eqb c 1 else Nat.ltb 0 c) (snd sp)) spec
  && forallb (fun t : N * list term => existsb (fun sp : N * list (list term) => N.eqb (fst sp) (fst t)) spec) got.

Definition is_exact (k : core) : bool := match k with KPlain _ => false | _ => true end.

(* what is decided for one case from the implementation's answers *)
Definition chk_model (pre : list (N * term)) (k : core) (post : list (N * term)) (impl : list answer) : bool :=
  match k with
  | KPlain _ => true      (* the plain disjunction may show overlapping answers: only its ground instances are compared *)
  | _ => same_answers (model_answers pre k post) impl
  end.
Definition chk_ground (pre : list (N * term)) (k : core) (post : list (N * term)) (impl : list answer) : bool :=
  ground_ok (is_exact k) (spec_indexed pre k post) (map indexed (flat_map (instances (unused_inputs pre k post)) impl)).
Definition check_case (pre : list (N * term)) (k : core) (post : list (N * term)) (impl : list answer) : bool :=
  chk_model pre k post impl && chk_ground pre k post impl.

(* the model against its own direct evaluation (evaluated by the check as a cross-validation of the model) *)
Definition model_ground_ok (pre : list (N * term)) (k : core) (post : list (N * term)) : bool :=
  chk_ground pre k post (model_answers pre k post).

(* monomorphic constructors for the literals written by the check (they elaborate twice as fast as list notations) *)
Definition T0 : list term := [].
Definition TC : term -> list term -> list term := cons.
Definition PP : term -> term -> term * term := pair.
Definition P0 : list (term * term) := [].
Definition PC : term * term -> list (term * term) -> list (term * term) := cons.
Definition AN : list term -> list (term * term) -> answer := pair.
Definition A0 : list answer := [].
Definition AC : answer -> list answer -> list answer := cons.
Definition B0 : list (N * term) := [].
Definition BC (x : N) (t : term) (r : list (N * term)) : list (N * term) := (x, t) :: r.
Definition vx : term := Var 0. Definition vy : term := Var 1. Definition vz : term := Var 2.
Definition vo1 : term := Var o1. Definition vo2 : term := Var o2.
Definition w0 : term := Var 0. Definition w1 : term := Var 1. Definition w2 : term := Var 2. Definition w3 : term := Var 3.
Definition w4 : term := Var 4. Definition w5 : term := Var 5. Definition w6 : term := Var 6. Definition w7 : term := Var 7.
Definition tcons' : term -> term -> term := tcons.

(* ------------------------------------------------------------------ compact text form of a case
   (Coq elaborates one string literal much faster than the same case written with constructors; the check writes its
   cases in this form and cross-checks a sample against the constructor form)

   terms, prefix:   a b  f<t>  x y z (Var 0 1 2)  p q (the outputs Var 10, Var 11)  0..9 (Var 0..9 in answers)
                    T F (true false)  t e (then else)  n ([])  c<h><t> (list cell)
   conditions:      =<t><t>  #<t><t> (dif)  &<c><c>  |<c><c>
   case:            <pre> / <kind><core> / <post> / <answer> ; <answer> ; ...
                    pre, post: <var><value>...      answer: <bindings> , <dif terms, two per constraint>
                    kind: I if_  D reified disjunction  P plain disjunction (then a condition)
                          L tfilter  R tpartition  M memberd_t  E tmember (then the term X and the elements) *)
Local Open Scope char_scope.

Definition step_term (c : ascii) (st : option (list term)) : option (list term) :=
  match st with
  | None => None
  | Some stk =>
      match c with
      | "a" => Some (a_a :: stk) | "b" => Some (a_b :: stk)
      | "x" => Some (Var 0 :: stk) | "y" => Some (Var 1 :: stk) | "z" => Some (Var 2 :: stk)
      | "p" => Some (Var o1 :: stk) | "q" => Some (Var o2 :: stk)
      | "0" => Some (Var 0 :: stk) | "1" => Some (Var 1 :: stk) | "2" => Some (Var 2 :: stk) | "3" => Some (Var 3 :: stk)
      | "4" => Some (Var 4 :: stk) | "5" => Some (Var 5 :: stk) | "6" => Some (Var 6 :: stk) | "7" => Some (Var 7 :: stk)
      | "8" => Some (Var 8 :: stk) | "9" => Some (Var 9 :: stk)
      | "T" => Some (a_true :: stk) | "F" => Some (a_false :: stk)
      | "t" => Some (a_then :: stk) | "e" => Some (a_else :: stk)
      | "n" => Some (tnil :: stk)
      | "f" => match stk with t :: r => Some (af t :: r) | _ => None end
      | "c" => match stk with h :: t :: r => Some (tcons h t :: r) | _ => None end
      | _ => None
      end
  end.
Definition parse_terms (s : list ascii) : option (list term) := fold_right step_term (Some []) s.

Definition step_cond (c : ascii) (st : option (list term * list rcond)) : option (list term * list rcond) :=
  match st with
  | None => None
  | Some (ts, cs) =>
      match c with
      | "=" => match ts with a :: b :: r => Some (r, REq a b :: cs) | _ => None end
      | "#" => match ts with a :: b :: r => Some (r, RDif a b :: cs) | _ => None end
      | "&" => match cs with a :: b :: r => Some (ts, RAnd a b :: r) | _ => None end
      | "|" => match cs with a :: b :: r => Some (ts, ROr a b :: r) | _ => None end
      | _ => match step_term c (Some ts) with Some ts' => Some (ts', cs) | None => None end
      end
  end.
Definition parse_cond (s : list ascii) : option rcond :=
  match fold_right step_cond (Some ([], [])) s with
  | Some ([], [c]) => Some c
  | _ => None
  end.

Fixpoint split_on (sep : ascii) (s : list ascii) : list (list ascii) :=
  match s with
  | [] => [[]]
  | c :: r => let rest := split_on sep r in
              if Ascii.eqb c sep then [] :: rest
              else match rest with h :: t => (c :: h) :: t | [] => [[c]] end
  end.

Fixpoint pair_up {A : Type} (l : list A) : option (list (A * A)) :=
  match l with
  | [] => Some []
  | a :: b :: r => match pair_up r with Some p => Some ((a, b) :: p) | None => None end
  | _ => None
  end.

Fixpoint to_bindings (l : list (term * term)) : option (list (N * term)) :=
  match l with
  | [] => Some []
  | (Var x, v) :: r => match to_bindings r with Some b => Some ((x, v) :: b) | None => None end
  | _ => None
  end.

Definition parse_bindings (s : list ascii) : option (list (N * term)) :=
  match parse_terms s with
  | Some ts => match pair_up ts with Some ps => to_bindings ps | None => None end
  | None => None
  end.

Definition parse_core (s : list ascii) : option core :=
  match s with
  | "I" :: r => option_map KIf (parse_cond r)
  | "D" :: r => option_map KDisj (parse_cond r)
  | "P" :: r => option_map KPlain (parse_cond r)
  | k :: r =>
      match parse_terms r with
      | Some (x :: l) =>
          match k with
          | "L" => Some (KTfilter x l) | "R" => Some (KTpartition x l) | "M" => Some (KMemberd x l) | "E" => Some (KTmember x l)
          | _ => None
          end
      | _ => None
      end
  | [] => None
  end.

Definition parse_answer (s : list ascii) : option answer :=
  match split_on "," s with
  | [b; d] => match parse_terms b, parse_terms d with
              | Some bs, Some ds => match pair_up ds with Some ps => Some (bs, ps) | None => None end
              | _, _ => None
              end
  | _ => None
  end.

Fixpoint parse_answers (l : list (list ascii)) : option (list answer) :=
  match l with
  | [] => Some []
  | s :: r => match parse_answer s, parse_answers r with
              | Some a, Some rs => Some (a :: rs)
              | _, _ => None
              end
  end.

Definition decode (s : string) : option (list (N * term) * core * list (N * term) * list answer) :=
  match split_on "/" (list_ascii_of_string s) with
  | [pre; k; post; ans] =>
      match parse_bindings pre, parse_core k, parse_bindings post,
            (match ans with [] => Some [] | _ => parse_answers (split_on ";" ans) end) with
      | Some p, Some c, Some q, Some a => Some (p, c, q, a)
      | _, _, _, _ => None
      end
  | _ => None
  end.

Definition on_case (f : list (N * term) -> core -> list (N * term) -> list answer -> bool) (s : string) : bool :=
  match decode s with
  | Some (p, c, q, a) => f p c q a
  | None => false
  end.
Definition check_case_s : string -> bool := on_case check_case.
Definition chk_model_s : string -> bool := on_case chk_model.
Definition chk_ground_s : string -> bool := on_case chk_ground.
Definition model_ground_ok_s : string -> bool := on_case (fun p c q _ => model_ground_ok p c q).
