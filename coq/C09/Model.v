(* C09 -- dynamic predicates follow the logical update view.

   Impl-mirror of the generation-stamp machinery of scryer-prolog:
     src/machine/dispatch.rs   find_living_dynamic_else / find_living_dynamic /
                               dynamic_external_of_clause_is_valid   (the liveness test
                               `birth < cc && Death::Finite(cc) <= death`), the DynamicElse /
                               DynamicInternalElse / DynamicIndexedChoice handlers (cc := global_clock at the
                               first entry of a call, cc kept in the choice point, look-ahead for a second
                               living clause that decides between try/retry and no-choice-point/trust)
     src/machine/loader.rs     assertion stamps birth := global_clock and then ticks the clock,
                               retraction ticks the clock after stamping
     src/machine/compile.rs    retract_dynamic_clause: death := Finite(global_clock); the clause stays in the chain;
                               append_compiled_clause / prepend_compiled_clause: chain grows at either end
     src/lib/builtins.pl       retract/1 = findall of the matching clauses at call time, then one
                               '$retract_clause' per solution if the clause is still there; retractall/1 = retract + fail
   and the specification (snapshot semantics) it is proved equal to in Proofs.v.

   A clause is p(Key, Uid): Key is a constant or a variable (None), Uid a unique number (it plays the role of
   the code address of the clause in the implementation and is the payload observed by the drivers).
   First-argument indexing and head unification are abstracted into `kmatch`.
   No proofs in this file. *)
From Coq Require Import List NArith ZArith Bool.
Import ListNotations.
Open Scope N_scope.

Definition key := option Z.          (* first argument of a clause head / of a call: None = variable *)

Record clause := mkC { uid : N; ckey : key; birth : N; death : option N (* None = Death::Infinity *) }.

(* dispatch.rs: `birth < self.machine_st.cc && Death::Finite(self.machine_st.cc) <= death`
   (derive(PartialOrd) on `enum Death { Finite(usize), Infinity }` makes every Finite smaller than Infinity) *)
Definition alive (cc : N) (c : clause) : bool :=
  (birth c <? cc) && match death c with None => true | Some d => cc <=? d end.

(* unification of the first argument of a call with the first argument of a clause head *)
Definition kmatch (q k : key) : bool :=
  match q, k with Some a, Some b => Z.eqb a b | _, _ => true end.

Definition vis (cc : N) (q : key) (c : clause) : bool := alive cc c && kmatch q (ckey c).

Definition upd {A : Type} (f : N -> A) (k : N) (v : A) : N -> A := fun x => if x =? k then v else f x.

(* ------------------------------------------------------------------ histories *)
Inductive op :=
| Open (i : N) (p : N) (q : key)      (* start the call p(q,T) as iterator i (captures cc) *)
| Next (i : N)                        (* ask iterator i for its next solution *)
| Close (i : N)                       (* cut iterator i (also a retract generator) away *)
| Assertz (p : N) (k : key)           (* assertz(p(k,U)) with U the next unused uid *)
| Asserta (p : N) (k : key)
| RetractFirst (p : N) (q : key)      (* once(retract(p(q,T))) *)
| RetractAll (p : N) (q : key)        (* retractall(p(q,_)) *)
| ROpen (i : N) (p : N) (q : key)     (* start retract(p(q,T)) as a generator *)
| RNext (i : N)                       (* backtrack into that retract/1 *)
| Listing (p : N) (q : key).          (* findall(T, clause(p(q,T), true), L)  /  findall(T, p(q,T), L) *)

Inductive obs := ONone | OVal (v : option N) | OList (l : list N).

(* ------------------------------------------------------------------ impl-mirror *)
(* an open call: its predicate, call pattern, the clock value captured at its first entry (kept in the
   choice point) and the uid (address) of the chain element where the next search starts *)
Record iter := mkI { ipred : N; ipat : key; icc : N; ipos : N }.

Record mst := mkM {
  chains : N -> list clause;          (* per predicate: the chain of DynamicElse-headed clauses, never unlinked *)
  clock : N;                          (* machine_st.global_clock *)
  nextu : N;                          (* next unused uid / code address *)
  its : N -> option iter;             (* the choice points of open dynamic calls *)
  rits : N -> N * list N              (* open retract/1 generators: predicate and remaining solution list *)
}.

(* follow the chain from the element with address u *)
Fixpoint from (u : N) (l : list clause) : list clause :=
  match l with
  | [] => []
  | c :: r => if uid c =? u then l else from u r
  end.

(* find_living_dynamic_else + head unification: the first clause that is alive for cc and matches, and what follows it *)
Fixpoint first_vis (cc : N) (q : key) (l : list clause) : option (clause * list clause) :=
  match l with
  | [] => None
  | c :: r => if vis cc q c then Some (c, r) else first_vis cc q r
  end.

Definition kill (c : clause) (d : N) : clause := mkC (uid c) (ckey c) (birth c) (Some d).

(* retraction loop: every selected clause (only the first one when `one`) gets death := Finite(clock),
   and the clock ticks after each retraction *)
Fixpoint stamp (sel : clause -> bool) (one : bool) (clk : N) (l : list clause) : list clause * N :=
  match l with
  | [] => ([], clk)
  | c :: r =>
      if sel c then
        if one then (kill c clk :: r, N.succ clk)
        else let '(r', k) := stamp sel one (N.succ clk) r in (kill c clk :: r', k)
      else let '(r', k) := stamp sel one clk r in (c :: r', k)
  end.

Definition visible_uids (cc : N) (q : key) (l : list clause) : list N := map uid (filter (vis cc q) l).

Definition set_it (s : mst) (i : N) (v : option iter) : mst :=
  mkM (chains s) (clock s) (nextu s) (upd (its s) i v) (rits s).

Definition set_chain (s : mst) (p : N) (l : list clause) (clk : N) : mst :=
  mkM (upd (chains s) p l) clk (nextu s) (its s) (rits s).

(* what remains of the choice point after the clause before `rest` was selected: retry_me_else when the
   look-ahead finds another living clause, trust_me / no choice point otherwise *)
Definition next_iter (it : iter) (rest : list clause) : option iter :=
  match first_vis (icc it) (ipat it) rest, rest with
  | Some _, h :: _ => Some (mkI (ipred it) (ipat it) (icc it) (uid h))
  | _, _ => None
  end.

Definition mstep (s : mst) (o : op) : mst * obs :=
  match o with
  | Open i p q =>
      (set_it s i (match chains s p with
                   | [] => None
                   | c :: _ => Some (mkI p q (clock s) (uid c))
                   end), ONone)
  | Next i =>
      match its s i with
      | None => (s, OVal None)
      | Some it =>
          match first_vis (icc it) (ipat it) (from (ipos it) (chains s (ipred it))) with
          | None => (set_it s i None, OVal None)
          | Some (c, rest) => (set_it s i (next_iter it rest), OVal (Some (uid c)))
          end
      end
  | Close i =>
      (mkM (chains s) (clock s) (nextu s) (upd (its s) i None) (upd (rits s) i (0, [])), ONone)
  | Assertz p k =>
      (mkM (upd (chains s) p (chains s p ++ [mkC (nextu s) k (clock s) None]))
           (N.succ (clock s)) (N.succ (nextu s)) (its s) (rits s), OVal (Some (nextu s)))
  | Asserta p k =>
      (mkM (upd (chains s) p (mkC (nextu s) k (clock s) None :: chains s p))
           (N.succ (clock s)) (N.succ (nextu s)) (its s) (rits s), OVal (Some (nextu s)))
  | RetractFirst p q =>
      let '(l', k) := stamp (vis (clock s) q) true (clock s) (chains s p) in
      (set_chain s p l' k,
       OVal (match first_vis (clock s) q (chains s p) with Some (c, _) => Some (uid c) | None => None end))
  | RetractAll p q =>
      let '(l', k) := stamp (vis (clock s) q) false (clock s) (chains s p) in
      (set_chain s p l' k, ONone)
  | ROpen i p q =>
      (mkM (chains s) (clock s) (nextu s) (its s) (upd (rits s) i (p, visible_uids (clock s) q (chains s p))), ONone)
  | RNext i =>
      match rits s i with
      | (p, u :: us) =>
          let '(l', k) := stamp (fun c => (uid c =? u) && alive (clock s) c) false (clock s) (chains s p) in
          (mkM (upd (chains s) p l') k (nextu s) (its s) (upd (rits s) i (p, us)), OVal (Some u))
      | (_, []) => (s, OVal None)
      end
  | Listing p q => (s, OList (visible_uids (clock s) q (chains s p)))
  end.

Fixpoint mrun (s : mst) (h : list op) : list obs :=
  match h with
  | [] => []
  | o :: r => let '(s', ob) := mstep s o in ob :: mrun s' r
  end.

Fixpoint mfinal (s : mst) (h : list op) : mst :=
  match h with
  | [] => s
  | o :: r => mfinal (fst (mstep s o)) r
  end.

(* ------------------------------------------------------------------ specification: snapshots *)
(* the database is a plain list of clauses (uid, key) per predicate, without stamps; a call copies the
   matching clauses when it starts and then only consumes its copy *)
Record sst := mkS {
  db : N -> list (N * key);
  snext : N;
  sits : N -> list N;                 (* remaining part of the snapshot of iterator i *)
  srits : N -> N * list N
}.

Definition kfilter (q : key) (l : list (N * key)) : list (N * key) := filter (fun x => kmatch q (snd x)) l.

Fixpoint remove_first {A : Type} (f : A -> bool) (l : list A) : list A :=
  match l with
  | [] => []
  | x :: r => if f x then r else x :: remove_first f r
  end.

Definition sstep (t : sst) (o : op) : sst * obs :=
  match o with
  | Open i p q => (mkS (db t) (snext t) (upd (sits t) i (map fst (kfilter q (db t p)))) (srits t), ONone)
  | Next i =>
      match sits t i with
      | [] => (t, OVal None)
      | u :: r => (mkS (db t) (snext t) (upd (sits t) i r) (srits t), OVal (Some u))
      end
  | Close i => (mkS (db t) (snext t) (upd (sits t) i []) (upd (srits t) i (0, [])), ONone)
  | Assertz p k => (mkS (upd (db t) p (db t p ++ [(snext t, k)])) (N.succ (snext t)) (sits t) (srits t), OVal (Some (snext t)))
  | Asserta p k => (mkS (upd (db t) p ((snext t, k) :: db t p)) (N.succ (snext t)) (sits t) (srits t), OVal (Some (snext t)))
  | RetractFirst p q =>
      (mkS (upd (db t) p (remove_first (fun x => kmatch q (snd x)) (db t p))) (snext t) (sits t) (srits t),
       OVal (match kfilter q (db t p) with x :: _ => Some (fst x) | [] => None end))
  | RetractAll p q =>
      (mkS (upd (db t) p (filter (fun x => negb (kmatch q (snd x))) (db t p))) (snext t) (sits t) (srits t), ONone)
  | ROpen i p q => (mkS (db t) (snext t) (sits t) (upd (srits t) i (p, map fst (kfilter q (db t p)))), ONone)
  | RNext i =>
      match srits t i with
      | (p, u :: us) =>
          (mkS (upd (db t) p (filter (fun x => negb (fst x =? u)) (db t p))) (snext t) (sits t) (upd (srits t) i (p, us)),
           OVal (Some u))
      | (_, []) => (t, OVal None)
      end
  | Listing p q => (t, OList (map fst (kfilter q (db t p))))
  end.

Fixpoint srun (t : sst) (h : list op) : list obs :=
  match h with
  | [] => []
  | o :: r => let '(t', ob) := sstep t o in ob :: srun t' r
  end.

(* what one call delivers: the answers to the `Next i` steps of a history, and the first n answers a snapshot gives *)
Definition touches (i : N) (o : op) : bool :=
  match o with Open j _ _ => j =? i | Close j => j =? i | _ => false end.
Definition quiet (i : N) (h : list op) : bool := forallb (fun o => negb (touches i o)) h.
Definition is_next (i : N) (o : op) : bool := match o with Next j => j =? i | _ => false end.
Definition count_next (i : N) (h : list op) : nat := List.length (filter (is_next i) h).

Fixpoint answers (i : N) (h : list op) (obl : list obs) : list (option N) :=
  match h, obl with
  | o :: r, ob :: r' =>
      if is_next i o then (match ob with OVal v => v | _ => None end) :: answers i r r' else answers i r r'
  | _, _ => []
  end.

Fixpoint deliver (snap : list N) (n : nat) : list (option N) :=
  match n with
  | O => []
  | S m => match snap with [] => None :: deliver [] m | u :: r => Some u :: deliver r m end
  end.

(* the abstraction: what a call started now would see, and what every open call still has to deliver *)
Definition payload (c : clause) : N * key := (uid c, ckey c).
Definition living (s : mst) (p : N) : list (N * key) := map payload (filter (alive (clock s)) (chains s p)).
Definition remaining (s : mst) (i : N) : list N :=
  match its s i with
  | None => []
  | Some it => visible_uids (icc it) (ipat it) (from (ipos it) (chains s (ipred it)))
  end.
Definition abs (s : mst) : sst := mkS (living s) (nextu s) (remaining s) (rits s).

(* well-formed machine states (every state reachable from a loaded program is one, see Proofs.v):
   stamps lie in the past, uids are below the allocation counter and unique within a chain, the clock value of
   every open call is not in the future *)
Definition old (clk : N) (c : clause) : Prop :=
  birth c < clk /\ (forall d, death c = Some d -> d < clk).

Definition wf (s : mst) : Prop :=
  (forall p, Forall (old (clock s)) (chains s p)) /\
  (forall p, Forall (fun u => u < nextu s) (map uid (chains s p))) /\
  (forall p, NoDup (map uid (chains s p))) /\
  (forall i it, its s i = Some it -> icc it <= clock s /\ ipos it < nextu s).

(* ------------------------------------------------------------------ initial states *)
(* consulting the clauses of a dynamic predicate: all get birth := clock, then the clock ticks (compile.rs) *)
Definition load (s : mst) (p : N) (cl : list (N * key)) : mst :=
  mkM (upd (chains s) p (map (fun x => mkC (fst x) (snd x) (clock s) None) cl)) (N.succ (clock s)) (nextu s) (its s) (rits s).

Definition empty_mst (nu : N) : mst := mkM (fun _ => []) 0 nu (fun _ => None) (fun _ => (0, [])).

Definition init_state (l0 l1 : list (N * key)) (nu : N) : mst := load (load (empty_mst nu) 0 l0) 1 l1.

Fixpoint nodupb (l : list N) : bool :=
  match l with [] => true | x :: r => negb (existsb (N.eqb x) r) && nodupb r end.

Definition init_ok (l0 l1 : list (N * key)) (nu : N) : bool :=
  nodupb (map fst l0) && nodupb (map fst l1) && forallb (fun x => fst x <? nu) (l0 ++ l1).

(* ------------------------------------------------------------------ driver programs *)
(* A driver is the conjunction  G_0, G_1, ..., G_n, fail  executed by chronological backtracking; each G_k logs
   what it observes as (k, obs).  This is the program shape the correspondence check generates in Prolog. *)
Inductive goal :=
| GGen (p : N) (q : key)          (* ( p(q,T), note(k,T) ; note(k,none), fail ) *)
| GOnce (p : N) (q : key)         (* ( p(q,T) -> note(k,T) ; note(k,none) ) *)
| GRetractGen (p : N) (q : key)   (* ( retract(p(q,T)), note(k,T) ; note(k,none), fail ) *)
| GOp (o : op).                   (* a deterministic step: Assertz, Asserta, RetractFirst, RetractAll, Listing *)

Record xst := mkX {
  xm : mst;
  xlog : list (N * obs);      (* newest first *)
  xops : list (N * op);       (* the history performed so far (with the goal index of every step), newest first *)
  xid : N;                    (* next unused iterator id *)
  xout : bool                 (* fuel ran out *)
}.

Definition logged (o : op) : bool :=
  match o with Open _ _ _ | ROpen _ _ _ | Close _ => false | _ => true end.

(* the log entries a history produces: one (goal index, observation) per logged step *)
Fixpoint filter_log (kops : list (N * op)) (obl : list obs) : list (N * obs) :=
  match kops, obl with
  | (k, o) :: r, ob :: r' => if logged o then (k, ob) :: filter_log r r' else filter_log r r'
  | _, _ => []
  end.

Definition xdo (x : xst) (k : N) (o : op) : xst * obs :=
  let '(m', ob) := mstep (xm x) o in
  (mkX m' (if logged o then (k, ob) :: xlog x else xlog x) ((k, o) :: xops x) (xid x) (xout x), ob).

Definition xfresh (x : xst) : xst := mkX (xm x) (xlog x) (xops x) (N.succ (xid x)) (xout x).

Fixpoint gen_loop (cont : xst -> xst) (fuel : nat) (k i : N) (retr : bool) (x : xst) : xst :=
  match fuel with
  | O => mkX (xm x) (xlog x) (xops x) (xid x) true
  | S f =>
      let '(x1, ob) := xdo x k (if retr then RNext i else Next i) in
      match ob with
      | OVal (Some _) => gen_loop cont f k i retr (cont x1)
      | _ => x1
      end
  end.

Fixpoint exec (gs : list goal) (k : N) (fuel : nat) (x : xst) : xst :=
  match gs with
  | [] => x                                   (* `fail`: back to the most recent choice point *)
  | g :: rest =>
      let cont := exec rest (N.succ k) fuel in
      match g with
      | GGen p q =>
          let i := xid x in
          gen_loop cont fuel k i false (fst (xdo (xfresh x) k (Open i p q)))
      | GRetractGen p q =>
          let i := xid x in
          gen_loop cont fuel k i true (fst (xdo (xfresh x) k (ROpen i p q)))
      | GOnce p q =>
          let i := xid x in
          let x1 := fst (xdo (xfresh x) k (Open i p q)) in
          let x2 := fst (xdo x1 k (Next i)) in
          cont (fst (xdo x2 k (Close i)))
      | GOp o => cont (fst (xdo x k o))
      end
  end.

Definition run_driver (s0 : mst) (gs : list goal) (fuel : nat) : xst :=
  exec gs 0 fuel (mkX s0 [] [] 0 false).

(* ------------------------------------------------------------------ comparison with the observed log *)
Definition optN_eqb (a b : option N) : bool :=
  match a, b with Some x, Some y => x =? y | None, None => true | _, _ => false end.

Fixpoint listN_eqb (a b : list N) : bool :=
  match a, b with
  | [], [] => true
  | x :: r, y :: r' => (x =? y) && listN_eqb r r'
  | _, _ => false
  end.

Definition obs_eqb (a b : obs) : bool :=
  match a, b with
  | ONone, ONone => true
  | OVal x, OVal y => optN_eqb x y
  | OList x, OList y => listN_eqb x y
  | _, _ => false
  end.

Fixpoint log_eqb (a b : list (N * obs)) : bool :=
  match a, b with
  | [], [] => true
  | (k, o) :: r, (k', o') :: r' => (k =? k') && obs_eqb o o' && log_eqb r r'
  | _, _ => false
  end.

Definition driver_fuel : nat := 200.

Definition model_log (l0 l1 : list (N * key)) (nu : N) (gs : list goal) : list (N * obs) :=
  rev (xlog (run_driver (init_state l0 l1 nu) gs driver_fuel)).

(* the check evaluated for every generated driver: well-formed initial database, the model did not run out
   of fuel, and the implementation's log is the model's log *)
Definition check_run (l0 l1 : list (N * key)) (nu : N) (gs : list goal) (impl_log : list (N * obs)) : bool :=
  let x := run_driver (init_state l0 l1 nu) gs driver_fuel in
  init_ok l0 l1 nu && negb (xout x) && log_eqb (rev (xlog x)) impl_log.

(* ------------------------------------------------------------------ compact input channel
   The correspondence check passes a driver and the implementation's log as one string of printable
   characters (Coq elaborates a string literal much faster than a list literal).  A number v < 90 is the
   character with code 35+v; larger numbers are "}" followed by two base-90 digits.  The token stream is
     nu  n0 (uid key)*n0  n1 (uid key)*n1  ng (kind p key)*ng  <encoded log of the implementation>
   with key 0 = variable, k+1 = constant k; the log is compared in encoded form (enc_log: one token 4*k+tag per event plus its payload). *)
From Coq Require String Ascii.
Import String Ascii.
Fixpoint bytes (s : string) : list N :=
  match s with EmptyString => [] | String c r => N_of_ascii c :: bytes r end.

Fixpoint toks (l : list N) : list N :=
  match l with
  | [] => []
  | b :: r =>
      if b =? 125 then
        match r with
        | h :: lo :: r' => ((h - 35) * 90 + (lo - 35)) :: toks r'
        | _ => []
        end
      else (b - 35) :: toks r
  end.

Definition dec_key (n : N) : key := if n =? 0 then None else Some (Z.of_N (n - 1)).

Fixpoint take_clauses (n : nat) (l : list N) : list (N * key) * list N :=
  match n with
  | O => ([], l)
  | S m =>
      match l with
      | u :: k :: r => let '(xs, r') := take_clauses m r in ((u, dec_key k) :: xs, r')
      | _ => ([], [])
      end
  end.

Definition dec_goal (c p k : N) : goal :=
  let q := dec_key k in
  if c =? 0 then GGen p q else
  if c =? 1 then GOnce p q else
  if c =? 2 then GRetractGen p q else
  if c =? 3 then GOp (Assertz p q) else
  if c =? 4 then GOp (Asserta p q) else
  if c =? 5 then GOp (RetractFirst p q) else
  if c =? 6 then GOp (RetractAll p q) else GOp (Listing p q).

Fixpoint take_goals (n : nat) (l : list N) : list goal * list N :=
  match n with
  | O => ([], l)
  | S m =>
      match l with
      | c :: p :: k :: r => let '(gs, r') := take_goals m r in (dec_goal c p k :: gs, r')
      | _ => ([], [])
      end
  end.

(* one event = the goal index and the kind of observation packed into one token (4*k + tag), then the payload *)
Definition enc_ev (k : N) (o : obs) : list N :=
  match o with
  | OVal None => [4 * k]
  | OVal (Some u) => [4 * k + 1; u]
  | ONone => [4 * k + 2]
  | OList us => (4 * k + 3) :: N.of_nat (List.length us) :: us
  end.

Fixpoint enc_log (l : list (N * obs)) : list N :=
  match l with
  | [] => []
  | (k, o) :: r => enc_ev k o ++ enc_log r
  end.

Definition check_s (s : string) : bool :=
  match toks (bytes s) with
  | nu :: n0 :: r =>
      let '(l0, r1) := take_clauses (N.to_nat n0) r in
      match r1 with
      | n1 :: r2 =>
          let '(l1, r3) := take_clauses (N.to_nat n1) r2 in
          match r3 with
          | ng :: r4 =>
              let '(gs, r5) := take_goals (N.to_nat ng) r4 in
              let x := run_driver (init_state l0 l1 nu) gs driver_fuel in
              init_ok l0 l1 nu && negb (xout x) && listN_eqb (enc_log (rev (xlog x))) r5
          | _ => false
          end
      | _ => false
      end
  | _ => false
  end.
