(* C09 -- pinned property theorems (nothing else lives here) *)
From Coq Require Import List NArith ZArith Bool.
From V Require Import C09.Model C09.Proofs.
Import ListNotations.
Open Scope N_scope.

(* HEADLINE.  Start a call p(q,T) as iterator i in any well-formed machine state and let ANY history follow
   (asserts, retracts, retractall, other calls being opened, advanced and cut, retract generators, in any
   interleaving and nesting) that does not reopen or cut i itself.  Then the answers the impl-mirror gives to
   the successive `Next i` are exactly the clauses that were alive and matching when the call started, in
   chain order, followed by failure -- nothing later updates do is seen, nothing is lost. *)
Theorem snapshot_isolation : forall s i p q h, wf s -> quiet i h = true ->
  answers i h (mrun (fst (mstep s (Open i p q))) h) =
  deliver (visible_uids (clock s) q (chains s p)) (count_next i h).
Proof. exact snapshot_isolation_thm. Qed.
Print Assumptions snapshot_isolation.

(* Every observation of every history (all iterators at once, retract results, listings) is the one the
   snapshot specification gives: stamps + clock + cc implement plain lists + copies. *)
Theorem mirror_refines_snapshot_spec : forall s h, wf s -> mrun s h = srun (abs s) h.
Proof. exact mirror_is_snapshot_spec. Qed.
Print Assumptions mirror_refines_snapshot_spec.

(* In the specification an iterator delivers its copy whatever else happens (the spec is what it claims to be). *)
Theorem spec_delivers_snapshots : forall h t i, quiet i h = true ->
  answers i h (srun t h) = deliver (sits t i) (count_next i h).
Proof. exact spec_delivery. Qed.
Print Assumptions spec_delivers_snapshots.

(* well-formedness is an invariant of the mirror: every reachable state is covered by the theorems *)
Theorem wf_invariant : forall h s, wf s -> wf (mfinal s h).
Proof. exact mfinal_wf. Qed.
Print Assumptions wf_invariant.

(* asserta puts the clause at the front for every later call, and no open call notices *)
Theorem asserta_front : forall s p k, wf s ->
  let s' := fst (mstep s (Asserta p k)) in
  living s' p = (nextu s, k) :: living s p /\
  (forall p', p' <> p -> living s' p' = living s p') /\
  (forall i, remaining s' i = remaining s i) /\
  snd (mstep s (Asserta p k)) = OVal (Some (nextu s)).
Proof. exact (fun s p k => assert_thm s p k true). Qed.
Print Assumptions asserta_front.

Theorem assertz_back : forall s p k, wf s ->
  let s' := fst (mstep s (Assertz p k)) in
  living s' p = living s p ++ [(nextu s, k)] /\
  (forall p', p' <> p -> living s' p' = living s p') /\
  (forall i, remaining s' i = remaining s i) /\
  snd (mstep s (Assertz p k)) = OVal (Some (nextu s)).
Proof. exact (fun s p k => assert_thm s p k false). Qed.
Print Assumptions assertz_back.

(* retract/1 removes exactly the first clause visible now that matches, reports it, and no open call notices *)
Theorem retract_first_visible : forall s p q, wf s ->
  let s' := fst (mstep s (RetractFirst p q)) in
  snd (mstep s (RetractFirst p q)) = OVal (hd_error (map fst (kfilter q (living s p)))) /\
  living s' p = remove_first (fun x => kmatch q (snd x)) (living s p) /\
  (forall p', p' <> p -> living s' p' = living s p') /\
  (forall i, remaining s' i = remaining s i).
Proof. exact retract_first_thm. Qed.
Print Assumptions retract_first_visible.

(* backtracking into retract/1: it delivers the next clause of ITS snapshot (even one that somebody else has
   retracted meanwhile), removes that clause and nothing else, and no open call notices *)
Theorem retract_reentrant : forall s i p u us, wf s -> rits s i = (p, u :: us) ->
  let s' := fst (mstep s (RNext i)) in
  snd (mstep s (RNext i)) = OVal (Some u) /\
  living s' p = filter (fun x => negb (fst x =? u)) (living s p) /\
  (forall p', p' <> p -> living s' p' = living s p') /\
  (forall j, remaining s' j = remaining s j) /\
  rits s' i = (p, us).
Proof. exact retract_reentrant_thm. Qed.
Print Assumptions retract_reentrant.

(* clause/2 listings and calls started later see the database as modified *)
Theorem later_calls_see_updates : forall s i p q, wf s ->
  snd (mstep s (Listing p q)) = OList (map fst (kfilter q (living s p))) /\
  remaining (fst (mstep s (Open i p q))) i = map fst (kfilter q (living s p)).
Proof. exact later_calls_thm. Qed.
Print Assumptions later_calls_see_updates.

(* the log the model computes for a generated driver is the log of the snapshot specification on the
   history the driver performs (this is what the correspondence check compares the implementation with) *)
Theorem driver_log_is_spec : forall s0 gs fuel, wf s0 ->
  let x := run_driver s0 gs fuel in
  rev (xlog x) = filter_log (rev (xops x)) (srun (abs s0) (map snd (rev (xops x)))).
Proof. exact driver_log_thm. Qed.
Print Assumptions driver_log_is_spec.

(* consulted programs are well-formed states *)
Theorem loaded_state_wf : forall l0 l1 nu, init_ok l0 l1 nu = true -> wf (init_state l0 l1 nu).
Proof. exact init_wf_thm. Qed.
Print Assumptions loaded_state_wf.

(* the comparison evaluated by the correspondence check means equality of the complete logs *)
Theorem check_run_meaning : forall l0 l1 nu gs impl_log,
  check_run l0 l1 nu gs impl_log = true <->
  init_ok l0 l1 nu = true /\ xout (run_driver (init_state l0 l1 nu) gs driver_fuel) = false /\
  model_log l0 l1 nu gs = impl_log.
Proof. exact check_run_thm. Qed.
Print Assumptions check_run_meaning.

(* ---------------------------------------------------------------- non-vacuity *)
Definition ex_db : mst := init_state [(0, Some 1%Z); (1, Some 2%Z); (2, Some 1%Z)] [(3, None)] 4.

Example ex_wf : wf ex_db.
Proof. apply loaded_state_wf. vm_compute. reflexivity. Qed.

(* two calls open at once; clause 1 is retracted and clause 4 asserted while call 0 is half-way: call 0
   still delivers 0,1,2 and fails, call 1 (opened after the updates) delivers 0,2,4 *)
Example ex_history :
  mrun ex_db [Open 0 0 None; Next 0; RetractFirst 0 (Some 2%Z); Assertz 0 (Some 7%Z); Open 1 0 None;
              Next 1; Next 0; Next 1; Next 0; Next 1; Next 0; Next 1; Listing 0 None] =
  [ONone; OVal (Some 0); OVal (Some 1); OVal (Some 4); ONone;
   OVal (Some 0); OVal (Some 1); OVal (Some 2); OVal (Some 2); OVal (Some 4); OVal None; OVal None; OList [0; 2; 4]].
Proof. vm_compute. reflexivity. Qed.

Example ex_quiet : quiet 0 [Next 0; RetractFirst 0 (Some 2%Z); Assertz 0 (Some 7%Z); Open 1 0 None; Next 1; Next 0] = true.
Proof. vm_compute. reflexivity. Qed.

(* a retract generator meets a clause retracted by somebody else: it still delivers it *)
Example ex_retract_gen :
  mrun ex_db [ROpen 5 0 (Some 1%Z); RNext 5; RetractFirst 0 (Some 1%Z); RNext 5; RNext 5; Listing 0 None] =
  [ONone; OVal (Some 0); OVal (Some 2); OVal (Some 2); OVal None; OList [1]].
Proof. vm_compute. reflexivity. Qed.

(* a driver: p(X), assertz, inner p(Y): the outer call does not see the clauses asserted while it runs *)
Example ex_driver :
  model_log [(0, Some 1%Z); (1, Some 2%Z)] [] 2 [GGen 0 None; GOp (Assertz 0 (Some 1%Z)); GGen 0 (Some 1%Z)] =
  [(0, OVal (Some 0)); (1, OVal (Some 2)); (2, OVal (Some 0)); (2, OVal (Some 2)); (2, OVal None);
   (0, OVal (Some 1)); (1, OVal (Some 3)); (2, OVal (Some 0)); (2, OVal (Some 2)); (2, OVal (Some 3)); (2, OVal None);
   (0, OVal None)].
Proof. vm_compute. reflexivity. Qed.
