(* C09 -- proofs: the impl-mirror (stamps, clock, cc) refines the snapshot specification. *)
From Coq Require Import List NArith ZArith Bool Lia.
From V Require Import C09.Model.
Import ListNotations.
Open Scope N_scope.

(* ------------------------------------------------------------------ finite maps as functions *)
Lemma upd_same : forall (A : Type) (f : N -> A) k v, upd f k v k = v.
Proof. intros A f k v. unfold upd. rewrite N.eqb_refl. reflexivity. Qed.

Lemma upd_other : forall (A : Type) (f : N -> A) k v x, x <> k -> upd f k v x = f x.
Proof. intros A f k v x Hx. unfold upd. destruct (N.eqb_spec x k) as [He|He]; [contradiction|reflexivity]. Qed.

(* ------------------------------------------------------------------ liveness of clauses whose stamps lie in the past *)
Definition undead (c : clause) : bool := match death c with None => true | Some _ => false end.

Lemma alive_old : forall clk c, old clk c -> forall K, clk <= K -> alive K c = undead c.
Proof.
  intros clk c [Hb Hd] K HK. unfold alive, undead.
  assert (Hlt : (birth c <? K) = true) by (apply N.ltb_lt; lia).
  rewrite Hlt. cbn [andb].
  destruct (death c) as [d|] eqn:Ed; [|reflexivity].
  specialize (Hd d eq_refl). apply N.leb_gt. lia.
Qed.

Lemma old_mono : forall clk K c, clk <= K -> old clk c -> old K c.
Proof.
  intros clk K c HK [Hb Hd]. split; [lia|]. intros d Ed. specialize (Hd d Ed). lia.
Qed.

Lemma filter_alive_old : forall clk K l, Forall (old clk) l -> clk <= K ->
  filter (alive K) l = filter (alive clk) l.
Proof.
  intros clk K l Hl HK. induction Hl as [|c r Hc Hr IH]; [reflexivity|].
  cbn [filter]. rewrite (alive_old clk c Hc K HK). rewrite (alive_old clk c Hc clk (N.le_refl _)).
  rewrite IH. reflexivity.
Qed.

(* a clause that was alive and is then retracted at time d stays alive for every call started up to d *)
Lemma alive_kill_keep : forall cc d c, death c = None -> cc <= d -> alive cc (kill c d) = alive cc c.
Proof.
  intros cc d c Hn Hle. unfold alive, kill. cbn [birth death]. rewrite Hn.
  assert (H : (cc <=? d) = true) by (apply N.leb_le; exact Hle). rewrite H. reflexivity.
Qed.

Lemma alive_kill_dead : forall K d c, d < K -> alive K (kill c d) = false.
Proof.
  intros K d c Hlt. unfold alive, kill. cbn [birth death].
  assert (H : (K <=? d) = false) by (apply N.leb_gt; exact Hlt). rewrite H. apply andb_false_r.
Qed.

Lemma alive_undead_none : forall clk c, old clk c -> alive clk c = true -> death c = None.
Proof.
  intros clk c Ho Ha. rewrite (alive_old clk c Ho clk (N.le_refl _)) in Ha.
  unfold undead in Ha. destruct (death c); [discriminate|reflexivity].
Qed.

(* ------------------------------------------------------------------ clause lists that look the same to a call *)
Definition sim (cc : N) (c c' : clause) : Prop :=
  uid c = uid c' /\ ckey c = ckey c' /\ alive cc c = alive cc c'.

Lemma sim_refl : forall cc c, sim cc c c.
Proof. intros cc c. repeat split. Qed.

Lemma sim_list_refl : forall cc l, Forall2 (sim cc) l l.
Proof. intros cc l. induction l as [|c r IH]; constructor; [apply sim_refl|exact IH]. Qed.

Lemma sim_vis : forall cc q c c', sim cc c c' -> vis cc q c = vis cc q c'.
Proof. intros cc q c c' [_ [Hk Ha]]. unfold vis. rewrite Hk, Ha. reflexivity. Qed.

Lemma sim_from : forall cc u l l', Forall2 (sim cc) l l' -> Forall2 (sim cc) (from u l) (from u l').
Proof.
  intros cc u l l' H. induction H as [|c c' r r' Hc Hr IH]; [constructor|].
  cbn [from]. destruct Hc as [Hu Hrest]. rewrite <- Hu.
  destruct (uid c =? u); [constructor; [split; assumption|exact Hr]|exact IH].
Qed.

Lemma sim_visible : forall cc q l l', Forall2 (sim cc) l l' -> visible_uids cc q l = visible_uids cc q l'.
Proof.
  intros cc q l l' H. unfold visible_uids. induction H as [|c c' r r' Hc Hr IH]; [reflexivity|].
  cbn [filter]. rewrite (sim_vis cc q c c' Hc). destruct Hc as [Hu _].
  destruct (vis cc q c'); cbn [map]; [rewrite Hu, IH|rewrite IH]; reflexivity.
Qed.

Lemma sim_uids : forall cc l l', Forall2 (sim cc) l l' -> map uid l = map uid l'.
Proof.
  intros cc l l' H. induction H as [|c c' r r' Hc Hr IH]; [reflexivity|].
  cbn [map]. destruct Hc as [Hu _]. rewrite Hu, IH. reflexivity.
Qed.

(* ------------------------------------------------------------------ following the chain *)
Lemma from_suffix : forall u l, exists pre, l = pre ++ from u l.
Proof.
  intros u l. induction l as [|c r IH]; [exists []; reflexivity|].
  cbn [from]. destruct (uid c =? u).
  - exists []. reflexivity.
  - destruct IH as [pre Hpre]. exists (c :: pre). cbn [app]. rewrite <- Hpre. reflexivity.
Qed.

Lemma from_unique : forall pre h t, NoDup (map uid (pre ++ h :: t)) -> from (uid h) (pre ++ h :: t) = h :: t.
Proof.
  intros pre h t. induction pre as [|c r IH]; intro Hnd.
  - cbn [app from]. rewrite N.eqb_refl. reflexivity.
  - cbn [app from]. cbn [app map] in Hnd. inversion Hnd as [|x xs Hnot Hnd' Heq]; subst.
    destruct (N.eqb_spec (uid c) (uid h)) as [He|He].
    + exfalso. apply Hnot. rewrite He. rewrite map_app. apply in_or_app. right. cbn [map]. left. reflexivity.
    + apply IH. exact Hnd'.
Qed.

Lemma from_app_new : forall cc q u l c, vis cc q c = false ->
  visible_uids cc q (from u (l ++ [c])) = visible_uids cc q (from u l).
Proof.
  intros cc q u l c Hc. unfold visible_uids. induction l as [|x r IH].
  - cbn [app from]. destruct (uid c =? u); cbn [filter]; [rewrite Hc|]; reflexivity.
  - cbn [app from]. destruct (uid x =? u); [|exact IH].
    change (x :: r ++ [c]) with ((x :: r) ++ [c]). rewrite filter_app. cbn [filter]. rewrite Hc.
    rewrite app_nil_r. reflexivity.
Qed.

Lemma first_vis_split : forall cc q l c rest, first_vis cc q l = Some (c, rest) ->
  exists pre, l = pre ++ c :: rest /\ vis cc q c = true /\ filter (vis cc q) pre = [].
Proof.
  intros cc q l. induction l as [|x r IH]; intros c rest H; [discriminate|].
  cbn [first_vis] in H. destruct (vis cc q x) eqn:Ev.
  - inversion H; subst. exists []. repeat split. exact Ev.
  - destruct (IH c rest H) as [pre [Hl [Hv Hf]]]. exists (x :: pre). repeat split.
    + cbn [app]. rewrite Hl. reflexivity.
    + exact Hv.
    + cbn [filter]. rewrite Ev. exact Hf.
Qed.

Lemma first_vis_none : forall cc q l, first_vis cc q l = None -> filter (vis cc q) l = [].
Proof.
  intros cc q l. induction l as [|x r IH]; intro H; [reflexivity|].
  cbn [first_vis] in H. cbn [filter]. destruct (vis cc q x); [discriminate|]. apply IH. exact H.
Qed.

Lemma first_vis_visible : forall cc q l,
  visible_uids cc q l =
  match first_vis cc q l with
  | Some (c, rest) => uid c :: visible_uids cc q rest
  | None => []
  end.
Proof.
  intros cc q l. unfold visible_uids. induction l as [|x r IH]; [reflexivity|].
  cbn [first_vis filter]. destruct (vis cc q x); [reflexivity|exact IH].
Qed.

(* ------------------------------------------------------------------ the retraction loop *)
Lemma stamp_ext : forall sel sel' one clk l, (forall c, sel c = sel' c) -> stamp sel one clk l = stamp sel' one clk l.
Proof.
  intros sel sel' one clk l H. revert clk. induction l as [|c r IH]; intro clk; [reflexivity|].
  cbn [stamp]. rewrite <- H. destruct (sel c).
  - destruct one; [reflexivity|]. rewrite IH. reflexivity.
  - rewrite IH. reflexivity.
Qed.

Section Stamp.
  Variable selp : N * key -> bool.
  Variable clk0 : N.
  Let sel (c : clause) : bool := selp (payload c) && alive clk0 c.

  Lemma stamp_clock : forall one l clk l' k, stamp sel one clk l = (l', k) -> clk <= k.
  Proof.
    intros one l. induction l as [|c r IH]; intros clk l' k H.
    - cbn [stamp] in H. inversion H; subst. lia.
    - cbn [stamp] in H. destruct (sel c).
      + destruct one.
        * inversion H; subst. lia.
        * destruct (stamp sel false (N.succ clk) r) as [r' k'] eqn:Er. inversion H; subst.
          specialize (IH _ _ _ Er). lia.
      + destruct (stamp sel one clk r) as [r' k'] eqn:Er. inversion H; subst. exact (IH _ _ _ Er).
  Qed.

  Lemma stamp_sim : forall cc one l clk l' k, Forall (old clk0) l -> cc <= clk0 -> clk0 <= clk ->
    stamp sel one clk l = (l', k) -> Forall2 (sim cc) l l'.
  Proof.
    intros cc one l. induction l as [|c r IH]; intros clk l' k Hold Hcc Hclk H.
    - cbn [stamp] in H. inversion H; subst. constructor.
    - inversion Hold as [|x xs Hc Hr]; subst. cbn [stamp] in H. destruct (sel c) eqn:Es.
      + assert (Hn : death c = None).
        { apply (alive_undead_none clk0 c Hc). unfold sel in Es. apply andb_true_iff in Es. tauto. }
        assert (Hsim : sim cc c (kill c clk)).
        { repeat split. symmetry. apply alive_kill_keep; [exact Hn|lia]. }
        destruct one.
        * inversion H; subst. constructor; [exact Hsim|apply sim_list_refl].
        * destruct (stamp sel false (N.succ clk) r) as [r' k'] eqn:Er. inversion H; subst.
          constructor; [exact Hsim|]. apply (IH (N.succ clk) r' k Hr Hcc); [lia|exact Er].
      + destruct (stamp sel one clk r) as [r' k'] eqn:Er. inversion H; subst.
        constructor; [apply sim_refl|]. apply (IH clk r' k Hr Hcc Hclk Er).
  Qed.

  Lemma stamp_old : forall one l clk l' k, Forall (old clk0) l -> clk0 <= clk ->
    stamp sel one clk l = (l', k) -> Forall (old k) l'.
  Proof.
    intros one l. induction l as [|c r IH]; intros clk l' k Hold Hclk H.
    - cbn [stamp] in H. inversion H; subst. constructor.
    - inversion Hold as [|x xs Hc Hr]; subst. cbn [stamp] in H. destruct (sel c) eqn:Es.
      + destruct one.
        * inversion H; subst. constructor.
          -- destruct Hc as [Hb _]. split; [cbn [kill birth]; lia|]. intros d Ed. cbn [kill death] in Ed. inversion Ed; subst. lia.
          -- apply Forall_impl with (P := old clk0); [|exact Hr]. intros a Ha. apply (old_mono clk0); [lia|exact Ha].
        * destruct (stamp sel false (N.succ clk) r) as [r' k'] eqn:Er. inversion H; subst.
          pose proof (stamp_clock _ _ _ _ _ Er) as Hk.
          constructor.
          -- destruct Hc as [Hb _]. split; [cbn [kill birth]; lia|]. intros d Ed. cbn [kill death] in Ed. inversion Ed; subst. lia.
          -- apply (IH (N.succ clk) r' k Hr); [lia|exact Er].
      + destruct (stamp sel one clk r) as [r' k'] eqn:Er. inversion H; subst.
        pose proof (stamp_clock _ _ _ _ _ Er) as Hk.
        constructor.
        * apply (old_mono clk0); [lia|exact Hc].
        * apply (IH clk r' k Hr Hclk Er).
  Qed.

  (* what a call started after the loop sees: the selected clauses are gone *)
  Lemma stamp_living : forall one l clk l' k K, Forall (old clk0) l -> clk0 <= clk ->
    stamp sel one clk l = (l', k) -> k <= K ->
    map payload (filter (alive K) l') =
    (if one then remove_first selp (map payload (filter (alive clk0) l))
     else filter (fun x => negb (selp x)) (map payload (filter (alive clk0) l))).
  Proof.
    intros one l. induction l as [|c r IH]; intros clk l' k K Hold Hclk H HK.
    - cbn [stamp] in H. inversion H; subst. destruct one; reflexivity.
    - inversion Hold as [|x xs Hc Hr]; subst. cbn [stamp] in H. destruct (sel c) eqn:Es.
      + unfold sel in Es. apply andb_true_iff in Es. destruct Es as [Esp Ea].
        cbn [filter]. rewrite Ea. cbn [map].
        destruct one.
        * inversion H; subst. cbn [filter]. rewrite alive_kill_dead by lia.
          cbn [remove_first]. rewrite Esp.
          rewrite (filter_alive_old clk0 K r Hr) by lia. reflexivity.
        * destruct (stamp sel false (N.succ clk) r) as [r' k'] eqn:Er. inversion H; subst.
          pose proof (stamp_clock _ _ _ _ _ Er) as Hk.
          cbn [filter]. rewrite alive_kill_dead by lia. rewrite Esp. cbn [negb].
          apply (IH (N.succ clk) r' k K Hr); [lia|exact Er|exact HK].
      + destruct (stamp sel one clk r) as [r' k'] eqn:Er. inversion H; subst.
        pose proof (stamp_clock _ _ _ _ _ Er) as Hk.
        cbn [filter]. rewrite (alive_old clk0 c Hc K) by lia. rewrite (alive_old clk0 c Hc clk0) by lia.
        destruct (undead c) eqn:Eu.
        * cbn [map]. unfold sel in Es. rewrite (alive_old clk0 c Hc clk0) in Es by lia. rewrite Eu in Es.
          rewrite andb_true_r in Es.
          specialize (IH clk r' k K Hr Hclk Er HK).
          destruct one; cbn [remove_first filter]; rewrite Es; cbn [negb]; rewrite IH; reflexivity.
        * apply (IH clk r' k K Hr Hclk Er HK).
  Qed.
End Stamp.

(* ------------------------------------------------------------------ the abstraction relation *)
Definition R (s : mst) (t : sst) : Prop :=
  (forall p, db t p = living s p) /\ snext t = nextu s /\
  (forall i, sits t i = remaining s i) /\ (forall i, srits t i = rits s i).

Lemma R_abs : forall s, R s (abs s).
Proof. intro s. repeat split. Qed.

Lemma vis_living : forall cc q l,
  map fst (kfilter q (map payload (filter (alive cc) l))) = visible_uids cc q l.
Proof.
  intros cc q l. unfold visible_uids, kfilter. induction l as [|c r IH]; [reflexivity|].
  cbn [filter]. unfold vis at 1. destruct (alive cc c); cbn [andb map filter].
  - unfold payload at 1. cbn [snd]. destruct (kmatch q (ckey c)); cbn [map fst]; rewrite IH; reflexivity.
  - exact IH.
Qed.

Lemma hd_visible : forall cc q l,
  match kfilter q (map payload (filter (alive cc) l)) with x :: _ => Some (fst x) | [] => None end =
  match first_vis cc q l with Some (c, _) => Some (uid c) | None => None end.
Proof.
  intros cc q l.
  pose proof (vis_living cc q l) as H. rewrite first_vis_visible in H.
  destruct (kfilter q (map payload (filter (alive cc) l))) as [|x xs]; destruct (first_vis cc q l) as [[c rest]|];
    cbn [map] in H; try discriminate; [reflexivity|].
  injection H as H1 H2. rewrite H1. reflexivity.
Qed.

Lemma NoDup_snoc : forall (l : list N) x, NoDup l -> ~ In x l -> NoDup (l ++ [x]).
Proof.
  intros l x Hnd Hx. induction Hnd as [|y ys Hy Hys IH]; cbn [app].
  - constructor; [intros []|constructor].
  - constructor.
    + intro Hin. apply in_app_or in Hin. destruct Hin as [Hin|Hin]; [contradiction|].
      cbn [In] in Hin. destruct Hin as [He|[]]. apply Hx. left. symmetry. exact He.
    + apply IH. intro Hin. apply Hx. right. exact Hin.
Qed.

Lemma Forall_lt_notin : forall (l : list N) n, Forall (fun u => u < n) l -> ~ In n l.
Proof.
  intros l n Hl Hin. rewrite Forall_forall in Hl. specialize (Hl n Hin). lia.
Qed.

(* remaining part of an open call only depends on how its own chain looks to its own cc *)
Lemma remaining_eq : forall s s' i, its s' i = its s i ->
  (forall it, its s i = Some it ->
     visible_uids (icc it) (ipat it) (from (ipos it) (chains s' (ipred it))) =
     visible_uids (icc it) (ipat it) (from (ipos it) (chains s (ipred it)))) ->
  remaining s' i = remaining s i.
Proof.
  intros s s' i Hi H. unfold remaining. rewrite Hi. destruct (its s i) as [it|]; [|reflexivity].
  apply H. reflexivity.
Qed.

(* ---- retraction steps (once(retract), retractall, one step of a retract generator) *)
Lemma stamp_step : forall s p selp one l' k ri,
  wf s ->
  stamp (fun c => selp (payload c) && alive (clock s) c) one (clock s) (chains s p) = (l', k) ->
  let s' := mkM (upd (chains s) p l') k (nextu s) (its s) ri in
  wf s' /\
  living s' p = (if one then remove_first selp (living s p) else filter (fun x => negb (selp x)) (living s p)) /\
  (forall p', p' <> p -> living s' p' = living s p') /\
  (forall i, remaining s' i = remaining s i).
Proof.
  intros s p selp one l' k ri [Wold [Wuid [Wnd Wit]]] Hst s'.
  pose proof (stamp_clock selp (clock s) one _ _ _ _ Hst) as Hk.
  assert (Hu : map uid (chains s p) = map uid l').
  { apply (sim_uids 0). apply (stamp_sim selp (clock s) 0 one _ (clock s) l' k (Wold p)); [lia|lia|exact Hst]. }
  split; [|split; [|split]].
  - (* wf *)
    unfold wf, s'. cbn [chains clock nextu its]. repeat split.
    + intro p'. destruct (N.eq_dec p' p) as [He|He].
      * subst. rewrite upd_same. apply (stamp_old selp (clock s) one _ (clock s) l' k (Wold p)); [lia|exact Hst].
      * rewrite upd_other by exact He. apply Forall_impl with (P := old (clock s)); [|apply Wold].
        intros a Ha. apply (old_mono (clock s)); [exact Hk|exact Ha].
    + intro p'. destruct (N.eq_dec p' p) as [He|He].
      * subst. rewrite upd_same. rewrite <- Hu. apply Wuid.
      * rewrite upd_other by exact He. apply Wuid.
    + intro p'. destruct (N.eq_dec p' p) as [He|He].
      * subst. rewrite upd_same. rewrite <- Hu. apply Wnd.
      * rewrite upd_other by exact He. apply Wnd.
    + destruct (Wit i it H) as [Hc _]. lia.
    + destruct (Wit i it H) as [_ Hp]. exact Hp.
  - unfold living, s'. cbn [chains clock]. rewrite upd_same.
    apply (stamp_living selp (clock s) one _ (clock s) l' k k (Wold p)); [lia|exact Hst|lia].
  - intros p' Hp'. unfold living, s'. cbn [chains clock]. rewrite upd_other by exact Hp'.
    rewrite (filter_alive_old (clock s) k _ (Wold p') Hk). reflexivity.
  - intro i. apply remaining_eq; [reflexivity|]. intros it Hit. unfold s'. cbn [chains].
    destruct (N.eq_dec (ipred it) p) as [He|He].
    + rewrite He, upd_same. symmetry. apply sim_visible. apply sim_from.
      destruct (Wit i it Hit) as [Hc _].
      apply (stamp_sim selp (clock s) (icc it) one _ (clock s) l' k (Wold p)); [exact Hc|lia|exact Hst].
    + rewrite upd_other by exact He. reflexivity.
Qed.

(* ---- assertion steps *)
Lemma new_not_visible : forall cc q u k clk, cc <= clk -> vis cc q (mkC u k clk None) = false.
Proof.
  intros cc q u k clk H. unfold vis, alive. cbn [birth death].
  assert (E : (clk <? cc) = false) by (apply N.ltb_ge; exact H). rewrite E. reflexivity.
Qed.

Lemma new_alive : forall u k clk, alive (N.succ clk) (mkC u k clk None) = true.
Proof.
  intros u k clk. unfold alive. cbn [birth death]. rewrite andb_true_r. apply N.ltb_lt. lia.
Qed.

Lemma new_old : forall u k clk, old (N.succ clk) (mkC u k clk None).
Proof. intros u k clk. split; [cbn [birth]; lia|]. intros d Ed. cbn [death] in Ed. discriminate. Qed.

Lemma assert_step : forall s p k (front : bool),
  wf s ->
  let c := mkC (nextu s) k (clock s) None in
  let s' := mkM (upd (chains s) p (if front then c :: chains s p else chains s p ++ [c]))
                (N.succ (clock s)) (N.succ (nextu s)) (its s) (rits s) in
  wf s' /\
  living s' p = (if front then (nextu s, k) :: living s p else living s p ++ [(nextu s, k)]) /\
  (forall p', p' <> p -> living s' p' = living s p') /\
  (forall i, remaining s' i = remaining s i).
Proof.
  intros s p k front [Wold [Wuid [Wnd Wit]]] c s'.
  assert (Hle : clock s <= N.succ (clock s)) by lia.
  split; [|split; [|split]].
  - unfold wf, s'. cbn [chains clock nextu its]. repeat split.
    + intro p'. destruct (N.eq_dec p' p) as [He|He].
      * subst. rewrite upd_same.
        assert (Ho : Forall (old (N.succ (clock s))) (chains s p)).
        { apply Forall_impl with (P := old (clock s)); [|apply Wold]. intros a Ha. apply (old_mono (clock s)); assumption. }
        destruct front.
        -- constructor; [apply new_old|exact Ho].
        -- apply Forall_app. split; [exact Ho|]. constructor; [apply new_old|constructor].
      * rewrite upd_other by exact He. apply Forall_impl with (P := old (clock s)); [|apply Wold].
        intros a Ha. apply (old_mono (clock s)); assumption.
    + intro p'.
      assert (Hb : forall q', Forall (fun u => u < N.succ (nextu s)) (map uid (chains s q'))).
      { intro q'. apply Forall_impl with (P := fun u => u < nextu s); [|apply Wuid]. intros a Ha. lia. }
      destruct (N.eq_dec p' p) as [He|He].
      * subst. rewrite upd_same. destruct front.
        -- cbn [map]. constructor; [unfold c; cbn [uid]; lia|apply Hb].
        -- rewrite map_app. apply Forall_app. split; [apply Hb|]. cbn [map]. constructor; [unfold c; cbn [uid]; lia|constructor].
      * rewrite upd_other by exact He. apply Hb.
    + intro p'. destruct (N.eq_dec p' p) as [He|He].
      * subst. rewrite upd_same. destruct front.
        -- unfold c; cbn [map uid]. constructor; [apply Forall_lt_notin; apply Wuid|apply Wnd].
        -- rewrite map_app. unfold c; cbn [map uid]. apply NoDup_snoc; [apply Wnd|apply Forall_lt_notin; apply Wuid].
      * rewrite upd_other by exact He. apply Wnd.
    + destruct (Wit i it H) as [Hc _]. lia.
    + destruct (Wit i it H) as [_ Hp]. lia.
  - unfold living, s'. cbn [chains clock]. rewrite upd_same. destruct front.
    + cbn [filter]. unfold c at 1. rewrite new_alive. cbn [map]. unfold payload at 1. cbn [uid ckey].
      rewrite (filter_alive_old (clock s) _ _ (Wold p) Hle). reflexivity.
    + rewrite filter_app. cbn [filter]. unfold c at 1. rewrite new_alive.
      rewrite map_app. cbn [map]. unfold payload at 2. cbn [uid ckey].
      rewrite (filter_alive_old (clock s) _ _ (Wold p) Hle). reflexivity.
  - intros p' Hp'. unfold living, s'. cbn [chains clock]. rewrite upd_other by exact Hp'.
    rewrite (filter_alive_old (clock s) _ _ (Wold p') Hle). reflexivity.
  - intro i. apply remaining_eq; [reflexivity|]. intros it Hit. unfold s'. cbn [chains].
    destruct (Wit i it Hit) as [Hc Hp].
    destruct (N.eq_dec (ipred it) p) as [He|He].
    + rewrite He, upd_same. destruct front.
      * cbn [from]. unfold c at 1. cbn [uid].
        destruct (N.eqb_spec (nextu s) (ipos it)) as [Hx|Hx]; [lia|reflexivity].
      * apply from_app_new. apply new_not_visible. exact Hc.
    + rewrite upd_other by exact He. reflexivity.
Qed.

(* ------------------------------------------------------------------ iterator bookkeeping *)
Lemma remaining_set_it_other : forall s i v j, j <> i -> remaining (set_it s i v) j = remaining s j.
Proof.
  intros s i v j H. unfold remaining, set_it. cbn [its chains]. rewrite upd_other by exact H. reflexivity.
Qed.

Lemma remaining_set_it_same : forall s i v,
  remaining (set_it s i v) i =
  match v with
  | None => []
  | Some it => visible_uids (icc it) (ipat it) (from (ipos it) (chains s (ipred it)))
  end.
Proof. intros s i v. unfold remaining, set_it. cbn [its chains]. rewrite upd_same. reflexivity. Qed.

Lemma living_set_it : forall s i v p, living (set_it s i v) p = living s p.
Proof. reflexivity. Qed.

Lemma wf_set_it : forall s i v, wf s ->
  (forall it, v = Some it -> icc it <= clock s /\ ipos it < nextu s) -> wf (set_it s i v).
Proof.
  intros s i v [Wold [Wuid [Wnd Wit]]] Hv. unfold wf, set_it. cbn [chains clock nextu its].
  split; [exact Wold|]. split; [exact Wuid|]. split; [exact Wnd|].
  intros j it Hj. destruct (N.eq_dec j i) as [He|He].
  - subst. rewrite upd_same in Hj. apply Hv. exact Hj.
  - rewrite upd_other in Hj by exact He. apply (Wit j it Hj).
Qed.

Lemma next_iter_spec : forall it ch pre rest,
  NoDup (map uid ch) -> ch = pre ++ rest ->
  match next_iter it rest with
  | None => visible_uids (icc it) (ipat it) rest = []
  | Some it' =>
      visible_uids (icc it') (ipat it') (from (ipos it') ch) = visible_uids (icc it) (ipat it) rest /\
      icc it' = icc it /\ In (ipos it') (map uid ch) /\ ipred it' = ipred it
  end.
Proof.
  intros it ch pre rest Hnd Hch. unfold next_iter.
  destruct (first_vis (icc it) (ipat it) rest) as [[c r]|] eqn:Ef.
  - destruct rest as [|h tl]; [cbn [first_vis] in Ef; discriminate|].
    cbn [icc ipat ipos ipred]. subst ch. rewrite (from_unique pre h tl Hnd).
    repeat split. rewrite map_app. apply in_or_app. right. cbn [map]. left. reflexivity.
  - unfold visible_uids. rewrite (first_vis_none _ _ _ Ef). reflexivity.
Qed.

(* ------------------------------------------------------------------ one step of the simulation *)
Definition step_ok (s : mst) (t : sst) (o : op) : Prop :=
  snd (mstep s o) = snd (sstep t o) /\ R (fst (mstep s o)) (fst (sstep t o)) /\ wf (fst (mstep s o)).

Lemma sim_open : forall s t i p q, wf s -> R s t -> step_ok s t (Open i p q).
Proof.
  intros s t i p q Hwf [R1 [R2 [R3 R4]]]. unfold step_ok. cbn [mstep sstep fst snd].
  split; [reflexivity|]. split.
  - unfold R. cbn [db snext sits srits]. split; [|split; [|split]].
    + intro p0. rewrite living_set_it. apply R1.
    + exact R2.
    + intro j. destruct (N.eq_dec j i) as [He|He].
      * subst. rewrite upd_same. rewrite remaining_set_it_same. rewrite R1. unfold living. rewrite vis_living.
        destruct (chains s p) as [|c r] eqn:Ec; [reflexivity|].
        cbn [icc ipat ipos ipred]. rewrite Ec. cbn [from]. rewrite N.eqb_refl. reflexivity.
      * rewrite upd_other by exact He. rewrite remaining_set_it_other by exact He. apply R3.
    + exact R4.
  - apply wf_set_it; [exact Hwf|]. intros it Hit.
    destruct Hwf as [_ [Wuid _]]. specialize (Wuid p).
    destruct (chains s p) as [|c r]; [discriminate|]. inversion Hit; subst. cbn [icc ipos].
    split; [lia|]. cbn [map] in Wuid. inversion Wuid; subst. assumption.
Qed.

Lemma sim_next : forall s t i, wf s -> R s t -> step_ok s t (Next i).
Proof.
  intros s t i Hwf [R1 [R2 [R3 R4]]]. unfold step_ok. cbn [mstep sstep].
  pose proof (R3 i) as Hi. unfold remaining in Hi.
  destruct (its s i) as [it|] eqn:Eit.
  - rewrite first_vis_visible in Hi.
    destruct (first_vis (icc it) (ipat it) (from (ipos it) (chains s (ipred it)))) as [[c rest]|] eqn:Ef.
    + rewrite Hi. cbn [fst snd]. split; [reflexivity|].
      destruct Hwf as [Wold [Wuid [Wnd Wit]]].
      destruct (from_suffix (ipos it) (chains s (ipred it))) as [pre1 Hp1].
      destruct (first_vis_split _ _ _ _ _ Ef) as [pre2 [Hp2 _]].
      assert (Hch : chains s (ipred it) = (pre1 ++ pre2 ++ [c]) ++ rest).
      { rewrite Hp1 at 1. rewrite Hp2. rewrite <- !app_assoc. reflexivity. }
      pose proof (next_iter_spec it (chains s (ipred it)) _ rest (Wnd (ipred it)) Hch) as Hn.
      split.
      * unfold R. cbn [db snext sits srits]. split; [|split; [|split]].
        -- intro p0. rewrite living_set_it. apply R1.
        -- exact R2.
        -- intro j. destruct (N.eq_dec j i) as [He|He].
           ++ subst. rewrite upd_same. rewrite remaining_set_it_same.
              destruct (next_iter it rest) as [it'|].
              ** destruct Hn as [Hv [_ [_ Hp]]]. rewrite Hp. symmetry. exact Hv.
              ** exact Hn.
           ++ rewrite upd_other by exact He. rewrite remaining_set_it_other by exact He. apply R3.
        -- exact R4.
      * apply wf_set_it; [exact (conj Wold (conj Wuid (conj Wnd Wit)))|]. intros it' Hit'. rewrite Hit' in Hn.
        destruct Hn as [_ [Hc [Hin _]]]. destruct (Wit i it Eit) as [Hcc _]. split; [lia|].
        specialize (Wuid (ipred it)). rewrite Forall_forall in Wuid. apply Wuid. exact Hin.
    + rewrite Hi. cbn [fst snd]. split; [reflexivity|]. split.
      * unfold R. split; [|split; [|split]].
        -- intro p0. rewrite living_set_it. apply R1.
        -- exact R2.
        -- intro j. destruct (N.eq_dec j i) as [He|He].
           ++ subst. rewrite remaining_set_it_same. exact Hi.
           ++ rewrite remaining_set_it_other by exact He. apply R3.
        -- exact R4.
      * apply wf_set_it; [exact Hwf|]. intros it' Hit'. discriminate.
  - rewrite Hi. cbn [fst snd]. split; [reflexivity|]. split; [|exact Hwf].
    repeat split; assumption.
Qed.

Lemma sim_close : forall s t i, wf s -> R s t -> step_ok s t (Close i).
Proof.
  intros s t i Hwf [R1 [R2 [R3 R4]]]. unfold step_ok. cbn [mstep sstep fst snd].
  split; [reflexivity|]. split.
  - unfold R. cbn [db snext sits srits rits]. split; [|split; [|split]].
    + intro p0. apply R1.
    + exact R2.
    + intro j. unfold remaining. cbn [its chains]. destruct (N.eq_dec j i) as [He|He].
      * subst. rewrite !upd_same. reflexivity.
      * rewrite !upd_other by exact He. apply R3.
    + intro j. destruct (N.eq_dec j i) as [He|He].
      * subst. rewrite !upd_same. reflexivity.
      * rewrite !upd_other by exact He. apply R4.
  - destruct Hwf as [Wold [Wuid [Wnd Wit]]]. unfold wf. cbn [chains clock nextu its].
    split; [exact Wold|]. split; [exact Wuid|]. split; [exact Wnd|].
    intros j it Hj. destruct (N.eq_dec j i) as [He|He].
    + subst. rewrite upd_same in Hj. discriminate.
    + rewrite upd_other in Hj by exact He. apply (Wit j it Hj).
Qed.

Lemma sim_assert : forall s t p k (front : bool), wf s -> R s t ->
  step_ok s t (if front then Asserta p k else Assertz p k).
Proof.
  intros s t p k front Hwf [R1 [R2 [R3 R4]]]. unfold step_ok.
  destruct (assert_step s p k front Hwf) as [Hwf' [Hl [Hlo Hr]]].
  destruct front; cbn [mstep sstep fst snd]; (split; [rewrite R2; reflexivity|]); (split; [|exact Hwf']);
    unfold R; cbn [db snext sits srits rits nextu]; (split; [|split; [|split]]).
  - intro p0. destruct (N.eq_dec p0 p) as [He|He].
    + subst. rewrite upd_same. rewrite Hl. rewrite R1, R2. reflexivity.
    + rewrite upd_other by exact He. rewrite (Hlo p0 He). apply R1.
  - rewrite R2. reflexivity.
  - intro j. rewrite Hr. apply R3.
  - exact R4.
  - intro p0. destruct (N.eq_dec p0 p) as [He|He].
    + subst. rewrite upd_same. rewrite Hl. rewrite R1, R2. reflexivity.
    + rewrite upd_other by exact He. rewrite (Hlo p0 He). apply R1.
  - rewrite R2. reflexivity.
  - intro j. rewrite Hr. apply R3.
  - exact R4.
Qed.

Lemma vis_as_sel : forall clk q c,
  vis clk q c = (fun x : N * key => kmatch q (snd x)) (payload c) && alive clk c.
Proof. intros clk q c. unfold vis, payload. cbn [snd]. apply andb_comm. Qed.

Lemma sim_retract : forall s t p q (one : bool), wf s -> R s t ->
  step_ok s t (if one then RetractFirst p q else RetractAll p q).
Proof.
  intros s t p q one Hwf [R1 [R2 [R3 R4]]]. unfold step_ok.
  pose (selp := fun x : N * key => kmatch q (snd x)).
  assert (Hext : forall o, stamp (vis (clock s) q) o (clock s) (chains s p) =
                           stamp (fun c => selp (payload c) && alive (clock s) c) o (clock s) (chains s p)).
  { intro o. apply stamp_ext. intro c. apply vis_as_sel. }
  destruct one; cbn [mstep sstep]; rewrite Hext;
    destruct (stamp (fun c => selp (payload c) && alive (clock s) c) _ (clock s) (chains s p)) as [l' k] eqn:Est;
    destruct (stamp_step s p selp _ l' k (rits s) Hwf Est) as [Hwf' [Hl [Hlo Hr]]];
    cbn [fst snd]; unfold set_chain.
  - split.
    { rewrite R1. unfold living. rewrite hd_visible. reflexivity. }
    split; [|exact Hwf'].
    unfold R; cbn [db snext sits srits rits nextu]. split; [|split; [|split]].
    + intro p0. destruct (N.eq_dec p0 p) as [He|He].
      * subst. rewrite upd_same. rewrite Hl. rewrite R1. reflexivity.
      * rewrite upd_other by exact He. rewrite (Hlo p0 He). apply R1.
    + exact R2.
    + intro j. rewrite Hr. apply R3.
    + exact R4.
  - split; [reflexivity|]. split; [|exact Hwf'].
    unfold R; cbn [db snext sits srits rits nextu]. split; [|split; [|split]].
    + intro p0. destruct (N.eq_dec p0 p) as [He|He].
      * subst. rewrite upd_same. rewrite Hl. rewrite R1. reflexivity.
      * rewrite upd_other by exact He. rewrite (Hlo p0 He). apply R1.
    + exact R2.
    + intro j. rewrite Hr. apply R3.
    + exact R4.
Qed.

Lemma sim_ropen : forall s t i p q, wf s -> R s t -> step_ok s t (ROpen i p q).
Proof.
  intros s t i p q Hwf [R1 [R2 [R3 R4]]]. unfold step_ok. cbn [mstep sstep fst snd].
  split; [reflexivity|]. split; [|exact Hwf].
  unfold R; cbn [db snext sits srits rits]. split; [|split; [|split]].
  - intro p0. apply R1.
  - exact R2.
  - intro j. apply R3.
  - intro j. destruct (N.eq_dec j i) as [He|He].
    + subst. rewrite !upd_same. rewrite R1. unfold living. rewrite vis_living. reflexivity.
    + rewrite !upd_other by exact He. apply R4.
Qed.

Lemma sim_rnext : forall s t i, wf s -> R s t -> step_ok s t (RNext i).
Proof.
  intros s t i Hwf [R1 [R2 [R3 R4]]]. unfold step_ok. cbn [mstep sstep].
  rewrite (R4 i). destruct (rits s i) as [p [|u us]] eqn:Er.
  - cbn [fst snd]. split; [reflexivity|]. split; [|exact Hwf]. repeat split; assumption.
  - pose (selp := fun x : N * key => fst x =? u).
    assert (Hext : stamp (fun c => (uid c =? u) && alive (clock s) c) false (clock s) (chains s p) =
                   stamp (fun c => selp (payload c) && alive (clock s) c) false (clock s) (chains s p)).
    { apply stamp_ext. intro c. reflexivity. }
    rewrite Hext.
    destruct (stamp (fun c => selp (payload c) && alive (clock s) c) false (clock s) (chains s p)) as [l' k] eqn:Est.
    destruct (stamp_step s p selp false l' k (upd (rits s) i (p, us)) Hwf Est) as [Hwf' [Hl [Hlo Hr]]].
    cbn [fst snd]. split; [reflexivity|]. split; [|exact Hwf'].
    unfold R; cbn [db snext sits srits rits nextu]. split; [|split; [|split]].
    + intro p0. destruct (N.eq_dec p0 p) as [He|He].
      * subst. rewrite upd_same. rewrite Hl. rewrite R1. reflexivity.
      * rewrite upd_other by exact He. rewrite (Hlo p0 He). apply R1.
    + exact R2.
    + intro j. rewrite Hr. apply R3.
    + intro j. destruct (N.eq_dec j i) as [He|He].
      * subst. rewrite !upd_same. reflexivity.
      * rewrite !upd_other by exact He. apply R4.
Qed.

Lemma sim_listing : forall s t p q, wf s -> R s t -> step_ok s t (Listing p q).
Proof.
  intros s t p q Hwf HR. pose proof HR as [R1 _]. unfold step_ok. cbn [mstep sstep fst snd].
  split; [|split; assumption]. rewrite R1. unfold living. rewrite vis_living. reflexivity.
Qed.

Theorem step_sim : forall s t o, wf s -> R s t -> step_ok s t o.
Proof.
  intros s t o Hwf HR. destruct o as [i p q|i|i|p k|p k|p q|p q|i p q|i|p q].
  - apply sim_open; assumption.
  - apply sim_next; assumption.
  - apply sim_close; assumption.
  - apply (sim_assert s t p k false); assumption.
  - apply (sim_assert s t p k true); assumption.
  - apply (sim_retract s t p q true); assumption.
  - apply (sim_retract s t p q false); assumption.
  - apply sim_ropen; assumption.
  - apply sim_rnext; assumption.
  - apply sim_listing; assumption.
Qed.

Theorem run_sim : forall h s t, wf s -> R s t -> mrun s h = srun t h.
Proof.
  intro h. induction h as [|o r IH]; intros s t Hwf HR; [reflexivity|].
  cbn [mrun srun]. destruct (step_sim s t o Hwf HR) as [Ho [HR' Hwf']].
  destruct (mstep s o) as [s' ob]. destruct (sstep t o) as [t' ob'].
  cbn [fst snd] in Ho, HR', Hwf'. rewrite Ho. rewrite (IH s' t' Hwf' HR'). reflexivity.
Qed.

Theorem mirror_is_snapshot_spec : forall s h, wf s -> mrun s h = srun (abs s) h.
Proof. intros s h Hwf. apply run_sim; [exact Hwf|apply R_abs]. Qed.

Lemma mfinal_wf : forall h s, wf s -> wf (mfinal s h).
Proof.
  intro h. induction h as [|o r IH]; intros s Hwf; [exact Hwf|].
  cbn [mfinal]. apply IH. destruct (step_sim s (abs s) o Hwf (R_abs s)) as [_ [_ Hwf']]. exact Hwf'.
Qed.

(* ------------------------------------------------------------------ the specification delivers snapshots *)
Lemma sstep_sits_other : forall t o i, touches i o = false -> is_next i o = false ->
  sits (fst (sstep t o)) i = sits t i.
Proof.
  intros t o i Ht Hn. destruct o as [j p q|j|j|p k|p k|p q|p q|j p q|j|p q]; cbn [sstep]; cbn [touches is_next] in Ht, Hn.
  - cbn [fst sits]. apply upd_other. intro He. subst. rewrite N.eqb_refl in Ht. discriminate.
  - destruct (sits t j) as [|u r]; cbn [fst sits]; [reflexivity|].
    apply upd_other. intro He. subst. rewrite N.eqb_refl in Hn. discriminate.
  - cbn [fst sits]. apply upd_other. intro He. subst. rewrite N.eqb_refl in Ht. discriminate.
  - reflexivity.
  - reflexivity.
  - reflexivity.
  - reflexivity.
  - reflexivity.
  - destruct (srits t j) as [p [|u us]]; reflexivity.
  - reflexivity.
Qed.

Theorem spec_delivery : forall h t i, quiet i h = true ->
  answers i h (srun t h) = deliver (sits t i) (count_next i h).
Proof.
  intro h. induction h as [|o r IH]; intros t i Hq; [reflexivity|].
  unfold quiet in Hq. cbn [forallb] in Hq. apply andb_true_iff in Hq. destruct Hq as [Ho Hr].
  apply negb_true_iff in Ho.
  cbn [srun]. destruct (sstep t o) as [t' ob] eqn:Es. cbn [answers]. unfold count_next. cbn [filter].
  destruct (is_next i o) eqn:En.
  - destruct o as [j p q|j|j|p k|p k|p q|p q|j p q|j|p q]; cbn [is_next] in En; try discriminate.
    apply N.eqb_eq in En. subst j. cbn [sstep] in Es. cbn [List.length deliver].
    destruct (sits t i) as [|u us] eqn:Ei.
    + injection Es as E1 E2. subst t' ob. rewrite (IH t i Hr). rewrite Ei. reflexivity.
    + injection Es as E1 E2. subst t' ob. rewrite (IH _ i Hr). cbn [sits]. rewrite upd_same. reflexivity.
  - rewrite (IH t' i Hr). replace t' with (fst (sstep t o)) by (rewrite Es; reflexivity).
    rewrite (sstep_sits_other t o i Ho En). reflexivity.
Qed.

Lemma remaining_after_open : forall s i p q,
  remaining (fst (mstep s (Open i p q))) i = visible_uids (clock s) q (chains s p).
Proof.
  intros s i p q. cbn [mstep fst]. rewrite remaining_set_it_same.
  destruct (chains s p) as [|c r] eqn:Ec; [reflexivity|].
  cbn [icc ipat ipos ipred]. rewrite Ec. cbn [from]. rewrite N.eqb_refl. reflexivity.
Qed.

Theorem snapshot_isolation_thm : forall s i p q h, wf s -> quiet i h = true ->
  answers i h (mrun (fst (mstep s (Open i p q))) h) =
  deliver (visible_uids (clock s) q (chains s p)) (count_next i h).
Proof.
  intros s i p q h Hwf Hq.
  destruct (step_sim s (abs s) (Open i p q) Hwf (R_abs s)) as [_ [_ Hwf1]].
  rewrite (mirror_is_snapshot_spec _ h Hwf1). rewrite (spec_delivery h _ i Hq).
  cbn [abs sits]. rewrite remaining_after_open. reflexivity.
Qed.

(* ------------------------------------------------------------------ companions, stated on the mirror *)
Theorem assert_thm : forall s p k (front : bool), wf s ->
  let s' := fst (mstep s (if front then Asserta p k else Assertz p k)) in
  living s' p = (if front then (nextu s, k) :: living s p else living s p ++ [(nextu s, k)]) /\
  (forall p', p' <> p -> living s' p' = living s p') /\
  (forall i, remaining s' i = remaining s i) /\
  snd (mstep s (if front then Asserta p k else Assertz p k)) = OVal (Some (nextu s)).
Proof.
  intros s p k front Hwf. destruct (assert_step s p k front Hwf) as [_ [Hl [Hlo Hr]]].
  destruct front; cbn [mstep fst snd]; repeat split; assumption.
Qed.

Theorem retract_first_thm : forall s p q, wf s ->
  let s' := fst (mstep s (RetractFirst p q)) in
  snd (mstep s (RetractFirst p q)) = OVal (hd_error (map fst (kfilter q (living s p)))) /\
  living s' p = remove_first (fun x => kmatch q (snd x)) (living s p) /\
  (forall p', p' <> p -> living s' p' = living s p') /\
  (forall i, remaining s' i = remaining s i).
Proof.
  intros s p q Hwf.
  destruct (step_sim s (abs s) (RetractFirst p q) Hwf (R_abs s)) as [Ho [[R1 [_ [R3 _]]] _]].
  cbn zeta. split; [|split; [|split]].
  - rewrite Ho. cbn [sstep snd abs db]. destruct (kfilter q (living s p)); reflexivity.
  - rewrite <- R1. cbn [sstep fst db abs]. apply upd_same.
  - intros p' Hp'. rewrite <- R1. cbn [sstep fst db abs]. apply upd_other. exact Hp'.
  - intro i. rewrite <- R3. reflexivity.
Qed.

Theorem retract_reentrant_thm : forall s i p u us, wf s -> rits s i = (p, u :: us) ->
  let s' := fst (mstep s (RNext i)) in
  snd (mstep s (RNext i)) = OVal (Some u) /\
  living s' p = filter (fun x => negb (fst x =? u)) (living s p) /\
  (forall p', p' <> p -> living s' p' = living s p') /\
  (forall j, remaining s' j = remaining s j) /\
  rits s' i = (p, us).
Proof.
  intros s i p u us Hwf Hr.
  destruct (step_sim s (abs s) (RNext i) Hwf (R_abs s)) as [Ho [[R1 [_ [R3 R4]]] _]].
  cbn zeta. cbn [sstep abs srits] in Ho, R1, R3, R4. rewrite Hr in Ho, R1, R3, R4. cbn [fst snd db sits srits] in Ho, R1, R3, R4.
  split; [exact Ho|]. split; [|split; [|split]].
  - rewrite <- R1. apply upd_same.
  - intros p' Hp'. rewrite <- R1. apply upd_other. exact Hp'.
  - intro j. rewrite <- R3. reflexivity.
  - rewrite <- R4. apply upd_same.
Qed.

Theorem later_calls_thm : forall s i p q, wf s ->
  snd (mstep s (Listing p q)) = OList (map fst (kfilter q (living s p))) /\
  remaining (fst (mstep s (Open i p q))) i = map fst (kfilter q (living s p)).
Proof.
  intros s i p q Hwf. split.
  - cbn [mstep snd]. unfold living. rewrite vis_living. reflexivity.
  - rewrite remaining_after_open. unfold living. rewrite vis_living. reflexivity.
Qed.

(* ------------------------------------------------------------------ the driver executor performs a history *)
Definition hist (x : xst) : list op := map snd (rev (xops x)).

Definition XI (s0 : mst) (x : xst) : Prop :=
  xm x = mfinal s0 (hist x) /\ rev (xlog x) = filter_log (rev (xops x)) (mrun s0 (hist x)).

Lemma mfinal_snoc : forall h s o, mfinal s (h ++ [o]) = fst (mstep (mfinal s h) o).
Proof. intro h. induction h as [|a r IH]; intros s o; [reflexivity|]. cbn [app mfinal]. apply IH. Qed.

Lemma mrun_snoc : forall h s o, mrun s (h ++ [o]) = mrun s h ++ [snd (mstep (mfinal s h) o)].
Proof.
  intro h. induction h as [|a r IH]; intros s o.
  - cbn [app mrun mfinal]. destruct (mstep s o); reflexivity.
  - cbn [app mrun mfinal]. destruct (mstep s a) as [s' ob]. cbn [fst]. rewrite IH. reflexivity.
Qed.

Lemma mrun_length : forall h s, List.length (mrun s h) = List.length h.
Proof.
  intro h. induction h as [|a r IH]; intro s; [reflexivity|].
  cbn [mrun]. destruct (mstep s a) as [s' ob]. cbn [List.length]. rewrite IH. reflexivity.
Qed.

Lemma filter_log_snoc : forall kops obs k o ob, List.length obs = List.length kops ->
  filter_log (kops ++ [(k, o)]) (obs ++ [ob]) =
  filter_log kops obs ++ (if logged o then [(k, ob)] else []).
Proof.
  intro kops. induction kops as [|[k0 o0] r IH]; intros obs k o ob Hl.
  - destruct obs; [|discriminate]. cbn [app filter_log]. destruct (logged o); reflexivity.
  - destruct obs as [|b bs]; [discriminate|]. cbn [List.length] in Hl. injection Hl as Hl.
    cbn [app filter_log]. rewrite (IH bs k o ob Hl). destruct (logged o0); reflexivity.
Qed.

Lemma XI_xdo : forall s0 x k o, XI s0 x -> XI s0 (fst (xdo x k o)).
Proof.
  intros s0 x k o [Hm Hl]. unfold xdo. destruct (mstep (xm x) o) as [m' ob] eqn:Es. cbn [fst].
  unfold XI, hist. cbn [xm xlog xops]. cbn [rev]. rewrite map_app. cbn [map snd].
  fold (hist x). split.
  - rewrite mfinal_snoc. rewrite <- Hm. rewrite Es. reflexivity.
  - rewrite mrun_snoc. rewrite <- Hm. rewrite Es. cbn [snd].
    rewrite filter_log_snoc.
    + rewrite <- Hl. destruct (logged o); [reflexivity|rewrite app_nil_r; reflexivity].
    + rewrite mrun_length. unfold hist. rewrite map_length. reflexivity.
Qed.

Lemma XI_same : forall s0 x x', xm x' = xm x -> xlog x' = xlog x -> xops x' = xops x -> XI s0 x -> XI s0 x'.
Proof. intros s0 x x' H1 H2 H3 [Hm Hl]. unfold XI, hist. rewrite H1, H2, H3. split; assumption. Qed.

Lemma XI_gen_loop : forall s0 cont, (forall x, XI s0 x -> XI s0 (cont x)) ->
  forall fuel k i retr x, XI s0 x -> XI s0 (gen_loop cont fuel k i retr x).
Proof.
  intros s0 cont Hc fuel. induction fuel as [|f IH]; intros k i retr x Hx.
  - cbn [gen_loop]. apply (XI_same s0 x); [reflexivity|reflexivity|reflexivity|exact Hx].
  - cbn [gen_loop]. pose proof (XI_xdo s0 x k (if retr then RNext i else Next i) Hx) as H1.
    destruct (xdo x k (if retr then RNext i else Next i)) as [x1 ob]. cbn [fst] in H1.
    destruct ob as [|[v|]|l]; try exact H1. apply IH. apply Hc. exact H1.
Qed.

Lemma XI_exec : forall s0 gs k fuel x, XI s0 x -> XI s0 (exec gs k fuel x).
Proof.
  intros s0 gs. induction gs as [|g rest IH]; intros k fuel x Hx; [exact Hx|].
  cbn [exec]. destruct g as [p q|p q|p q|o].
  - apply XI_gen_loop; [intros y Hy; apply IH; exact Hy|].
    apply XI_xdo. apply (XI_same s0 x); [reflexivity|reflexivity|reflexivity|exact Hx].
  - apply IH. apply XI_xdo. apply XI_xdo. apply XI_xdo.
    apply (XI_same s0 x); [reflexivity|reflexivity|reflexivity|exact Hx].
  - apply XI_gen_loop; [intros y Hy; apply IH; exact Hy|].
    apply XI_xdo. apply (XI_same s0 x); [reflexivity|reflexivity|reflexivity|exact Hx].
  - apply IH. apply XI_xdo. exact Hx.
Qed.

Theorem driver_faithful : forall s0 gs fuel, XI s0 (run_driver s0 gs fuel).
Proof. intros s0 gs fuel. unfold run_driver. apply XI_exec. split; reflexivity. Qed.

Theorem driver_log_thm : forall s0 gs fuel, wf s0 ->
  let x := run_driver s0 gs fuel in
  rev (xlog x) = filter_log (rev (xops x)) (srun (abs s0) (map snd (rev (xops x)))).
Proof.
  intros s0 gs fuel Hwf x. destruct (driver_faithful s0 gs fuel) as [_ Hl]. fold x in Hl.
  rewrite Hl. unfold hist. rewrite (mirror_is_snapshot_spec s0 _ Hwf). reflexivity.
Qed.

(* ------------------------------------------------------------------ loaded programs are well-formed states *)
Lemma nodupb_NoDup : forall l, nodupb l = true -> NoDup l.
Proof.
  intro l. induction l as [|x r IH]; intro H; [constructor|].
  cbn [nodupb] in H. apply andb_true_iff in H. destruct H as [Hx Hr]. constructor; [|apply IH; exact Hr].
  intro Hin. apply negb_true_iff in Hx. assert (E : existsb (N.eqb x) r = true).
  { apply existsb_exists. exists x. split; [exact Hin|apply N.eqb_refl]. }
  rewrite E in Hx. discriminate.
Qed.

Lemma load_wf : forall s p cl, wf s -> Forall (fun x => fst x < nextu s) cl -> NoDup (map fst cl) -> wf (load s p cl).
Proof.
  intros s p cl [Wold [Wuid [Wnd Wit]]] Hb Hnd. unfold wf, load. cbn [chains clock nextu its].
  assert (Hm : map uid (map (fun x : N * key => mkC (fst x) (snd x) (clock s) None) cl) = map fst cl).
  { rewrite map_map. apply map_ext. intro a. reflexivity. }
  split; [|split; [|split]].
  - intro p'. destruct (N.eq_dec p' p) as [He|He].
    + subst. rewrite upd_same. apply Forall_forall. intros c Hc. apply in_map_iff in Hc.
      destruct Hc as [x [Hx _]]. subst c. apply new_old.
    + rewrite upd_other by exact He. apply Forall_impl with (P := old (clock s)); [|apply Wold].
      intros a Ha. apply (old_mono (clock s)); [lia|exact Ha].
  - intro p'. destruct (N.eq_dec p' p) as [He|He].
    + subst. rewrite upd_same. rewrite Hm. apply Forall_forall. intros u Hu. apply in_map_iff in Hu.
      destruct Hu as [x [Hx Hin]]. subst u. rewrite Forall_forall in Hb. apply Hb. exact Hin.
    + rewrite upd_other by exact He. apply Wuid.
  - intro p'. destruct (N.eq_dec p' p) as [He|He].
    + subst. rewrite upd_same. rewrite Hm. exact Hnd.
    + rewrite upd_other by exact He. apply Wnd.
  - intros i it Hi. destruct (Wit i it Hi) as [Hc Hp]. split; [lia|exact Hp].
Qed.

Lemma empty_wf : forall nu, wf (empty_mst nu).
Proof.
  intro nu. unfold wf, empty_mst. cbn [chains clock nextu its]. repeat split; try constructor; discriminate.
Qed.

Theorem init_wf_thm : forall l0 l1 nu, init_ok l0 l1 nu = true -> wf (init_state l0 l1 nu).
Proof.
  intros l0 l1 nu H. unfold init_ok in H. apply andb_true_iff in H. destruct H as [H H3].
  apply andb_true_iff in H. destruct H as [H1 H2].
  rewrite forallb_forall in H3.
  unfold init_state. apply load_wf; [apply load_wf; [apply empty_wf| |]| |].
  - apply Forall_forall. intros x Hx. cbn [empty_mst nextu]. apply N.ltb_lt. apply H3. apply in_or_app. left. exact Hx.
  - apply nodupb_NoDup. exact H1.
  - apply Forall_forall. intros x Hx. cbn [load empty_mst nextu]. apply N.ltb_lt. apply H3. apply in_or_app. right. exact Hx.
  - apply nodupb_NoDup. exact H2.
Qed.

(* ------------------------------------------------------------------ the comparison function means equality *)
Lemma optN_eqb_eq : forall a b, optN_eqb a b = true <-> a = b.
Proof.
  intros [x|] [y|]; cbn [optN_eqb]; split; intro H; try discriminate; try reflexivity.
  - apply N.eqb_eq in H. subst. reflexivity.
  - inversion H. apply N.eqb_refl.
Qed.

Lemma listN_eqb_eq : forall a b, listN_eqb a b = true <-> a = b.
Proof.
  intro a. induction a as [|x r IH]; intros [|y r']; cbn [listN_eqb]; split; intro H; try discriminate; try reflexivity.
  - apply andb_true_iff in H. destruct H as [H1 H2]. apply N.eqb_eq in H1. apply IH in H2. subst. reflexivity.
  - inversion H; subst. rewrite N.eqb_refl. cbn [andb]. apply IH. reflexivity.
Qed.

Lemma obs_eqb_eq : forall a b, obs_eqb a b = true <-> a = b.
Proof.
  intros [|x|x] [|y|y]; cbn [obs_eqb]; split; intro H; try discriminate; try reflexivity.
  - apply optN_eqb_eq in H. subst. reflexivity.
  - inversion H. apply optN_eqb_eq. reflexivity.
  - apply listN_eqb_eq in H. subst. reflexivity.
  - inversion H. apply listN_eqb_eq. reflexivity.
Qed.

Lemma log_eqb_eq : forall a b, log_eqb a b = true <-> a = b.
Proof.
  intro a. induction a as [|[k o] r IH]; intros [|[k' o'] r']; cbn [log_eqb]; split; intro H; try discriminate; try reflexivity.
  - apply andb_true_iff in H. destruct H as [H H3]. apply andb_true_iff in H. destruct H as [H1 H2].
    apply N.eqb_eq in H1. apply obs_eqb_eq in H2. apply IH in H3. subst. reflexivity.
  - inversion H; subst. rewrite N.eqb_refl. cbn [andb].
    apply andb_true_iff. split; [apply obs_eqb_eq; reflexivity|apply IH; reflexivity].
Qed.

Theorem check_run_thm : forall l0 l1 nu gs impl_log,
  check_run l0 l1 nu gs impl_log = true <->
  init_ok l0 l1 nu = true /\ xout (run_driver (init_state l0 l1 nu) gs driver_fuel) = false /\
  model_log l0 l1 nu gs = impl_log.
Proof.
  intros l0 l1 nu gs impl_log. unfold check_run, model_log. cbn zeta.
  rewrite !andb_true_iff. rewrite negb_true_iff. rewrite log_eqb_eq. tauto.
Qed.
