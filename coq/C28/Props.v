(* C28 -- pinned property theorems (nothing else lives here).  The model is a specification; the implementation is
   tied to it by correspondence only. *)
From Coq Require Import List NArith Bool Lia.
From V Require Import C28.Model C28.Iter C28.IterProofs.
Import ListNotations.

(* the solutions are yielded exactly, in order *)
Theorem iterator_yields_solutions_in_order : forall q,
  flat_map (fun l => match l with LSol i => [i] | _ => [] end) (stream q) = sols q.
Proof.
  intros q. unfold stream. rewrite flat_map_app.
  assert (H : forall l, flat_map (fun l => match l with LSol i => [i] | _ => [] end) (map LSol l) = l).
  { induction l as [|x l IH]; cbn; [reflexivity | rewrite IH; reflexivity]. }
  rewrite H. destruct (exc q); [cbn; apply app_nil_r|].
  destruct (leaves_choicepoint q || _); cbn; apply app_nil_r.
Qed.
Print Assumptions iterator_yields_solutions_in_order.

(* an exception is reported once, as the last item; the false marker only ends an exception-free stream *)
Lemma split_sols : forall l tl pre e post, map LSol l ++ tl = pre ++ LExc e :: post ->
  exists pre', pre = map LSol l ++ pre' /\ tl = pre' ++ LExc e :: post.
Proof.
  induction l as [|y l IH]; intros tl pre e post H; cbn [map app] in H.
  - exists pre. auto.
  - destruct pre as [|p pre]; cbn [app] in H; [discriminate|]. inversion H; subst.
    destruct (IH _ _ _ _ H2) as (pre' & A & B). exists pre'. subst. auto.
Qed.

Theorem exception_once_then_end : forall q e pre post, stream q = pre ++ LExc e :: post ->
  post = [] /\ exc q = Some e /\ pre = map LSol (sols q).
Proof.
  intros q e pre post H. unfold stream in H. apply split_sols in H. destruct H as (pre' & A & B).
  destruct (exc q) as [e'|].
  - destruct pre' as [|p pre']; cbn in B; inversion B; subst; [rewrite app_nil_r; auto | destruct pre'; discriminate].
  - destruct (leaves_choicepoint q || _); destruct pre' as [|p pre']; cbn in B; try discriminate;
      inversion B; destruct pre'; discriminate.
Qed.
Print Assumptions exception_once_then_end.

Theorem end_marker_rule : forall q, In LFalse (stream q) <->
  exc q = None /\ (leaves_choicepoint q = true \/ sols q = []).
Proof.
  intros q. unfold stream. rewrite in_app_iff. split.
  - intros [H|H].
    + apply in_map_iff in H. destruct H as (x & Hx & _). discriminate.
    + destruct (exc q); [destruct H as [H|[]]; discriminate|]. split; auto.
      destruct (leaves_choicepoint q); [auto|]. destruct (sols q); [auto|]. cbn in H. destruct H.
  - intros [He Hc]. right. rewrite He. destruct Hc as [Hc|Hc]; [rewrite Hc | rewrite Hc, orb_true_r]; left; reflexivity.
Qed.
Print Assumptions end_marker_rule.

(* what the k-th query of a history yields depends only on that query and on how much of it is consumed, not on the
   other queries of the history nor on how far they were consumed *)
Theorem history_independence : forall a b q k,
  nth_error (run_history (a ++ (q, k) :: b)) (length a) = Some (observe q k).
Proof.
  intros a b q k. unfold run_history. rewrite map_app. cbn [map fst snd].
  rewrite nth_error_app2 by (rewrite map_length; lia). rewrite map_length, PeanoNat.Nat.sub_diag. reflexivity.
Qed.
Print Assumptions history_independence.

Theorem partial_consumption_is_prefix : forall q k, observe q k = firstn k (observe q (length (stream q))).
Proof. intros q k. unfold observe. rewrite firstn_all. reflexivity. Qed.
Print Assumptions partial_consumption_is_prefix.

(* ---------- the implementation's iterator (mirror of run_query / QueryState::next / Drop in C28/Iter.v) *)
(* For every machine state left behind by earlier queries (any or-stack depth, any stale ball), every query and every
   number of answers pulled: the iterator yields exactly the first answers of the specification's stream, *)
Theorem iterator_refines_stream : forall m q take,
  snd (run_one as_built m (script_of q) take) = observe q take.
Proof. exact iterator_refines_stream_proof. Qed.
Print Assumptions iterator_refines_stream.

(* so that a whole history on one machine observes what the specification says, each query as on a fresh machine, *)
Theorem mirror_history_is_spec_history : forall h m,
  snd (run_hist as_built m (map (fun qk => (script_of (fst qk), snd qk)) h)) = run_history h.
Proof. exact history_independent_proof. Qed.
Print Assumptions mirror_history_is_spec_history.

(* and the or-stack is where it was before the history, for any scripts the WAM may produce (wfb) and any consumption *)
Theorem or_stack_restored : forall h m, Forall (fun st => wfb (fst st) = true) h ->
  b (fst (run_hist as_built m h)) = b m.
Proof. exact or_stack_restored_proof. Qed.
Print Assumptions or_stack_restored.

Theorem script_of_wellformed : forall q, wfb (script_of q) = true.
Proof. exact script_of_wf. Qed.
Print Assumptions script_of_wellformed.

(* the two repairs made in /repo are necessary in the mirror: without ball.reset() a query after a throwing query
   reports the old ball (46be8ba); without discarding the frames above the stub a partially consumed iterator leaves
   the or-stack deeper than it was (b1aa2a8) *)
Example ball_reset_is_necessary :
  snd (run_hist {| reset_ball := false; discard := true |} {| b := 0; ball := None |}
         [(script_of {| sols := []; exc := Some 7%N; leaves_choicepoint := false |}, 2%nat);
          (script_of {| sols := [1%N]; exc := None; leaves_choicepoint := false |}, 2%nat)])
  = [[LExc 7%N]; [LExc 7%N]].
Proof. vm_compute. reflexivity. Qed.

Example discard_is_necessary :
  b (fst (run_hist {| reset_ball := true; discard := false |} {| b := 0; ball := None |}
         [(script_of {| sols := [1%N; 2%N; 3%N]; exc := None; leaves_choicepoint := false |}, 1%nat)])) = 1%nat.
Proof. vm_compute. reflexivity. Qed.

(* non-vacuity: a history with a partially consumed nondeterministic query, a throwing query and a failing one *)
Example mirror_history_example :
  snd (run_hist as_built {| b := 3; ball := Some 9%N |}
         [(script_of {| sols := [1%N; 2%N; 3%N]; exc := None; leaves_choicepoint := false |}, 2%nat);
          (script_of {| sols := [4%N]; exc := Some 7%N; leaves_choicepoint := false |}, 5%nat);
          (script_of {| sols := []; exc := None; leaves_choicepoint := false |}, 5%nat);
          (script_of {| sols := [5%N]; exc := None; leaves_choicepoint := true |}, 5%nat)])
  = [[LSol 1%N; LSol 2%N]; [LSol 4%N; LExc 7%N]; [LFalse]; [LSol 5%N; LFalse]].
Proof. vm_compute. reflexivity. Qed.
