(* C28 -- pinned property theorems (nothing else lives here).  The model is a specification; the implementation is
   tied to it by correspondence only. *)
From Coq Require Import List NArith Bool Lia.
From V Require Import C28.Model.
Import ListNotations.

(* the solutions are yielded exactly, in order *)
Theorem iterator_yields_solutions_in_order : forall q,
  flat_map (fun l => match l with LSol i => [i] | _ => [] end) (stream q) = sols q.
Proof.
  intros q. unfold stream. rewrite flat_map_app.
  assert (H : forall l, flat_map (fun l => match l with LSol i => [i] | _ => [] end) (map LSol l) = l).
  { induction l as [|x l IH]; cbn; [reflexivity | rewrite IH; reflexivity]. }
  rewrite H. destruct (exc q); [cbn; apply app_nil_r|].
  destruct (leaves_choicepoint q || _); cbn; apply app_nil_r.
Qed.
Print Assumptions iterator_yields_solutions_in_order.

(* an exception is reported once, as the last item; the false marker only ends an exception-free stream *)
Lemma split_sols : forall l tl pre e post, map LSol l ++ tl = pre ++ LExc e :: post ->
  exists pre', pre = map LSol l ++ pre' /\ tl = pre' ++ LExc e :: post.
Proof.
  induction l as [|y l IH]; intros tl pre e post H; cbn [map app] in H.
  - exists pre. auto.
  - destruct pre as [|p pre]; cbn [app] in H; [discriminate|]. inversion H; subst.
    destruct (IH _ _ _ _ H2) as (pre' & A & B). exists pre'. subst. auto.
Qed.

Theorem exception_once_then_end : forall q e pre post, stream q = pre ++ LExc e :: post ->
  post = [] /\ exc q = Some e /\ pre = map LSol (sols q).
Proof.
  intros q e pre post H. unfold stream in H. apply split_sols in H. destruct H as (pre' & A & B).
  destruct (exc q) as [e'|].
  - destruct pre' as [|p pre']; cbn in B; inversion B; subst; [rewrite app_nil_r; auto | destruct pre'; discriminate].
  - destruct (leaves_choicepoint q || _); destruct pre' as [|p pre']; cbn in B; try discriminate;
      inversion B; destruct pre'; discriminate.
Qed.
Print Assumptions exception_once_then_end.

Theorem end_marker_rule : forall q, In LFalse (stream q) <->
  exc q = None /\ (leaves_choicepoint q = true \/ sols q = []).
Proof.
  intros q. unfold stream. rewrite in_app_iff. split.
  - intros [H|H].
    + apply in_map_iff in H. destruct H as (x & Hx & _). discriminate.
    + destruct (exc q); [destruct H as [H|[]]; discriminate|]. split; auto.
      destruct (leaves_choicepoint q); [auto|]. destruct (sols q); [auto|]. cbn in H. destruct H.
  - intros [He Hc]. right. rewrite He. destruct Hc as [Hc|Hc]; [rewrite Hc | rewrite Hc, orb_true_r]; left; reflexivity.
Qed.
Print Assumptions end_marker_rule.

(* what the k-th query of a history yields depends only on that query and on how much of it is consumed, not on the
   other queries of the history nor on how far they were consumed *)
Theorem history_independence : forall a b q k,
  nth_error (run_history (a ++ (q, k) :: b)) (length a) = Some (observe q k).
Proof.
  intros a b q k. unfold run_history. rewrite map_app. cbn [map fst snd].
  rewrite nth_error_app2 by (rewrite map_length; lia). rewrite map_length, PeanoNat.Nat.sub_diag. reflexivity.
Qed.
Print Assumptions history_independence.

Theorem partial_consumption_is_prefix : forall q k, observe q k = firstn k (observe q (length (stream q))).
Proof. intros q k. unfold observe. rewrite firstn_all. reflexivity. Qed.
Print Assumptions partial_consumption_is_prefix.
