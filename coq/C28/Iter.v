(* C28 -- impl-mirror of the iterator of Machine::run_query (src/machine/lib_machine/mod.rs: run_query,
   allocate_stub_choice_point, QueryState::next, Drop for QueryState) over the registers it reads and writes:
   the or-stack (here: its depth b), the exception ball, and the `called` flag.  The WAM itself is an oracle: the
   script of what the successive calls of dispatch_loop do for the query at hand (a solution with or without choice
   points left above the stub, failure back to the stub, or an exception caught by the stub).  No proofs in this file. *)
From Coq Require Import List NArith Bool Arith.
From V Require Import C28.Model.
Import ListNotations.

(* the machine registers the iterator protocol depends on *)
Record mstate := { b : nat;                 (* number of or-frames on the stack *)
                   ball : option N }.       (* machine_st.ball: Some = non-empty stub *)

(* what one run of dispatch_loop does *)
Inductive outcome :=
| OSol (id : N) (more : bool)      (* p = LIB_QUERY_SUCCESS; choice points above the stub remain iff more *)
| OFail                            (* backtracked into the stub: p = BREAK_FROM_DISPATCH_LOOP_LOC *)
| OThrow (e : N).                  (* exception: ball set, backtracked to the stub *)

Definition leaf_of (o : outcome) : leaf :=
  match o with OSol id _ => LSol id | OFail => LFalse | OThrow e => LExc e end.

(* what the WAM guarantees about a query's script: every run but the last is a solution that leaves choice points,
   the last one is a solution without choice points, a failure, or an exception *)
Definition terminal (o : outcome) : bool := match o with OSol _ more => negb more | _ => true end.
Fixpoint wfb (s : list outcome) : bool :=
  match s with
  | [] => false
  | [o] => terminal o
  | OSol _ true :: r => wfb r
  | _ :: _ => false
  end.

(* the script of a query with a given solution stream (Model.qspec) *)
Fixpoint sol_script (l : list N) (last_more : bool) : list outcome :=
  match l with
  | [] => []
  | [x] => [OSol x last_more]
  | x :: r => OSol x true :: sol_script r last_more
  end.
Definition script_of (q : qspec) : list outcome :=
  match exc q with
  | Some e => sol_script (sols q) true ++ [OThrow e]
  | None => if leaves_choicepoint q || (match sols q with [] => true | _ => false end)
            then sol_script (sols q) true ++ [OFail] else sol_script (sols q) false
  end.

Record iter := { stub_b : nat; called : bool; rest : list outcome }.

(* variants of the code: reset_ball = run_query calls ball.reset() (commit 46be8ba), discard = Drop sets b back to the
   stub before trust_me (commit b1aa2a8) *)
Record variant := { reset_ball : bool; discard : bool }.
Definition as_built := {| reset_ball := true; discard := true |}.

(* run_query: allocate_stub_choice_point pushes one or-frame and makes it current; the ball is reset *)
Definition run_query (v : variant) (m : mstate) (s : list outcome) : mstate * iter :=
  ({| b := S (b m); ball := if reset_ball v then None else ball m |},
   {| stub_b := S (b m); called := false; rest := s |}).

(* QueryState::next *)
Definition next (m : mstate) (it : iter) : mstate * iter * option leaf :=
  if called it && Nat.leb (b m) (stub_b it) then (m, it, None)
  else
    match rest it with
    | [] => (m, it, None)          (* dispatch_loop on an exhausted search: excluded by wfb, see next_never_runs_dry *)
    | out :: r =>
      let it' := {| stub_b := stub_b it; called := true; rest := r |} in
      (* dispatch_loop *)
      let m1 := match out with
                | OSol _ more => {| b := stub_b it + (if more then 1 else 0); ball := ball m |}
                | OFail => {| b := stub_b it; ball := ball m |}
                | OThrow e => {| b := stub_b it; ball := Some e |}
                end in
      match ball m1 with
      | Some e => (m1, it', Some (LExc e))                     (* !ball.stub.is_empty(): the ball is reported *)
      | None => (m1, it', Some (leaf_of out))                  (* bindings / True / False; backtrack() leaves b as it is *)
      end
    end.

(* Drop: discard what is above the stub, then trust_me pops the top frame *)
Definition drop (v : variant) (m : mstate) (it : iter) : mstate :=
  let b1 := if discard v && Nat.ltb (stub_b it) (b m) then stub_b it else b m in
  {| b := pred b1; ball := ball m |}.

(* pull at most `take` answers, then drop the iterator *)
Fixpoint pull (take : nat) (m : mstate) (it : iter) : mstate * iter * list leaf :=
  match take with
  | O => (m, it, [])
  | S k => match next m it with
           | (m1, it1, None) => (m1, it1, [])
           | (m1, it1, Some l) => let '(m2, it2, ls) := pull k m1 it1 in (m2, it2, l :: ls)
           end
  end.

Definition run_one (v : variant) (m : mstate) (s : list outcome) (take : nat) : mstate * list leaf :=
  let '(m0, it0) := run_query v m s in
  let '(m1, it1, ls) := pull take m0 it0 in
  (drop v m1 it1, ls).

Fixpoint run_hist (v : variant) (m : mstate) (h : list (list outcome * nat)) : mstate * list (list leaf) :=
  match h with
  | [] => (m, [])
  | (s, take) :: r => let '(m1, ls) := run_one v m s take in
                      let '(m2, rest) := run_hist v m1 r in (m2, ls :: rest)
  end.

(* the comparison used by the correspondence: the observed prefix of a query with the given in-Prolog solutions *)
Definition check_iter (solutions : list N) (e : option N) (lc : bool) (take : nat) (observed : list leaf) : bool :=
  leaves_eqb observed (snd (run_one as_built {| b := 0; ball := None |}
                                     (script_of {| sols := solutions; exc := e; leaves_choicepoint := lc |}) take)).
