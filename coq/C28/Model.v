(* C28 -- the answer-iterator protocol of Machine::run_query as a specification over a query's solution stream.
   Answers are abstracted to identifiers; what is modelled is the SHAPE of the stream and its independence from the
   history of earlier queries on the same machine.  No proofs in this file. *)
From Coq Require Import List NArith Bool Arith.
Import ListNotations.

Inductive leaf := LSol (id : N) | LFalse | LExc (id : N).

(* what a query does: its solutions in order, then either an exception, or the end -- with or without choice
   points left after the last solution *)
Record qspec := { sols : list N; exc : option N; leaves_choicepoint : bool }.

Definition stream (q : qspec) : list leaf :=
  map LSol (sols q) ++
  match exc q with
  | Some e => [LExc e]
  | None => if leaves_choicepoint q || (match sols q with [] => true | _ => false end) then [LFalse] else []
  end.

(* an iterator from which `take` answers are pulled before it is dropped *)
Definition observe (q : qspec) (take : nat) : list leaf := firstn take (stream q).

(* a machine whose database is not changed by the queries: a history is a list of (query, take) *)
Definition run_history (h : list (qspec * nat)) : list (list leaf) := map (fun qk => observe (fst qk) (snd qk)) h.

(* ---------- the comparison used by the correspondence: observed against the solutions found inside Prolog *)
Fixpoint leaf_eqb (a b : leaf) : bool :=
  match a, b with LSol x, LSol y => N.eqb x y | LFalse, LFalse => true | LExc x, LExc y => N.eqb x y | _, _ => false end.
Fixpoint leaves_eqb (a b : list leaf) : bool :=
  match a, b with [], [] => true | x :: a', y :: b' => leaf_eqb x y && leaves_eqb a' b' | _, _ => false end.
(* full consumption: the solutions in order, then the exception, or the end with an optional false marker
   (mandatory when there was no solution) *)
Definition check_full (solutions : list N) (e : option N) (observed : list leaf) : bool :=
  leaves_eqb observed (stream {| sols := solutions; exc := e; leaves_choicepoint := false |})
  || leaves_eqb observed (stream {| sols := solutions; exc := e; leaves_choicepoint := true |}).
Definition check_prefix (full : list leaf) (take : nat) (observed : list leaf) : bool := leaves_eqb observed (firstn take full).
