(* C28 -- proofs about the iterator mirror: what is pulled is a prefix of the query's stream, whatever the history *)
From Coq Require Import List NArith Bool Arith Lia.
From V Require Import C28.Model C28.Iter.
Import ListNotations.

(* ---------- scripts of qspecs *)
Lemma sol_script_leaves l lm : map leaf_of (sol_script l lm) = map LSol l.
Proof.
  induction l as [|x l IH]; [reflexivity|]. destruct l as [|y r]; [reflexivity|].
  change (sol_script (x :: y :: r) lm) with (OSol x true :: sol_script (y :: r) lm).
  cbn [map leaf_of]. rewrite IH. reflexivity.
Qed.

Lemma script_of_stream q : map leaf_of (script_of q) = stream q.
Proof.
  unfold script_of, stream. destruct (exc q) as [e|].
  - rewrite map_app, sol_script_leaves. reflexivity.
  - destruct (leaves_choicepoint q || match sols q with [] => true | _ => false end).
    + rewrite map_app, sol_script_leaves. reflexivity.
    + rewrite sol_script_leaves, app_nil_r. reflexivity.
Qed.

Lemma wfb_single o : wfb [o] = terminal o.
Proof. destruct o as [id [|]| |e]; reflexivity. Qed.

Lemma wfb_cons_true x s : s <> [] -> wfb (OSol x true :: s) = wfb s.
Proof. destruct s; [congruence | reflexivity]. Qed.

Lemma sol_script_cons x y r lm : sol_script (x :: y :: r) lm = OSol x true :: sol_script (y :: r) lm.
Proof. reflexivity. Qed.

Lemma sol_script_nonempty y r lm : sol_script (y :: r) lm <> [].
Proof. destruct r; cbn; discriminate. Qed.

Lemma wfb_sol_script_app l o : terminal o = true -> wfb (sol_script l true ++ [o]) = true.
Proof.
  intros Ho. induction l as [|x l IH]; [cbn [sol_script app]; rewrite wfb_single; exact Ho|].
  destruct l as [|y r]; [cbn [sol_script app]; rewrite wfb_cons_true by discriminate; rewrite wfb_single; exact Ho|].
  rewrite sol_script_cons. cbn [app]. rewrite wfb_cons_true; [exact IH|].
  intros H. apply app_eq_nil in H. destruct H as [_ H]. discriminate.
Qed.

Lemma wfb_sol_script_false l : l <> [] -> wfb (sol_script l false) = true.
Proof.
  induction l as [|x l IH]; intros H; [congruence|]. destruct l as [|y r]; [reflexivity|].
  rewrite sol_script_cons, wfb_cons_true; [apply IH; discriminate | apply sol_script_nonempty].
Qed.

Lemma script_of_wf q : wfb (script_of q) = true.
Proof.
  unfold script_of. destruct (exc q) as [e|]; [apply wfb_sol_script_app; reflexivity|].
  destruct (leaves_choicepoint q) eqn:El; cbn [orb]; [apply wfb_sol_script_app; reflexivity|].
  destruct (sols q) as [|x r] eqn:Es; [reflexivity|]. apply wfb_sol_script_false. discriminate.
Qed.

(* ---------- the state of an iterator in use *)
Definition live (m : mstate) (it : iter) : Prop :=
  (rest it = [] /\ called it = true /\ b m = stub_b it) \/
  (wfb (rest it) = true /\ ball m = None /\ (called it = false -> b m = stub_b it) /\ (called it = true -> b m = S (stub_b it))).

Lemma wfb_cons o r : wfb (o :: r) = true -> (r = [] /\ terminal o = true) \/ (exists id, o = OSol id true /\ wfb r = true).
Proof.
  destruct r as [|o' r'].
  - rewrite wfb_single. auto.
  - destruct o as [id [|]| |e]; cbn [wfb]; try discriminate. intros H. right. eauto.
Qed.

Lemma next_live m it : live m it ->
  match next m it with
  | (m1, it1, None) => rest it = [] /\ m1 = m /\ it1 = it
  | (m1, it1, Some l) => exists o r, rest it = o :: r /\ l = leaf_of o /\ rest it1 = r /\ stub_b it1 = stub_b it /\ live m1 it1
  end.
Proof.
  intros [(Hr & Hc & Hb) | (Hw & Hball & Hb0 & Hb1)]; unfold next.
  - rewrite Hc, Hb, Nat.leb_refl. cbn. auto.
  - destruct (called it) eqn:Ec.
    + rewrite (Hb1 eq_refl). replace (Nat.leb (S (stub_b it)) (stub_b it)) with false by (symmetry; apply Nat.leb_gt; lia).
      cbn [andb]. destruct (rest it) as [|o r] eqn:Er; [discriminate|].
      destruct (wfb_cons _ _ Hw) as [(Hnil & Ht) | (id & -> & Hw')].
      * subst r. destruct o as [id [|]| |e]; try discriminate; cbn [ball]; rewrite ?Hball;
          (do 2 eexists; split; [reflexivity|]; repeat split; auto; left; cbn; repeat split; auto; lia).
      * cbn [ball]. rewrite Hball. exists (OSol id true), r. repeat split; auto.
        right. cbn. repeat split; auto; intros; try discriminate; lia.
    + cbn [andb]. destruct (rest it) as [|o r] eqn:Er; [discriminate|].
      destruct (wfb_cons _ _ Hw) as [(Hnil & Ht) | (id & -> & Hw')].
      * subst r. destruct o as [id [|]| |e]; try discriminate; cbn [ball]; rewrite ?Hball;
          (do 2 eexists; split; [reflexivity|]; repeat split; auto; left; cbn; repeat split; auto; lia).
      * cbn [ball]. rewrite Hball. exists (OSol id true), r. repeat split; auto.
        right. cbn. repeat split; auto; intros; try discriminate; lia.
Qed.

Lemma pull_live take : forall m it, live m it ->
  let '(m1, it1, ls) := pull take m it in
  ls = firstn take (map leaf_of (rest it)) /\ stub_b it1 = stub_b it /\ live m1 it1.
Proof.
  induction take as [|k IH]; intros m it Hl; cbn [pull firstn]; [auto|].
  pose proof (next_live m it Hl) as Hn. destruct (next m it) as [[m1 it1] [l|]].
  - destruct Hn as (o & r & Hr & -> & Hr1 & Hs & Hl1). specialize (IH m1 it1 Hl1).
    destruct (pull k m1 it1) as [[m2 it2] ls]. destruct IH as (-> & Hs2 & Hl2).
    rewrite Hr, Hr1. cbn [map firstn]. repeat split; auto. congruence.
  - destruct Hn as (Hr & -> & ->). rewrite Hr. cbn. auto.
Qed.

Lemma run_query_live m s : wfb s = true -> live (fst (run_query as_built m s)) (snd (run_query as_built m s)).
Proof. intros H. right. cbn. repeat split; auto. discriminate. Qed.

Lemma live_depth m it : live m it -> stub_b it <= b m <= S (stub_b it).
Proof.
  intros [(_ & _ & H) | (_ & _ & H0 & H1)]; [lia|]. destruct (called it); [rewrite H1 | rewrite H0]; auto; lia.
Qed.

(* one query: the answers pulled are the first `take` items of the script's stream, the or-stack is as before *)
Lemma run_one_spec m s take : wfb s = true ->
  snd (run_one as_built m s take) = firstn take (map leaf_of s) /\
  b (fst (run_one as_built m s take)) = b m.
Proof.
  intros Hw. unfold run_one. pose proof (run_query_live m s Hw) as Hl.
  destruct (run_query as_built m s) as [m0 it0] eqn:E. cbn [fst snd] in Hl.
  assert (Hs0 : stub_b it0 = S (b m) /\ rest it0 = s) by (unfold run_query in E; inversion E; subst; auto).
  pose proof (pull_live take m0 it0 Hl) as Hp. destruct (pull take m0 it0) as [[m1 it1] ls].
  destruct Hp as (-> & Hs1 & Hl1). destruct Hs0 as [Hs0 Hr0]. rewrite Hr0. split; [reflexivity|].
  pose proof (live_depth _ _ Hl1) as Hd. cbn [fst]. unfold drop. cbn [discard as_built andb b].
  destruct (Nat.ltb_spec (stub_b it1) (b m1)); cbn [b]; lia.
Qed.

(* the whole history: every query's observation is as on a machine without history; the or-stack ends where it began *)
Lemma run_hist_spec : forall h m, Forall (fun st => wfb (fst st) = true) h ->
  snd (run_hist as_built m h) = map (fun st => firstn (snd st) (map leaf_of (fst st))) h /\
  b (fst (run_hist as_built m h)) = b m.
Proof.
  induction h as [|[s take] r IH]; intros m Hw; cbn [run_hist map]; [auto|].
  inversion Hw as [|? ? H1 H2]; subst. cbn [fst snd] in H1.
  destruct (run_one_spec m s take H1) as [Ho Hb]. destruct (run_one as_built m s take) as [m1 ls].
  cbn [fst snd] in Ho, Hb. destruct (IH m1 H2) as [Hr Hb2]. destruct (run_hist as_built m1 r) as [m2 rs].
  cbn [fst snd] in *. subst. split; [reflexivity | lia].
Qed.

Theorem iterator_refines_stream_proof m q take :
  snd (run_one as_built m (script_of q) take) = observe q take.
Proof. unfold observe. rewrite <- script_of_stream. apply run_one_spec. apply script_of_wf. Qed.

Theorem history_independent_proof h m :
  snd (run_hist as_built m (map (fun qk => (script_of (fst qk), snd qk)) h)) = run_history h.
Proof.
  destruct (run_hist_spec (map (fun qk => (script_of (fst qk), snd qk)) h) m) as [H _].
  - apply Forall_forall. intros st Hin. apply in_map_iff in Hin. destruct Hin as (qk & <- & _). apply script_of_wf.
  - rewrite H, map_map. unfold run_history, observe. apply map_ext. intros [q k]. cbn [fst snd]. rewrite script_of_stream. reflexivity.
Qed.

Theorem or_stack_restored_proof h m : Forall (fun st => wfb (fst st) = true) h ->
  b (fst (run_hist as_built m h)) = b m.
Proof. intros H. apply (run_hist_spec h m H). Qed.

(* the iterator never runs dispatch_loop on an exhausted search *)
Theorem next_never_runs_dry_proof m it : live m it -> rest it = [] -> next m it = (m, it, None).
Proof.
  intros Hl Hr. pose proof (next_live m it Hl) as H. destruct (next m it) as [[m1 it1] [l|]].
  - destruct H as (o & r & Hr' & _). congruence.
  - destruct H as (_ & -> & ->). reflexivity.
Qed.
