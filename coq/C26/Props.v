(* C26 -- pinned property theorems (nothing else lives here) *)
From Coq Require Import ZArith NArith List Bool Permutation.
From V Require Import Base.Term C10.Model C26.Model C26.Proofs.
Import ListNotations.

(* processing the operations one at a time in ANY order shows exactly the order-free denotation: same
   success/failure, same bindings of the query variables (variant-normalised), same multiset of goals that ran,
   same suspended goals, same residual dif constraints *)
Theorem operational_eq_denotation : forall qv ops, operational qv ops = denote qv ops.
Proof. exact operational_eq_denotation_l. Qed.
Print Assumptions operational_eq_denotation.

Theorem order_insensitive : forall qv ops ops', Permutation ops ops' -> operational qv ops = operational qv ops'.
Proof. exact order_insensitive_l. Qed.
Print Assumptions order_insensitive.

(* every posted goal is, at the end, either in the log (once) or still suspended: nothing is lost, nothing runs twice *)
Theorem goals_run_exactly_once : forall ops st k c, run init ops = Some st -> NoDup (map fst (goals_of ops)) ->
  In (k, c) (goals_of ops) ->
  count_occ N.eq_dec (log st) k = (if holds (sub st) c then 1 else 0) /\
  count_occ N.eq_dec (map fst (pgoals st)) k = (if holds (sub st) c then 0 else 1).
Proof. exact goal_runs_once_l. Qed.
Print Assumptions goals_run_exactly_once.

Theorem goals_partition : forall ops st, run init ops = Some st ->
  Permutation (log st ++ map fst (pgoals st)) (map fst (goals_of ops)).
Proof. exact goals_partition_l. Qed.
Print Assumptions goals_partition.

(* a frozen goal has run exactly once iff its variable is bound, never otherwise ... *)
Theorem frozen_runs_once : forall ops st k t, run init ops = Some st -> NoDup (map fst (goals_of ops)) ->
  In (PostFreeze k t) ops ->
  count_occ N.eq_dec (log st) k = if is_var (apply (sub st) t) then 0 else 1.
Proof. exact frozen_runs_once_l. Qed.
Print Assumptions frozen_runs_once.

(* ... and this holds after every prefix of a history: "as soon as its variable is bound" *)
Theorem frozen_runs_as_soon_as_bound : forall pre post st', run init (pre ++ post) = Some st' ->
  exists st, run init pre = Some st /\
    forall k t, NoDup (map fst (goals_of pre)) -> In (PostFreeze k t) pre ->
      count_occ N.eq_dec (log st) k = if is_var (apply (sub st) t) then 0 else 1.
Proof. exact frozen_runs_when_bound_l. Qed.
Print Assumptions frozen_runs_as_soon_as_bound.

(* a history fails exactly when its equations have no solution or some posted dif pair is identical in EVERY
   solution of the equations (the two terms have become identical) *)
Theorem dif_fails_iff_identical : forall qv ops, operational qv ops = Failed <->
  (forall f, ~ unifier (eqs_of ops) f) \/
  (exists k a b, In (PostDif k a b) ops /\ forall f, unifier (eqs_of ops) f -> inst f a = inst f b).
Proof. exact dif_fails_iff_l. Qed.
Print Assumptions dif_fails_iff_identical.

(* a posted dif remains as a residual constraint exactly when some solution of the equations would still make
   its two terms identical; otherwise it is entailed and dropped *)
Theorem dif_entailed_is_dropped : forall qv ops B R W D, operational qv ops = Done B R W D ->
  forall k, In k D <-> exists a b, In (PostDif k a b) ops /\ exists f, unifier (eqs_of ops) f /\ inst f a = inst f b.
Proof. exact dif_residual_iff_l. Qed.
Print Assumptions dif_entailed_is_dropped.

(* the comparison functions of the correspondence mean what they should *)
Theorem check_obs_accepts_failure_iff : forall qv ops, check_obs qv ops OFail = true <-> denote qv ops = Failed.
Proof. exact check_obs_fail_iff_l. Qed.
Print Assumptions check_obs_accepts_failure_iff.

Theorem check_obs_accepts_success_only_if : forall qv ops b g l w d, check_obs qv ops (OOk b g l w d) = true ->
  denote qv ops = Done (canon b) (sortN g) (sortN w) (match denote qv ops with Done _ _ _ D => D | Failed => [] end)
  /\ sortN l = sortN g.
Proof. exact check_obs_ok_l. Qed.
Print Assumptions check_obs_accepts_success_only_if.

Theorem dif_entails_spec : forall a' b' a b, dif_entails (a', b') (a, b) = true <->
  (forall f, inst f a = inst f b -> inst f a' = inst f b').
Proof. exact dif_entails_spec_l. Qed.
Print Assumptions dif_entails_spec.

(* non-vacuity *)
Definition nm (c : N) : list N := [c].
Definition X := Var 0. Definition Y := Var 1. Definition Z' := Var 2.
Definition a_ := Atom (nm 97). Definition b_ := Atom (nm 98).
Definition h1 : list op :=
  [PostFreeze 1 X; PostDif 2 X Y; PostWhen 3 (CGround (Cmp (nm 45) [X; Y])); Unify X a_; PostDif 4 (Cmp (nm 102) [X; Y]) (Cmp (nm 102) [a_; b_]);
   PostWhen 5 (COr (CNonvar Z') (CDecide X Y)); Unify Z' X].
Example ex_success : operational [0; 1; 2]%N h1 = Done [a_; Var 0; a_] [1; 5]%N [3]%N [2; 4]%N.
Proof. vm_compute. reflexivity. Qed.
Example ex_success_rev : operational [0; 1; 2]%N (rev h1) = Done [a_; Var 0; a_] [1; 5]%N [3]%N [2; 4]%N.
Proof. vm_compute. reflexivity. Qed.
Example ex_nodup : NoDup (map fst (goals_of h1)).
Proof. vm_compute. repeat constructor; simpl; intuition discriminate. Qed.
Example ex_fail_dif : operational [0; 1]%N [PostDif 1 X Y; Unify X (Cmp (nm 102) [Z']); Unify Y (Cmp (nm 102) [Z'])] = Failed.
Proof. vm_compute. reflexivity. Qed.
Example ex_entailed : operational [0; 1]%N [PostDif 1 X Y; Unify X a_; Unify Y b_] = Done [a_; b_] [] [] [].
Proof. vm_compute. reflexivity. Qed.
Example ex_check : check_obs [0; 1; 2]%N h1 (OOk [a_; Var 7; a_] [5; 1]%N [1; 5]%N [3]%N [(a_, Var 7); (Cmp (nm 102) [a_; Var 7], Cmp (nm 102) [a_; b_])]) = true.
Proof. vm_compute. reflexivity. Qed.
Example ex_check_equiv_difs : check_obs [0; 1; 2]%N h1 (OOk [a_; Var 7; a_] [5; 1]%N [1; 5]%N [3]%N [(Var 7, a_); (Var 7, b_)]) = true.
Proof. vm_compute. reflexivity. Qed.
Example ex_check_lost_dif : check_obs [0; 1; 2]%N h1 (OOk [a_; Var 7; a_] [5; 1]%N [1; 5]%N [3]%N [(a_, Var 7)]) = false.
Proof. vm_compute. reflexivity. Qed.
Example ex_check_twice : check_obs [0; 1; 2]%N h1 (OOk [a_; Var 7; a_] [5; 1; 1]%N [1; 5]%N [3]%N [(Var 7, a_); (Var 7, b_)]) = false.
Proof. vm_compute. reflexivity. Qed.
