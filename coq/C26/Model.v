(* C26 -- reference model of coroutining constraints (dif/2, freeze/2, when/2) over the shared term datatype.

   A history is a list of operations: unifications and posts of dif / freeze / when.  The suspended goals are
   LOGGING goals: goal number k appends k to a log and binds nothing.

   Two semantics are given.
   (a) the DENOTATION of a history (order-free by construction: it only looks at the three sets of
       equations, dif pairs and suspended goals): compute the most general unifier s of ALL equations at once
       (C10's unify_oc on one tuple equation); the history FAILS iff there is no mgu or some dif pair is
       identical under s; otherwise a goal has run iff its condition holds under s, a dif pair remains as a
       residual constraint iff it is still unifiable under s (a pair that is no longer unifiable is entailed and
       dropped).
   (b) the OPERATIONAL semantics: the operations are processed one at a time in the given order over a store
       (current substitution, pending dif pairs, pending goals, log); a unification extends the substitution by
       the mgu of the two instantiated sides and then wakes: every pending dif is re-tested (identical -> failure,
       no longer unifiable -> dropped), every pending goal whose condition now holds is logged and removed; a post
       tests its constraint under the current substitution first.
   Proofs.v shows (b) = (a) for every history, hence (b) is insensitive to the order of the operations.

   Finite trees only (unification with occurs check): histories whose equations are solvable only by rational
   trees are outside the model (the generator of the check filters them out).
   No proofs in this file. *)
From Coq Require Import ZArith NArith List Bool.
From V Require Import Base.Term C10.Model.
Import ListNotations.

(* ------------------------------------------------------------------ histories *)
Inductive cond :=
| CNonvar (t : term)              (* nonvar(T) *)
| CGround (t : term)              (* ground(T) *)
| CDecide (a b : term)            (* ?=(A,B): A and B are identical or not unifiable *)
| CAnd (c d : cond)
| COr (c d : cond).

Inductive op :=
| Unify (a b : term)              (* A = B *)
| PostDif (k : N) (a b : term)    (* dif(A,B); k names the occurrence *)
| PostFreeze (k : N) (t : term)   (* freeze(T, log(k)) *)
| PostWhen (k : N) (c : cond).    (* when(C, log(k)) *)

Definition dif_post := (N * (term * term))%type.
Definition goal_post := (N * cond)%type.

Definition eqs_of (ops : list op) : list eqn :=
  flat_map (fun o => match o with Unify a b => [(a, b)] | _ => [] end) ops.
Definition difs_of (ops : list op) : list dif_post :=
  flat_map (fun o => match o with PostDif k a b => [(k, (a, b))] | _ => [] end) ops.
Definition goals_of (ops : list op) : list goal_post :=
  flat_map (fun o => match o with
                     | PostFreeze k t => [(k, CNonvar t)]
                     | PostWhen k c => [(k, c)]
                     | _ => [] end) ops.

(* ------------------------------------------------------------------ tests under a substitution *)
Definition is_var (t : term) : bool := match t with Var _ => true | _ => false end.
Definition groundb (t : term) : bool := match vars t with [] => true | _ => false end.
Definition identical (s : subst) (a b : term) : bool := term_eqb (apply s a) (apply s b).
Definition unifiable (s : subst) (a b : term) : bool :=
  match unify_oc (apply s a) (apply s b) with Some _ => true | None => false end.

Fixpoint holds (s : subst) (c : cond) : bool :=
  match c with
  | CNonvar t => negb (is_var (apply s t))
  | CGround t => groundb (apply s t)
  | CDecide a b => identical s a b || negb (unifiable s a b)
  | CAnd c d => holds s c && holds s d
  | COr c d => holds s c || holds s d
  end.

Definition dif_identical (s : subst) (d : dif_post) : bool := identical s (fst (snd d)) (snd (snd d)).
Definition dif_open (s : subst) (d : dif_post) : bool := unifiable s (fst (snd d)) (snd (snd d)).
Definition goal_holds (s : subst) (g : goal_post) : bool := holds s (snd g).
Definition goal_waits (s : subst) (g : goal_post) : bool := negb (holds s (snd g)).

(* ------------------------------------------------------------------ canonical observables *)
(* sorted list of identifiers (insertion sort; duplicates kept: a multiset) *)
Fixpoint insertN (x : N) (l : list N) : list N :=
  match l with
  | [] => [x]
  | h :: t => if (x <=? h)%N then x :: l else h :: insertN x t
  end.
Definition sortN (l : list N) : list N := fold_right insertN [] l.

(* variant normal form of a list of terms: every variable is renamed to the position of its first occurrence
   in the left-to-right list of all variable occurrences *)
Fixpoint index_of (x : N) (l : list N) : N :=
  match l with
  | [] => 0%N
  | h :: t => if N.eqb x h then 0%N else N.succ (index_of x t)
  end.
Definition ren (vs : list N) : N -> term := fun v => Var (index_of v vs).
Definition lvars (l : list term) : list N := flat_map vars l.
Definition canon (l : list term) : list term := map (inst (ren (lvars l))) l.

Definition bindings (s : subst) (qv : list N) : list term := map (fun v => apply s (Var v)) qv.

Inductive outcome :=
| Failed
| Done (binds : list term)   (* values of the query variables, variant-normalised *)
       (ran : list N)        (* goals that ran, sorted, with multiplicity *)
       (waiting : list N)    (* goals still suspended, sorted *)
       (difs : list N).      (* dif posts that remain as residual constraints, sorted *)

(* ------------------------------------------------------------------ (a) denotation *)
Definition tup : list N := [116%N].
Definition solve (E : list eqn) : option subst := unify_oc (Cmp tup (map fst E)) (Cmp tup (map snd E)).

Definition denote (qv : list N) (ops : list op) : outcome :=
  match solve (eqs_of ops) with
  | None => Failed
  | Some s =>
      if existsb (dif_identical s) (difs_of ops) then Failed
      else Done (canon (bindings s qv))
                (sortN (map fst (filter (goal_holds s) (goals_of ops))))
                (sortN (map fst (filter (goal_waits s) (goals_of ops))))
                (sortN (map fst (filter (dif_open s) (difs_of ops))))
  end.

(* ------------------------------------------------------------------ (b) operational semantics *)
Record store := mkStore { sub : subst; pdifs : list dif_post; pgoals : list goal_post; log : list N }.
Definition init : store := mkStore [] [] [] [].

Definition post_goal (st : store) (g : goal_post) : store :=
  if goal_holds (sub st) g
  then mkStore (sub st) (pdifs st) (pgoals st) (log st ++ [fst g])
  else mkStore (sub st) (pdifs st) (pgoals st ++ [g]) (log st).

Definition step (st : store) (o : op) : option store :=
  match o with
  | Unify a b =>
      match unify_oc (apply (sub st) a) (apply (sub st) b) with
      | None => None
      | Some d =>
          let s' := sub st ++ d in
          if existsb (dif_identical s') (pdifs st) then None
          else Some (mkStore s' (filter (dif_open s') (pdifs st))
                             (filter (goal_waits s') (pgoals st))
                             (log st ++ map fst (filter (goal_holds s') (pgoals st))))
      end
  | PostDif k a b =>
      if identical (sub st) a b then None
      else if unifiable (sub st) a b
           then Some (mkStore (sub st) (pdifs st ++ [(k, (a, b))]) (pgoals st) (log st))
           else Some st
  | PostFreeze k t => Some (post_goal st (k, CNonvar t))
  | PostWhen k c => Some (post_goal st (k, c))
  end.

Fixpoint run (st : store) (ops : list op) : option store :=
  match ops with
  | [] => Some st
  | o :: r => match step st o with None => None | Some st' => run st' r end
  end.

Definition outcome_of (qv : list N) (r : option store) : outcome :=
  match r with
  | None => Failed
  | Some st => Done (canon (bindings (sub st) qv)) (sortN (log st))
                    (sortN (map fst (pgoals st))) (sortN (map fst (pdifs st)))
  end.

Definition operational (qv : list N) (ops : list op) : outcome := outcome_of qv (run init ops).

(* ------------------------------------------------------------------ the comparison used by the check *)
(* what the implementation showed for one order of the operations *)
Inductive obs :=
| OFail
| OOk (binds : list term)            (* values of the query variables *)
      (glog : list N)                (* goals executed (global side-effect log) *)
      (blog : list N)                (* goals executed on the surviving branch (backtrackable log) *)
      (waiting : list N)             (* identifiers of the goals inside residual freeze/when goals *)
      (difs : list (term * term)).   (* residual dif goals *)

(* dif(a',b') entails dif(a,b): every unifier of (a,b) unifies (a',b'), i.e. the mgu of (a,b) does *)
Definition dif_entails (p q : term * term) : bool :=
  match unify_oc (fst q) (snd q) with
  | None => true
  | Some u => term_eqb (apply u (fst p)) (apply u (snd p))
  end.
(* two sets of dif constraints are equivalent when each constraint of one is entailed by a constraint of the
   other (over an infinite Herbrand universe a conjunction of dif constraints entails a dif constraint exactly
   when one of its members does) *)
Definition difs_cover (D1 D2 : list (term * term)) : bool :=
  forallb (fun q => existsb (fun p => dif_entails p q) D1) D2.
Definition difs_equiv (D1 D2 : list (term * term)) : bool := difs_cover D1 D2 && difs_cover D2 D1.

Definition ren_pairs (vs : list N) (D : list (term * term)) : list (term * term) :=
  map (fun p => (inst (ren vs) (fst p), inst (ren vs) (snd p))) D.

(* the residual dif constraints of the model, named like the (canonical) bindings *)
Definition model_difs (qv : list N) (ops : list op) : list (term * term) :=
  match solve (eqs_of ops) with
  | None => []
  | Some s => ren_pairs (lvars (bindings s qv))
                (map (fun d => (apply s (fst (snd d)), apply s (snd (snd d)))) (filter (dif_open s) (difs_of ops)))
  end.

Definition nlist_eqb : list N -> list N -> bool := list_eqb N.eqb.
Definition tlist_eqb : list term -> list term -> bool := list_eqb term_eqb.

(* component-wise agreement (used one by one to name what differs) *)
Definition chk_success (qv : list N) (ops : list op) (o : obs) : bool :=
  match denote qv ops, o with Failed, OFail => true | Done _ _ _ _, OOk _ _ _ _ _ => true | _, _ => false end.
Definition chk_binds (qv : list N) (ops : list op) (o : obs) : bool :=
  match denote qv ops, o with Done B _ _ _, OOk b _ _ _ _ => tlist_eqb B (canon b) | _, _ => true end.
Definition chk_glog (qv : list N) (ops : list op) (o : obs) : bool :=
  match denote qv ops, o with Done _ R _ _, OOk _ g _ _ _ => nlist_eqb R (sortN g) | _, _ => true end.
Definition chk_blog (qv : list N) (ops : list op) (o : obs) : bool :=
  match denote qv ops, o with Done _ R _ _, OOk _ _ l _ _ => nlist_eqb R (sortN l) | _, _ => true end.
Definition chk_waiting (qv : list N) (ops : list op) (o : obs) : bool :=
  match denote qv ops, o with Done _ _ W _, OOk _ _ _ w _ => nlist_eqb W (sortN w) | _, _ => true end.
Definition chk_difs (qv : list N) (ops : list op) (o : obs) : bool :=
  match denote qv ops, o with
  | Done _ _ _ _, OOk b _ _ _ d => difs_equiv (model_difs qv ops) (ren_pairs (lvars b) d)
  | _, _ => true end.

Definition check_obs (qv : list N) (ops : list op) (o : obs) : bool :=
  chk_success qv ops o && chk_binds qv ops o && chk_glog qv ops o && chk_blog qv ops o
  && chk_waiting qv ops o && chk_difs qv ops o.

(* all distinct observations of one history (one per class of orders that behaved alike) *)
Definition check_all (qv : list N) (ops : list op) (os : list obs) : bool := forallb (check_obs qv ops) os.

(* 0 = fails, 1 = succeeds with nothing woken and nothing residual, 2 = succeeds, something ran or remains *)
Definition verdict (qv : list N) (ops : list op) : N :=
  match denote qv ops with
  | Failed => 0%N
  | Done _ [] [] [] => 1%N
  | Done _ _ _ _ => 2%N
  end.
