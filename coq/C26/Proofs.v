(* C26 -- proofs: the operational semantics of dif/freeze/when posts and unifications equals the order-free
   denotation, hence is insensitive to the order of the operations. *)
From Coq Require Import ZArith NArith List Bool Lia Permutation.
From V Require Import Base.Term C10.Model C10.Proofs C26.Model.
Import ListNotations.

(* ------------------------------------------------------------------ small facts *)
Lemma bool_eq_iff : forall a b : bool, (a = true <-> b = true) -> a = b.
Proof. intros [] [] [H1 H2]; auto. symmetry; auto. Qed.

Lemma term_eqb_refl : forall a, term_eqb a a = true.
Proof.
  induction a as [v|z|n d|b|s|h args IH] using term_ind'; simpl.
  - apply N.eqb_refl. - apply Z.eqb_refl. - rewrite !Z.eqb_refl. reflexivity. - apply Z.eqb_refl.
  - apply name_eqb_refl.
  - rewrite name_eqb_refl. simpl. induction IH as [|x r Hx Hr IHr]; auto. rewrite Hx. simpl. auto.
Qed.

Lemma term_eqb_true : forall a b, term_eqb a b = true -> a = b.
Proof.
  induction a as [v|z|n d|bb|s|h args IH] using term_ind'; intros b H; destruct b; simpl in H; try discriminate.
  - apply N.eqb_eq in H. congruence.
  - apply Z.eqb_eq in H. congruence.
  - apply andb_true_iff in H. destruct H as [H1 H2]. apply Z.eqb_eq in H1. apply Z.eqb_eq in H2. congruence.
  - apply Z.eqb_eq in H. congruence.
  - apply name_eqb_eq in H. congruence.
  - apply andb_true_iff in H. destruct H as [H1 H2]. apply name_eqb_eq in H1. subst. f_equal.
    revert args0 H2. induction IH as [|x l Hx Hl IHl]; intros [|y m] H2; try discriminate; auto.
    apply andb_true_iff in H2. destruct H2 as [Ha Hb]. f_equal; auto.
Qed.

Lemma term_eqb_eq : forall a b, term_eqb a b = true <-> a = b.
Proof. intros. split. apply term_eqb_true. intro. subst. apply term_eqb_refl. Qed.

Lemma map_fix_in : forall (A : Type) (h : A -> A) l, l = map h l -> forall x, In x l -> h x = x.
Proof.
  induction l as [|y l IH]; simpl; intros H x Hx. contradiction.
  injection H as H1 H2. destruct Hx as [->|Hx]; auto.
Qed.

Lemma map_pair_eq : forall (h : term -> term) (E : list eqn),
  map h (map fst E) = map h (map snd E) <-> (forall a b, In (a, b) E -> h a = h b).
Proof.
  induction E as [|[x y] E IH]; simpl; split; intro H; auto.
  - intros a b [].
  - injection H as H1 H2. intros a b [E0|Hin]. injection E0 as <- <-. auto. apply IH; auto.
  - f_equal. apply H; auto. apply IH. intros. apply H. auto.
Qed.

Lemma filter_filter_impl : forall (A : Type) (p q : A -> bool) l,
  (forall x, q x = true -> p x = true) -> filter q (filter p l) = filter q l.
Proof.
  induction l as [|x l IH]; simpl; intro H; auto.
  destruct (p x) eqn:Px; simpl.
  - destruct (q x); rewrite IH; auto.
  - destruct (q x) eqn:Qx. rewrite (H x Qx) in Px. discriminate. auto.
Qed.

Lemma filter_perm : forall (A : Type) (p : A -> bool) l l', Permutation l l' -> Permutation (filter p l) (filter p l').
Proof.
  intros A p l l' H. induction H; simpl; auto.
  - destruct (p x); auto.
  - destruct (p x), (p y); auto. apply perm_swap.
  - eapply perm_trans; eauto.
Qed.

(* goals that hold under the new test = goals that held under the old one + the newly woken ones *)
Lemma filter_wake_perm : forall (A : Type) (p np q : A -> bool) l,
  (forall x, np x = negb (p x)) -> (forall x, p x = true -> q x = true) ->
  Permutation (filter p l ++ filter q (filter np l)) (filter q l).
Proof.
  intros A p np q l Hn Hpq. induction l as [|x l IH]; simpl; auto.
  rewrite Hn. destruct (p x) eqn:Px; simpl.
  - rewrite (Hpq x Px). constructor. auto.
  - destruct (q x); auto. apply Permutation_sym. apply Permutation_cons_app. apply Permutation_sym. auto.
Qed.

Lemma filter_partition_perm : forall (A : Type) (p np : A -> bool) l,
  (forall x, np x = negb (p x)) -> Permutation (filter p l ++ filter np l) l.
Proof.
  intros A p np l Hn. induction l as [|x l IH]; simpl; auto.
  rewrite Hn. destruct (p x); simpl. constructor; auto.
  apply Permutation_sym. apply Permutation_cons_app. apply Permutation_sym. auto.
Qed.

Lemma existsb_perm_ext : forall (A : Type) (p q : A -> bool) l l',
  Permutation l l' -> (forall x, p x = q x) -> existsb p l = existsb q l'.
Proof.
  intros A p q l l' HP He. apply bool_eq_iff. rewrite !existsb_exists. split; intros [x [Hx Px]]; exists x; split.
  - eapply Permutation_in; eauto. - rewrite <- He. auto.
  - eapply Permutation_in; [apply Permutation_sym|]; eauto. - rewrite He. auto.
Qed.

(* ------------------------------------------------------------------ sorted multisets of identifiers *)
Lemma insertN_comm : forall x y l, insertN x (insertN y l) = insertN y (insertN x l).
Proof.
  intros x y l. induction l as [|h t IH]; simpl.
  - destruct (N.leb_spec x y), (N.leb_spec y x); try reflexivity; try lia.
    assert (x = y) by lia. subst. reflexivity.
  - destruct (N.leb_spec y h), (N.leb_spec x h); simpl;
      repeat match goal with
             | |- context [(?a <=? ?b)%N] => destruct (N.leb_spec a b)
             end; simpl; try reflexivity; try lia.
    + assert (x = y) by lia. subst. reflexivity.
    + f_equal. apply IH.
Qed.

Lemma sortN_perm : forall l l', Permutation l l' -> sortN l = sortN l'.
Proof.
  intros l l' H. induction H; simpl; auto.
  - rewrite IHPermutation. auto.
  - apply insertN_comm.
  - congruence.
Qed.

Lemma insertN_perm : forall x l, Permutation (insertN x l) (x :: l).
Proof.
  induction l as [|h t IH]; simpl; auto.
  destruct (x <=? h)%N; auto.
  eapply perm_trans. apply perm_skip. apply IH. apply perm_swap.
Qed.

Lemma sortN_is_perm : forall l, Permutation (sortN l) l.
Proof.
  induction l as [|x l IH]; simpl; auto.
  eapply perm_trans. apply insertN_perm. auto.
Qed.

Lemma sortN_in : forall x l, In x (sortN l) <-> In x l.
Proof.
  intros. split; apply Permutation_in; [|apply Permutation_sym]; apply sortN_is_perm.
Qed.

(* ------------------------------------------------------------------ variant normal form *)
Lemma inst_ext_inv : forall f g t, inst f t = inst g t -> forall x, In x (vars t) -> f x = g x.
Proof.
  intros f g. induction t as [v|z|n d|b|s|h args IH] using term_ind'; simpl; intros H x Hx; try contradiction.
  - destruct Hx as [->|[]]. exact H.
  - injection H as H. apply in_flat_map in Hx. destruct Hx as [a [Ha Hxa]].
    rewrite Forall_forall in IH. apply (IH a Ha); auto.
    clear -H Ha. induction args as [|y r IHr]; simpl in *. contradiction.
    injection H as H1 H2. destruct Ha as [->|Ha]; auto.
Qed.

Lemma vars_inst_ren : forall f r t, (forall x, In x (vars t) -> f x = Var (r x)) -> vars (inst f t) = map r (vars t).
Proof.
  intros f r. induction t as [v|z|n d|b|s|h args IH] using term_ind'; simpl; intro H; auto.
  - rewrite H; auto.
  - induction IH as [|y l Hy Hl IHl]; simpl; auto.
    rewrite map_app. f_equal.
    + apply Hy. intros x Hx. apply H. simpl. apply in_or_app. auto.
    + apply IHl. intros x Hx. apply H. simpl. apply in_or_app. auto.
Qed.

Lemma lvars_map_ren : forall f r l, (forall x, In x (lvars l) -> f x = Var (r x)) ->
  lvars (map (inst f) l) = map r (lvars l).
Proof.
  intros f r. unfold lvars. induction l as [|t l IH]; simpl; intro H; auto.
  rewrite map_app. f_equal.
  - apply vars_inst_ren. intros. apply H. apply in_or_app. auto.
  - apply IH. intros. apply H. apply in_or_app. auto.
Qed.

Lemma index_of_map_inj : forall (r : N -> N) v vs, (forall x, In x vs -> r x = r v -> x = v) ->
  index_of (r v) (map r vs) = index_of v vs.
Proof.
  intros r v. induction vs as [|a vs IH]; simpl; intro H; auto.
  destruct (N.eqb_spec (r v) (r a)) as [E|E]; destruct (N.eqb_spec v a) as [E'|E']; auto.
  - exfalso. apply E'. symmetry. apply H; auto.
  - subst. congruence.
  - f_equal. apply IH. intros. apply H; auto.
Qed.

Lemma in_lvars : forall x t l, In t l -> In x (vars t) -> In x (lvars l).
Proof. intros. unfold lvars. apply in_flat_map. eauto. Qed.

(* two lists of terms that are instances of each other have the same normal form *)
Lemma canon_variant : forall l1 l2 f g, l2 = map (inst f) l1 -> l1 = map (inst g) l2 -> canon l1 = canon l2.
Proof.
  intros l1 l2 f g H2 H1.
  assert (K : forall v, In v (lvars l1) -> inst g (f v) = Var v).
  { intros v Hv. unfold lvars in Hv. apply in_flat_map in Hv. destruct Hv as [t [Ht Hvt]].
    assert (Ht' : inst g (inst f t) = t).
    { subst l2. rewrite map_map in H1. apply (map_fix_in _ (fun x => inst g (inst f x)) l1 H1 t Ht). }
    rewrite inst_comp in Ht'.
    apply (inst_ext_inv (fun x => inst g (f x)) Var t); auto. rewrite inst_id. auto. }
  set (r := fun v => match f v with Var w => w | _ => 0%N end).
  assert (Fr : forall v, In v (lvars l1) -> f v = Var (r v)).
  { intros v Hv. specialize (K v Hv). unfold r. destruct (f v); simpl in K; try discriminate; auto. }
  assert (Inj : forall x v, In x (lvars l1) -> In v (lvars l1) -> r x = r v -> x = v).
  { intros x v Hx Hv E. pose proof (K x Hx) as Kx. pose proof (K v Hv) as Kv.
    rewrite (Fr x Hx) in Kx. rewrite (Fr v Hv) in Kv. simpl in Kx, Kv. rewrite E in Kx. congruence. }
  assert (L2 : lvars l2 = map r (lvars l1)).
  { subst l2. apply lvars_map_ren. auto. }
  unfold canon. rewrite L2. rewrite H2. rewrite map_map. apply map_ext_in. intros t Ht.
  rewrite inst_comp. apply inst_ext. intros x Hx.
  assert (Hxl : In x (lvars l1)) by (eapply in_lvars; eauto).
  rewrite (Fr x Hxl). simpl. unfold ren. f_equal. symmetry. apply index_of_map_inj.
  intros y Hy E. apply Inj; auto.
Qed.

(* ------------------------------------------------------------------ instances of substitutions *)
Definition le_sub (s1 s2 : subst) : Prop := exists f, forall t, apply s2 t = inst f (apply s1 t).
Definition eq_sub (s1 s2 : subst) : Prop := le_sub s1 s2 /\ le_sub s2 s1.

Lemma apply_app : forall s d t, apply (s ++ d) t = apply d (apply s t).
Proof. intros. unfold apply. apply fold_left_app. Qed.

Lemma le_sub_app : forall s d, le_sub s (s ++ d).
Proof. intros s d. exists (sfun d). intro t. rewrite apply_app. apply apply_inst. Qed.

Lemma is_var_inst : forall f t, is_var (inst f t) = true -> is_var t = true.
Proof. intros f t. destruct t; simpl; auto. Qed.

Lemma inst_ground : forall f t, vars t = [] -> inst f t = t.
Proof.
  intros f t H. rewrite <- (inst_id t) at 2. apply inst_ext. rewrite H. intros x [].
Qed.

Lemma groundb_true : forall t, groundb t = true <-> vars t = [].
Proof. intro t. unfold groundb. destruct (vars t); split; intro H; auto; discriminate. Qed.

Lemma unifiable_true : forall s a b, unifiable s a b = true <-> exists f, inst f (apply s a) = inst f (apply s b).
Proof.
  intros s a b. unfold unifiable. rewrite <- oc_succeeds_iff.
  destruct (unify_oc (apply s a) (apply s b)); split; intro H; eauto; try discriminate.
  destruct H as [x H]. discriminate.
Qed.

Lemma identical_true : forall s a b, identical s a b = true <-> apply s a = apply s b.
Proof. intros. unfold identical. apply term_eqb_eq. Qed.

Lemma identical_mono : forall s1 s2 a b, le_sub s1 s2 -> identical s1 a b = true -> identical s2 a b = true.
Proof.
  intros s1 s2 a b [f H] I. apply identical_true. apply identical_true in I. rewrite !H. congruence.
Qed.

Lemma unifiable_anti : forall s1 s2 a b, le_sub s1 s2 -> unifiable s2 a b = true -> unifiable s1 a b = true.
Proof.
  intros s1 s2 a b [f H] U. apply unifiable_true. apply unifiable_true in U. destruct U as [g U].
  rewrite !H in U. rewrite !inst_comp in U. eauto.
Qed.

Lemma identical_unifiable : forall s a b, identical s a b = true -> unifiable s a b = true.
Proof.
  intros s a b I. apply unifiable_true. apply identical_true in I. exists Var. congruence.
Qed.

Lemma holds_mono : forall s1 s2 c, le_sub s1 s2 -> holds s1 c = true -> holds s2 c = true.
Proof.
  intros s1 s2 c L. induction c as [t|t|a b|c IHc d IHd|c IHc d IHd]; simpl; intro H.
  - destruct L as [f L]. rewrite L. apply negb_true_iff in H. apply negb_true_iff.
    destruct (is_var (inst f (apply s1 t))) eqn:E; auto. apply is_var_inst in E. congruence.
  - destruct L as [f L]. rewrite L. apply groundb_true in H. rewrite (inst_ground f _ H). apply groundb_true. auto.
  - apply orb_true_iff in H. apply orb_true_iff. destruct H as [H|H].
    + left. eapply identical_mono; eauto.
    + right. apply negb_true_iff in H. apply negb_true_iff.
      destruct (unifiable s2 a b) eqn:E; auto. rewrite (unifiable_anti _ _ _ _ L E) in H. discriminate.
  - apply andb_true_iff in H. destruct H. apply andb_true_iff. split; auto.
  - apply orb_true_iff in H. apply orb_true_iff. destruct H; auto.
Qed.

Lemma holds_eq : forall s1 s2 c, eq_sub s1 s2 -> holds s1 c = holds s2 c.
Proof. intros s1 s2 c [L1 L2]. apply bool_eq_iff. split; apply holds_mono; auto. Qed.

Lemma identical_eq : forall s1 s2 a b, eq_sub s1 s2 -> identical s1 a b = identical s2 a b.
Proof. intros s1 s2 a b [L1 L2]. apply bool_eq_iff. split; apply identical_mono; auto. Qed.

Lemma unifiable_eq : forall s1 s2 a b, eq_sub s1 s2 -> unifiable s1 a b = unifiable s2 a b.
Proof. intros s1 s2 a b [L1 L2]. apply bool_eq_iff. split; apply unifiable_anti; auto. Qed.

Lemma canon_bindings_eq : forall s1 s2 qv, eq_sub s1 s2 -> canon (bindings s1 qv) = canon (bindings s2 qv).
Proof.
  intros s1 s2 qv [[f L1] [g L2]]. apply (canon_variant _ _ f g); unfold bindings; rewrite map_map; apply map_ext; auto.
Qed.

(* ------------------------------------------------------------------ most general unifiers of a set of equations *)
Definition unifier (E : list eqn) (f : N -> term) : Prop := forall a b, In (a, b) E -> inst f a = inst f b.
Definition is_mgu (E : list eqn) (s : subst) : Prop :=
  unifier E (sfun s) /\ forall f, unifier E f -> forall t, inst f (apply s t) = inst f t.

Lemma unifier_incl : forall E1 E2 f, incl E1 E2 -> unifier E2 f -> unifier E1 f.
Proof. intros E1 E2 f H U a b Hab. apply U. apply H. auto. Qed.

Lemma solve_some : forall E s, solve E = Some s -> is_mgu E s.
Proof.
  intros E s H. unfold solve in H. split.
  - pose proof (oc_sound _ _ _ H) as S. rewrite !apply_cmp in S. injection S as S.
    intros a b Hab. rewrite <- !apply_inst. revert a b Hab. apply map_pair_eq. auto.
  - intros f U t. eapply oc_mgu_fun; eauto. simpl. f_equal. apply map_pair_eq. exact U.
Qed.

Lemma solve_none : forall E, solve E = None -> forall f, ~ unifier E f.
Proof.
  intros E H f U. unfold solve in H. eapply oc_complete_fun; eauto. simpl. f_equal. apply map_pair_eq. exact U.
Qed.

Lemma mgu_nil : is_mgu [] [].
Proof. split. intros a b []. intros f _ t. rewrite apply_nil. auto. Qed.

Lemma mgu_extend : forall E s a b d, is_mgu E s -> unify_oc (apply s a) (apply s b) = Some d ->
  is_mgu (E ++ [(a, b)]) (s ++ d).
Proof.
  intros E s a b d [U M] Hd. split.
  - intros a0 b0 Hin. rewrite <- !apply_inst, !apply_app. apply in_app_or in Hin. destruct Hin as [Hin|[E0|[]]].
    + f_equal. rewrite !apply_inst. apply U. auto.
    + injection E0 as <- <-. apply oc_sound. auto.
  - intros f Uf t. rewrite apply_app.
    assert (U1 : unifier E f) by (eapply unifier_incl; [|exact Uf]; apply incl_appl; apply incl_refl).
    rewrite (oc_mgu_fun _ _ _ Hd f). apply M; auto.
    rewrite !M by auto. apply Uf. apply in_or_app. right. left. auto.
Qed.

Lemma mgu_extend_none : forall E s a b, is_mgu E s -> unify_oc (apply s a) (apply s b) = None ->
  forall f, ~ unifier (E ++ [(a, b)]) f.
Proof.
  intros E s a b [U M] Hn f Uf.
  assert (U1 : unifier E f) by (eapply unifier_incl; [|exact Uf]; apply incl_appl; apply incl_refl).
  apply (oc_complete_fun _ _ Hn f). rewrite !M by auto. apply Uf. apply in_or_app. right. left. auto.
Qed.

Lemma mgu_le : forall E1 E2 s1 s2, is_mgu E1 s1 -> is_mgu E2 s2 -> (forall f, unifier E2 f -> unifier E1 f) ->
  le_sub s1 s2.
Proof.
  intros E1 E2 s1 s2 [U1 M1] [U2 M2] H. exists (sfun s2). intro t. rewrite (apply_inst s2 t). symmetry. apply M1. auto.
Qed.

Lemma mgu_eq : forall E1 E2 s1 s2, is_mgu E1 s1 -> is_mgu E2 s2 -> (forall f, unifier E1 f <-> unifier E2 f) ->
  eq_sub s1 s2.
Proof. intros E1 E2 s1 s2 H1 H2 H. split; eapply mgu_le; eauto; intros f; apply H. Qed.

(* an mgu makes two terms identical exactly when every solution of the equations does *)
Lemma mgu_identical : forall E s a b, is_mgu E s ->
  (apply s a = apply s b <-> forall f, unifier E f -> inst f a = inst f b).
Proof.
  intros E s a b [U M]. split.
  - intros H f Uf. rewrite <- (M f Uf a), <- (M f Uf b). congruence.
  - intro H. rewrite !apply_inst. apply H. auto.
Qed.

(* ... and leaves them unifiable exactly when some solution of the equations identifies them *)
Lemma mgu_unifiable : forall E s a b, is_mgu E s ->
  (unifiable s a b = true <-> exists f, unifier E f /\ inst f a = inst f b).
Proof.
  intros E s a b [U M]. rewrite unifiable_true. split.
  - intros [g H]. exists (fun x => inst g (sfun s x)). split.
    + intros a0 b0 Hab. rewrite <- !inst_comp. f_equal. apply U. auto.
    + rewrite <- !inst_comp, <- !apply_inst. auto.
  - intros [f [Uf H]]. exists f. rewrite !M by auto. auto.
Qed.

(* ------------------------------------------------------------------ the three projections of a history *)
Lemma eqs_of_app : forall l1 l2, eqs_of (l1 ++ l2) = eqs_of l1 ++ eqs_of l2.
Proof. intros. unfold eqs_of. apply flat_map_app. Qed.
Lemma difs_of_app : forall l1 l2, difs_of (l1 ++ l2) = difs_of l1 ++ difs_of l2.
Proof. intros. unfold difs_of. apply flat_map_app. Qed.
Lemma goals_of_app : forall l1 l2, goals_of (l1 ++ l2) = goals_of l1 ++ goals_of l2.
Proof. intros. unfold goals_of. apply flat_map_app. Qed.

Lemma in_difs_of : forall k a b ops, In (k, (a, b)) (difs_of ops) <-> In (PostDif k a b) ops.
Proof.
  intros. unfold difs_of. rewrite in_flat_map. split.
  - intros [o [Ho Hi]]. destruct o; simpl in Hi; try contradiction. destruct Hi as [E|[]]. injection E as <- <- <-. auto.
  - intro H. exists (PostDif k a b). split; simpl; auto.
Qed.

Lemma in_goals_of_freeze : forall k t ops, In (PostFreeze k t) ops -> In (k, CNonvar t) (goals_of ops).
Proof. intros. unfold goals_of. rewrite in_flat_map. exists (PostFreeze k t). split; simpl; auto. Qed.
Lemma in_goals_of_when : forall k c ops, In (PostWhen k c) ops -> In (k, c) (goals_of ops).
Proof. intros. unfold goals_of. rewrite in_flat_map. exists (PostWhen k c). split; simpl; auto. Qed.

(* ------------------------------------------------------------------ the invariant of the operational store *)
Record inv (pre : list op) (st : store) : Prop := mkInv {
  inv_mgu : is_mgu (eqs_of pre) (sub st);
  inv_difs : pdifs st = filter (dif_open (sub st)) (difs_of pre);
  inv_nid : existsb (dif_identical (sub st)) (difs_of pre) = false;
  inv_goals : pgoals st = filter (goal_waits (sub st)) (goals_of pre);
  inv_log : Permutation (log st) (map fst (filter (goal_holds (sub st)) (goals_of pre)))
}.

Lemma inv_init : inv [] init.
Proof. constructor; simpl; auto. apply mgu_nil. Qed.

Lemma waits_negb : forall s g, goal_waits s g = negb (goal_holds s g).
Proof. reflexivity. Qed.

Lemma post_goal_inv : forall pre st g o, inv pre st -> eqs_of [o] = [] -> difs_of [o] = [] -> goals_of [o] = [g] ->
  inv (pre ++ [o]) (post_goal st g).
Proof.
  intros pre st g o I He Hd Hg. destruct I as [I1 I2 I3 I4 I5].
  unfold post_goal. destruct (goal_holds (sub st) g) eqn:Hh; constructor; simpl;
    rewrite ?eqs_of_app, ?difs_of_app, ?goals_of_app, ?He, ?Hd, ?Hg, ?app_nil_r; auto;
    rewrite filter_app; simpl; rewrite ?waits_negb, ?Hh; simpl; rewrite ?app_nil_r; auto.
  - rewrite map_app. simpl. apply Permutation_app_tail. auto.
  - rewrite I4. auto.
Qed.

Lemma step_inv : forall pre st o st', inv pre st -> step st o = Some st' -> inv (pre ++ [o]) st'.
Proof.
  intros pre st o st' I H. destruct o as [a b|k a b|k t|k c]; simpl in H.
  - (* Unify *)
    destruct I as [I1 I2 I3 I4 I5].
    destruct (unify_oc (apply (sub st) a) (apply (sub st) b)) as [d|] eqn:Hd; try discriminate.
    destruct (existsb (dif_identical (sub st ++ d)) (pdifs st)) eqn:Hx; try discriminate.
    injection H as <-.
    assert (L : le_sub (sub st) (sub st ++ d)) by apply le_sub_app.
    constructor; simpl; rewrite ?eqs_of_app, ?difs_of_app, ?goals_of_app; simpl; rewrite ?app_nil_r.
    + apply mgu_extend; auto.
    + rewrite I2. apply filter_filter_impl. intros x Hxo. unfold dif_open in *. eapply unifiable_anti; eauto.
    + apply not_true_is_false. intro Hex. apply existsb_exists in Hex. destruct Hex as [d0 [Hin Hid]].
      assert (Ho : dif_open (sub st) d0 = true).
      { unfold dif_open. eapply unifiable_anti; eauto. apply identical_unifiable. exact Hid. }
      assert (Hp : In d0 (pdifs st)) by (rewrite I2; apply filter_In; auto).
      assert (Hx' : existsb (dif_identical (sub st ++ d)) (pdifs st) = true) by (apply existsb_exists; eauto).
      congruence.
    + rewrite I4. apply filter_filter_impl. intros x Hw. rewrite waits_negb in *.
      apply negb_true_iff in Hw. apply negb_true_iff. destruct (goal_holds (sub st) x) eqn:E; auto.
      unfold goal_holds in *. rewrite (holds_mono _ _ _ L E) in Hw. discriminate.
    + rewrite I4. eapply perm_trans. apply Permutation_app_tail. exact I5.
      rewrite <- map_app. apply Permutation_map. apply filter_wake_perm.
      * intro x. apply waits_negb.
      * intros x. unfold goal_holds. apply holds_mono. auto.
  - (* PostDif *)
    destruct I as [I1 I2 I3 I4 I5].
    destruct (identical (sub st) a b) eqn:Hi; try discriminate.
    destruct (unifiable (sub st) a b) eqn:Hu; injection H as <-;
      constructor; simpl; rewrite ?eqs_of_app, ?difs_of_app, ?goals_of_app; simpl; rewrite ?app_nil_r; auto.
    + rewrite filter_app. simpl. unfold dif_open at 2. simpl. rewrite Hu. rewrite I2. auto.
    + rewrite existsb_app. simpl. unfold dif_identical at 2. simpl. rewrite Hi, I3. auto.
    + rewrite filter_app. simpl. unfold dif_open at 2. simpl. rewrite Hu. rewrite app_nil_r. auto.
    + rewrite existsb_app. simpl. unfold dif_identical at 2. simpl. rewrite Hi, I3. auto.
  - injection H as <-. apply post_goal_inv; auto.
  - injection H as <-. apply post_goal_inv; auto.
Qed.

Lemma run_inv : forall ops pre st st', inv pre st -> run st ops = Some st' -> inv (pre ++ ops) st'.
Proof.
  induction ops as [|o r IH]; simpl; intros pre st st' I H.
  - injection H as <-. rewrite app_nil_r. auto.
  - destruct (step st o) as [st1|] eqn:Hs; try discriminate.
    replace (pre ++ o :: r) with ((pre ++ [o]) ++ r) by (rewrite <- app_assoc; reflexivity).
    eapply IH; eauto. eapply step_inv; eauto.
Qed.

(* ------------------------------------------------------------------ success: the store shows the denotation *)
Lemma denote_of_inv : forall qv ops st, inv ops st -> denote qv ops = outcome_of qv (Some st).
Proof.
  intros qv ops st [I1 I2 I3 I4 I5]. unfold denote.
  destruct (solve (eqs_of ops)) as [s2|] eqn:Hs.
  - pose proof (solve_some _ _ Hs) as M2.
    assert (Q : eq_sub s2 (sub st)) by (eapply mgu_eq; eauto; intro; reflexivity).
    assert (Hx : existsb (dif_identical s2) (difs_of ops) = false).
    { rewrite <- I3. apply existsb_perm_ext; auto. intros [k [a b]]. unfold dif_identical. simpl. apply identical_eq. auto. }
    rewrite Hx. simpl. f_equal.
    + apply canon_bindings_eq. auto.
    + apply sortN_perm. apply Permutation_sym. eapply perm_trans. exact I5.
      apply Permutation_map. erewrite filter_ext. apply Permutation_refl.
      intros [k c]. unfold goal_holds. simpl. symmetry. apply holds_eq. auto.
    + rewrite I4. f_equal. f_equal. apply filter_ext. intros [k c]. unfold goal_waits. simpl. f_equal. apply holds_eq. auto.
    + rewrite I2. f_equal. f_equal. apply filter_ext. intros [k [a b]]. unfold dif_open. simpl. apply unifiable_eq. auto.
  - exfalso. destruct I1 as [U _]. eapply solve_none; eauto.
Qed.

(* ------------------------------------------------------------------ failure *)
Lemma denote_failed_unsolvable : forall qv ops, (forall f, ~ unifier (eqs_of ops) f) -> denote qv ops = Failed.
Proof.
  intros qv ops H. unfold denote. destruct (solve (eqs_of ops)) as [s|] eqn:Hs; auto.
  exfalso. destruct (solve_some _ _ Hs) as [U _]. eapply H; eauto.
Qed.

Lemma denote_failed_dif : forall qv ops E1 s1 d, is_mgu E1 s1 -> incl E1 (eqs_of ops) ->
  In d (difs_of ops) -> dif_identical s1 d = true -> denote qv ops = Failed.
Proof.
  intros qv ops E1 s1 d M1 Hi Hd Hid. unfold denote. destruct (solve (eqs_of ops)) as [s2|] eqn:Hs; auto.
  pose proof (solve_some _ _ Hs) as M2.
  assert (L : le_sub s1 s2) by (eapply mgu_le; eauto; intros f; apply unifier_incl; auto).
  assert (Hx : existsb (dif_identical s2) (difs_of ops) = true).
  { apply existsb_exists. exists d. split; auto. unfold dif_identical in *. eapply identical_mono; eauto. }
  rewrite Hx. auto.
Qed.

Lemma run_none_denote : forall qv ops pre st, inv pre st -> run st ops = None -> denote qv (pre ++ ops) = Failed.
Proof.
  induction ops as [|o r IH]; simpl; intros pre st I H; try discriminate.
  destruct (step st o) as [st1|] eqn:Hs.
  - replace (pre ++ o :: r) with ((pre ++ [o]) ++ r) by (rewrite <- app_assoc; reflexivity).
    eapply IH; eauto. eapply step_inv; eauto.
  - clear IH H. destruct o as [a b|k a b|k t|k c]; simpl in Hs; try discriminate.
    + destruct (unify_oc (apply (sub st) a) (apply (sub st) b)) as [d|] eqn:Hd.
      * destruct (existsb (dif_identical (sub st ++ d)) (pdifs st)) eqn:Hx; try discriminate.
        apply existsb_exists in Hx. destruct Hx as [d0 [Hin Hid]].
        apply (denote_failed_dif qv _ (eqs_of pre ++ [(a, b)]) (sub st ++ d) d0); auto.
        -- apply mgu_extend; auto. apply I.
        -- rewrite eqs_of_app. simpl. apply incl_app. apply incl_appl, incl_refl.
           apply incl_appr. intros x [<-|[]]. left. auto.
        -- rewrite difs_of_app. apply in_or_app. left. rewrite (inv_difs _ _ I) in Hin. apply filter_In in Hin. apply Hin.
      * apply denote_failed_unsolvable. intros f U.
        apply (mgu_extend_none (eqs_of pre) (sub st) a b (inv_mgu _ _ I) Hd f).
        eapply unifier_incl; [|exact U]. rewrite eqs_of_app. simpl. apply incl_app. apply incl_appl, incl_refl.
        apply incl_appr. intros x [<-|[]]. left. auto.
    + destruct (identical (sub st) a b) eqn:Hi.
      * apply (denote_failed_dif qv _ (eqs_of pre) (sub st) (k, (a, b))); auto.
        -- apply I.
        -- rewrite eqs_of_app. apply incl_appl, incl_refl.
        -- rewrite difs_of_app. apply in_or_app. right. simpl. auto.
      * destruct (unifiable (sub st) a b); discriminate.
Qed.

(* ------------------------------------------------------------------ main theorems *)
Lemma operational_eq_denotation_l : forall qv ops, operational qv ops = denote qv ops.
Proof.
  intros qv ops. unfold operational. destruct (run init ops) as [st|] eqn:Hr.
  - symmetry. apply denote_of_inv. apply (run_inv ops [] init st inv_init Hr).
  - simpl. symmetry. apply (run_none_denote qv ops [] init inv_init Hr).
Qed.

Lemma unifier_perm : forall E E' f, Permutation E E' -> unifier E f -> unifier E' f.
Proof. intros E E' f P U a b Hab. apply U. eapply Permutation_in; [apply Permutation_sym|]; eauto. Qed.

Lemma denote_perm : forall qv ops ops', Permutation ops ops' -> denote qv ops = denote qv ops'.
Proof.
  intros qv ops ops' P.
  assert (PE : Permutation (eqs_of ops) (eqs_of ops')) by (unfold eqs_of; apply Permutation_flat_map; auto).
  assert (PD : Permutation (difs_of ops) (difs_of ops')) by (unfold difs_of; apply Permutation_flat_map; auto).
  assert (PG : Permutation (goals_of ops) (goals_of ops')) by (unfold goals_of; apply Permutation_flat_map; auto).
  unfold denote.
  destruct (solve (eqs_of ops)) as [s|] eqn:Hs; destruct (solve (eqs_of ops')) as [s'|] eqn:Hs'; auto.
  - pose proof (solve_some _ _ Hs) as M. pose proof (solve_some _ _ Hs') as M'.
    assert (Q : eq_sub s s').
    { eapply mgu_eq; eauto. intro f. split; apply unifier_perm; auto. apply Permutation_sym. auto. }
    rewrite (existsb_perm_ext _ (dif_identical s) (dif_identical s') _ _ PD).
    2:{ intros [k [a b]]. unfold dif_identical. simpl. apply identical_eq. auto. }
    destruct (existsb (dif_identical s') (difs_of ops')); auto.
    f_equal.
    + apply canon_bindings_eq. auto.
    + apply sortN_perm. apply Permutation_map. erewrite filter_ext. apply filter_perm. exact PG.
      intros [k c]. unfold goal_holds. simpl. apply holds_eq. auto.
    + apply sortN_perm. apply Permutation_map. erewrite filter_ext. apply filter_perm. exact PG.
      intros [k c]. unfold goal_waits. simpl. f_equal. apply holds_eq. auto.
    + apply sortN_perm. apply Permutation_map. erewrite filter_ext. apply filter_perm. exact PD.
      intros [k [a b]]. unfold dif_open. simpl. apply unifiable_eq. auto.
  - exfalso. destruct (solve_some _ _ Hs) as [U _]. apply (solve_none _ Hs' (sfun s)). eapply unifier_perm; eauto.
  - exfalso. destruct (solve_some _ _ Hs') as [U _]. apply (solve_none _ Hs (sfun s')).
    eapply unifier_perm; [apply Permutation_sym|]; eauto.
Qed.

Lemma order_insensitive_l : forall qv ops ops', Permutation ops ops' -> operational qv ops = operational qv ops'.
Proof. intros. rewrite !operational_eq_denotation_l. apply denote_perm. auto. Qed.

(* ------------------------------------------------------------------ every goal runs exactly once *)
Lemma in_fst_filter : forall (G : list goal_post) p k, In k (map fst (filter p G)) -> In k (map fst G).
Proof.
  intros G p k H. apply in_map_iff in H. destruct H as [g [E Hg]]. apply filter_In in Hg. apply in_map_iff. exists g. tauto.
Qed.

Lemma count_fst_filter : forall (G : list goal_post) p k c, NoDup (map fst G) -> In (k, c) G ->
  count_occ N.eq_dec (map fst (filter p G)) k = if p (k, c) then 1 else 0.
Proof.
  induction G as [|[k0 c0] G IH]; simpl; intros p k c ND Hin. contradiction.
  inversion ND as [|x l Hnot ND']; subst.
  destruct Hin as [E|Hin].
  - injection E as -> ->.
    assert (Z0 : count_occ N.eq_dec (map fst (filter p G)) k = 0).
    { apply count_occ_not_In. intro Hk. apply Hnot. eapply in_fst_filter; eauto. }
    destruct (p (k, c)); simpl; auto. destruct (N.eq_dec k k); try congruence.
  - assert (Hne : k0 <> k).
    { intro E. subst. apply Hnot. apply in_map_iff. exists (k, c). auto. }
    destruct (p (k0, c0)); simpl; auto. destruct (N.eq_dec k0 k); try congruence. auto.
Qed.

Lemma goal_runs_once_l : forall ops st k c, run init ops = Some st -> NoDup (map fst (goals_of ops)) ->
  In (k, c) (goals_of ops) ->
  count_occ N.eq_dec (log st) k = (if holds (sub st) c then 1 else 0) /\
  count_occ N.eq_dec (map fst (pgoals st)) k = (if holds (sub st) c then 0 else 1).
Proof.
  intros ops st k c Hr ND Hin. pose proof (run_inv ops [] init st inv_init Hr) as I. simpl in I.
  split.
  - rewrite (proj1 (Permutation_count_occ N.eq_dec _ _) (inv_log _ _ I)).
    rewrite (count_fst_filter _ _ k c ND Hin). reflexivity.
  - rewrite (inv_goals _ _ I). rewrite (count_fst_filter _ _ k c ND Hin). unfold goal_waits. simpl.
    destruct (holds (sub st) c); reflexivity.
Qed.

Lemma goals_partition_l : forall ops st, run init ops = Some st ->
  Permutation (log st ++ map fst (pgoals st)) (map fst (goals_of ops)).
Proof.
  intros ops st Hr. pose proof (run_inv ops [] init st inv_init Hr) as I. simpl in I.
  eapply perm_trans. apply Permutation_app_tail. apply (inv_log _ _ I).
  rewrite (inv_goals _ _ I). rewrite <- map_app. apply Permutation_map.
  apply filter_partition_perm. intro x. apply waits_negb.
Qed.

Lemma frozen_runs_once_l : forall ops st k t, run init ops = Some st -> NoDup (map fst (goals_of ops)) ->
  In (PostFreeze k t) ops ->
  count_occ N.eq_dec (log st) k = if is_var (apply (sub st) t) then 0 else 1.
Proof.
  intros ops st k t Hr ND Hin. apply in_goals_of_freeze in Hin.
  destruct (goal_runs_once_l ops st k _ Hr ND Hin) as [H _]. rewrite H. simpl.
  destruct (is_var (apply (sub st) t)); reflexivity.
Qed.

Lemma run_app : forall l1 l2 st, run st (l1 ++ l2) = match run st l1 with None => None | Some st1 => run st1 l2 end.
Proof.
  induction l1 as [|o r IH]; simpl; intros l2 st; auto. destruct (step st o); auto.
Qed.

(* at every moment of a history (after every prefix) a frozen goal has run iff its variable is bound by then *)
Lemma frozen_runs_when_bound_l : forall pre post st', run init (pre ++ post) = Some st' ->
  exists st, run init pre = Some st /\
    forall k t, NoDup (map fst (goals_of pre)) -> In (PostFreeze k t) pre ->
      count_occ N.eq_dec (log st) k = if is_var (apply (sub st) t) then 0 else 1.
Proof.
  intros pre post st' H. rewrite run_app in H. destruct (run init pre) as [st|] eqn:Hp; try discriminate.
  exists st. split; auto. intros. eapply frozen_runs_once_l; eauto.
Qed.

(* ------------------------------------------------------------------ dif *)
Lemma dif_fails_iff_l : forall qv ops, operational qv ops = Failed <->
  (forall f, ~ unifier (eqs_of ops) f) \/
  (exists k a b, In (PostDif k a b) ops /\ forall f, unifier (eqs_of ops) f -> inst f a = inst f b).
Proof.
  intros qv ops. rewrite operational_eq_denotation_l. unfold denote.
  destruct (solve (eqs_of ops)) as [s|] eqn:Hs.
  - pose proof (solve_some _ _ Hs) as M.
    destruct (existsb (dif_identical s) (difs_of ops)) eqn:Hx.
    + split; auto. intros _. right. apply existsb_exists in Hx. destruct Hx as [[k [a b]] [Hin Hid]].
      exists k, a, b. split. apply in_difs_of. auto.
      apply (mgu_identical _ _ a b M). apply identical_true. exact Hid.
    + split; intro H; try discriminate. exfalso. destruct H as [H|[k [a [b [Hin H]]]]].
      * destruct M as [U _]. eapply H; eauto.
      * assert (Hx' : existsb (dif_identical s) (difs_of ops) = true).
        { apply existsb_exists. exists (k, (a, b)). split. apply in_difs_of. auto.
          unfold dif_identical. simpl. apply identical_true. apply (mgu_identical _ _ a b M). auto. }
        congruence.
  - split; auto. intros _. left. apply solve_none. auto.
Qed.

Lemma dif_residual_iff_l : forall qv ops B R W D, operational qv ops = Done B R W D ->
  forall k, In k D <-> exists a b, In (PostDif k a b) ops /\ exists f, unifier (eqs_of ops) f /\ inst f a = inst f b.
Proof.
  intros qv ops B R W D H k. rewrite operational_eq_denotation_l in H. unfold denote in H.
  destruct (solve (eqs_of ops)) as [s|] eqn:Hs; try discriminate.
  destruct (existsb (dif_identical s) (difs_of ops)); try discriminate.
  injection H as <- <- <- <-. pose proof (solve_some _ _ Hs) as M.
  rewrite sortN_in, in_map_iff. split.
  - intros [[k' [a b]] [E Hin]]. simpl in E. subst k'. apply filter_In in Hin. destruct Hin as [Hin Ho].
    exists a, b. split. apply in_difs_of. auto. apply (mgu_unifiable _ _ a b M). exact Ho.
  - intros [a [b [Hin Hf]]]. exists (k, (a, b)). split; auto. apply filter_In. split. apply in_difs_of. auto.
    unfold dif_open. simpl. apply (mgu_unifiable _ _ a b M). auto.
Qed.

(* the denotation never fails for a history without unifications that posts only difs between non-identical terms;
   used for non-vacuity only *)

(* ------------------------------------------------------------------ the comparison functions *)
Lemma list_eqb_true : forall (A : Type) (eqb : A -> A -> bool), (forall x y, eqb x y = true -> x = y) ->
  forall a b, list_eqb eqb a b = true -> a = b.
Proof.
  intros A eqb He. induction a as [|x a IH]; intros [|y b] H; simpl in H; try discriminate; auto.
  apply andb_true_iff in H. destruct H as [H1 H2]. f_equal; auto.
Qed.

Lemma nlist_eqb_true : forall a b, nlist_eqb a b = true -> a = b.
Proof. apply list_eqb_true. intros x y H. apply N.eqb_eq. auto. Qed.
Lemma tlist_eqb_true : forall a b, tlist_eqb a b = true -> a = b.
Proof. apply list_eqb_true. apply term_eqb_true. Qed.

Lemma check_obs_fail_iff_l : forall qv ops, check_obs qv ops OFail = true <-> denote qv ops = Failed.
Proof.
  intros qv ops. unfold check_obs, chk_success, chk_binds, chk_glog, chk_blog, chk_waiting, chk_difs.
  destruct (denote qv ops); simpl; split; intro H; auto; discriminate.
Qed.

Lemma check_obs_ok_l : forall qv ops b g l w d, check_obs qv ops (OOk b g l w d) = true ->
  denote qv ops = Done (canon b) (sortN g) (sortN w) (match denote qv ops with Done _ _ _ D => D | Failed => [] end)
  /\ sortN l = sortN g.
Proof.
  intros qv ops b g l w d. unfold check_obs, chk_success, chk_binds, chk_glog, chk_blog, chk_waiting, chk_difs.
  destruct (denote qv ops) as [|B R W D]; simpl; intro H; try discriminate.
  apply andb_true_iff in H. destruct H as [H _].
  apply andb_true_iff in H. destruct H as [H Hw].
  apply andb_true_iff in H. destruct H as [H Hl].
  apply andb_true_iff in H. destruct H as [H Hg].
  apply tlist_eqb_true in H. apply nlist_eqb_true in Hw. apply nlist_eqb_true in Hl. apply nlist_eqb_true in Hg.
  subst. split; auto.
Qed.

Lemma check_all_spec_l : forall qv ops os, check_all qv ops os = true <-> forall o, In o os -> check_obs qv ops o = true.
Proof. intros. unfold check_all. apply forallb_forall. Qed.

Lemma dif_entails_spec_l : forall a' b' a b, dif_entails (a', b') (a, b) = true <->
  (forall f, inst f a = inst f b -> inst f a' = inst f b').
Proof.
  intros a' b' a b. unfold dif_entails. simpl. destruct (unify_oc a b) as [u|] eqn:Hu.
  - rewrite term_eqb_eq. split.
    + intros H f Hf. rewrite <- (oc_mgu_fun _ _ _ Hu f Hf a'), <- (oc_mgu_fun _ _ _ Hu f Hf b'). congruence.
    + intro H. rewrite !apply_inst. apply H. rewrite <- !apply_inst. apply oc_sound. auto.
  - split; auto. intros _ f Hf. exfalso. eapply oc_complete_fun; eauto.
Qed.
