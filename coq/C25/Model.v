(* C25 -- all-solutions predicates: the model is findall/3,4, bagof/3, setof/3, forall/2 of Engine/Sld.v. *)
From Coq Require Import ZArith NArith List Bool.
From V Require Export Base.Term Engine.Sld.
Import ListNotations.

Definition t_findall (t g l : term) : term := Cmp n_findall [t; g; l].
Definition t_findall4 (t g l tl : term) : term := Cmp n_findall [t; g; l; tl].
Definition t_bagof (t g l : term) : term := Cmp n_bagof [t; g; l].
Definition t_setof (t g l : term) : term := Cmp n_setof [t; g; l].
Definition t_forall (c a : term) : term := Cmp n_forall [c; a].

(* the run of call(G) whose continuation records the instance of the template: the same continuation as a top-level query *)
Definition sub_run (ex : exec_t) (t g : term) (s : bst) : outcome := do_call ex g [] s (top_k t).
