(* C25 -- pinned property theorems (nothing else lives here) *)
From Coq Require Import ZArith NArith List Bool String.
From V Require Import Base.Term Engine.Sld Engine.SldProofs C25.Model C25.Proofs C07.Model.
Import ListNotations.
Open Scope N_scope.

(* findall/3: the result is unified with the list of fresh copies of the ordered solution instances of the template, where the
   solutions are those of running call(Goal) with the continuation of a top-level query (sub_run) *)
Theorem findall_is_map_copy_solve : forall ex t g l s k cs c',
  can_be_list (apply (sub s) l) = true -> snd (sub_run ex t g s) = SNorm ->
  copies (ctr s) (answers_of (fst (sub_run ex t g s))) = (cs, c') ->
  do_findall ex t g l tnil s k = unify_k (mkst (sub s) c') l (tlist cs) (snd (split_events (fst (sub_run ex t g s)))) k.
Proof. exact findall_spec. Qed.
Print Assumptions findall_is_map_copy_solve.

Theorem copies_are_renamings_in_order : forall l c, List.length (fst (copies c l)) = List.length l /\
  Forall2 (fun t t' => exists d, t' = shift d t) l (fst (copies c l)).
Proof. exact copies_spec. Qed.
Print Assumptions copies_are_renamings_in_order.

Theorem findall4_is_append : forall ex t g l tl s k cs c',
  can_be_list (apply (sub s) l) = true -> can_be_list (apply (sub s) tl) = true ->
  snd (sub_run ex t g s) = SNorm ->
  copies (ctr s) (answers_of (fst (sub_run ex t g s))) = (cs, c') ->
  do_findall ex t g l tl s k = unify_k (mkst (sub s) c') l (tlist_tail cs tl) (snd (split_events (fst (sub_run ex t g s)))) k.
Proof. exact findall4_spec. Qed.
Print Assumptions findall4_is_append.

Theorem list_with_tail_is_append : forall a b tl, tlist_tail (a ++ b) tl = tlist_tail a (tlist_tail b tl).
Proof. exact tlist_tail_app. Qed.
Print Assumptions list_with_tail_is_append.

Theorem exception_in_generator_propagates_and_leaves_no_residue : forall ex t g l tl s k,
  can_be_list (apply (sub s) l) = true -> can_be_list (apply (sub s) tl) = true ->
  snd (sub_run ex t g s) <> SNorm ->
  do_findall ex t g l tl s k = (snd (split_events (fst (sub_run ex t g s))), snd (sub_run ex t g s)) /\
  answers_of (snd (split_events (fst (sub_run ex t g s)))) = [].
Proof. exact findall_exception. Qed.
Print Assumptions exception_in_generator_propagates_and_leaves_no_residue.

(* bagof/setof: the groups partition the witness-sorted solution list in order, are non-empty, and consist of variant witnesses *)
Theorem bagof_groups_partition_solutions : forall n l, (List.length l <= n)%nat -> List.concat (groups n l) = l.
Proof. exact groups_partition. Qed.
Print Assumptions bagof_groups_partition_solutions.

Theorem bagof_groups_nonempty : forall n l, Forall (fun g => g <> []) (groups n l).
Proof. exact groups_nonempty. Qed.
Print Assumptions bagof_groups_nonempty.

Theorem bagof_groups_have_variant_witnesses : forall n l,
  Forall (fun g => match g with [] => True | p :: r => Forall (fun p' => variant (pair_key p') (pair_key p) = true) r end) (groups n l).
Proof. exact groups_variants. Qed.
Print Assumptions bagof_groups_have_variant_witnesses.

Theorem bagof_fails_without_solutions : forall ex set t g l s k,
  can_be_list (apply (sub s) l) = true ->
  (forall t' g', snd (sub_run ex t' g' s) = SNorm /\ answers_of (fst (sub_run ex t' g' s)) = []) ->
  snd (do_bagof ex set t g l s k) = SNorm /\ answers_of (fst (do_bagof ex set t g l s k)) = [].
Proof. exact bagof_no_solution_fails. Qed.
Print Assumptions bagof_fails_without_solutions.

(* setof: the solution list is the strictly sorted (hence duplicate-free) list of solutions, none invented;
   partial: the order's antisymmetry on the collected terms is a hypothesis (lcompare is not proved to be a total order here) *)
Theorem setof_is_sorted_bagof_partial : forall l, antisym_on l ->
  StrictlySorted (sort_dedup l) /\ (forall x, In x (sort_dedup l) -> In x l).
Proof. intros l H. split; [apply sort_dedup_sorted; exact H | apply sort_dedup_sound]. Qed.
Print Assumptions setof_is_sorted_bagof_partial.

Theorem forall_is_double_negation : forall n prog c a cb s k,
  exec (S n) prog (t_forall c a) cb s k = exec n prog (t_naf (t_conj c (t_naf a))) cb s k.
Proof. exact forall_law. Qed.
Print Assumptions forall_is_double_negation.

(* non-vacuity *)
Local Open Scope string_scope.
Definition ex_f : program :=
  [ (cm "f" [Int 1; at_ "a"; at_ "x"], at_ "true"); (cm "f" [Int 2; at_ "b"; at_ "x"], at_ "true");
    (cm "f" [Int 3; at_ "a"; at_ "y"], at_ "true"); (cm "f" [Int 4; at_ "b"; at_ "y"], at_ "true") ].
Example ex_findall : solve 30 ex_f (t_findall (cm "-" [Var 0; Var 1]) (cm "f" [Var 0; Var 1; Var 3]) (Var 2)) (Var 2)
  = Done [tlist [cm "-" [Int 1; at_ "a"]; cm "-" [Int 2; at_ "b"]; cm "-" [Int 3; at_ "a"]; cm "-" [Int 4; at_ "b"]]] None [].
Proof. vm_compute. reflexivity. Qed.
(* bagof(X, Y^f(X,Y,Z), L): Z = x, L = [1,2] ; Z = y, L = [3,4] *)
Example ex_bagof : solve 30 ex_f (t_bagof (Var 0) (cm "^" [Var 1; cm "f" [Var 0; Var 1; Var 2]]) (Var 3)) (cm "r" [Var 2; Var 3])
  = Done [cm "r" [at_ "x"; tlist [Int 1; Int 2]]; cm "r" [at_ "y"; tlist [Int 3; Int 4]]] None [].
Proof. vm_compute. reflexivity. Qed.
Example ex_setof : solve 30 ex_f (t_setof (Var 1) (cm "^" [Var 0; cm "^" [Var 2; cm "f" [Var 0; Var 1; Var 2]]]) (Var 3)) (Var 3)
  = Done [tlist [at_ "a"; at_ "b"]] None [].
Proof. vm_compute. reflexivity. Qed.
Example ex_bagof_fails : solve 30 ex_f (t_bagof (Var 0) (cm "f" [Var 0; at_ "zz"; Var 2]) (Var 3)) (Var 3) = Done [] None [].
Proof. vm_compute. reflexivity. Qed.
Example ex_antisym : antisym_on [Int 1; Int 2].
Proof. intros x y [<- | [<- | []]] [<- | [<- | []]]; vm_compute; congruence. Qed.
