From Coq Require Import ZArith NArith List Bool Lia.
From V Require Import Base.Term Engine.Sld Engine.SldProofs C25.Model.
Import ListNotations.
Open Scope N_scope.

Lemma exec_findall : forall n prog t g l cb s k,
  exec (S n) prog (t_findall t g l) cb s k = do_findall (exec n prog) t g l tnil s k.
Proof. reflexivity. Qed.
Lemma exec_findall4 : forall n prog t g l tl cb s k,
  exec (S n) prog (t_findall4 t g l tl) cb s k = do_findall (exec n prog) t g l tl s k.
Proof. reflexivity. Qed.
Lemma exec_bagof : forall n prog t g l cb s k,
  exec (S n) prog (t_bagof t g l) cb s k = do_bagof (exec n prog) false t g l s k.
Proof. reflexivity. Qed.
Lemma exec_setof : forall n prog t g l cb s k,
  exec (S n) prog (t_setof t g l) cb s k = do_bagof (exec n prog) true t g l s k.
Proof. reflexivity. Qed.

Lemma split_events_spec : forall ev, fst (split_events ev) = answers_of ev /\ answers_of (snd (split_events ev)) = [] /\
  log_of (snd (split_events ev)) = log_of ev.
Proof.
  induction ev as [| [t | t] r IH]; cbn [split_events answers_of log_of].
  - auto.
  - destruct (split_events r) as [a o]. cbn [fst snd] in *. destruct IH as [H1 [H2 H3]]. rewrite H1. auto.
  - destruct (split_events r) as [a o]. cbn [fst snd answers_of log_of] in *. destruct IH as [H1 [H2 H3]]. rewrite H3. auto.
Qed.

(* the collected solutions are the ordered answers of the sub-run; nothing else of it is kept but the log *)
Lemma collect_spec : forall ex t g s,
  collect ex t g s = (answers_of (fst (sub_run ex t g s)), snd (split_events (fst (sub_run ex t g s))), snd (sub_run ex t g s)).
Proof.
  intros ex t g s. unfold collect, sub_run, top_k.
  pose proof (split_events_spec (fst (do_call ex g [] s (fun s' => ([EAns (apply (sub s') t)], SNorm))))) as [H1 _].
  destruct (split_events _) as [a o]. cbn [fst snd] in *. rewrite H1. reflexivity.
Qed.

(* findall/3 = unify the result with the list of fresh copies of the ordered solution instances; then continue *)
Lemma findall_spec : forall ex t g l s k cs c',
  can_be_list (apply (sub s) l) = true ->
  snd (sub_run ex t g s) = SNorm ->
  copies (ctr s) (answers_of (fst (sub_run ex t g s))) = (cs, c') ->
  do_findall ex t g l tnil s k =
    unify_k (mkst (sub s) c') l (tlist cs) (snd (split_events (fst (sub_run ex t g s)))) k.
Proof.
  intros ex t g l s k cs c' Hl Hn Hc. unfold do_findall. rewrite Hl. cbn [negb].
  change (can_be_list (apply (sub s) tnil)) with true. cbn [negb].
  rewrite collect_spec. rewrite Hn. rewrite Hc. reflexivity.
Qed.

Lemma tlist_tail_app : forall a b tl, tlist_tail (a ++ b) tl = tlist_tail a (tlist_tail b tl).
Proof. induction a as [| x r IH]; intros b tl; cbn; [reflexivity | rewrite IH; reflexivity]. Qed.

(* findall/4 = the same solutions in front of the given tail *)
Lemma findall4_spec : forall ex t g l tl s k cs c',
  can_be_list (apply (sub s) l) = true -> can_be_list (apply (sub s) tl) = true ->
  snd (sub_run ex t g s) = SNorm ->
  copies (ctr s) (answers_of (fst (sub_run ex t g s))) = (cs, c') ->
  do_findall ex t g l tl s k =
    unify_k (mkst (sub s) c') l (tlist_tail cs tl) (snd (split_events (fst (sub_run ex t g s)))) k.
Proof.
  intros ex t g l tl s k cs c' Hl Ht Hn Hc. unfold do_findall. rewrite Hl, Ht. cbn [negb].
  rewrite collect_spec. rewrite Hn. rewrite Hc. reflexivity.
Qed.

Lemma findall3_is_findall4_nil : forall ex t g l s k, do_findall ex t g l tnil s k = do_findall ex t g l (tlist []) s k.
Proof. reflexivity. Qed.

(* the copies: one per solution, in order, each a renaming (shift) of the solution *)
Lemma copies_spec : forall l c, List.length (fst (copies c l)) = List.length l /\
  Forall2 (fun t t' => exists d, t' = shift d t) l (fst (copies c l)).
Proof.
  induction l as [| t r IH]; intros c; cbn [copies].
  - split; [reflexivity | constructor].
  - destruct (copies (c + nvars t) r) as [r' c'] eqn:E. cbn [fst List.length].
    specialize (IH (c + nvars t)). rewrite E in IH. cbn [fst] in IH. destruct IH as [H1 H2].
    split; [rewrite H1; reflexivity |]. constructor; [exists c; reflexivity | exact H2].
Qed.

(* an exception (or any non-normal end) inside the generator: it propagates, no solution is kept, the log is *)
Lemma findall_exception : forall ex t g l tl s k,
  can_be_list (apply (sub s) l) = true -> can_be_list (apply (sub s) tl) = true ->
  snd (sub_run ex t g s) <> SNorm ->
  do_findall ex t g l tl s k = (snd (split_events (fst (sub_run ex t g s))), snd (sub_run ex t g s)) /\
  answers_of (snd (split_events (fst (sub_run ex t g s)))) = [].
Proof.
  intros ex t g l tl s k Hl Ht Hn. split.
  - unfold do_findall. rewrite Hl, Ht. cbn [negb]. rewrite collect_spec.
    destruct (snd (sub_run ex t g s)); try reflexivity. congruence.
  - apply split_events_spec.
Qed.

(* ---- bagof / setof grouping *)
Lemma take_group_concat : forall w l, fst (take_group w l) ++ snd (take_group w l) = l.
Proof.
  induction l as [| p r IH]; cbn [take_group]; [reflexivity |].
  destruct (variant (pair_key p) w); [| reflexivity].
  destruct (take_group w r) as [g rest]. cbn [fst snd app] in *. rewrite IH. reflexivity.
Qed.

Lemma take_group_len : forall w l, (List.length (snd (take_group w l)) <= List.length l)%nat.
Proof.
  induction l as [| p r IH]; cbn [take_group]; [cbn; lia |].
  destruct (variant (pair_key p) w); [| cbn; lia].
  destruct (take_group w r) as [g rest]. cbn [fst snd List.length] in *. lia.
Qed.

Lemma take_group_variants : forall w l, Forall (fun p => variant (pair_key p) w = true) (fst (take_group w l)).
Proof.
  induction l as [| p r IH]; cbn [take_group]; [constructor |].
  destruct (variant (pair_key p) w) eqn:E; [| constructor].
  destruct (take_group w r) as [g rest]. cbn [fst] in *. constructor; assumption.
Qed.

(* the groups partition the (sorted) solution list, in order *)
Lemma groups_partition : forall n l, (List.length l <= n)%nat -> concat (groups n l) = l.
Proof.
  induction n as [| n IH]; intros l Hn.
  - destruct l; [reflexivity | cbn in Hn; lia].
  - destruct l as [| p r]; [reflexivity |]. cbn [groups].
    pose proof (take_group_concat (pair_key p) r) as Hc. pose proof (take_group_len (pair_key p) r) as Hl.
    destruct (take_group (pair_key p) r) as [g rest]. cbn [fst snd] in *. cbn [concat].
    rewrite IH by (cbn in Hn; lia). rewrite <- app_comm_cons. rewrite Hc. reflexivity.
Qed.

Lemma groups_nonempty : forall n l, Forall (fun g => g <> []) (groups n l).
Proof.
  induction n as [| n IH]; intros l; [constructor |].
  destruct l as [| p r]; [constructor |]. cbn [groups].
  destruct (take_group (pair_key p) r) as [g rest]. constructor; [discriminate | apply IH].
Qed.

(* within a group all witnesses are variants of the group's first witness *)
Lemma groups_variants : forall n l, Forall (fun g => match g with
                                                    | [] => True
                                                    | p :: r => Forall (fun p' => variant (pair_key p') (pair_key p) = true) r
                                                    end) (groups n l).
Proof.
  induction n as [| n IH]; intros l; [constructor |].
  destruct l as [| p r]; [constructor |]. cbn [groups].
  pose proof (take_group_variants (pair_key p) r) as Hv.
  destruct (take_group (pair_key p) r) as [g rest]. cbn [fst] in Hv. constructor; [exact Hv | apply IH].
Qed.

(* bagof/setof fail when the goal has no solution *)
Lemma bagof_no_solution_fails : forall ex set t g l s k,
  can_be_list (apply (sub s) l) = true ->
  (forall t' g', snd (sub_run ex t' g' s) = SNorm /\ answers_of (fst (sub_run ex t' g' s)) = []) ->
  snd (do_bagof ex set t g l s k) = SNorm /\ answers_of (fst (do_bagof ex set t g l s k)) = [].
Proof.
  intros ex set t g l s k Hl H. unfold do_bagof. rewrite Hl. cbn [negb].
  destruct (strip_carets _ _ _) as [g0 evars].
  rewrite collect_spec.
  match goal with |- context [sub_run ex ?T ?G s] => destruct (H T G) as [H1 H2]; rewrite H1, H2 end.
  cbn [copies]. destruct set; cbn; rewrite app_nil_r; split; try reflexivity; apply split_events_spec.
Qed.

(* setof = bagof with sort+dedup instead of keysort *)
Lemma insert_dedup_in : forall x y l, In x (insert_dedup y l) -> x = y \/ In x l.
Proof.
  induction l as [| z r IH]; cbn [insert_dedup]; intros H.
  - destruct H as [H | []]; auto.
  - destruct (lcompare y z).
    + right. exact H.
    + destruct H as [H | H]; [left; auto | right; exact H].
    + destruct H as [H | H]; [right; left; exact H |]. destruct (IH H) as [H1 | H1]; [left; exact H1 | right; right; exact H1].
Qed.

Lemma fold_insert_dedup_in : forall l acc x, In x (fold_left (fun a y => insert_dedup y a) l acc) -> In x acc \/ In x l.
Proof.
  induction l as [| y r IH]; intros acc x H; cbn [fold_left] in H.
  - left. exact H.
  - destruct (IH _ _ H) as [H1 | H1].
    + destruct (insert_dedup_in _ _ _ H1) as [H2 | H2]; [right; left; auto | left; exact H2].
    + right. right. exact H1.
Qed.

(* setof invents no solutions *)
Lemma sort_dedup_sound : forall l x, In x (sort_dedup l) -> In x l.
Proof. intros l x H. unfold sort_dedup in H. destruct (fold_insert_dedup_in _ _ _ H) as [[] | H1]. exact H1. Qed.

(* insertion keeps the list locally sorted (strictly increasing neighbours), given the order's antisymmetry on the data *)
Definition antisym_on (l : list term) : Prop := forall x y, In x l -> In y l -> lcompare x y = Gt -> lcompare y x = Lt.

Inductive StrictlySorted : list term -> Prop :=
| SS_nil : StrictlySorted []
| SS_one : forall x, StrictlySorted [x]
| SS_cons : forall x y r, lcompare x y = Lt -> StrictlySorted (y :: r) -> StrictlySorted (x :: y :: r).

Lemma insert_dedup_sorted : forall x l, StrictlySorted l -> (forall y, In y l -> lcompare x y = Gt -> lcompare y x = Lt) ->
  StrictlySorted (insert_dedup x l).
Proof.
  intros x l H. induction H as [| z | z y r Hzy Hs IH]; intros Ha; cbn [insert_dedup].
  - constructor.
  - destruct (lcompare x z) eqn:E.
    + constructor.
    + constructor; [exact E | constructor].
    + constructor; [apply Ha; [left; reflexivity | exact E] | constructor].
  - destruct (lcompare x z) eqn:E.
    + constructor; assumption.
    + constructor; [exact E | constructor; assumption].
    + assert (Hi : StrictlySorted (insert_dedup x (y :: r))).
      { apply IH. intros y0 Hy0. apply Ha. right. exact Hy0. }
      cbn [insert_dedup] in *. destruct (lcompare x y) eqn:E2.
      * constructor; assumption.
      * constructor; [apply Ha; [left; reflexivity | exact E] | exact Hi].
      * constructor; [exact Hzy | exact Hi].
Qed.

Lemma sort_dedup_sorted : forall l, antisym_on l -> StrictlySorted (sort_dedup l).
Proof.
  intros l Ha. unfold sort_dedup.
  assert (G : forall l' acc, (forall x, In x l' -> In x l) -> (forall x, In x acc -> In x l) -> StrictlySorted acc ->
              StrictlySorted (fold_left (fun a y => insert_dedup y a) l' acc)).
  { induction l' as [| y r IH]; intros acc Hl' Hacc Hs; cbn [fold_left]; [exact Hs |].
    apply IH.
    - intros x Hx. apply Hl'. right. exact Hx.
    - intros x Hx. destruct (insert_dedup_in _ _ _ Hx) as [H | H]; [subst x; apply Hl'; left; reflexivity | apply Hacc; exact H].
    - apply insert_dedup_sorted; [exact Hs |]. intros z Hz Hgt. apply Ha; [apply Hl'; left; reflexivity | apply Hacc; exact Hz | exact Hgt]. }
  apply G; [auto | intros x [] | constructor].
Qed.
