(* C38 -- pinned property theorems (nothing else lives here) *)
From Coq Require Import NArith List Bool Relations.
From V Require Import C38.Model C38.TabProofs C38.ContProofs.
Import ListNotations.
Open Scope N_scope.

(* ---------------------------------------------------------------- tabling: least fixpoints *)
(* iterating the immediate-consequence operator once more changes nothing: |V|^2+1 rounds reach the fixpoint *)
Theorem lfp_reaches_fixpoint : forall k E x y, tp k E (lfp k E) x y = lfp k E x y.
Proof. exact lfp_fix_eq. Qed.
Print Assumptions lfp_reaches_fixpoint.

(* the fixpoint is the transitive closure: the inductively defined reachability in >= 1 steps *)
Theorem lfp_is_transitive_closure : forall k E x y, lfp k E x y = true <-> clos_trans N (fun a b => In (a, b) E) x y.
Proof. exact lfp_reach. Qed.
Print Assumptions lfp_is_transitive_closure.

(* left-, right- and doubly-recursive path/2 have the same least model *)
Theorem three_definitions_same_lfp : forall E x y,
  lfp KLeft E x y = lfp KRight E x y /\ lfp KRight E x y = lfp KDouble E x y.
Proof. exact lfp_same. Qed.
Print Assumptions three_definitions_same_lfp.

(* a passing comparison means: the observed answers are exactly the reachable pairs / the nodes reachable from x *)
Theorem check_all_meaning : forall k E obs, check_all k E obs = true <->
  (forall x y, In (x, y) obs <-> clos_trans N (fun a b => In (a, b) E) x y).
Proof. exact check_all_spec. Qed.
Print Assumptions check_all_meaning.

Theorem check_from_meaning : forall k E x obs, check_from k E x obs = true <->
  (forall y, In y obs <-> clos_trans N (fun a b => In (a, b) E) x y).
Proof. exact check_from_spec. Qed.
Print Assumptions check_from_meaning.

Theorem check_graph_meaning : forall k E obs froms bounds, check_graph k E obs froms bounds = true <->
  (forall x y, In (x, y) obs <-> clos_trans N (fun a b => In (a, b) E) x y) /\
  (forall x l, In (x, l) froms -> forall y, In y l <-> clos_trans N (fun a b => In (a, b) E) x y) /\
  (forall x y b, In (x, y, b) bounds -> (b = true <-> clos_trans N (fun a b => In (a, b) E) x y)).
Proof. exact check_graph_spec. Qed.
Print Assumptions check_graph_meaning.

(* the certificate-based comparison used for the larger graphs: a passing check means that every observed answer set
   (all kinds, the start-node queries, the ground queries) is exactly the least fixpoint of every one of the three programs *)
Theorem cert_check_meaning : forall k E certs others froms bounds, cert_check E certs others froms bounds = true ->
  (forall x y, In (x, y) (map ends certs) <-> lfp k E x y = true) /\
  (forall o, In o others -> forall x y, In (x, y) o <-> lfp k E x y = true) /\
  (forall x ys, In (x, ys) froms -> forall y, In y ys <-> lfp k E x y = true) /\
  (forall x y b, In (x, y, b) bounds -> (b = true <-> lfp k E x y = true)).
Proof. exact cert_check_lfp. Qed.
Print Assumptions cert_check_meaning.

(* ---------------------------------------------------------------- reset/3, shift/1 *)
(* the executable interpreter and the big-step relation agree; the relation is deterministic *)
Theorem exec_sound : forall f p ev o, exec f p = Some (ev, o) -> bs p ev o.
Proof. exact exec_sound_l. Qed.
Print Assumptions exec_sound.

Theorem exec_complete : forall p ev o, bs p ev o -> exists f, exec f p = Some (ev, o).
Proof. exact exec_complete_l. Qed.
Print Assumptions exec_complete.

Theorem bs_deterministic : forall p ev o, bs p ev o -> forall ev' o', bs p ev' o' -> ev = ev' /\ o = o'.
Proof. exact bs_det_l. Qed.
Print Assumptions bs_deterministic.

(* Goal finishes without shift: the handler is never entered (Cont = none) and the run goes on after the reset *)
Theorem reset_no_shift : forall body h r ev1 ev o,
  bs body ev1 Done -> (bs (IReset body h :: r) ev o <-> exists ev2, ev = ev1 ++ ev2 /\ bs r ev2 o).
Proof. exact reset_no_shift_l. Qed.
Print Assumptions reset_no_shift.

(* Goal = pre, shift(v), post: Ball = v and Cont = post -- the remaining actions of Goal up to this reset, and nothing
   of what follows the reset -- are handed to the handler *)
Theorem reset_shift_capture : forall pre v post h r ev1 ev o,
  bs pre ev1 Done ->
  (bs (IReset (pre ++ IShift v :: post) h :: r) ev o <->
   exists ev2, ev = ev1 ++ hev h v :: ev2 /\ bs (handle h v post r) ev2 o).
Proof. exact reset_shift_capture_l. Qed.
Print Assumptions reset_shift_capture.

(* calling the continuation runs exactly the remaining actions of Goal, then what follows the reset *)
Theorem resume_runs_rest : forall pre v post r ev1 ev2 o,
  bs pre ev1 Done -> bs (post ++ r) ev2 o ->
  bs (IReset (pre ++ IShift v :: post) HResume :: r) (ev1 ++ EGot v :: ev2) o.
Proof. exact resume_runs_rest_l. Qed.
Print Assumptions resume_runs_rest.

(* a shift inside a sequence captures what follows it in the sequence ("up to the nearest reset") *)
Theorem shift_captures_rest_of_sequence : forall p q ev v k, bs p ev (Shifted v k) -> bs (p ++ q) ev (Shifted v (k ++ q)).
Proof. exact bs_seq_shift. Qed.
Print Assumptions shift_captures_rest_of_sequence.

(* iterator and state handlers see every yielded value in order *)
Theorem iterator_yields_all : forall body r ev2 o, flat body = true -> bs r ev2 o ->
  bs (IReset body HLoop :: r) (loop_events body ++ ev2) o.
Proof. exact iterator_l. Qed.
Print Assumptions iterator_yields_all.

Theorem state_handler_sums : forall body acc r ev2 o, flat body = true -> bs r ev2 o ->
  bs (IReset body (HSum acc) :: r) (sum_events acc body ++ ev2) o.
Proof. exact state_l. Qed.
Print Assumptions state_handler_sums.

Theorem check_trace_sound : forall f p obs fin, check_trace f p obs fin = true ->
  exists o, bs p obs o /\ (fin = true <-> o = Done).
Proof. exact check_trace_sound_l. Qed.
Print Assumptions check_trace_sound.

(* ---------------------------------------------------------------- non-vacuity *)
Example ex_cycle : check_all KLeft [(0,1);(1,2);(2,0);(2,3)]
  [(0,0);(0,1);(0,2);(0,3);(1,0);(1,1);(1,2);(1,3);(2,0);(2,1);(2,2);(2,3)] = true /\
  check_all KLeft [(0,1);(1,2);(2,0);(2,3)] [(0,0);(0,1);(0,2);(0,3);(1,0);(1,1);(1,2);(1,3);(2,0);(2,1);(2,2)] = false.
Proof. vm_compute. split; reflexivity. Qed.
Example ex_from : lfp_from KDouble [(0,1);(1,2);(2,0);(2,3)] 3 = [].
Proof. vm_compute. reflexivity. Qed.
(* a(1), shift(7), a(2), shift(8), a(3) under the iterator, nested in a dropping handler, then a(9) *)
Example ex_iter : exec 20 [IReset [ILog 1; IShift 7; ILog 2; IShift 8; ILog 3] HLoop; ILog 9] =
  Some ([EAct 1; EGot 7; EAct 2; EGot 8; EAct 3; EAct 9], Done).
Proof. vm_compute. reflexivity. Qed.
Example ex_nested : exec 20 [IReset [ILog 1; IReset [IShift 5; ILog 2; IShift 6; ILog 3] HResume; ILog 4] HDrop; ILog 9] =
  Some ([EAct 1; EGot 5; EAct 2; EGot 6; EAct 9], Done).
Proof. vm_compute. reflexivity. Qed.
Example ex_unhandled : exec 20 [ILog 1; IShift 5; ILog 2] = Some ([EAct 1], Shifted 5 [ILog 2]).
Proof. vm_compute. reflexivity. Qed.
