(* C38 -- proofs about the least fixpoints of the three path/2 programs *)
From Coq Require Import Arith NArith List Bool Lia Relations Relation_Operators Operators_Properties.
From V Require Import C38.Model.
Import ListNotations.
Open Scope N_scope.

Definition le_rel (I J : rel) := forall x y, I x y = true -> J x y = true.
Definition eq_rel (I J : rel) := forall x y, I x y = J x y.

Lemma filter_len_le : forall A (f g : A -> bool) l,
  (forall x, f x = true -> g x = true) -> (length (filter f l) <= length (filter g l))%nat.
Proof.
  intros A f g l H. induction l as [|a l IH]; cbn [filter]; [lia|].
  destruct (f a) eqn:Ef.
  - rewrite (H _ Ef). cbn [length]. lia.
  - destruct (g a); cbn [length]; lia.
Qed.

Lemma filter_len_eq : forall A (f g : A -> bool) l,
  (forall x, f x = true -> g x = true) -> length (filter f l) = length (filter g l) ->
  forall x, In x l -> f x = g x.
Proof.
  intros A f g l H. induction l as [|a l IH]; intros Hlen x Hx; [destruct Hx|].
  cbn [filter] in Hlen. pose proof (filter_len_le A f g l H) as Hle.
  destruct (f a) eqn:Ef.
  - rewrite (H _ Ef) in Hlen. cbn [length] in Hlen.
    destruct Hx as [<-|Hx]; [rewrite Ef; symmetry; apply H; exact Ef | apply IH; [lia | exact Hx]].
  - destruct (g a) eqn:Eg; cbn [length] in Hlen.
    + lia.
    + destruct Hx as [<-|Hx]; [congruence | apply IH; [lia | exact Hx]].
Qed.

Lemma filter_len_bound : forall A (f : A -> bool) l, (length (filter f l) <= length l)%nat.
Proof. intros A f l. induction l as [|a l IH]; cbn [filter length]; [lia|]. destruct (f a); cbn [length]; lia. Qed.

(* ------------------------------------------------------------------ generic: a monotone operator on a finite universe *)
Section Generic.
  Variable U : list (N * N).
  Variable F : rel -> rel.
  Hypothesis F_mono : forall I J, le_rel I J -> le_rel (F I) (F J).
  Hypothesis F_supp : forall I, (forall x y, I x y = true -> In (x, y) U) -> forall x y, F I x y = true -> In (x, y) U.

  Definition it (n : nat) : rel := iter n F empty_rel.

  Lemma it_S : forall n, it (S n) = F (it n).
  Proof. reflexivity. Qed.

  Lemma it_supp : forall n x y, it n x y = true -> In (x, y) U.
  Proof.
    induction n as [|n IH]; intros x y H.
    - discriminate.
    - rewrite it_S in H. eapply F_supp; [exact IH | exact H].
  Qed.

  Lemma it_chain : forall n, le_rel (it n) (it (S n)).
  Proof.
    induction n as [|n IH].
    - intros x y H. discriminate.
    - rewrite (it_S (S n)), (it_S n). apply F_mono. exact IH.
  Qed.

  Lemma F_ext : forall I J, eq_rel I J -> eq_rel (F I) (F J).
  Proof.
    intros I J H x y.
    assert (H1 : le_rel I J) by (intros a b; rewrite H; auto).
    assert (H2 : le_rel J I) by (intros a b; rewrite H; auto).
    pose proof (F_mono _ _ H1 x y) as M1. pose proof (F_mono _ _ H2 x y) as M2.
    destruct (F I x y), (F J x y); try reflexivity.
    - symmetry. apply M1. reflexivity.
    - apply M2. reflexivity.
  Qed.

  Definition cnt (I : rel) : nat := length (filter (fun p => I (fst p) (snd p)) U).

  Lemma progress : forall n, (n <= cnt (it n))%nat \/ exists k, (k < n)%nat /\ eq_rel (it k) (it (S k)).
  Proof.
    induction n as [|n IH]; [left; lia|].
    destruct IH as [IH|[k [Hk Hs]]]; [|right; exists k; split; [lia | exact Hs]].
    assert (Hle : (cnt (it n) <= cnt (it (S n)))%nat).
    { apply filter_len_le. intros p. apply it_chain. }
    destruct (Nat.eq_dec (cnt (it n)) (cnt (it (S n)))) as [E|NE]; [|left; lia].
    right. exists n. split; [lia|]. intros x y.
    destruct (it n x y) eqn:E1.
    - symmetry. apply it_chain. exact E1.
    - destruct (it (S n) x y) eqn:E2; [|reflexivity].
      pose proof (it_supp (S n) x y E2) as HIn.
      pose proof (filter_len_eq _ (fun p => it n (fst p) (snd p)) (fun p => it (S n) (fst p) (snd p)) U
                    (fun p => it_chain n (fst p) (snd p)) E (x, y) HIn) as Hxy.
      cbn [fst snd] in Hxy. congruence.
  Qed.

  Lemma stable_from : forall k, eq_rel (it k) (it (S k)) -> forall m, eq_rel (it (k + m)) (it (S (k + m))).
  Proof.
    intros k Hs m. induction m as [|m IH].
    - rewrite Nat.add_0_r. exact Hs.
    - replace (k + S m)%nat with (S (k + m)) by lia. rewrite (it_S (S (k + m))), (it_S (k + m)). apply F_ext. exact IH.
  Qed.

  Lemma generic_fix : eq_rel (F (it (S (length U)))) (it (S (length U))).
  Proof.
    destruct (progress (S (length U))) as [H|[k [Hk Hs]]].
    - pose proof (filter_len_bound _ (fun p => it (S (length U)) (fst p) (snd p)) U) as B. unfold cnt in H. lia.
    - pose proof (stable_from k Hs (S (length U) - k)) as H.
      replace (k + (S (length U) - k))%nat with (S (length U)) in H by lia.
      intros x y. rewrite <- it_S. symmetry. apply H.
  Qed.
End Generic.

(* ------------------------------------------------------------------ the three operators *)
Lemma erel_spec : forall E x y, erel E x y = true <-> In (x, y) E.
Proof.
  intros E x y. unfold erel. rewrite existsb_exists. split.
  - intros [[a b] [HIn H]]. cbn [fst snd] in H. apply andb_true_iff in H. destruct H as [H1 H2].
    apply N.eqb_eq in H1. apply N.eqb_eq in H2. subst. exact HIn.
  - intro HIn. exists (x, y). split; [exact HIn|]. cbn [fst snd]. rewrite !N.eqb_refl. reflexivity.
Qed.

Lemma verts_spec : forall E x y, In (x, y) E -> In x (verts E) /\ In y (verts E).
Proof.
  intros E x y H. unfold verts. split; apply nodup_In; apply in_or_app.
  - left. change x with (fst (x, y)). apply in_map. exact H.
  - right. change y with (snd (x, y)). apply in_map. exact H.
Qed.

Lemma universe_spec : forall E x y, In (x, y) (universe E) <-> In x (verts E) /\ In y (verts E).
Proof. intros. unfold universe. apply in_prod_iff. Qed.

Lemma tp_true : forall k E I x y, tp k E I x y = true <->
  In (x, y) E \/ exists z, In z (verts E) /\ step k E I x y z = true.
Proof.
  intros k E I x y. unfold tp. cbv beta zeta. rewrite orb_true_iff, erel_spec, existsb_exists. reflexivity.
Qed.

Lemma tp_mono : forall k E I J, le_rel I J -> le_rel (tp k E I) (tp k E J).
Proof.
  intros k E I J H x y. rewrite !tp_true. intros [HE|[z [Hz Hs]]]; [left; exact HE|].
  right. exists z. split; [exact Hz|].
  destruct k; cbn [step] in *; apply andb_true_iff in Hs; destruct Hs as [H1 H2]; apply andb_true_iff; split; auto.
Qed.

Lemma tp_supp : forall k E I, (forall x y, I x y = true -> In (x, y) (universe E)) ->
  forall x y, tp k E I x y = true -> In (x, y) (universe E).
Proof.
  intros k E I HI x y. rewrite tp_true. intros [HE|[z [Hz Hs]]]; apply universe_spec.
  - apply verts_spec. exact HE.
  - destruct k; cbn [step] in Hs; apply andb_true_iff in Hs; destruct Hs as [H1 H2].
    + apply HI in H1. apply universe_spec in H1. apply erel_spec in H2. apply verts_spec in H2. tauto.
    + apply erel_spec in H1. apply verts_spec in H1. apply HI in H2. apply universe_spec in H2. tauto.
    + apply HI in H1. apply HI in H2. apply universe_spec in H1. apply universe_spec in H2. tauto.
Qed.

Lemma pair_mem_spec : forall p l, pair_mem p l = true <-> In p l.
Proof.
  intros [x y] l. unfold pair_mem. rewrite existsb_exists. cbn [fst snd]. split.
  - intros [[a b] [HIn H]]. cbn [fst snd] in H. apply andb_true_iff in H. destruct H as [H1 H2].
    apply N.eqb_eq in H1. apply N.eqb_eq in H2. subst. exact HIn.
  - intro HIn. exists (x, y). split; [exact HIn|]. cbn [fst snd]. rewrite !N.eqb_refl. reflexivity.
Qed.

Lemma tabulate_spec : forall U I x y, tabulate U I x y = true <-> In (x, y) U /\ I x y = true.
Proof.
  intros U I x y. unfold tabulate. rewrite pair_mem_spec, filter_In. cbn [fst snd]. reflexivity.
Qed.

Lemma tpt_mono : forall k E I J, le_rel I J -> le_rel (tpt k E I) (tpt k E J).
Proof.
  intros k E I J H x y. unfold tpt. rewrite !tabulate_spec. intros [H1 H2]. split; [exact H1|].
  eapply tp_mono; eassumption.
Qed.

Lemma tpt_supp : forall k E I, (forall x y, I x y = true -> In (x, y) (universe E)) ->
  forall x y, tpt k E I x y = true -> In (x, y) (universe E).
Proof. intros k E I _ x y. unfold tpt. rewrite tabulate_spec. tauto. Qed.

Lemma lfp_supp : forall k E x y, lfp k E x y = true -> In (x, y) (universe E).
Proof. intros k E x y. unfold lfp. exact (it_supp (universe E) (tpt k E) (tpt_supp k E) (S (length (universe E))) x y). Qed.

Lemma lfp_fix_eq : forall k E, eq_rel (tp k E (lfp k E)) (lfp k E).
Proof.
  intros k E x y.
  pose proof (generic_fix (universe E) (tpt k E) (tpt_mono k E) (tpt_supp k E) x y) as H.
  change (it (tpt k E) (S (length (universe E)))) with (lfp k E) in H. rewrite <- H. unfold tpt.
  destruct (tp k E (lfp k E) x y) eqn:E1.
  - symmetry. apply tabulate_spec. split; [|exact E1]. eapply tp_supp; [apply lfp_supp | exact E1].
  - destruct (tabulate (universe E) (tp k E (lfp k E)) x y) eqn:E2; [|reflexivity].
    apply tabulate_spec in E2. destruct E2 as [_ E2]. congruence.
Qed.

(* ------------------------------------------------------------------ reachability *)
Definition edge (E : edges) : relation N := fun a b => In (a, b) E.
Definition reach (E : edges) : relation N := clos_trans N (edge E).

Lemma iter_sub_reach : forall k E n x y, iter n (tpt k E) empty_rel x y = true -> reach E x y.
Proof.
  intros k E. induction n as [|n IH]; intros x y H; [discriminate|].
  cbn [iter] in H. unfold tpt at 1 in H. apply tabulate_spec in H. destruct H as [_ H].
  apply tp_true in H. destruct H as [HE|[z [Hz Hs]]]; [apply t_step; exact HE|].
  destruct k; cbn [step] in Hs; apply andb_true_iff in Hs; destruct Hs as [H1 H2].
  - apply erel_spec in H2. eapply t_trans; [apply IH; exact H1 | apply t_step; exact H2].
  - apply erel_spec in H1. eapply t_trans; [apply t_step; exact H1 | apply IH; exact H2].
  - eapply t_trans; [apply IH; exact H1 | apply IH; exact H2].
Qed.

Lemma reach_verts : forall E x y, reach E x y -> In x (verts E) /\ In y (verts E).
Proof.
  intros E x y H. induction H as [x y H | x z y H1 IH1 H2 IH2]; [apply verts_spec; exact H | tauto].
Qed.

Lemma reach_sub_lfp : forall k E x y, reach E x y -> lfp k E x y = true.
Proof.
  intros k E x y H. pose proof (lfp_fix_eq k E) as FX. destruct k.
  - (* left recursion: induction from the right end *)
    apply clos_trans_tn1 in H. induction H as [y H | y z H1 H2 IH].
    + rewrite <- FX. apply tp_true. left. exact H.
    + rewrite <- FX. apply tp_true. right. exists y. split.
      * apply clos_tn1_trans in H2. apply reach_verts in H2. tauto.
      * cbn [step]. rewrite IH. apply erel_spec in H1. rewrite H1. reflexivity.
  - apply clos_trans_t1n in H. induction H as [x y H | x z y H1 H2 IH].
    + rewrite <- FX. apply tp_true. left. exact H.
    + rewrite <- FX. apply tp_true. right. exists z. split.
      * apply verts_spec in H1. tauto.
      * cbn [step]. rewrite IH. apply erel_spec in H1. rewrite H1. reflexivity.
  - induction H as [x y H | x z y H1 IH1 H2 IH2].
    + rewrite <- FX. apply tp_true. left. exact H.
    + rewrite <- FX. apply tp_true. right. exists z. split.
      * apply reach_verts in H1. tauto.
      * cbn [step]. rewrite IH1, IH2. reflexivity.
Qed.

Lemma lfp_reach : forall k E x y, lfp k E x y = true <-> reach E x y.
Proof.
  intros k E x y. split; [apply iter_sub_reach | apply reach_sub_lfp].
Qed.

Lemma lfp_same : forall E x y, lfp KLeft E x y = lfp KRight E x y /\ lfp KRight E x y = lfp KDouble E x y.
Proof.
  intros E x y. split; apply eq_true_iff_eq; rewrite !lfp_reach; reflexivity.
Qed.

Lemma lfp_pairs_spec : forall k E x y, In (x, y) (lfp_pairs k E) <-> reach E x y.
Proof.
  intros k E x y. unfold lfp_pairs, pairs_of. rewrite filter_In. cbn [fst snd]. rewrite lfp_reach. split; [tauto|].
  intro H. split; [|exact H]. apply universe_spec. apply reach_verts. exact H.
Qed.

Lemma lfp_from_spec : forall k E x y, In y (lfp_from k E x) <-> reach E x y.
Proof.
  intros k E x y. unfold lfp_from, from_of. rewrite filter_In, lfp_reach. split; [tauto|].
  intro H. split; [|exact H]. apply reach_verts in H. tauto.
Qed.

(* ------------------------------------------------------------------ the comparison functions *)
Lemma n_mem_spec : forall x l, n_mem x l = true <-> In x l.
Proof.
  intros x l. unfold n_mem. rewrite existsb_exists. split.
  - intros [a [HIn H]]. apply N.eqb_eq in H. subst. exact HIn.
  - intro HIn. exists x. split; [exact HIn | apply N.eqb_refl].
Qed.

Lemma check_all_spec : forall k E obs, check_all k E obs = true <-> (forall x y, In (x, y) obs <-> reach E x y).
Proof.
  intros k E obs. unfold check_all, check_all_with. fold (lfp_pairs k E). rewrite andb_true_iff, !forallb_forall. split.
  - intros [H1 H2] x y. split.
    + intro HIn. apply H2 in HIn. cbn [fst snd] in HIn. apply lfp_reach in HIn. exact HIn.
    + intro HR. apply pair_mem_spec. apply H1. apply lfp_pairs_spec. exact HR.
  - intro H. split.
    + intros [x y] HIn. apply pair_mem_spec. apply H. apply lfp_pairs_spec in HIn. exact HIn.
    + intros [x y] HIn. cbn [fst snd]. apply lfp_reach. apply H. exact HIn.
Qed.

Lemma check_from_spec : forall k E x obs, check_from k E x obs = true <-> (forall y, In y obs <-> reach E x y).
Proof.
  intros k E x obs. unfold check_from, check_from_with. fold (lfp_from k E x). rewrite andb_true_iff, !forallb_forall. split.
  - intros [H1 H2] y. split.
    + intro HIn. apply lfp_reach with (k := k). apply H2. exact HIn.
    + intro HR. apply n_mem_spec. apply H1. apply lfp_from_spec. exact HR.
  - intro H. split.
    + intros y HIn. apply n_mem_spec. apply H. apply lfp_from_spec in HIn. exact HIn.
    + intros y HIn. apply lfp_reach. apply H. exact HIn.
Qed.

Lemma check_graph_spec : forall k E obs froms bounds, check_graph k E obs froms bounds = true <->
  (forall x y, In (x, y) obs <-> reach E x y) /\ (forall x l, In (x, l) froms -> forall y, In y l <-> reach E x y) /\
  (forall x y b, In (x, y, b) bounds -> (b = true <-> reach E x y)).
Proof.
  intros k E obs froms bounds. unfold check_graph. cbv zeta. fold (check_all k E obs).
  rewrite !andb_true_iff, check_all_spec, !forallb_forall. split.
  - intros [[H1 H2] H3]. split; [exact H1|]. split.
    + intros x l HIn. specialize (H2 _ HIn). cbn [fst snd] in H2.
      fold (check_from k E x l) in H2. exact (proj1 (check_from_spec k E x l) H2).
    + intros x y b HIn. specialize (H3 _ HIn). cbn [fst snd] in H3. apply eqb_prop in H3. rewrite <- lfp_reach with (k := k).
      rewrite H3. tauto.
  - intros [H1 [H2 H3]]. split; [split; [exact H1|]|].
    + intros [x l] HIn. cbn [fst snd]. fold (check_from k E x l).
      apply (proj2 (check_from_spec k E x l)). apply H2. exact HIn.
    + intros [[x y] b] HIn. cbn [fst snd]. specialize (H3 _ _ _ HIn). rewrite <- lfp_reach with (k := k) in H3.
      destruct (lfp k E x y), b; try reflexivity.
      * destruct H3 as [_ H3]. discriminate H3. reflexivity.
      * destruct H3 as [H3 _]. discriminate H3. reflexivity.
Qed.

(* ------------------------------------------------------------------ certificate checker *)
Lemma valid_path_reach : forall E p x y, valid_path E x p y = true -> reach E x y.
Proof.
  intros E. induction p as [|z p IH]; intros x y H; cbn [valid_path] in H.
  - apply t_step. apply erel_spec. exact H.
  - apply andb_true_iff in H. destruct H as [H1 H2]. eapply t_trans; [apply t_step; apply erel_spec; exact H1 | apply IH; exact H2].
Qed.

Lemma closed_right_reach : forall E obs, closed_right E obs = true -> forall x y, reach E x y -> In (x, y) obs.
Proof.
  intros E obs H x y R. unfold closed_right in H. apply andb_true_iff in H. destruct H as [H1 H2].
  rewrite forallb_forall in H1, H2.
  apply clos_trans_t1n in R. induction R as [x y R | x z y R1 R2 IH].
  - apply pair_mem_spec. apply H1. exact R.
  - specialize (H2 _ R1). rewrite forallb_forall in H2. specialize (H2 _ IH). cbn [fst snd] in H2.
    rewrite N.eqb_refl in H2. cbn in H2. apply pair_mem_spec. exact H2.
Qed.

Lemma same_set_spec : forall a b, same_set a b = true -> forall p, In p a <-> In p b.
Proof.
  intros a b H p. unfold same_set in H. apply andb_true_iff in H. destruct H as [H1 H2].
  rewrite forallb_forall in H1, H2. split; intro HIn; apply pair_mem_spec; auto.
Qed.

Lemma from_ok_spec : forall all x ys, from_ok all x ys = true -> forall y, In y ys <-> In (x, y) all.
Proof.
  intros all x ys H y. unfold from_ok in H. apply andb_true_iff in H. destruct H as [H1 H2].
  rewrite forallb_forall in H1, H2. split; intro HIn.
  - apply pair_mem_spec. apply H1. exact HIn.
  - specialize (H2 _ HIn). cbn [fst snd] in H2. rewrite N.eqb_refl in H2. cbn in H2. apply n_mem_spec. exact H2.
Qed.

Lemma cert_check_spec : forall E certs others froms bounds, cert_check E certs others froms bounds = true ->
  (forall x y, In (x, y) (map ends certs) <-> reach E x y) /\
  (forall o, In o others -> forall x y, In (x, y) o <-> reach E x y) /\
  (forall x ys, In (x, ys) froms -> forall y, In y ys <-> reach E x y) /\
  (forall x y b, In (x, y, b) bounds -> (b = true <-> reach E x y)).
Proof.
  intros E certs others froms bounds H. unfold cert_check in H. cbv zeta in H.
  apply andb_true_iff in H. destruct H as [H Hb].
  apply andb_true_iff in H. destruct H as [H Hf]. apply andb_true_iff in H. destruct H as [H Ho].
  apply andb_true_iff in H. destruct H as [Hc Hv].
  assert (A : forall x y, In (x, y) (map ends certs) <-> reach E x y).
  { intros x y. split.
    - intro HIn. apply in_map_iff in HIn. destruct HIn as [[[a p] b] [He HIn]]. unfold ends in He. cbn [fst snd] in He.
      injection He as -> ->. rewrite forallb_forall in Hv. specialize (Hv _ HIn). cbn [fst snd] in Hv.
      eapply valid_path_reach. exact Hv.
    - apply closed_right_reach. exact Hc. }
  split; [exact A|]. split; [|split].
  - intros o Ho' x y. rewrite forallb_forall in Ho. specialize (Ho _ Ho'). rewrite <- A. symmetry. apply same_set_spec. exact Ho.
  - intros x ys HIn y. rewrite forallb_forall in Hf. specialize (Hf _ HIn). cbn [fst snd] in Hf. rewrite <- A.
    apply from_ok_spec. exact Hf.
  - intros x y b HIn. rewrite forallb_forall in Hb. specialize (Hb _ HIn). cbn [fst snd] in Hb. apply eqb_prop in Hb.
    rewrite <- A, <- pair_mem_spec, Hb. tauto.
Qed.

Lemma cert_check_lfp : forall k E certs others froms bounds, cert_check E certs others froms bounds = true ->
  (forall x y, In (x, y) (map ends certs) <-> lfp k E x y = true) /\
  (forall o, In o others -> forall x y, In (x, y) o <-> lfp k E x y = true) /\
  (forall x ys, In (x, ys) froms -> forall y, In y ys <-> lfp k E x y = true) /\
  (forall x y b, In (x, y, b) bounds -> (b = true <-> lfp k E x y = true)).
Proof.
  intros k E certs others froms bounds H. destruct (cert_check_spec _ _ _ _ _ H) as [A [B [C D]]].
  split; [|split; [|split]].
  - intros x y. rewrite lfp_reach. apply A.
  - intros o Ho x y. rewrite lfp_reach. apply (B o Ho).
  - intros x ys HIn y. rewrite lfp_reach. apply (C x ys HIn).
  - intros x y b HIn. rewrite lfp_reach. apply (D x y b HIn).
Qed.
