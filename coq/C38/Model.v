(* C38 -- (1) least fixpoints of the three transitive-closure programs over a finite edge relation
          (2) a mini language for reset/3 and shift/1 with an executable interpreter and a big-step relation.

   (1)  path(X,Y) :- edge(X,Y).
        KRight:  path(X,Y) :- edge(X,Z), path(Z,Y).
        KLeft:   path(X,Y) :- path(X,Z), edge(Z,Y).
        KDouble: path(X,Y) :- path(X,Z), path(Z,Y).
        tp k E I = immediate consequences of the interpretation I;  lfp k E = tp (tabulated over V x V) iterated |V|^2+1 times from the
        empty interpretation, V = the vertices occurring in E.

   (2)  programs are lists of instructions
          ILog a            lg(a)                       (an observable action)
          IShift v          shift(v)
          IReset body h     h(Body)  where the handler h is one of
             HDrop      reset(G,B,C), ( C == none -> true ; lg(got(B)) )
             HResume    reset(G,B,C), ( C == none -> true ; C = cont(K), lg(got(B)), call(K) )
             HLoop      it(G) :- reset(G,B,C), ( C == none -> true ; C = cont(K), lg(got(B)), it(K) )          (iterator)
             HSum acc   sm(G,A) :- reset(G,B,C), ( C == none -> true ; C = cont(K), A1 is A+B, lg(sum(A1)), sm(K,A1) )   (state)
        outcome Shifted v k at the top = a shift with no enclosing reset. *)
From Coq Require Import NArith List Bool.
Import ListNotations.
Open Scope N_scope.

(* ------------------------------------------------------------------ (1) fixpoints *)
Definition edges := list (N * N).
Definition rel := N -> N -> bool.
Inductive kind := KLeft | KRight | KDouble.

Definition erel (E : edges) : rel := fun x y => existsb (fun p => (fst p =? x) && (snd p =? y)) E.
Definition verts (E : edges) : list N := nodup N.eq_dec (map fst E ++ map snd E).

Definition step (k : kind) (E : edges) (I : rel) (x y z : N) : bool :=
  match k with
  | KRight => erel E x z && I z y
  | KLeft => I x z && erel E z y
  | KDouble => I x z && I z y
  end.

Definition tp (k : kind) (E : edges) (I : rel) : rel :=
  let vs := verts E in fun x y => erel E x y || existsb (step k E I x y) vs.

Definition empty_rel : rel := fun _ _ => false.

Fixpoint iter (n : nat) (F : rel -> rel) (I : rel) : rel :=
  match n with O => I | S m => F (iter m F I) end.

Definition universe (E : edges) : list (N * N) := list_prod (verts E) (verts E).

Definition pair_mem (p : N * N) (l : list (N * N)) : bool := existsb (fun q => (fst q =? fst p) && (snd q =? snd p)) l.

(* the same relation restricted to U, stored as a table (a relation given as a closure would be re-evaluated
   exponentially often by the iteration) *)
Definition tabulate (U : list (N * N)) (I : rel) : rel :=
  let l := filter (fun p => I (fst p) (snd p)) U in fun x y => pair_mem (x, y) l.

Definition tpt (k : kind) (E : edges) (I : rel) : rel := tabulate (universe E) (tp k E I).
Definition lfp (k : kind) (E : edges) : rel := iter (S (length (universe E))) (tpt k E) empty_rel.

(* (the relation is passed as an argument so that it is computed once) *)
Definition pairs_of (L : rel) (E : edges) : list (N * N) := filter (fun p => L (fst p) (snd p)) (universe E).
Definition from_of (L : rel) (E : edges) (x : N) : list N := filter (fun y => L x y) (verts E).
Definition lfp_pairs (k : kind) (E : edges) : list (N * N) := pairs_of (lfp k E) E.
Definition lfp_from (k : kind) (E : edges) (x : N) : list N := from_of (lfp k E) E x.

Definition n_mem (x : N) (l : list N) : bool := existsb (N.eqb x) l.

(* observed answer sets (any order, duplicates allowed) against the model *)
Definition check_all_with (L : rel) (E : edges) (obs : list (N * N)) : bool :=
  forallb (fun p => pair_mem p obs) (pairs_of L E) && forallb (fun p => L (fst p) (snd p)) obs.
Definition check_from_with (L : rel) (E : edges) (x : N) (obs : list N) : bool :=
  forallb (fun y => n_mem y obs) (from_of L E x) && forallb (fun y => L x y) obs.
Definition check_all (k : kind) (E : edges) (obs : list (N * N)) : bool := check_all_with (lfp k E) E obs.
Definition check_from (k : kind) (E : edges) (x : N) (obs : list N) : bool := check_from_with (lfp k E) E x obs.

(* one graph: the full answer set and the answers from given start nodes, for one program kind *)
Definition check_graph (k : kind) (E : edges) (obs : list (N * N)) (froms : list (N * list N)) (bounds : list (N * N * bool)) : bool :=
  let L := lfp k E in
  check_all_with L E obs && forallb (fun q => check_from_with L E (fst q) (snd q)) froms &&
  forallb (fun b => Bool.eqb (L (fst (fst b)) (snd (fst b))) (snd b)) bounds.

(* ---- a cheaper, certificate-based comparison for larger graphs (vm_compute is slow here): every observed pair comes
        with a witness path found by the (untrusted) driver; the checker validates the paths and checks that the
        observed set contains the edges and is closed under one more edge on the left.  Sound w.r.t. reachability,
        hence w.r.t. lfp (theorem cert_check_meaning). *)
Fixpoint valid_path (E : edges) (x : N) (p : list N) (y : N) : bool :=
  match p with
  | [] => erel E x y
  | z :: p' => erel E x z && valid_path E z p' y
  end.

Definition cert := (N * list N * N)%type.          (* (x, intermediate vertices, y) *)
Definition ends (c : cert) : N * N := (fst (fst c), snd c).

Definition closed_right (E : edges) (obs : list (N * N)) : bool :=
  forallb (fun e => pair_mem e obs) E &&
  forallb (fun e => forallb (fun q => negb (snd e =? fst q) || pair_mem (fst e, snd q) obs) obs) E.

Definition same_set (a b : list (N * N)) : bool :=
  forallb (fun p => pair_mem p b) a && forallb (fun p => pair_mem p a) b.

Definition from_ok (all : list (N * N)) (x : N) (ys : list N) : bool :=
  forallb (fun y => pair_mem (x, y) all) ys && forallb (fun p => negb (fst p =? x) || n_mem (snd p) ys) all.

Definition cert_check (E : edges) (certs : list cert) (others : list (list (N * N))) (froms : list (N * list N))
                      (bounds : list (N * N * bool)) : bool :=
  let all := map ends certs in
  closed_right E all && forallb (fun c => valid_path E (fst (fst c)) (snd (fst c)) (snd c)) certs &&
  forallb (same_set all) others && forallb (fun q => from_ok all (fst q) (snd q)) froms &&
  forallb (fun b => Bool.eqb (pair_mem (fst b) all) (snd b)) bounds.

(* ------------------------------------------------------------------ (2) reset / shift *)
Inductive handler := HDrop | HResume | HLoop | HSum (acc : N).
Inductive instr := ILog (a : N) | IShift (v : N) | IReset (body : list instr) (h : handler).
Inductive event := EAct (a : N) | EGot (v : N) | ESum (s : N).
Inductive outcome := Done | Shifted (v : N) (k : list instr).

(* what runs after the handler has received ball v and continuation k (r = what follows the reset) *)
Definition handle (h : handler) (v : N) (k r : list instr) : list instr :=
  match h with
  | HDrop => r
  | HResume => k ++ r
  | HLoop => IReset k HLoop :: r
  | HSum acc => IReset k (HSum (acc + v)) :: r
  end.
Definition hev (h : handler) (v : N) : event :=
  match h with HSum acc => ESum (acc + v) | _ => EGot v end.

Definition prepend (ev : list event) (r : option (list event * outcome)) : option (list event * outcome) :=
  match r with Some (ev2, o) => Some (ev ++ ev2, o) | None => None end.

Fixpoint exec (fuel : nat) (p : list instr) : option (list event * outcome) :=
  match fuel with
  | O => None
  | S f =>
      match p with
      | [] => Some ([], Done)
      | ILog a :: r => prepend [EAct a] (exec f r)
      | IShift v :: r => Some ([], Shifted v r)           (* the continuation: everything up to the nearest reset *)
      | IReset body h :: r =>
          match exec f body with
          | None => None
          | Some (ev1, Done) => prepend ev1 (exec f r)     (* Cont = none: the handler is not entered *)
          | Some (ev1, Shifted v k) => prepend (ev1 ++ [hev h v]) (exec f (handle h v k r))
          end
      end
  end.

(* ---- comparison with an observed trace: top = 0 (finished), 1 (unhandled shift) *)
Definition event_eqb (a b : event) : bool :=
  match a, b with
  | EAct x, EAct y => x =? y
  | EGot x, EGot y => x =? y
  | ESum x, ESum y => x =? y
  | _, _ => false
  end.
Fixpoint events_eqb (a b : list event) : bool :=
  match a, b with
  | [], [] => true
  | x :: a', y :: b' => event_eqb x y && events_eqb a' b'
  | _, _ => false
  end.
Definition check_trace (fuel : nat) (p : list instr) (obs : list event) (finished : bool) : bool :=
  match exec fuel p with
  | Some (ev, Done) => finished && events_eqb ev obs
  | Some (ev, Shifted _ _) => negb finished && events_eqb ev obs
  | None => false
  end.
