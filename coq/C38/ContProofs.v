(* C38 -- proofs about the reset/shift mini language *)
From Coq Require Import Arith NArith List Bool Lia.
From V Require Import C38.Model.
Import ListNotations.
Open Scope N_scope.

(* big-step semantics: p emits the events ev and ends with outcome o *)
Inductive bs : list instr -> list event -> outcome -> Prop :=
| bs_nil : bs [] [] Done
| bs_log : forall a r ev o, bs r ev o -> bs (ILog a :: r) (EAct a :: ev) o
| bs_shift : forall v r, bs (IShift v :: r) [] (Shifted v r)
| bs_reset_done : forall body h r ev1 ev2 o,
    bs body ev1 Done -> bs r ev2 o -> bs (IReset body h :: r) (ev1 ++ ev2) o
| bs_reset_shift : forall body h r ev1 v k ev2 o,
    bs body ev1 (Shifted v k) -> bs (handle h v k r) ev2 o -> bs (IReset body h :: r) (ev1 ++ hev h v :: ev2) o.

Lemma exec_sound_l : forall f p ev o, exec f p = Some (ev, o) -> bs p ev o.
Proof.
  induction f as [|f IH]; intros p ev o H; [discriminate|].
  cbn [exec] in H. destruct p as [|[a|v|body h] r].
  - injection H as <- <-. constructor.
  - destruct (exec f r) as [[ev2 o2]|] eqn:E; cbn [prepend] in H; [|discriminate].
    injection H as <- <-. cbn [app]. constructor. apply IH. exact E.
  - injection H as <- <-. constructor.
  - destruct (exec f body) as [[ev1 [|v k]]|] eqn:Eb; [| |discriminate].
    + destruct (exec f r) as [[ev2 o2]|] eqn:Er; cbn [prepend] in H; [|discriminate].
      injection H as <- <-. eapply bs_reset_done; apply IH; eassumption.
    + destruct (exec f (handle h v k r)) as [[ev2 o2]|] eqn:Er; cbn [prepend] in H; [|discriminate].
      injection H as <- <-. rewrite <- app_assoc. cbn [app]. eapply bs_reset_shift; apply IH; eassumption.
Qed.

Lemma bs_det_l : forall p ev o, bs p ev o -> forall ev' o', bs p ev' o' -> ev = ev' /\ o = o'.
Proof.
  intros p ev o H. induction H as [| a r ev o H IH | v r | body h r ev1 ev2 o H1 IH1 H2 IH2 | body h r ev1 v k ev2 o H1 IH1 H2 IH2];
    intros ev' o' H'; inversion H'; subst.
  - split; reflexivity.
  - match goal with X : bs r _ _ |- _ => destruct (IH _ _ X) as [-> ->] end. split; reflexivity.
  - split; reflexivity.
  - match goal with X : bs body _ Done |- _ => destruct (IH1 _ _ X) as [-> _] end.
    match goal with X : bs r _ _ |- _ => destruct (IH2 _ _ X) as [-> ->] end. split; reflexivity.
  - match goal with X : bs body _ (Shifted _ _) |- _ => destruct (IH1 _ _ X) as [_ Hc] end. discriminate.
  - match goal with X : bs body _ Done |- _ => destruct (IH1 _ _ X) as [_ Hc] end. discriminate.
  - match goal with X : bs body _ (Shifted _ _) |- _ => destruct (IH1 _ _ X) as [-> Hc] end. injection Hc as <- <-.
    match goal with X : bs (handle _ _ _ _) _ _ |- _ => destruct (IH2 _ _ X) as [-> ->] end. split; reflexivity.
Qed.

(* fuel: more never hurts, and every big-step run is found with enough fuel *)
Lemma exec_mono_l : forall f p r, exec f p = Some r -> exec (S f) p = Some r.
Proof.
  induction f as [|f IH]; intros p r H; [discriminate|].
  cbn [exec] in H. change (exec (S (S f)) p) with
    (match p with
     | [] => Some ([], Done)
     | ILog a :: r => prepend [EAct a] (exec (S f) r)
     | IShift v :: r => Some ([], Shifted v r)
     | IReset body h :: r =>
         match exec (S f) body with
         | None => None
         | Some (ev1, Done) => prepend ev1 (exec (S f) r)
         | Some (ev1, Shifted v k) => prepend (ev1 ++ [hev h v]) (exec (S f) (handle h v k r))
         end
     end).
  destruct p as [|[a|v|body h] q]; try exact H.
  - destruct (exec f q) as [x|] eqn:E; [|discriminate]. rewrite (IH _ _ E). exact H.
  - destruct (exec f body) as [[ev1 [|v k]]|] eqn:Eb; [| |discriminate]; rewrite (IH _ _ Eb).
    + destruct (exec f q) as [x|] eqn:E; [|discriminate]. rewrite (IH _ _ E). exact H.
    + destruct (exec f (handle h v k q)) as [x|] eqn:E; [|discriminate]. rewrite (IH _ _ E). exact H.
Qed.

Lemma exec_mono_le : forall f f' p r, (f <= f')%nat -> exec f p = Some r -> exec f' p = Some r.
Proof.
  intros f f' p r Hle H. induction Hle as [|m Hle IH]; [exact H|]. apply exec_mono_l. exact IH.
Qed.

Lemma exec_complete_l : forall p ev o, bs p ev o -> exists f, exec f p = Some (ev, o).
Proof.
  intros p ev o H. induction H as [| a r ev o H [f IH] | v r | body h r ev1 ev2 o H1 [f1 IH1] H2 [f2 IH2]
                                  | body h r ev1 v k ev2 o H1 [f1 IH1] H2 [f2 IH2]].
  - exists 1%nat. reflexivity.
  - exists (S f). cbn [exec]. rewrite IH. reflexivity.
  - exists 1%nat. reflexivity.
  - exists (S (max f1 f2)). cbn [exec].
    rewrite (exec_mono_le f1 (max f1 f2) _ _ (Nat.le_max_l _ _) IH1).
    rewrite (exec_mono_le f2 (max f1 f2) _ _ (Nat.le_max_r _ _) IH2). reflexivity.
  - exists (S (max f1 f2)). cbn [exec].
    rewrite (exec_mono_le f1 (max f1 f2) _ _ (Nat.le_max_l _ _) IH1).
    rewrite (exec_mono_le f2 (max f1 f2) _ _ (Nat.le_max_r _ _) IH2). cbn [prepend].
    rewrite <- app_assoc. reflexivity.
Qed.

(* ------------------------------------------------------------------ sequencing: what follows a goal *)
Lemma handle_app : forall h v k r q, handle h v k (r ++ q) = handle h v k r ++ q.
Proof. intros [| | |acc] v k r q; cbn [handle app]; try reflexivity. apply app_assoc. Qed.

(* a goal that finishes is followed by the rest; a goal that shifts captures the rest into the continuation *)
Lemma bs_app_l : forall p ev o, bs p ev o -> forall q,
  match o with
  | Done => forall ev2 o2, bs q ev2 o2 -> bs (p ++ q) (ev ++ ev2) o2
  | Shifted v k => bs (p ++ q) ev (Shifted v (k ++ q))
  end.
Proof.
  intros p ev o H. induction H as [| a r ev o H IH | v r | body h r ev1 ev2 o H1 IH1 H2 IH2 | body h r ev1 v k ev2 o H1 IH1 H2 IH2];
    intro q.
  - intros ev2 o2 Hq. exact Hq.
  - specialize (IH q). destruct o as [|v k].
    + intros ev2 o2 Hq. cbn [app]. constructor. apply IH. exact Hq.
    + cbn [app]. constructor. exact IH.
  - cbn [app]. constructor.
  - specialize (IH2 q). destruct o as [|v k].
    + intros ev3 o3 Hq. cbn [app]. rewrite <- app_assoc. eapply bs_reset_done; [exact H1 | apply IH2; exact Hq].
    + cbn [app]. eapply bs_reset_done; [exact H1 | exact IH2].
  - specialize (IH2 q). destruct o as [|v' k'].
    + intros ev3 o3 Hq. cbn [app]. rewrite <- app_assoc. cbn [app].
      eapply bs_reset_shift; [exact H1|]. rewrite handle_app. apply IH2. exact Hq.
    + cbn [app]. eapply bs_reset_shift; [exact H1|]. rewrite handle_app. exact IH2.
Qed.

Lemma bs_seq_done : forall p q ev1 ev2 o, bs p ev1 Done -> bs q ev2 o -> bs (p ++ q) (ev1 ++ ev2) o.
Proof. intros p q ev1 ev2 o H1 H2. exact (bs_app_l _ _ _ H1 q ev2 o H2). Qed.

Lemma bs_seq_shift : forall p q ev v k, bs p ev (Shifted v k) -> bs (p ++ q) ev (Shifted v (k ++ q)).
Proof. intros p q ev v k H. exact (bs_app_l _ _ _ H q). Qed.

(* ------------------------------------------------------------------ reset/3 laws *)
(* Goal finishes without shift: Cont = none, the handler is not entered, the run continues after the reset *)
Lemma reset_no_shift_l : forall body h r ev1 ev o,
  bs body ev1 Done -> (bs (IReset body h :: r) ev o <-> exists ev2, ev = ev1 ++ ev2 /\ bs r ev2 o).
Proof.
  intros body h r ev1 ev o Hb. split.
  - intro H. inversion H; subst.
    + match goal with X : bs body _ Done |- _ => destruct (bs_det_l _ _ _ Hb _ _ X) as [<- _] end. eauto.
    + match goal with X : bs body _ (Shifted _ _) |- _ => destruct (bs_det_l _ _ _ Hb _ _ X) as [_ Hc] end. discriminate.
  - intros [ev2 [-> H2]]. eapply bs_reset_done; eassumption.
Qed.

(* Goal = pre, shift(v), post where pre finishes: Ball = v, Cont = post (exactly the remaining actions of Goal, nothing
   of what follows the reset), and the run continues with the handler applied to (v, post) *)
Lemma reset_shift_capture_l : forall pre v post h r ev1 ev o,
  bs pre ev1 Done ->
  (bs (IReset (pre ++ IShift v :: post) h :: r) ev o <-> exists ev2, ev = ev1 ++ hev h v :: ev2 /\ bs (handle h v post r) ev2 o).
Proof.
  intros pre v post h r ev1 ev o Hpre.
  assert (Hb : bs (pre ++ IShift v :: post) ev1 (Shifted v post)).
  { pose proof (bs_seq_done pre (IShift v :: post) ev1 [] (Shifted v post) Hpre (bs_shift v post)) as H.
    rewrite app_nil_r in H. exact H. }
  split.
  - intro H. inversion H; subst.
    + match goal with X : bs (pre ++ _) _ Done |- _ => destruct (bs_det_l _ _ _ Hb _ _ X) as [_ Hc] end. discriminate.
    + match goal with X : bs (pre ++ _) _ (Shifted _ _) |- _ => destruct (bs_det_l _ _ _ Hb _ _ X) as [<- Hc] end.
      injection Hc as <- <-. eauto.
  - intros [ev2 [-> H2]]. eapply bs_reset_shift; eassumption.
Qed.

(* calling the continuation runs exactly the remaining actions: with the resuming handler the whole thing behaves like
   pre, lg(got(v)), post, r *)
Lemma resume_runs_rest_l : forall pre v post r ev1 ev2 o,
  bs pre ev1 Done -> bs (post ++ r) ev2 o ->
  bs (IReset (pre ++ IShift v :: post) HResume :: r) (ev1 ++ EGot v :: ev2) o.
Proof.
  intros pre v post r ev1 ev2 o Hpre Hrest.
  apply (reset_shift_capture_l pre v post HResume r ev1). { exact Hpre. }
  exists ev2. split; [reflexivity | exact Hrest].
Qed.

(* ------------------------------------------------------------------ iterators and state *)
Fixpoint flat (p : list instr) : bool :=
  match p with
  | [] => true
  | ILog _ :: r => flat r
  | IShift _ :: r => flat r
  | IReset _ _ :: _ => false
  end.

Fixpoint loop_events (p : list instr) : list event :=
  match p with
  | [] => []
  | ILog a :: r => EAct a :: loop_events r
  | IShift v :: r => EGot v :: loop_events r
  | IReset _ _ :: r => loop_events r
  end.

Fixpoint sum_events (acc : N) (p : list instr) : list event :=
  match p with
  | [] => []
  | ILog a :: r => EAct a :: sum_events acc r
  | IShift v :: r => ESum (acc + v) :: sum_events (acc + v) r
  | IReset _ _ :: r => sum_events acc r
  end.

Lemma reset_cons_log : forall a b h r ev o, bs (IReset b h :: r) ev o -> bs (IReset (ILog a :: b) h :: r) (EAct a :: ev) o.
Proof.
  intros a b h r ev o H. inversion H; subst.
  - change (EAct a :: ev1 ++ ev2) with ((EAct a :: ev1) ++ ev2). eapply bs_reset_done; [constructor; eassumption | eassumption].
  - change (EAct a :: ev1 ++ hev h v :: ev2) with ((EAct a :: ev1) ++ hev h v :: ev2).
    eapply bs_reset_shift; [constructor; eassumption | eassumption].
Qed.

(* the iterator handler sees every yielded value, in order, interleaved with the generator's own actions *)
Lemma iterator_l : forall body r ev2 o, flat body = true -> bs r ev2 o ->
  bs (IReset body HLoop :: r) (loop_events body ++ ev2) o.
Proof.
  induction body as [|[a|v|b h] body IH]; intros r ev2 o Hf Hr; cbn [flat] in Hf; cbn [loop_events].
  - change ([] ++ ev2) with (@nil event ++ ev2). eapply bs_reset_done; [constructor | exact Hr].
  - cbn [app]. apply reset_cons_log. apply IH; assumption.
  - cbn [app]. change (EGot v :: loop_events body ++ ev2) with ([] ++ hev HLoop v :: (loop_events body ++ ev2)).
    eapply bs_reset_shift; [constructor|]. cbn [handle]. apply IH; assumption.
  - discriminate.
Qed.

Lemma state_l : forall body acc r ev2 o, flat body = true -> bs r ev2 o ->
  bs (IReset body (HSum acc) :: r) (sum_events acc body ++ ev2) o.
Proof.
  induction body as [|[a|v|b h] body IH]; intros acc r ev2 o Hf Hr; cbn [flat] in Hf; cbn [sum_events].
  - change ([] ++ ev2) with (@nil event ++ ev2). eapply bs_reset_done; [constructor | exact Hr].
  - cbn [app]. apply reset_cons_log. apply IH; assumption.
  - cbn [app]. change (ESum (acc + v) :: sum_events (acc + v) body ++ ev2) with ([] ++ hev (HSum acc) v :: (sum_events (acc + v) body ++ ev2)).
    eapply bs_reset_shift; [constructor|]. cbn [handle]. apply IH; assumption.
  - discriminate.
Qed.

(* ------------------------------------------------------------------ comparison function *)
Lemma events_eqb_spec : forall a b, events_eqb a b = true <-> a = b.
Proof.
  induction a as [|x a IH]; destruct b as [|y b]; cbn [events_eqb]; split; intro H; try reflexivity; try discriminate.
  - apply andb_true_iff in H. destruct H as [H1 H2]. apply IH in H2. subst.
    destruct x, y; cbn [event_eqb] in H1; try discriminate; apply N.eqb_eq in H1; subst; reflexivity.
  - injection H as -> ->. apply andb_true_iff. split; [|apply IH; reflexivity].
    destruct y; cbn [event_eqb]; apply N.eqb_refl.
Qed.

Lemma check_trace_sound_l : forall f p obs fin, check_trace f p obs fin = true ->
  exists o, bs p obs o /\ (fin = true <-> o = Done).
Proof.
  intros f p obs fin H. unfold check_trace in H. destruct (exec f p) as [[ev [|v k]]|] eqn:E; [| |discriminate].
  - apply andb_true_iff in H. destruct H as [H1 H2]. apply events_eqb_spec in H2. subst.
    exists Done. split; [eapply exec_sound_l; exact E | tauto].
  - apply andb_true_iff in H. destruct H as [H1 H2]. apply events_eqb_spec in H2. subst.
    exists (Shifted v k). split; [eapply exec_sound_l; exact E|]. destruct fin; [discriminate|]. split; discriminate.
Qed.
