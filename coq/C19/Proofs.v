(* C19 -- lemmas about the reference stream model (quirks all off) *)
From Coq Require Import List NArith ZArith Bool Arith Lia.
From V Require Import C18.Model C18.Proofs C19.Model.
Import ListNotations.
Open Scope N_scope.

Local Arguments N.add : simpl never.
Local Arguments N.eqb : simpl never.
Local Arguments decode1 : simpl never.
Local Arguments encode_utf8 : simpl never.

(* ---------- the reference semantics without the deviation switches *)
Lemma skip_bom_strict s : skip_bom strict s = s.
Proof.
  unfold skip_bom. destruct (ty s); auto. destruct (next_unit s); auto.
  cbn [q_bom_start q_bom_mid strict]. destruct (rpos s =? 0)%nat; rewrite andb_false_r; auto.
Qed.

Definition deliver_ref (peek : bool) (k : rkind) (s : stream) : res * stream :=
  match next_unit s with
  | UEof => (eof_val k, if peek then s else set_past s)
  | UInvalid => (RErr EInvalid, s)
  | UItem c w => (item_val k c, if peek then s else advance strict s c w)
  end.

Lemma deliver_strict peek k s : deliver strict peek k s = deliver_ref peek k s.
Proof.
  unfold deliver, deliver_ref. rewrite skip_bom_strict.
  destruct (next_unit s) eqn:E; auto. destruct peek; auto.
Qed.

Lemma read_op_strict peek k s :
  read_op strict peek k s =
  if negb (type_ok k (ty s)) then (type_err (ty s), s)
  else if past s then
    match eact s with
    | EError => (RErr EPastEnd, s)
    | EEofCode => (eof_val k, s)
    | EReset => deliver_ref peek k (reset_stream s)
    end
  else deliver_ref peek k s.
Proof. unfold read_op. rewrite !deliver_strict. reflexivity. Qed.

(* ---------- peeking *)
Definition settle (k : rkind) (s : stream) : stream :=
  if type_ok k (ty s) && past s then match eact s with EReset => reset_stream s | _ => s end else s.

Lemma next_unit_reset_reset s : next_unit (reset_stream (reset_stream s)) = next_unit (reset_stream s).
Proof. reflexivity. Qed.

Lemma peek_state k s : snd (read_op strict true k s) = settle k s.
Proof.
  rewrite read_op_strict. unfold settle.
  destruct (type_ok k (ty s)); cbn [negb andb]; auto.
  destruct (past s); auto.
  - destruct (eact s); auto. unfold deliver_ref. destruct (next_unit (reset_stream s)); auto.
  - unfold deliver_ref. destruct (next_unit s); auto.
Qed.

Lemma get_same_as_peek k s : fst (read_op strict false k s) = fst (read_op strict true k s).
Proof.
  rewrite !read_op_strict.
  destruct (negb (type_ok k (ty s))); auto.
  destruct (past s); [destruct (eact s); auto|]; unfold deliver_ref.
  - destruct (next_unit (reset_stream s)); auto.
  - destruct (next_unit s); auto.
Qed.

Lemma get_after_peek k s :
  fst (read_op strict false k (snd (read_op strict true k s))) = fst (read_op strict true k s).
Proof.
  rewrite peek_state. rewrite !read_op_strict. unfold settle.
  destruct (type_ok k (ty s)) eqn:T; cbn [negb andb].
  2:{ rewrite T. reflexivity. }
  destruct (past s) eqn:P.
  - destruct (eact s) eqn:A.
    + rewrite T, P, A. reflexivity.
    + rewrite T, P, A. reflexivity.
    + cbn [ty reset_stream set_rpos_lines past]. rewrite T. cbn [negb].
      unfold deliver_ref. destruct (next_unit (reset_stream s)); auto.
  - rewrite T, P. cbn [negb]. unfold deliver_ref. destruct (next_unit s); auto.
Qed.

Lemma peek_idempotent k s :
  read_op strict true k (snd (read_op strict true k s)) = (fst (read_op strict true k s), snd (read_op strict true k s)).
Proof.
  rewrite peek_state. rewrite !read_op_strict. unfold settle.
  destruct (type_ok k (ty s)) eqn:T; cbn [negb andb].
  2:{ rewrite T. reflexivity. }
  destruct (past s) eqn:P.
  - destruct (eact s) eqn:A.
    + rewrite T, P, A. reflexivity.
    + rewrite T, P, A. reflexivity.
    + cbn [ty reset_stream set_rpos_lines past]. rewrite T. cbn [negb].
      unfold deliver_ref. destruct (next_unit (reset_stream s)) eqn:E; cbn [fst snd]; rewrite ?E; auto.
  - rewrite T, P. cbn [negb]. unfold deliver_ref. destruct (next_unit s) eqn:E; cbn [fst snd]; rewrite ?E; auto.
Qed.

(* ---------- bounds invariant *)
Definition Inv (s : stream) : Prop :=
  (rpos s <= length (content s))%nat /\ (forall p l, saved s = Some (p, l) -> (p <= length (content s))%nat).

Lemma next_unit_width s c w : next_unit s = UItem c w -> (rpos s <= length (content s))%nat ->
  (rpos s + w <= length (content s))%nat /\ w = match ty s with Text => len_utf8 c | Binary => 1%nat end.
Proof.
  unfold next_unit. intros H B.
  assert (L : length (skipn (rpos s) (content s)) = (length (content s) - rpos s)%nat) by apply skipn_length.
  destruct (ty s).
  - destruct (decode1 (skipn (rpos s) (content s))) eqn:D; try discriminate.
    injection H as -> ->. apply decode1_char_w in D. destruct D as [D1 D2]. split; auto. lia.
  - destruct (skipn (rpos s) (content s)) eqn:E; try discriminate.
    injection H as -> <-. cbn [length] in L. split; auto. lia.
Qed.

Lemma next_unit_eof s : (rpos s <= length (content s))%nat ->
  (next_unit s = UEof <-> rpos s = length (content s)).
Proof.
  intros B. unfold next_unit.
  assert (L : length (skipn (rpos s) (content s)) = (length (content s) - rpos s)%nat) by apply skipn_length.
  split.
  - intros H. destruct (ty s).
    + destruct (decode1 (skipn (rpos s) (content s))) eqn:D; try discriminate.
      apply decode1_empty in D. rewrite D in L. cbn [length] in L. lia.
    + destruct (skipn (rpos s) (content s)); try discriminate. cbn [length] in L. lia.
  - intros H. rewrite H. rewrite skipn_all. destruct (ty s); reflexivity.
Qed.

Lemma deliver_ref_inv peek k s : Inv s -> Inv (snd (deliver_ref peek k s)).
Proof.
  intros [B Sv]. unfold deliver_ref. destruct (next_unit s) eqn:E; cbn [snd].
  - destruct peek; split; auto.
  - destruct peek; [split; auto|]. apply next_unit_width in E; auto. split; cbn; auto. lia.
  - split; auto.
Qed.

Lemma reset_inv s : Inv s -> Inv (reset_stream s).
Proof. intros [B Sv]. split; cbn; auto. lia. Qed.

Lemma take_units_inv k : forall s acc, Inv s -> Inv (snd (take_units strict k s acc)).
Proof.
  induction k as [|k IH]; intros s acc I; cbn [take_units snd]; auto.
  destruct (next_unit s) eqn:E; cbn [snd]; auto.
  apply IH. destruct I as [B Sv]. apply next_unit_width in E; auto. split; cbn; auto. lia.
Qed.

Lemma step_inv o s : Inv s -> Inv (snd (step strict o s)).
Proof.
  intros I.
  assert (R : forall peek k, Inv (snd (read_op strict peek k s))).
  { intros peek k. rewrite read_op_strict. destruct (negb (type_ok k (ty s))); auto.
    destruct (past s); [destruct (eact s); auto|].
    - apply deliver_ref_inv, reset_inv, I.
    - apply deliver_ref_inv, I. }
  destruct o; cbn [step]; auto.
  - rewrite skip_bom_strict. pose proof (take_units_inv k s [] I) as T.
    destruct (take_units strict k s []); auto.
  - destruct I as [B Sv]. split; cbn; auto. intros p l [= <- <-]. auto.
  - destruct (saved s) as [[p l]|] eqn:E; auto.
    destruct (repos s); auto. destruct I as [B Sv]. split; cbn; eauto.
Qed.

Lemma run_inv script : forall s, Inv s -> Inv (snd (run strict script s)).
Proof.
  induction script as [|o r IH]; intros s I; cbn [run snd]; auto.
  pose proof (step_inv o s I) as I1. destruct (step strict o s) as [x s1]. cbn [snd] in I1.
  specialize (IH s1 I1). destruct (run strict r s1). auto.
Qed.

Lemma open_inv bytes t a rp : Inv (open_stream bytes t a rp).
Proof. split; cbn; [lia | discriminate]. Qed.

(* ---------- at_end_of_stream *)
Definition at_end (s : stream) : bool := match end_of s with EndNot => false | _ => true end.
Definition is_eof_outcome (k : rkind) (r : res) : Prop := r = eof_val k \/ r = RErr EPastEnd.

Lemma item_not_eof k c : ~ is_eof_outcome k (item_val k c).
Proof.
  intros [H|H]; destruct k; cbn in H; try discriminate.
  - injection H as H. lia.
  - injection H as H. lia.
Qed.

Lemma at_end_iff k s :
  type_ok k (ty s) = true -> (past s = true -> eact s <> EReset) -> (rpos s <= length (content s))%nat ->
  (at_end s = true <-> is_eof_outcome k (fst (read_op strict false k s))).
Proof.
  intros T NR B. rewrite read_op_strict. rewrite T. cbn [negb]. unfold at_end, end_of.
  destruct (past s) eqn:P.
  - destruct (eact s) eqn:A; cbn [fst].
    + split; auto. intros _. right. reflexivity.
    + split; auto. intros _. left. reflexivity.
    + exfalso. apply NR; auto.
  - unfold deliver_ref. pose proof (next_unit_eof s B) as EQ.
    destruct (next_unit s) eqn:E; cbn [fst].
    + assert (H : rpos s = length (content s)) by (apply EQ; reflexivity).
      rewrite H, Nat.eqb_refl. split; auto. intros _. left. reflexivity.
    + destruct (rpos s =? length (content s))%nat eqn:Q.
      * apply Nat.eqb_eq in Q. apply EQ in Q. discriminate.
      * split; [discriminate|]. intros H. exfalso. eapply item_not_eof; eauto.
    + destruct (rpos s =? length (content s))%nat eqn:Q.
      * apply Nat.eqb_eq in Q. apply EQ in Q. discriminate.
      * split; [discriminate|]. intros [H|H]; destruct k; discriminate.
Qed.

(* ---------- position and line count *)
Definition consumed (o : op) (r : res) : list N :=
  match o, r with
  | OGetChar, RChar c => [c]
  | OGetCode, RInt z => if (z <? 0)%Z then [] else [Z.to_N z]
  | OGetByte, RInt z => if (z <? 0)%Z then [] else [Z.to_N z]
  | OGetN _, RChars cs => cs
  | _, _ => []
  end.
Fixpoint consumed_all (script : list op) (rs : list res) : list N :=
  match script, rs with
  | o :: script', r :: rs' => consumed o r ++ consumed_all script' rs'
  | _, _ => []
  end.
Definition width (t : stype) (c : N) : nat := match t with Text => len_utf8 c | Binary => 1%nat end.
Fixpoint total_width (t : stype) (cs : list N) : nat :=
  match cs with [] => 0%nat | c :: r => (width t c + total_width t r)%nat end.
Fixpoint newlines (cs : list N) : N :=
  match cs with [] => 0 | c :: r => is_nl c + newlines r end.

Lemma total_width_app t a b : total_width t (a ++ b) = (total_width t a + total_width t b)%nat.
Proof. induction a as [|x a IH]; cbn [total_width app]; auto. rewrite IH. lia. Qed.
Lemma newlines_app a b : newlines (a ++ b) = newlines a + newlines b.
Proof. induction a as [|x a IH]; cbn [newlines app]; auto. rewrite IH. lia. Qed.

Definition same_opts (s s1 : stream) : Prop :=
  content s1 = content s /\ eact s1 = eact s /\ ty s1 = ty s.
Definition moved (s s1 : stream) (cs : list N) : Prop :=
  same_opts s s1 /\ rpos s1 = (rpos s + total_width (ty s) cs)%nat /\ lines s1 = lines s + newlines cs.

Lemma moved_nil s : moved s s [].
Proof. repeat split; cbn; auto; lia. Qed.

Lemma consumed_item_get k c :
  match k with KChar => consumed OGetChar (item_val k c) | KCode => consumed OGetCode (item_val k c) | KByte => consumed OGetByte (item_val k c) end = [c].
Proof.
  destruct k; cbn [consumed item_val]; auto.
  - destruct (Z.of_N c <? 0)%Z eqn:E; [apply Z.ltb_lt in E; lia|]. rewrite N2Z.id. auto.
  - destruct (Z.of_N c <? 0)%Z eqn:E; [apply Z.ltb_lt in E; lia|]. rewrite N2Z.id. auto.
Qed.

Definition get_op (k : rkind) : op := match k with KChar => OGetChar | KCode => OGetCode | KByte => OGetByte end.
Definition peek_op (k : rkind) : op := match k with KChar => OPeekChar | KCode => OPeekCode | KByte => OPeekByte end.

Lemma step_get k s : step strict (get_op k) s = read_op strict false k s.
Proof. destruct k; reflexivity. Qed.
Lemma step_peek k s : step strict (peek_op k) s = read_op strict true k s.
Proof. destruct k; reflexivity. Qed.

Lemma consumed_get_eof k : consumed (get_op k) (eof_val k) = [].
Proof. destruct k; reflexivity. Qed.
Lemma consumed_get_err k e : consumed (get_op k) (RErr e) = [].
Proof. destruct k; reflexivity. Qed.
Lemma consumed_get_item k c : consumed (get_op k) (item_val k c) = [c].
Proof. pose proof (consumed_item_get k c) as H. destruct k; exact H. Qed.
Lemma consumed_peek k r : consumed (peek_op k) r = [].
Proof. destruct k; reflexivity. Qed.

Lemma read_get_moved k s : eact s <> EReset -> (rpos s <= length (content s))%nat ->
  moved s (snd (read_op strict false k s)) (consumed (get_op k) (fst (read_op strict false k s))).
Proof.
  intros NR B. rewrite read_op_strict.
  destruct (negb (type_ok k (ty s))).
  { cbn [fst snd]. unfold type_err. rewrite consumed_get_err. apply moved_nil. }
  destruct (past s).
  { destruct (eact s); cbn [fst snd]; rewrite ?consumed_get_err, ?consumed_get_eof; try apply moved_nil. congruence. }
  unfold deliver_ref. destruct (next_unit s) eqn:E; cbn [fst snd].
  - rewrite consumed_get_eof. repeat split; cbn; auto; lia.
  - rewrite consumed_get_item. apply next_unit_width in E; auto. destruct E as [_ W].
    repeat split; cbn [advance set_rpos_lines content eact ty rpos lines total_width newlines q_lines_frozen strict]; auto.
    + unfold width. rewrite W. lia.
    + lia.
  - rewrite consumed_get_err. apply moved_nil.
Qed.

Lemma read_peek_moved k s : eact s <> EReset -> snd (read_op strict true k s) = s.
Proof.
  intros NR. rewrite peek_state. unfold settle. destruct (type_ok k (ty s) && past s); auto.
  destruct (eact s); auto. congruence.
Qed.

Lemma take_units_moved k : forall s acc, (rpos s <= length (content s))%nat ->
  exists cs, fst (take_units strict k s acc) = rev acc ++ cs /\ moved s (snd (take_units strict k s acc)) cs.
Proof.
  induction k as [|k IH]; intros s acc B; cbn [take_units].
  - exists []. cbn [fst snd]. rewrite app_nil_r. split; auto. apply moved_nil.
  - destruct (next_unit s) eqn:E.
    + exists []. cbn [fst snd]. rewrite app_nil_r. split; auto. apply moved_nil.
    + pose proof (next_unit_width s c w E B) as [B1 W].
      destruct (IH (advance strict s c w) (c :: acc)) as (cs & F & M).
      { cbn. lia. }
      exists (c :: cs). split.
      * rewrite F. cbn [rev]. rewrite <- app_assoc. reflexivity.
      * destruct M as ((C1 & C2 & C3) & P & L).
        cbn [advance set_rpos_lines content eact ty rpos lines q_lines_frozen strict] in *.
        repeat split; auto; cbn [total_width newlines].
        -- rewrite P. unfold width. rewrite W. lia.
        -- rewrite L. lia.
    + exists []. cbn [fst snd]. rewrite app_nil_r. split; auto. apply moved_nil.
Qed.

Definition no_restore (o : op) : Prop := o <> ORestore.

Lemma step_moved o s : no_restore o -> eact s <> EReset -> Inv s ->
  moved s (snd (step strict o s)) (consumed o (fst (step strict o s))).
Proof.
  intros NO NR I. destruct I as [B Sv].
  destruct o; cbn [step].
  - apply (read_get_moved KChar); auto.
  - rewrite (read_peek_moved KChar); auto. apply moved_nil.
  - apply (read_get_moved KCode); auto.
  - rewrite (read_peek_moved KCode); auto. apply moved_nil.
  - apply (read_get_moved KByte); auto.
  - rewrite (read_peek_moved KByte); auto. apply moved_nil.
  - rewrite skip_bom_strict. destruct (take_units_moved k s [] B) as (cs & F & M).
    destruct (take_units strict k s []) as [cs' s']. cbn [fst snd] in *. subst cs'. exact M.
  - apply moved_nil.
  - apply moved_nil.
  - apply moved_nil.
  - cbn [fst snd consumed]. repeat split; cbn; auto; lia.
  - exfalso. apply NO. reflexivity.
Qed.

Lemma run_moved script : forall s, Forall no_restore script -> eact s <> EReset -> Inv s ->
  moved s (snd (run strict script s)) (consumed_all script (fst (run strict script s))).
Proof.
  induction script as [|o r IH]; intros s F NR I; cbn [run].
  - apply moved_nil.
  - inversion F as [|o' r' NO F']; subst.
    pose proof (step_moved o s NO NR I) as M1. pose proof (step_inv o s I) as I1.
    destruct (step strict o s) as [x s1]. cbn [fst snd] in M1, I1.
    destruct M1 as ((C1 & C2 & C3) & P1 & L1).
    assert (NR1 : eact s1 <> EReset) by (rewrite C2; auto).
    specialize (IH s1 F' NR1 I1).
    destruct (run strict r s1) as [xs s2]. cbn [fst snd consumed_all] in *.
    destruct IH as ((D1 & D2 & D3) & P2 & L2).
    repeat split; try congruence.
    + rewrite P2, P1, C3, total_width_app. lia.
    + rewrite L2, L1, newlines_app. lia.
Qed.

(* ---------- eof_action *)
Lemma eof_error peek k s : type_ok k (ty s) = true -> past s = true -> eact s = EError ->
  read_op strict peek k s = (RErr EPastEnd, s).
Proof. intros T P A. rewrite read_op_strict, T, P, A. reflexivity. Qed.

Lemma eof_code peek k s : type_ok k (ty s) = true -> past s = true -> eact s = EEofCode ->
  read_op strict peek k s = (eof_val k, s).
Proof. intros T P A. rewrite read_op_strict, T, P, A. reflexivity. Qed.

Lemma eof_code_repeat k n : forall s, type_ok k (ty s) = true -> past s = true -> eact s = EEofCode ->
  run strict (repeat (get_op k) n) s = (repeat (eof_val k) n, s).
Proof.
  induction n as [|n IH]; intros s T P A; cbn [repeat run]; auto.
  rewrite step_get, eof_code; auto. rewrite IH; auto.
Qed.

Lemma eof_reset peek k s : type_ok k (ty s) = true -> past s = true -> eact s = EReset ->
  read_op strict peek k s = read_op strict peek k (reset_stream s).
Proof.
  intros T P A. rewrite !read_op_strict. cbn [ty reset_stream set_rpos_lines past]. rewrite T, P, A. reflexivity.
Qed.

Lemma end_sets_past k s : type_ok k (ty s) = true -> past s = false -> rpos s = length (content s) ->
  read_op strict false k s = (eof_val k, set_past s).
Proof.
  intros T P E. rewrite read_op_strict, T, P. cbn [negb]. unfold deliver_ref.
  assert (N : next_unit s = UEof) by (apply next_unit_eof; [lia | auto]).
  rewrite N. reflexivity.
Qed.

(* ---------- write, then read *)
Definition units_bytes (t : stype) (us : list N) : list N := match t with Text => encode_all us | Binary => us end.
Definition unit_ok (t : stype) (c : N) : Prop := match t with Text => scalar c | Binary => True end.

Lemma skipn_skipn {A} (a b : nat) (l : list A) : skipn a (skipn b l) = skipn (b + a) l.
Proof. symmetry. apply skipn_add. Qed.

Lemma next_unit_cons s c us : Forall (unit_ok (ty s)) (c :: us) ->
  skipn (rpos s) (content s) = units_bytes (ty s) (c :: us) ->
  next_unit s = UItem c (width (ty s) c) /\
  skipn (rpos s + width (ty s) c) (content s) = units_bytes (ty s) us.
Proof.
  intros F E. unfold next_unit. rewrite E. inversion F as [|c' us' OK F']; subst.
  rewrite <- skipn_skipn, E. destruct (ty s); cbn [units_bytes unit_ok width] in *.
  - unfold encode_all. cbn [flat_map]. rewrite decode_encode_proof; auto. split; auto.
    rewrite <- length_encode_utf8. apply skipn_length_app.
  - split; auto.
Qed.

Lemma read_units k : forall us s, type_ok k (ty s) = true -> past s = false -> Forall (unit_ok (ty s)) us ->
  skipn (rpos s) (content s) = units_bytes (ty s) us ->
  exists s', run strict (repeat (get_op k) (length us)) s = (map (item_val k) us, s')
             /\ skipn (rpos s') (content s') = [] /\ past s' = false /\ ty s' = ty s
             /\ rpos s' = (rpos s + total_width (ty s) us)%nat /\ lines s' = lines s + newlines us.
Proof.
  induction us as [|c us IH]; intros s T P F E.
  - exists s. cbn [length repeat run map total_width newlines]. repeat split; auto; try lia.
    rewrite E. destruct (ty s); reflexivity.
  - destruct (next_unit_cons s c us F E) as [NU SK].
    cbn [length repeat run map]. rewrite step_get, read_op_strict, T, P. cbn [negb].
    unfold deliver_ref. rewrite NU.
    inversion F as [|c' us' OK F']; subst.
    destruct (IH (advance strict s c (width (ty s) c))) as (s' & R & K & P' & T' & RP & LN); auto.
    exists s'. rewrite R. cbn [advance set_rpos_lines content eact ty rpos lines q_lines_frozen strict past] in *.
    repeat split; auto; cbn [total_width newlines]; lia.
Qed.

Lemma write_then_read_units k us t ea rp : type_ok k t = true -> Forall (unit_ok t) us ->
  fst (run strict (repeat (get_op k) (length us) ++ [get_op k; get_op k]) (open_stream (units_bytes t us) t ea rp))
  = map (item_val k) us ++ [eof_val k; match ea with EError => RErr EPastEnd | EEofCode => eof_val k | EReset => match us with [] => eof_val k | c :: _ => item_val k c end end].
Proof.
  intros T F.
  destruct (read_units k us (open_stream (units_bytes t us) t ea rp)) as (s' & R & K & P' & T' & RP & LN); auto.
  assert (RUN : forall a b s, fst (run strict (a ++ b) s) = fst (run strict a s) ++ fst (run strict b (snd (run strict a s)))).
  { induction a as [|o a IH]; intros b s; cbn [app run]; auto.
    destruct (step strict o s) as [x s1]. specialize (IH b s1).
    destruct (run strict (a ++ b) s1), (run strict a s1). cbn [fst snd] in *. rewrite IH. reflexivity. }
  rewrite RUN, R. cbn [fst snd]. f_equal.
  cbn [run]. rewrite step_get.
  assert (B : rpos s' = length (content s')).
  { assert (L : length (skipn (rpos s') (content s')) = (length (content s') - rpos s')%nat) by apply skipn_length.
    rewrite K in L. cbn [length] in L.
    assert (I : Inv s').
    { pose proof (run_inv (repeat (get_op k) (length us)) _ (open_inv (units_bytes t us) t ea rp)) as I. rewrite R in I. exact I. }
    destruct I as [I _]. lia. }
  cbn [ty open_stream] in T'. rewrite end_sets_past; auto; try congruence.
  rewrite step_get.
  assert (EA : eact s' = ea /\ content s' = units_bytes t us).
  { assert (G : forall n s, eact (snd (run strict (repeat (get_op k) n) s)) = eact s /\ content (snd (run strict (repeat (get_op k) n) s)) = content s).
    { induction n as [|n IHn]; intros s; cbn [repeat run snd]; auto.
      rewrite step_get. specialize (IHn (snd (read_op strict false k s))).
      assert (Q : eact (snd (read_op strict false k s)) = eact s /\ content (snd (read_op strict false k s)) = content s).
      { rewrite read_op_strict. destruct (negb (type_ok k (ty s))); auto. unfold deliver_ref.
        destruct (past s); [destruct (eact s) eqn:A; auto|].
        - destruct (next_unit (reset_stream s)); cbn; auto.
        - destruct (next_unit s); cbn; auto. }
      destruct (read_op strict false k s) as [x s1]. cbn [snd] in *.
      destruct (run strict (repeat (get_op k) n) s1). cbn [snd] in *. destruct IHn, Q. split; congruence. }
    specialize (G (length us) (open_stream (units_bytes t us) t ea rp)). rewrite R in G. exact G. }
  destruct EA as [EA CT].
  rewrite read_op_strict. cbn [ty set_past set_rpos_lines past eact]. rewrite T', T. cbn [negb]. rewrite EA.
  destruct ea; cbn [fst]; auto.
  unfold deliver_ref.
  destruct us as [|c us'].
  - assert (N : next_unit (reset_stream (set_past s')) = UEof).
    { unfold next_unit. cbn [rpos reset_stream set_past set_rpos_lines content ty skipn]. rewrite CT, T'. destruct t; reflexivity. }
    rewrite N. reflexivity.
  - assert (N : next_unit (reset_stream (set_past s')) = UItem c (width t c)).
    { pose proof (next_unit_cons (reset_stream (set_past s')) c us') as H.
      cbn [rpos reset_stream set_past set_rpos_lines content ty skipn] in H. rewrite T', CT in H.
      destruct H as [H _]; auto. }
    rewrite N. reflexivity.
Qed.

Lemma get_n_reads_all us t ea rp : Forall (unit_ok t) us ->
  fst (step strict (OGetN (length us)) (open_stream (units_bytes t us) t ea rp)) = RChars us.
Proof.
  intros F. cbn [step]. rewrite skip_bom_strict.
  assert (G : forall us s acc, Forall (unit_ok (ty s)) us -> skipn (rpos s) (content s) = units_bytes (ty s) us ->
              fst (take_units strict (length us) s acc) = rev acc ++ us).
  { clear. induction us as [|c us IH]; intros s acc F E; cbn [length take_units fst].
    - rewrite app_nil_r. reflexivity.
    - destruct (next_unit_cons s c us F E) as [NU SK]. rewrite NU.
      inversion F as [|c' us' OK F']; subst.
      rewrite IH; auto. cbn [rev]. rewrite <- app_assoc. reflexivity. }
  specialize (G us (open_stream (units_bytes t us) t ea rp) [] F eq_refl).
  destruct (take_units strict (length us) (open_stream (units_bytes t us) t ea rp) []). cbn [fst] in *. rewrite G. reflexivity.
Qed.

Lemma written_bytes_units t ws : written_bytes t ws = units_bytes t (written_units t ws).
Proof. destruct t; reflexivity. Qed.
