(* C19 -- pinned property theorems (nothing else lives here).  All statements are about the reference
   semantics `strict` (every deviation switch of the model off). *)
From Coq Require Import List NArith ZArith Bool Lia.
From V Require Import C18.Model C18.Proofs C19.Model C19.Proofs.
Import ListNotations.
Open Scope N_scope.

(* Whatever a sequence of output operations appends to a text (resp. binary) stream -- put_char, put_code, nl,
   write, format (resp. put_byte); operations of the wrong type raise and append nothing -- is read back by
   get_char / get_code (resp. get_byte) unit by unit in the same order; the next read returns end_of_file / -1,
   and the read after that honours the eof_action.  k = KChar, KCode on text streams, KByte on binary streams. *)
Theorem write_then_read : forall k t ws ea rp, type_ok k t = true -> Forall (unit_ok t) (written_units t ws) ->
  fst (run strict (repeat (get_op k) (length (written_units t ws)) ++ [get_op k; get_op k])
           (open_stream (written_bytes t ws) t ea rp))
  = map (item_val k) (written_units t ws)
    ++ [eof_val k;
        match ea with
        | EError => RErr EPastEnd
        | EEofCode => eof_val k
        | EReset => match written_units t ws with [] => eof_val k | c :: _ => item_val k c end
        end].
Proof. intros. rewrite written_bytes_units. apply write_then_read_units; auto. Qed.
Print Assumptions write_then_read.

(* get_n_chars with the number of units written returns exactly what was written *)
Theorem write_then_get_n_chars : forall t ws ea rp, Forall (unit_ok t) (written_units t ws) ->
  fst (step strict (OGetN (length (written_units t ws))) (open_stream (written_bytes t ws) t ea rp))
  = RChars (written_units t ws).
Proof. intros. rewrite written_bytes_units. apply get_n_reads_all; auto. Qed.
Print Assumptions write_then_get_n_chars.

(* Peeking never consumes: the stream after a peek is the stream before it (after the reset that any read
   performs on a stream that is past its end with eof_action(reset)); a get in either state returns the peeked
   item; peeking again changes nothing. *)
Theorem peek_does_not_consume : forall k s,
  snd (read_op strict true k s) = settle k s
  /\ fst (read_op strict false k s) = fst (read_op strict true k s)
  /\ fst (read_op strict false k (snd (read_op strict true k s))) = fst (read_op strict true k s)
  /\ read_op strict true k (snd (read_op strict true k s)) = read_op strict true k s.
Proof.
  intros k s. split; [apply peek_state|]. split; [apply get_same_as_peek|]. split; [apply get_after_peek|].
  rewrite peek_idempotent. destruct (read_op strict true k s); reflexivity.
Qed.
Print Assumptions peek_does_not_consume.

(* In every state reachable from an opened stream by any script: at_end_of_stream succeeds exactly when the next
   read returns the end-of-file value or raises the past-end error.  (A stream that is past its end with
   eof_action(reset) is excluded: at_end_of_stream is true there, and the next read starts over.) *)
Theorem at_end_iff_next_is_eof : forall bytes t a rp script k,
  let s := snd (run strict script (open_stream bytes t a rp)) in
  type_ok k (ty s) = true -> (past s = true -> eact s <> EReset) ->
  (at_end s = true <-> is_eof_outcome k (fst (read_op strict false k s))).
Proof.
  intros bytes t a rp script k s T NR. apply at_end_iff; auto.
  apply (run_inv script _ (open_inv bytes t a rp)).
Qed.
Print Assumptions at_end_iff_next_is_eof.

(* For every content and every script without set_stream_position on a stream whose eof_action is not reset:
   the position reported afterwards is the sum of the UTF-8 widths (text) / the number (binary) of the units the
   get operations returned ... *)
Theorem position_is_consumed_count : forall bytes t a rp script, a <> EReset -> Forall no_restore script ->
  let r := run strict script (open_stream bytes t a rp) in
  rpos (snd r) = total_width t (consumed_all script (fst r)).
Proof.
  intros bytes t a rp script NR F r.
  destruct (run_moved script (open_stream bytes t a rp) F NR (open_inv bytes t a rp)) as (_ & P & _).
  exact P.
Qed.
Print Assumptions position_is_consumed_count.

(* ... and the line count is the number of newline characters among them. *)
Theorem line_count_is_newlines_consumed : forall bytes t a rp script, a <> EReset -> Forall no_restore script ->
  let r := run strict script (open_stream bytes t a rp) in
  lines (snd r) = newlines (consumed_all script (fst r)).
Proof.
  intros bytes t a rp script NR F r.
  destruct (run_moved script (open_stream bytes t a rp) F NR (open_inv bytes t a rp)) as (_ & _ & L).
  exact L.
Qed.
Print Assumptions line_count_is_newlines_consumed.

(* Reading at the end sets the past-end flag and returns the end-of-file value; reading (or peeking) past the
   end: error raises permission_error(input, past_end_of_stream, S) and changes nothing; eof_code returns
   end_of_file / -1 again, any number of times; reset starts over at offset 0 with line count 0. *)
Theorem eof_action_semantics : forall peek k s, type_ok k (ty s) = true ->
  (past s = false -> rpos s = length (content s) -> read_op strict false k s = (eof_val k, set_past s))
  /\ (past s = true -> eact s = EError -> read_op strict peek k s = (RErr EPastEnd, s))
  /\ (past s = true -> eact s = EEofCode ->
        read_op strict peek k s = (eof_val k, s) /\ forall n, run strict (repeat (get_op k) n) s = (repeat (eof_val k) n, s))
  /\ (past s = true -> eact s = EReset ->
        read_op strict peek k s = read_op strict peek k (reset_stream s)
        /\ rpos (reset_stream s) = 0%nat /\ lines (reset_stream s) = 0 /\ past (reset_stream s) = false).
Proof.
  intros peek k s T. split; [intros; apply end_sets_past; auto|]. split; [intros; apply eof_error; auto|].
  split; [intros P A; split; [apply eof_code; auto | intros n; apply eof_code_repeat; auto]|].
  intros P A. split; [apply eof_reset; auto|]. repeat split.
Qed.
Print Assumptions eof_action_semantics.

(* non-vacuity *)
Example ex_units_ok : Forall (unit_ok Text) (written_units Text [WPutChar 97; WNl; WText 3 [233; 128512]; WPutByte 7; WPutCode 0]).
Proof. unfold unit_ok, scalar. cbn. repeat constructor; lia. Qed.
Example ex_write_read :
  fst (run strict [OGetChar; OPeekCode; OGetCode; OPropPos; OGetN 5; OPropPos; OPropEnd; OGetChar; OPropEnd; OGetCode]
           (open_stream (written_bytes Text [WPutChar 97; WNl; WText 3 [233; 128512]; WPutByte 7]) Text EEofCode false))
  = [RChar 97; RInt 10; RInt 10; RPos 2 1; RChars [233; 128512; 10]; RPos 9 2; REnd EndAt; REof; REnd EndPast; RInt (-1)].
Proof. vm_compute. reflexivity. Qed.
Example ex_reset :
  fst (run strict [OGetByte; OGetByte; OGetByte; OAtEnd; OGetByte; OPropPos] (open_stream [7; 255] Binary EReset false))
  = [RInt 7; RInt 255; RInt (-1); RBool true; RInt 7; RPos 1 0].
Proof. vm_compute. reflexivity. Qed.
Example ex_error :
  fst (run strict [OGetChar; OGetChar; OPeekChar; OGetByte] (open_stream [] Text EError false))
  = [REof; RErr EPastEnd; RErr EPastEnd; RErr EInText].
Proof. vm_compute. reflexivity. Qed.
Example ex_reposition :
  fst (run strict [OGetChar; OSave; OGetChar; OGetChar; OGetChar; ORestore; OPropEnd; OGetChar]
           (open_stream [97; 10; 98] Text EError true))
  = [RChar 97; RPos 1 0; RChar 10; RChar 98; REof; ROk; REnd EndNot; RChar 10].
Proof. vm_compute. reflexivity. Qed.
