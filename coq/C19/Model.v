(* C19 -- reference model of file streams (src/machine/streams.rs, system_calls.rs get_char/peek_char/get_code/
   peek_code/get_byte/peek_byte/get_n_chars/put_*/stream_property/set_stream_position).
   A stream is its byte content, a read position (in bytes), the past-end-of-stream flag, the eof_action, the
   type, the count of lines read, and the position remembered by the script (for set_stream_position).
   Every operation is a total function returning the observable result (value or error formal) and the new
   stream.  `quirks` switches on the deviations of the implementation from the property that the
   correspondence check found (all off = the reference `strict`; the theorems are about `strict`).
   Text decoding: V.C18.Model.decode1 (Rust's UTF-8 validator); content that is not valid UTF-8 yields the
   model-only result RErr EInvalid (the generator of the check never produces it for text streams).
   No proofs in this file. *)
From Coq Require Import List NArith ZArith Bool Arith.
From V Require Import C18.Model.
Import ListNotations.
Open Scope N_scope.

Inductive stype := Text | Binary.
Inductive eofa := EError | EEofCode | EReset.
Inductive endpos := EndNot | EndAt | EndPast.

Inductive err :=
| EPastEnd          (* permission_error(input, past_end_of_stream, S) *)
| EInBinary         (* permission_error(input, binary_stream, S): text input on a binary stream *)
| EInText           (* permission_error(input, text_stream, S): byte input on a text stream *)
| EOutBinary        (* permission_error(output, binary_stream, S) *)
| EOutText          (* permission_error(output, text_stream, S) *)
| EReposition       (* permission_error(reposition, stream, S) *)
| EInvalid.         (* model only: the bytes at the read position are not valid UTF-8 *)

Inductive res :=
| RChar (c : N)               (* a one-character atom *)
| RInt (z : Z)                (* a code, a byte, or -1 *)
| REof                        (* the atom end_of_file *)
| RChars (cs : list N)        (* get_n_chars: the characters *)
| RBool (b : bool)            (* at_end_of_stream succeeded / failed *)
| RPos (p : N) (l : N)        (* position_and_lines_read(P, L) *)
| REnd (e : endpos)           (* end_of_stream(not/at/past) *)
| ROk                         (* success without a value *)
| RErr (e : err)
| ROther.                     (* anything else the implementation did (never produced by the model) *)

Record stream := {
  content : list N;
  rpos : nat;
  past : bool;
  eact : eofa;
  ty : stype;
  lines : N;
  repos : bool;
  saved : option (nat * N)
}.

Definition open_stream (bytes : list N) (t : stype) (a : eofa) (rp : bool) : stream :=
  {| content := bytes; rpos := 0; past := false; eact := a; ty := t; lines := 0; repos := rp; saved := None |}.

(* deviations of the implementation (see checks/C19.py for the findings they stand for) *)
Record quirks := {
  q_code_eof_atom : bool;   (* get_code/peek_code on a text stream past the end (eof_code) give the atom end_of_file, not -1 *)
  q_lines_frozen : bool;    (* the line count is not advanced by character/byte input *)
  q_bom_start : bool;       (* get_char/get_code/get_n_chars drop a U+FEFF at offset 0 *)
  q_bom_mid : bool          (* ... and at any later offset *)
}.
Definition strict : quirks :=
  {| q_code_eof_atom := false; q_lines_frozen := false; q_bom_start := false; q_bom_mid := false |}.

(* ---------- reading one unit (character of a text stream, byte of a binary stream) *)
Inductive unit_res := UEof | UItem (c : N) (w : nat) | UInvalid.

Definition next_unit (s : stream) : unit_res :=
  let rem := skipn (rpos s) (content s) in
  match ty s with
  | Binary => match rem with [] => UEof | b :: _ => UItem b 1 end
  | Text => match decode1 rem with
            | DEmpty => UEof
            | DChar c w => UItem c w
            | _ => UInvalid
            end
  end.

Definition set_rpos_lines (s : stream) (p : nat) (l : N) (pa : bool) : stream :=
  {| content := content s; rpos := p; past := pa; eact := eact s; ty := ty s; lines := l; repos := repos s; saved := saved s |}.

Definition set_past (s : stream) : stream := set_rpos_lines s (rpos s) (lines s) true.
Definition reset_stream (s : stream) : stream := set_rpos_lines s 0 0 false.
Definition is_nl (c : N) : N := if c =? 10 then 1 else 0.
Definition advance (q : quirks) (s : stream) (c : N) (w : nat) : stream :=
  set_rpos_lines s (rpos s + w) (if q_lines_frozen q then lines s else lines s + is_nl c) (past s).

Inductive rkind := KChar | KCode | KByte.
Definition type_ok (k : rkind) (t : stype) : bool :=
  match k, t with KByte, Binary => true | KChar, Text => true | KCode, Text => true | _, _ => false end.
Definition eof_val (k : rkind) : res := match k with KChar => REof | _ => RInt (-1) end.
Definition item_val (k : rkind) (c : N) : res := match k with KChar => RChar c | _ => RInt (Z.of_N c) end.
Definition type_err (t : stype) : res := RErr (match t with Text => EInText | Binary => EInBinary end).

Definition bom : N := 65279.
Definition skip_bom (q : quirks) (s : stream) : stream :=
  match ty s, next_unit s with
  | Text, UItem c w =>
      if (c =? bom) && (if (rpos s =? 0)%nat then q_bom_start q else q_bom_mid q)
      then set_rpos_lines s (rpos s + w) (lines s) (past s) else s
  | _, _ => s
  end.

(* the stream is not past its end: deliver the next unit *)
Definition deliver (q : quirks) (peek : bool) (k : rkind) (s : stream) : res * stream :=
  match next_unit s with
  | UEof => (eof_val k, if peek then s else set_past s)
  | UInvalid => (RErr EInvalid, s)
  | UItem c0 _ =>
      if peek then (item_val k c0, s)
      else
        let s1 := skip_bom q s in
        match next_unit s1 with
        | UItem c w => (item_val k c, advance q s1 c w)
        | UEof => (eof_val k, set_past s1)
        | UInvalid => (RErr EInvalid, s1)
        end
  end.

(* get_char get_code get_byte (peek = false), peek_char peek_code peek_byte (peek = true) *)
Definition read_op (q : quirks) (peek : bool) (k : rkind) (s : stream) : res * stream :=
  if negb (type_ok k (ty s)) then (type_err (ty s), s)
  else if past s then
    match eact s with
    | EError => (RErr EPastEnd, s)
    | EEofCode => ((if q_code_eof_atom q then match ty s with Text => REof | Binary => RInt (-1) end else eof_val k), s)
    | EReset => deliver q peek k (reset_stream s)
    end
  else deliver q peek k s.

(* get_n_chars(S, K, Cs): up to K units, stopping at the end; bytes of a binary stream as characters *)
Fixpoint take_units (q : quirks) (k : nat) (s : stream) (acc : list N) : list N * stream :=
  match k with
  | O => (rev acc, s)
  | S k' =>
      match next_unit s with
      | UItem c w => take_units q k' (advance q s c w) (c :: acc)
      | _ => (rev acc, s)
      end
  end.

Definition end_of (s : stream) : endpos :=
  if past s then EndPast else if (rpos s =? length (content s))%nat then EndAt else EndNot.

Inductive op :=
| OGetChar | OPeekChar | OGetCode | OPeekCode | OGetByte | OPeekByte
| OGetN (k : nat)
| OAtEnd            (* at_end_of_stream(S) *)
| OPropEnd          (* stream_property(S, end_of_stream(E)) *)
| OPropPos          (* stream_property(S, position(P)) *)
| OSave             (* the same, and the script remembers P *)
| ORestore.         (* set_stream_position(S, P) with the remembered P *)

Definition step (q : quirks) (o : op) (s : stream) : res * stream :=
  match o with
  | OGetChar => read_op q false KChar s
  | OPeekChar => read_op q true KChar s
  | OGetCode => read_op q false KCode s
  | OPeekCode => read_op q true KCode s
  | OGetByte => read_op q false KByte s
  | OPeekByte => read_op q true KByte s
  | OGetN k => let (cs, s1) := take_units q k (skip_bom q s) [] in (RChars cs, s1)
  | OAtEnd => (RBool (match end_of s with EndNot => false | _ => true end), s)
  | OPropEnd => (REnd (end_of s), s)
  | OPropPos => (RPos (N.of_nat (rpos s)) (lines s), s)
  | OSave => (RPos (N.of_nat (rpos s)) (lines s),
              {| content := content s; rpos := rpos s; past := past s; eact := eact s; ty := ty s; lines := lines s;
                 repos := repos s; saved := Some (rpos s, lines s) |})
  | ORestore =>
      match saved s with
      | None => (ROther, s)
      | Some (p, l) =>
          if repos s then (ROk, set_rpos_lines s p (if q_lines_frozen q then lines s else l) false)
          else (RErr EReposition, s)
      end
  end.

Fixpoint run (q : quirks) (script : list op) (s : stream) : list res * stream :=
  match script with
  | [] => ([], s)
  | o :: r => let (x, s1) := step q o s in let (xs, s2) := run q r s1 in (x :: xs, s2)
  end.

(* ---------- output *)
Inductive wop :=
| WPutChar (c : N) | WPutCode (c : N) | WPutByte (b : N) | WNl
| WText (how : N) (cs : list N).    (* write/2 of an atom (how=0), format "~a" (1), format "~s" (2), format "~w~n" (3: adds a newline) *)

Definition encode_all (cs : list N) : list N := flat_map encode_utf8 cs.

(* characters (text stream) / bytes (binary stream) the operation appends; None = permission error *)
Definition wop_units (t : stype) (o : wop) : option (list N) :=
  match t, o with
  | Text, WPutChar c => Some [c]
  | Text, WPutCode c => Some [c]
  | Text, WNl => Some [10]
  | Text, WText h cs => Some (if h =? 3 then cs ++ [10] else cs)
  | Text, WPutByte _ => None
  | Binary, WPutByte b => Some [b]
  | Binary, _ => None
  end.

Definition written_units (t : stype) (ws : list wop) : list N :=
  flat_map (fun o => match wop_units t o with Some u => u | None => [] end) ws.
Definition written_bytes (t : stype) (ws : list wop) : list N :=
  match t with Text => encode_all (written_units t ws) | Binary => written_units t ws end.
Definition wop_res (t : stype) (o : wop) : res :=
  match wop_units t o with
  | Some _ => ROk
  | None => RErr (match t with Text => EOutText | Binary => EOutBinary end)
  end.

(* ---------- comparison with the implementation *)
Definition err_eqb (a b : err) : bool :=
  match a, b with
  | EPastEnd, EPastEnd | EInBinary, EInBinary | EInText, EInText | EOutBinary, EOutBinary
  | EOutText, EOutText | EReposition, EReposition => true
  | _, _ => false          (* EInvalid never equals anything *)
  end.
Definition endpos_eqb (a b : endpos) : bool :=
  match a, b with EndNot, EndNot | EndAt, EndAt | EndPast, EndPast => true | _, _ => false end.
Definition res_eqb (a b : res) : bool :=
  match a, b with
  | RChar x, RChar y => x =? y
  | RInt x, RInt y => Z.eqb x y
  | REof, REof => true
  | RChars x, RChars y => list_N_eqb x y
  | RBool x, RBool y => Bool.eqb x y
  | RPos p l, RPos p' l' => (p =? p') && (l =? l')
  | REnd x, REnd y => endpos_eqb x y
  | ROk, ROk => true
  | RErr x, RErr y => err_eqb x y
  | _, _ => false
  end.
Fixpoint ress_eqb (a b : list res) : bool :=
  match a, b with
  | [], [] => true
  | x :: a', y :: b' => res_eqb x y && ress_eqb a' b'
  | _, _ => false
  end.

(* one case: write `ws` to an output stream of type wt, reopen with (rt, ea, rp), run `script`.
   wobs / robs: what the implementation answered for the write operations and the script *)
Definition check_q (q : quirks) (wt : stype) (ws : list wop) (rt : stype) (ea : eofa) (rp : bool) (script : list op)
           (wobs robs : list res) : bool :=
  ress_eqb (map (wop_res wt) ws) wobs
  && ress_eqb (fst (run q script (open_stream (written_bytes wt ws) rt ea rp))) robs.

Definition check_case := check_q strict.
(* what the reference model answers (for failure reports) *)
Definition run_case (wt : stype) (ws : list wop) (rt : stype) (ea : eofa) (rp : bool) (script : list op) (wobs robs : list res) :=
  (map (wop_res wt) ws, fst (run strict script (open_stream (written_bytes wt ws) rt ea rp))).

Definition quirks_of (m : N) : quirks :=
  {| q_code_eof_atom := N.testbit m 0; q_lines_frozen := N.testbit m 1; q_bom_start := N.testbit m 2; q_bom_mid := N.testbit m 3 |}.

(* the smallest set of known deviations (as a bit mask, fewest bits first) that explains the observation; 99 = none does *)
Definition masks : list N := [0; 1; 2; 4; 8; 3; 5; 6; 9; 10; 12; 7; 11; 13; 14; 15].
Fixpoint first_mask (ms : list N) (f : N -> bool) : N :=
  match ms with
  | [] => 99
  | m :: r => if f m then m else first_mask r f
  end.
Definition explain (wt : stype) (ws : list wop) (rt : stype) (ea : eofa) (rp : bool) (script : list op) (wobs robs : list res) : N :=
  first_mask masks (fun m => check_q (quirks_of m) wt ws rt ea rp script wobs robs).
