(* C11 -- pinned property theorems (nothing else lives here) *)
From Coq Require Import List Arith Bool.
Import ListNotations.
From V Require Import C11.Model C11.Proofs.

(* `after_failure ops s` = Try; ops; Trust  (a choice point is pushed, ops run, the goal fails back to it).
   `balanced ops`: ops may push / retry / pop / cut choice points of their own but never the one they started under.
   `Inv s g`: s is consistent with the ghost stack g of snapshots taken when each live choice point was pushed;
   it holds for every state reachable from a state without choice points (reachable_states_consistent). *)

(* the invariant over ALL operation sequences and a whole stack of choice points: for every live choice point,
   unwinding the trail down to its recorded length and truncating the heap to its recorded top gives the heap,
   trail (and untouched blackboard slots) of the moment it was pushed *)
Theorem nested_choicepoints : forall ops s g, Inv s g -> Inv (run ops s) (grun ops s g).
Proof. exact Inv_run. Qed.
Print Assumptions nested_choicepoints.

Theorem reachable_states_consistent : forall ops0 s0, stack s0 = [] -> Inv (run ops0 s0) (grun ops0 s0 []).
Proof. exact reachable_Inv. Qed.
Print Assumptions reachable_states_consistent.

(* what the invariant means at the newest choice point *)
Theorem backtrack_restores_snapshot : forall s c st gl g,
  Inv s (gl :: g) -> stack s = c :: st ->
  let s1 := retry_state s c in
  heap s1 = heap (g_snap gl) /\ trail s1 = trail (g_snap gl) /\ st = stack (g_snap gl) /\
  (forall k, ~ In k (g_puts gl) -> nth k (loc s1) None = nth k (loc (g_snap gl)) None) /\
  (forall k, ~ In k (g_bputs gl) -> nth k (loc (g_snap gl)) None = None -> nth k (loc s1) None = None).
Proof. exact Inv_retry_top. Qed.
Print Assumptions backtrack_restores_snapshot.

(* every cell that existed before the goal has exactly its old content after the goal failed *)
Theorem undo_restores : forall s g ops a,
  Inv s g -> balanced ops -> nth a (heap (after_failure ops s)) None = nth a (heap s) None.
Proof. exact undo_restores_l. Qed.
Print Assumptions undo_restores.

Theorem undo_restores_reachable : forall ops0 s0 ops,
  stack s0 = [] -> balanced ops -> heap (after_failure ops (run ops0 s0)) = heap (run ops0 s0).
Proof. exact undo_restores_reachable_l. Qed.
Print Assumptions undo_restores_reachable.

Theorem bound_before_unchanged : forall s g ops a v,
  Inv s g -> balanced ops -> nth a (heap s) None = Some v -> nth a (heap (after_failure ops s)) None = Some v.
Proof. exact bound_before_unchanged_l. Qed.
Print Assumptions bound_before_unchanged.

Theorem unbound_before_unbound_again : forall s g ops a,
  Inv s g -> balanced ops -> nth a (heap s) None = None -> nth a (heap (after_failure ops s)) None = None.
Proof. exact unbound_before_unbound_again_l. Qed.
Print Assumptions unbound_before_unbound_again.

Theorem young_cells_discarded : forall s g ops,
  Inv s g -> balanced ops -> length (heap (after_failure ops s)) = length (heap s).
Proof. exact young_cells_discarded_l. Qed.
Print Assumptions young_cells_discarded.

Theorem registers_restored : forall s g ops,
  Inv s g -> balanced ops -> trail (after_failure ops s) = trail s /\ stack (after_failure ops s) = stack s.
Proof. exact registers_restored_l. Qed.
Print Assumptions registers_restored.

(* what var/1, ==/2 and the values of the old variables show is the same as before the goal *)
Theorem observation_restored : forall s g ops fuel a,
  Inv s g -> balanced ops -> resolve fuel (after_failure ops s) a = resolve fuel s a.
Proof. exact observation_restored_l. Qed.
Print Assumptions observation_restored.

(* a key that the failed goal only changed backtrackably (or not at all) shows its old value *)
Theorem bb_b_put_reverts : forall s g ops k,
  Inv s g -> balanced ops -> has_put k ops = false -> visible (after_failure ops s) k = visible s k.
Proof. exact bb_b_put_reverts_l. Qed.
Print Assumptions bb_b_put_reverts.

(* bb_put is not undone: the ball layer is the one the goal left ... *)
Theorem bb_put_ball_persists : forall s g ops,
  Inv s g -> balanced ops -> ball (after_failure ops s) = ball (run ops s).
Proof. exact bb_put_ball_persists_l. Qed.
Print Assumptions bb_put_ball_persists.

(* ... and it is what bb_get shows, for a key that holds no backtrackable value before the goal and that the goal
   neither bb_b_put nor bb_get (NOT proved, and false in the model and in the implementation, when the key had a
   live bb_b_put value and the goal does bb_b_put before bb_put: then the restored slot shadows the ball) *)
Theorem bb_put_persists : forall s g ops k,
  Inv s g -> balanced ops -> k < length (ball s) -> nth k (loc s) None = None -> has_bput k ops = false ->
  visible (after_failure ops s) k = last_put k ops (nth k (ball s) None).
Proof. exact bb_put_persists_l. Qed.
Print Assumptions bb_put_persists.

Theorem failure_chain : forall s g ops1 ops2,
  Inv s g -> balanced ops1 -> balanced ops2 -> heap (after_failure ops2 (after_failure ops1 s)) = heap s.
Proof. exact failure_chain_l. Qed.
Print Assumptions failure_chain.

(* ---------- non-vacuity *)
(* an old and a new variable bound both ways, a value-trailed link updated twice, globals of both kinds, a nested
   choice point that is cut and one that is retried: the hypotheses hold and the cells really change in between *)
Example ex_balanced : balanced ex_ops.
Proof. reflexivity. Qed.
Example ex_changes_in_between :
  let s := run ex_ops (step (run ex_pre (init 2)) Try) in
  (nth 0 (heap s) None, nth 1 (heap s) None, visible s 0) = (Some (VStr 1 3), Some (VInt 6), Some (VInt 2)).
Proof. vm_compute. reflexivity. Qed.
Example ex_restored :
  let s := run ex_pre (init 2) in let s2 := after_failure ex_ops s in
  heap s2 = [None; None; Some (VInt 7)] /\ heap s2 = heap s /\ visible s2 0 = Some (VInt 1) /\ visible s2 1 = Some (VInt 3).
Proof. vm_compute. auto. Qed.

(* the trailing condition is exactly strong enough: with `addr < hb - 1` the cell just below hb is not trailed and
   keeps its binding after the failure *)
Example wrong_condition_breaks :
  let s := run [NewVar] (init 0) in
  nth 0 (heap s) None = None /\
  nth 0 (heap (step_gen wrong_cond (run_gen wrong_cond [Bind 0 (VInt 1)] (step_gen wrong_cond s Try)) Trust)) None = Some (VInt 1) /\
  nth 0 (heap (after_failure [Bind 0 (VInt 1)] s)) None = None.
Proof. vm_compute. auto. Qed.

(* the reverse order of unwind_trail matters for value-trailed cells *)
Example forward_order_breaks :
  let seg := [TrailVal 0 None; TrailVal 0 (Some (VInt 1))] in
  unwind_h seg [Some (VInt 2)] = [None] /\ unwind_h_forward seg [Some (VInt 2)] = [Some (VInt 1)].
Proof. vm_compute. auto. Qed.

(* the shadowing case excluded from bb_put_persists *)
Example put_after_b_put_is_shadowed :
  let s := run [BbBPut 0 (VInt 1)] (init 1) in
  visible (after_failure [BbBPut 0 (VInt 2); BbPut 0 (VInt 3)] s) 0 = Some (VInt 1).
Proof. vm_compute. reflexivity. Qed.
