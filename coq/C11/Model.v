(* C11 -- impl-mirror model of the trail discipline of scryer-prolog
   (src/machine/machine_state_impl.rs MachineState::trail / bind, src/machine/mod.rs try_me_else / retry_me_else /
   trust_me / unwind_trail, src/machine/machine_state.rs cut_body, src/machine/system_calls.rs store_global_var /
   store_backtrackable_global_var / fetch_global_var / put_to_attributed_variable_list).

   store   = heap cells (index = address, older cells have smaller addresses; None = unbound self-reference)
           + blackboard: per key a persistent ball (bb_put) and a backtrackable slot (bb_b_put), the pair
             `(Ball, Option<HeapCellValue>)` of indices.global_variables
   registers: hb, the trail (a Vec: entries appended at the end), the stack of choice points (newest first).
   No proofs in this file. *)
From Coq Require Import List Arith Bool.
Import ListNotations.

Inductive value := VInt (n : nat) | VRef (a : nat) | VStr (f : nat) (a : nat).
Definition cell := option value.

Inductive tentry :=
| TrailCell (a : nat)                  (* TrailedHeapVar / TrailedStackVar / TrailedAttrVar: reset to unbound *)
| TrailVal (a : nat) (old : cell)      (* TrailedAttrVarListLink + TrailedAttachedValue: a destructively updated cell, old content *)
| TrailBB (k : nat) (old : cell).      (* TrailedBlackboardEntry (old = None) / TrailedBlackboardOffset (old = Some v) *)

Record cpoint := { cp_h : nat; cp_tr : nat }.

Record state := { heap : list cell; loc : list cell; ball : list cell;
                  trail : list tentry; stack : list cpoint; hb : nat }.

Fixpoint upd {A} (n : nat) (v : A) (l : list A) : list A :=
  match l, n with
  | [], _ => []
  | _ :: r, O => v :: r
  | x :: r, S n' => x :: upd n' v r
  end.

(* ---------- unwind_trail: entries a1..a2 in REVERSE order *)
Definition undo_h (e : tentry) (hp : list cell) : list cell :=
  match e with
  | TrailCell a => upd a None hp
  | TrailVal a old => upd a old hp
  | TrailBB _ _ => hp
  end.
Definition undo_l (e : tentry) (lc : list cell) : list cell :=
  match e with
  | TrailBB k old => upd k old lc
  | _ => lc
  end.
(* processes its list head first *)
Fixpoint undo_list {A} (undo : tentry -> A -> A) (es : list tentry) (x : A) : A :=
  match es with
  | [] => x
  | e :: r => undo_list undo r (undo e x)
  end.
Definition unwind_h (seg : list tentry) (hp : list cell) := undo_list undo_h (rev seg) hp.
Definition unwind_l (seg : list tentry) (lc : list cell) := undo_list undo_l (rev seg) lc.

(* ---------- dereferencing *)
Fixpoint deref (fuel : nat) (hp : list cell) (a : nat) : nat :=
  match fuel with
  | O => a
  | S f => match nth a hp None with
           | Some (VRef b) => deref f hp b
           | _ => a
           end
  end.
Definition root (s : state) (a : nat) : nat := deref (S (length (heap s))) (heap s) a.

(* ---------- operations *)
Inductive op :=
| NewVar                               (* push an unbound cell *)
| Bind (a : nat) (v : value)           (* unify the variable at a with a non-variable / a younger structure *)
| Unify (a b : nat)                    (* variable-variable unification: the younger root is bound to the older *)
| SetVal (a : nat) (c : cell)          (* destructive update of an attribute-list link, value-trailed *)
| BbPut (k : nat) (v : value)
| BbBPut (k : nat) (v : value)
| BbGet (k : nat)                      (* fetch_global_var: caches the ball in the backtrackable slot *)
| Try | Retry | Trust | Cut.

(* MachineState::bind on a dereferenced unbound cell r, then MachineState::trail: `if h < self.hb` *)
Definition bind_at (tc : nat -> nat -> bool) (r : nat) (v : value) (s : state) : state :=
  match nth r (heap s) (Some (VInt 0)) with
  | None =>
    {| heap := upd r (Some v) (heap s); loc := loc s; ball := ball s;
       trail := if tc r (hb s) then trail s ++ [TrailCell r] else trail s;
       stack := stack s; hb := hb s |}
  | Some _ => s
  end.

Definition retry_state (s : state) (c : cpoint) : state :=
  let seg := skipn (cp_tr c) (trail s) in
  {| heap := firstn (cp_h c) (unwind_h seg (heap s));
     loc := unwind_l seg (loc s); ball := ball s;
     trail := firstn (cp_tr c) (trail s);
     stack := stack s; hb := cp_h c |}.

Definition set_stack (s : state) (st : list cpoint) : state :=
  {| heap := heap s; loc := loc s; ball := ball s; trail := trail s; stack := st; hb := hb s |}.

(* tc is the trailing condition (the code's is Nat.ltb: `h < hb`) *)
Definition step_gen (tc : nat -> nat -> bool) (s : state) (o : op) : state :=
  match o with
  | NewVar => {| heap := heap s ++ [None]; loc := loc s; ball := ball s; trail := trail s; stack := stack s; hb := hb s |}
  | Bind a v => bind_at tc (root s a) v s
  | Unify a b =>
    let ra := root s a in let rb := root s b in
    if ra =? rb then s
    else match nth ra (heap s) (Some (VInt 0)), nth rb (heap s) (Some (VInt 0)) with
         | None, None => if ra <? rb then bind_at tc rb (VRef ra) s else bind_at tc ra (VRef rb) s
         | _, _ => s
         end
  | SetVal a c =>
    {| heap := upd a c (heap s); loc := loc s; ball := ball s;
       trail := if tc a (hb s) then trail s ++ [TrailVal a (nth a (heap s) None)] else trail s;
       stack := stack s; hb := hb s |}
  | BbPut k v =>      (* global_variables.insert(key, (ball, None)) : not trailed *)
    {| heap := heap s; loc := upd k None (loc s); ball := upd k (Some v) (ball s);
       trail := trail s; stack := stack s; hb := hb s |}
  | BbBPut k v =>     (* trail(BlackboardOffset(key, old)) / trail(BlackboardEntry(key)) : always trailed *)
    {| heap := heap s; loc := upd k (Some v) (loc s); ball := ball s;
       trail := trail s ++ [TrailBB k (nth k (loc s) None)]; stack := stack s; hb := hb s |}
  | BbGet k =>
    match nth k (loc s) None, nth k (ball s) None with
    | None, Some v =>
      {| heap := heap s; loc := upd k (Some v) (loc s); ball := ball s;
         trail := trail s ++ [TrailBB k None]; stack := stack s; hb := hb s |}
    | _, _ => s
    end
  | Try =>            (* try_me_else: or-frame records h and tr; hb := heap top *)
    {| heap := heap s; loc := loc s; ball := ball s; trail := trail s;
       stack := {| cp_h := length (heap s); cp_tr := length (trail s) |} :: stack s; hb := length (heap s) |}
  | Retry =>          (* retry_me_else: unwind, truncate, hb := or_frame.h ; the frame stays *)
    match stack s with
    | [] => s
    | c :: _ => retry_state s c
    end
  | Trust =>          (* trust_me: the same, and the frame is popped; hb stays at the popped frame's h *)
    match stack s with
    | [] => s
    | c :: st => set_stack (retry_state s c) st
    end
  | Cut =>            (* cut_body: b := b0; neither hb nor the trail is touched *)
    match stack s with
    | [] => s
    | _ :: st => set_stack s st
    end
  end.

Definition step := step_gen Nat.ltb.
Definition run_gen tc (ops : list op) (s : state) : state := fold_left (step_gen tc) ops s.
Definition run := run_gen Nat.ltb.

(* what bb_get shows: the backtrackable slot if set, else the ball *)
Definition visible (s : state) (k : nat) : cell :=
  match nth k (loc s) None with
  | Some v => Some v
  | None => nth k (ball s) None
  end.

(* the value of the last bb_put on k in ops (d if none) *)
Fixpoint last_put (k : nat) (ops : list op) (d : cell) : cell :=
  match ops with
  | [] => d
  | BbPut k' v :: r => last_put k r (if k' =? k then Some v else d)
  | _ :: r => last_put k r d
  end.

(* ops that keep the choice point they start under: relative depth never below 0 *)
Fixpoint depth (ops : list op) (d : nat) : option nat :=
  match ops with
  | [] => Some d
  | Try :: r => depth r (S d)
  | (Trust | Cut) :: r => match d with O => None | S d' => depth r d' end
  | _ :: r => depth r d
  end.
Definition balanced (ops : list op) : Prop := depth ops 0 = Some 0.

Definition is_put (k : nat) (o : op) : bool := match o with BbPut k' _ => k' =? k | _ => false end.
Definition is_bput (k : nat) (o : op) : bool :=
  match o with BbBPut k' _ => k' =? k | BbGet k' => k' =? k | _ => false end.

(* a unwinding loop in the wrong (forward) order, for the non-vacuity example only *)
Definition unwind_h_forward (seg : list tentry) (hp : list cell) := undo_list undo_h seg hp.

(* ---------- observation (for the correspondence): the term a variable stands for, variables named by their root *)
Inductive oterm := OVar (r : nat) | OInt (n : nat) | OStr (f : nat) (t : oterm) | OFuel.
Fixpoint resolve (fuel : nat) (s : state) (a : nat) : oterm :=
  match fuel with
  | O => OFuel
  | S f => let r := root s a in
           match nth r (heap s) None with
           | None => OVar r
           | Some (VInt n) => OInt n
           | Some (VStr g b) => OStr g (resolve f s b)
           | Some (VRef _) => OFuel
           end
  end.

(* canonical variable numbering by first occurrence, like terms.number_vars on the implementation side *)
Fixpoint lookup (r : nat) (m : list (nat * nat)) : option nat :=
  match m with [] => None | (k, v) :: m' => if k =? r then Some v else lookup r m' end.
Fixpoint canon (t : oterm) (m : list (nat * nat)) : oterm * list (nat * nat) :=
  match t with
  | OVar r => match lookup r m with
              | Some i => (OVar i, m)
              | None => (OVar (length m), (r, length m) :: m)
              end
  | OStr f t' => let (t'', m') := canon t' m in (OStr f t'', m')
  | _ => (t, m)
  end.
Fixpoint canon_list (ts : list oterm) (m : list (nat * nat)) : list oterm :=
  match ts with
  | [] => []
  | t :: r => let (t', m') := canon t m in t' :: canon_list r m'
  end.

Fixpoint oterm_eqb (a b : oterm) : bool :=
  match a, b with
  | OVar x, OVar y => x =? y
  | OInt x, OInt y => x =? y
  | OStr f x, OStr g y => (f =? g) && oterm_eqb x y
  | _, _ => false
  end.
Definition cell_eqb (a b : cell) : bool :=
  match a, b with
  | None, None => true
  | Some (VInt x), Some (VInt y) => x =? y
  | _, _ => false
  end.
Fixpoint list_eqb {A} (eqb : A -> A -> bool) (a b : list A) : bool :=
  match a, b with
  | [], [] => true
  | x :: a', y :: b' => eqb x y && list_eqb eqb a' b'
  | _, _ => false
  end.

(* one observation point: the variables vs (terms, canonically numbered), the attributed variables ats (variable cell,
   attribute slot), the blackboard keys ks (visible value) *)
Inductive oatt := ABound | ANone | AVal (n : nat).
Definition obs_att (s : state) (p : nat * nat) : oatt :=
  match nth (root s (fst p)) (heap s) None with
  | Some _ => ABound
  | None => match nth (snd p) (heap s) None with Some (VInt n) => AVal n | _ => ANone end
  end.
Definition oatt_eqb (a b : oatt) : bool :=
  match a, b with
  | ABound, ABound => true
  | ANone, ANone => true
  | AVal x, AVal y => x =? y
  | _, _ => false
  end.
Record obs := { o_vars : list oterm; o_atts : list oatt; o_bb : list cell }.
Definition observe (s : state) (vs : list nat) (ats : list (nat * nat)) (ks : list nat) : obs :=
  {| o_vars := canon_list (map (resolve 40 s) vs) [];
     o_atts := map (obs_att s) ats;
     o_bb := map (visible s) ks |}.
Definition obs_eqb (a b : obs) : bool :=
  list_eqb oterm_eqb (o_vars a) (o_vars b) && list_eqb oatt_eqb (o_atts a) (o_atts b) && list_eqb cell_eqb (o_bb a) (o_bb b).

(* a scenario: segments of operations, an observation after each; the observation reads every key with bb_get,
   which is itself an operation (it caches the ball in the backtrackable slot) *)
Fixpoint observations (s : state) (segs : list (list op)) (vs : list nat) (ats : list (nat * nat)) (ks : list nat) : list obs :=
  match segs with
  | [] => []
  | ops :: r => let s' := run ops s in
                observe s' vs ats ks :: observations (run (map BbGet ks) s') r vs ats ks
  end.

Definition init (nkeys : nat) : state :=
  {| heap := []; loc := repeat None nkeys; ball := repeat None nkeys; trail := []; stack := []; hb := 0 |}.

(* the implementation's observations through the compiled-clause path and through the query (meta-call) path *)
Definition check_case (nkeys : nat) (segs : list (list op)) (vs : list nat) (ats : list (nat * nat)) (ks : list nat)
                      (impl1 impl2 : list obs) : bool :=
  let m := observations (init nkeys) segs vs ats ks in
  list_eqb obs_eqb m impl1 && list_eqb obs_eqb m impl2.

(* ---------- compact transport encoding for the correspondence (Coq elaborates every list element / numeral of a
   literal slowly, so a case is shipped as a short list of primitive 63-bit integers, each packing up to nine numbers
   (7 bits each, stored +1, 0 = no more)); decoding failures make the check false *)
From Coq Require Import ZArith Uint63.
Fixpoint unpack1 (fuel : nat) (x : int) : list nat :=
  match fuel with
  | O => []
  | S f => let v := Uint63.land x 127%uint63 in
           if Uint63.eqb v 0%uint63 then []
           else Nat.pred (Z.to_nat (Uint63.to_Z v)) :: unpack1 f (Uint63.lsr x 7%uint63)
  end.
Definition unpack (l : list int) : list nat := flat_map (unpack1 9) l.

(* cell: 0 n = Some (VInt n) | 1 a = Some (VRef a) | 2 f a = Some (VStr f a) | 3 = None *)
Definition dec_cell (l : list nat) : option (cell * list nat) :=
  match l with
  | 0 :: n :: r => Some (Some (VInt n), r)
  | 1 :: a :: r => Some (Some (VRef a), r)
  | 2 :: f :: a :: r => Some (Some (VStr f a), r)
  | 3 :: r => Some (None, r)
  | _ => None
  end.

(* ops: 0 NewVar | 1 a cell Bind | 2 a b Unify | 3 a cell SetVal | 4 k cell BbPut | 5 k cell BbBPut | 6 k BbGet |
        7 Try | 8 Retry | 9 Trust | 10 Cut | 11 end of segment | 12 end of the operations; None on a malformed list *)
Fixpoint dec_ops (l : list nat) (cur : list op) (segs : list (list op)) : option (list (list op) * list nat) :=
  match l with
  | 0 :: r => dec_ops r (NewVar :: cur) segs
  | 1 :: a :: 0 :: n :: r => dec_ops r (Bind a (VInt n) :: cur) segs
  | 1 :: a :: 1 :: b :: r => dec_ops r (Bind a (VRef b) :: cur) segs
  | 1 :: a :: 2 :: f :: b :: r => dec_ops r (Bind a (VStr f b) :: cur) segs
  | 2 :: a :: b :: r => dec_ops r (Unify a b :: cur) segs
  | 3 :: a :: 0 :: n :: r => dec_ops r (SetVal a (Some (VInt n)) :: cur) segs
  | 3 :: a :: 3 :: r => dec_ops r (SetVal a None :: cur) segs
  | 4 :: k :: 0 :: n :: r => dec_ops r (BbPut k (VInt n) :: cur) segs
  | 5 :: k :: 0 :: n :: r => dec_ops r (BbBPut k (VInt n) :: cur) segs
  | 6 :: k :: r => dec_ops r (BbGet k :: cur) segs
  | 7 :: r => dec_ops r (Try :: cur) segs
  | 8 :: r => dec_ops r (Retry :: cur) segs
  | 9 :: r => dec_ops r (Trust :: cur) segs
  | 10 :: r => dec_ops r (Cut :: cur) segs
  | 11 :: r => dec_ops r [] (rev cur :: segs)
  | 12 :: r => match cur with [] => Some (rev segs, r) | _ => None end
  | _ => None
  end.

Fixpoint dec_oterm (l : list nat) : option (oterm * list nat) :=
  match l with
  | 0 :: v :: r => Some (OVar v, r)
  | 1 :: n :: r => Some (OInt n, r)
  | 2 :: f :: r => match dec_oterm r with Some (t, r') => Some (OStr f t, r') | None => None end
  | _ => None
  end.
Definition dec_att (l : list nat) : option (oatt * list nat) :=
  match l with
  | 0 :: r => Some (ABound, r)
  | 1 :: r => Some (ANone, r)
  | 2 :: n :: r => Some (AVal n, r)
  | _ => None
  end.
Definition dec_nat (l : list nat) : option (nat * list nat) :=
  match l with n :: r => Some (n, r) | [] => None end.
Fixpoint dec_n {A} (dec : list nat -> option (A * list nat)) (n : nat) (l : list nat) : option (list A * list nat) :=
  match n with
  | O => Some ([], l)
  | S n' => match dec l with
            | Some (x, r) => match dec_n dec n' r with Some (xs, r') => Some (x :: xs, r') | None => None end
            | None => None
            end
  end.
(* obs: nvars oterm* natts att* nbb cell* *)
Definition dec_obs (l : list nat) : option (obs * list nat) :=
  match l with
  | nv :: r =>
    match dec_n dec_oterm nv r with
    | Some (vs, na :: r1) =>
      match dec_n dec_att na r1 with
      | Some (ats, nb :: r2) =>
        match dec_n dec_cell nb r2 with
        | Some (bs, r3) => Some ({| o_vars := vs; o_atts := ats; o_bb := bs |}, r3)
        | None => None
        end
      | _ => None
      end
    | _ => None
    end
  | [] => None
  end.
Definition dec_obs_list (l : list nat) : option (list obs * list nat) :=
  match l with
  | n :: r => dec_n dec_obs n r
  | [] => None
  end.
Fixpoint pairs (l : list nat) : list (nat * nat) :=
  match l with a :: b :: r => (a, b) :: pairs r | _ => [] end.

(* header: nkeys, nv, vs.., na, (var slot)*na ; then the operations ; then one or two observation lists
   (one = both paths observed the same) *)
Record tcase := { t_nkeys : nat; t_vs : list nat; t_ats : list (nat * nat); t_segs : list (list op); t_rest : list nat }.
Definition dec_case (l : list nat) : option tcase :=
  match l with
  | nk :: nv :: r =>
    match dec_n dec_nat nv r with
    | Some (vs, na :: r1) =>
      match dec_n dec_nat (2 * na) r1 with
      | Some (ps, r2) =>
        match dec_ops r2 [] [] with
        | Some (segs, r3) => Some {| t_nkeys := nk; t_vs := vs; t_ats := pairs ps; t_segs := segs; t_rest := r3 |}
        | None => None
        end
      | None => None
      end
    | _ => None
    end
  | _ => None
  end.
Definition check_case_p (l : list int) : bool :=
  match dec_case (unpack l) with
  | Some c =>
    match dec_obs_list (t_rest c) with
    | Some (o1, []) => check_case (t_nkeys c) (t_segs c) (t_vs c) (t_ats c) (seq 0 (t_nkeys c)) o1 o1
    | Some (o1, r) =>
      match dec_obs_list r with
      | Some (o2, []) => check_case (t_nkeys c) (t_segs c) (t_vs c) (t_ats c) (seq 0 (t_nkeys c)) o1 o2
      | _ => false
      end
    | None => false
    end
  | None => false
  end.
(* for failure reports *)
Definition observations_p (l : list int) : option (list obs) :=
  match dec_case (unpack l) with
  | Some c => Some (observations (init (t_nkeys c)) (t_segs c) (t_vs c) (t_ats c) (seq 0 (t_nkeys c)))
  | None => None
  end.

(* sensitivity of the generated cases: would the observations expose a different trailing condition?
   (true = the mutant model is indistinguishable from the real one on this case) *)
Fixpoint observations_gen (tc : nat -> nat -> bool) (s : state) (segs : list (list op)) (vs : list nat)
                          (ats : list (nat * nat)) (ks : list nat) : list obs :=
  match segs with
  | [] => []
  | ops :: r => let s' := run_gen tc ops s in
                observe s' vs ats ks :: observations_gen tc (run_gen tc (map BbGet ks) s') r vs ats ks
  end.
Definition mutant_same_p (tc : nat -> nat -> bool) (l : list int) : bool :=
  match dec_case (unpack l) with
  | Some c => let ks := seq 0 (t_nkeys c) in
              list_eqb obs_eqb (observations_gen tc (init (t_nkeys c)) (t_segs c) (t_vs c) (t_ats c) ks)
                               (observations (init (t_nkeys c)) (t_segs c) (t_vs c) (t_ats c) ks)
  | None => true
  end.
Definition cond_never (a h : nat) : bool := false.
Definition cond_always (a h : nat) : bool := true.
Definition cond_le (a h : nat) : bool := a <=? h.

(* ---------- data of the non-vacuity examples in Props.v *)
Definition ex_pre : list op := [NewVar; NewVar; NewVar; Bind 2 (VInt 7); BbBPut 0 (VInt 1)].
Definition ex_ops : list op :=
  [NewVar; Bind 0 (VStr 1 3); Unify 1 3; SetVal 1 (Some (VInt 5)); SetVal 1 (Some (VInt 6));
   Try; Bind 3 (VInt 9); Cut; BbBPut 0 (VInt 2); BbPut 1 (VInt 3);
   Try; NewVar; Retry; Bind 1 (VInt 4); Trust].
Definition wrong_cond (a h : nat) : bool := a <? h - 1.
