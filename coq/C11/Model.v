(* C11 -- impl-mirror model of the trail discipline of scryer-prolog
   (src/machine/machine_state_impl.rs MachineState::trail / bind, src/machine/mod.rs try_me_else / retry_me_else /
   trust_me / unwind_trail, src/machine/machine_state.rs cut_body, src/machine/system_calls.rs store_global_var /
   store_backtrackable_global_var / fetch_global_var / put_to_attributed_variable_list).

   store   = heap cells (index = address, older cells have smaller addresses; None = unbound self-reference)
           + blackboard: per key a persistent ball (bb_put) and a backtrackable slot (bb_b_put), the pair
             `(Ball, Option<HeapCellValue>)` of indices.global_variables
   registers: hb, the trail (a Vec: entries appended at the end), the stack of choice points (newest first).
   No proofs in this file. *)
From Coq Require Import List Arith Bool.
Import ListNotations.

Inductive value := VInt (n : nat) | VRef (a : nat) | VStr (f : nat) (a : nat).
Definition cell := option value.

Inductive tentry :=
| TrailCell (a : nat)                  (* TrailedHeapVar / TrailedStackVar / TrailedAttrVar: reset to unbound *)
| TrailVal (a : nat) (old : cell)      (* TrailedAttrVarListLink + TrailedAttachedValue: a destructively updated cell, old content *)
| TrailBB (k : nat) (old : cell).      (* TrailedBlackboardEntry (old = None) / TrailedBlackboardOffset (old = Some v) *)

Record cpoint := { cp_h : nat; cp_tr : nat }.

Record state := { heap : list cell; loc : list cell; ball : list cell;
                  trail : list tentry; stack : list cpoint; hb : nat }.

Fixpoint upd {A} (n : nat) (v : A) (l : list A) : list A :=
  match l, n with
  | [], _ => []
  | _ :: r, O => v :: r
  | x :: r, S n' => x :: upd n' v r
  end.

(* ---------- unwind_trail: entries a1..a2 in REVERSE order *)
Definition undo_h (e : tentry) (hp : list cell) : list cell :=
  match e with
  | TrailCell a => upd a None hp
  | TrailVal a old => upd a old hp
  | TrailBB _ _ => hp
  end.
Definition undo_l (e : tentry) (lc : list cell) : list cell :=
  match e with
  | TrailBB k old => upd k old lc
  | _ => lc
  end.
(* processes its list head first *)
Fixpoint undo_list {A} (undo : tentry -> A -> A) (es : list tentry) (x : A) : A :=
  match es with
  | [] => x
  | e :: r => undo_list undo r (undo e x)
  end.
Definition unwind_h (seg : list tentry) (hp : list cell) := undo_list undo_h (rev seg) hp.
Definition unwind_l (seg : list tentry) (lc : list cell) := undo_list undo_l (rev seg) lc.

(* ---------- dereferencing *)
Fixpoint deref (fuel : nat) (hp : list cell) (a : nat) : nat :=
  match fuel with
  | O => a
  | S f => match nth a hp None with
           | Some (VRef b) => deref f hp b
           | _ => a
           end
  end.
Definition root (s : state) (a : nat) : nat := deref (S (length (heap s))) (heap s) a.

(* ---------- operations *)
Inductive op :=
| NewVar                               (* push an unbound cell *)
| Bind (a : nat) (v : value)           (* unify the variable at a with a non-variable / a younger structure *)
| Unify (a b : nat)                    (* variable-variable unification: the younger root is bound to the older *)
| SetVal (a : nat) (c : cell)          (* destructive update of an attribute-list link, value-trailed *)
| BbPut (k : nat) (v : value)
| BbBPut (k : nat) (v : value)
| BbGet (k : nat)                      (* fetch_global_var: caches the ball in the backtrackable slot *)
| Try | Retry | Trust | Cut.

(* MachineState::bind on a dereferenced unbound cell r, then MachineState::trail: `if h < self.hb` *)
Definition bind_at (tc : nat -> nat -> bool) (r : nat) (v : value) (s : state) : state :=
  match nth r (heap s) (Some (VInt 0)) with
  | None =>
    {| heap := upd r (Some v) (heap s); loc := loc s; ball := ball s;
       trail := if tc r (hb s) then trail s ++ [TrailCell r] else trail s;
       stack := stack s; hb := hb s |}
  | Some _ => s
  end.

Definition retry_state (s : state) (c : cpoint) : state :=
  let seg := skipn (cp_tr c) (trail s) in
  {| heap := firstn (cp_h c) (unwind_h seg (heap s));
     loc := unwind_l seg (loc s); ball := ball s;
     trail := firstn (cp_tr c) (trail s);
     stack := stack s; hb := cp_h c |}.

Definition set_stack (s : state) (st : list cpoint) : state :=
  {| heap := heap s; loc := loc s; ball := ball s; trail := trail s; stack := st; hb := hb s |}.

(* tc is the trailing condition (the code's is Nat.ltb: `h < hb`) *)
Definition step_gen (tc : nat -> nat -> bool) (s : state) (o : op) : state :=
  match o with
  | NewVar => {| heap := heap s ++ [None]; loc := loc s; ball := ball s; trail := trail s; stack := stack s; hb := hb s |}
  | Bind a v => bind_at tc (root s a) v s
  | Unify a b =>
    let ra := root s a in let rb := root s b in
    if ra =? rb then s
    else match nth ra (heap s) (Some (VInt 0)), nth rb (heap s) (Some (VInt 0)) with
         | None, None => if ra <? rb then bind_at tc rb (VRef ra) s else bind_at tc ra (VRef rb) s
         | _, _ => s
         end
  | SetVal a c =>
    {| heap := upd a c (heap s); loc := loc s; ball := ball s;
       trail := if tc a (hb s) then trail s ++ [TrailVal a (nth a (heap s) None)] else trail s;
       stack := stack s; hb := hb s |}
  | BbPut k v =>      (* global_variables.insert(key, (ball, None)) : not trailed *)
    {| heap := heap s; loc := upd k None (loc s); ball := upd k (Some v) (ball s);
       trail := trail s; stack := stack s; hb := hb s |}
  | BbBPut k v =>     (* trail(BlackboardOffset(key, old)) / trail(BlackboardEntry(key)) : always trailed *)
    {| heap := heap s; loc := upd k (Some v) (loc s); ball := ball s;
       trail := trail s ++ [TrailBB k (nth k (loc s) None)]; stack := stack s; hb := hb s |}
  | BbGet k =>
    match nth k (loc s) None, nth k (ball s) None with
    | None, Some v =>
      {| heap := heap s; loc := upd k (Some v) (loc s); ball := ball s;
         trail := trail s ++ [TrailBB k None]; stack := stack s; hb := hb s |}
    | _, _ => s
    end
  | Try =>            (* try_me_else: or-frame records h and tr; hb := heap top *)
    {| heap := heap s; loc := loc s; ball := ball s; trail := trail s;
       stack := {| cp_h := length (heap s); cp_tr := length (trail s) |} :: stack s; hb := length (heap s) |}
  | Retry =>          (* retry_me_else: unwind, truncate, hb := or_frame.h ; the frame stays *)
    match stack s with
    | [] => s
    | c :: _ => retry_state s c
    end
  | Trust =>          (* trust_me: the same, and the frame is popped; hb stays at the popped frame's h *)
    match stack s with
    | [] => s
    | c :: st => set_stack (retry_state s c) st
    end
  | Cut =>            (* cut_body: b := b0; neither hb nor the trail is touched *)
    match stack s with
    | [] => s
    | _ :: st => set_stack s st
    end
  end.

Definition step := step_gen Nat.ltb.
Definition run_gen tc (ops : list op) (s : state) : state := fold_left (step_gen tc) ops s.
Definition run := run_gen Nat.ltb.

(* what bb_get shows: the backtrackable slot if set, else the ball *)
Definition visible (s : state) (k : nat) : cell :=
  match nth k (loc s) None with
  | Some v => Some v
  | None => nth k (ball s) None
  end.

(* the value of the last bb_put on k in ops (d if none) *)
Fixpoint last_put (k : nat) (ops : list op) (d : cell) : cell :=
  match ops with
  | [] => d
  | BbPut k' v :: r => last_put k r (if k' =? k then Some v else d)
  | _ :: r => last_put k r d
  end.

(* ops that keep the choice point they start under: relative depth never below 0 *)
Fixpoint depth (ops : list op) (d : nat) : option nat :=
  match ops with
  | [] => Some d
  | Try :: r => depth r (S d)
  | (Trust | Cut) :: r => match d with O => None | S d' => depth r d' end
  | _ :: r => depth r d
  end.
Definition balanced (ops : list op) : Prop := depth ops 0 = Some 0.

Definition is_put (k : nat) (o : op) : bool := match o with BbPut k' _ => k' =? k | _ => false end.
Definition is_bput (k : nat) (o : op) : bool :=
  match o with BbBPut k' _ => k' =? k | BbGet k' => k' =? k | _ => false end.

(* a unwinding loop in the wrong (forward) order, for the non-vacuity example only *)
Definition unwind_h_forward (seg : list tentry) (hp : list cell) := undo_list undo_h seg hp.

(* ---------- observation (for the correspondence): the term a variable stands for, variables named by their root *)
Inductive oterm := OVar (r : nat) | OInt (n : nat) | OStr (f : nat) (t : oterm) | OFuel.
Fixpoint resolve (fuel : nat) (s : state) (a : nat) : oterm :=
  match fuel with
  | O => OFuel
  | S f => let r := root s a in
           match nth r (heap s) None with
           | None => OVar r
           | Some (VInt n) => OInt n
           | Some (VStr g b) => OStr g (resolve f s b)
           | Some (VRef _) => OFuel
           end
  end.

(* canonical variable numbering by first occurrence, like terms.number_vars on the implementation side *)
Fixpoint lookup (r : nat) (m : list (nat * nat)) : option nat :=
  match m with [] => None | (k, v) :: m' => if k =? r then Some v else lookup r m' end.
Fixpoint canon (t : oterm) (m : list (nat * nat)) : oterm * list (nat * nat) :=
  match t with
  | OVar r => match lookup r m with
              | Some i => (OVar i, m)
              | None => (OVar (length m), (r, length m) :: m)
              end
  | OStr f t' => let (t'', m') := canon t' m in (OStr f t'', m')
  | _ => (t, m)
  end.
Fixpoint canon_list (ts : list oterm) (m : list (nat * nat)) : list oterm :=
  match ts with
  | [] => []
  | t :: r => let (t', m') := canon t m in t' :: canon_list r m'
  end.

Fixpoint oterm_eqb (a b : oterm) : bool :=
  match a, b with
  | OVar x, OVar y => x =? y
  | OInt x, OInt y => x =? y
  | OStr f x, OStr g y => (f =? g) && oterm_eqb x y
  | _, _ => false
  end.
Definition cell_eqb (a b : cell) : bool :=
  match a, b with
  | None, None => true
  | Some (VInt x), Some (VInt y) => x =? y
  | _, _ => false
  end.
Fixpoint list_eqb {A} (eqb : A -> A -> bool) (a b : list A) : bool :=
  match a, b with
  | [], [] => true
  | x :: a', y :: b' => eqb x y && list_eqb eqb a' b'
  | _, _ => false
  end.

(* one observation point: the variables vs (terms, canonically numbered), the attributed variables ats (variable cell,
   attribute slot), the blackboard keys ks (visible value) *)
Inductive oatt := ABound | ANone | AVal (n : nat).
Definition obs_att (s : state) (p : nat * nat) : oatt :=
  match nth (root s (fst p)) (heap s) None with
  | Some _ => ABound
  | None => match nth (snd p) (heap s) None with Some (VInt n) => AVal n | _ => ANone end
  end.
Definition oatt_eqb (a b : oatt) : bool :=
  match a, b with
  | ABound, ABound => true
  | ANone, ANone => true
  | AVal x, AVal y => x =? y
  | _, _ => false
  end.
Record obs := { o_vars : list oterm; o_atts : list oatt; o_bb : list cell }.
Definition observe (s : state) (vs : list nat) (ats : list (nat * nat)) (ks : list nat) : obs :=
  {| o_vars := canon_list (map (resolve 40 s) vs) [];
     o_atts := map (obs_att s) ats;
     o_bb := map (visible s) ks |}.
Definition obs_eqb (a b : obs) : bool :=
  list_eqb oterm_eqb (o_vars a) (o_vars b) && list_eqb oatt_eqb (o_atts a) (o_atts b) && list_eqb cell_eqb (o_bb a) (o_bb b).

(* a scenario: segments of operations, an observation after each; the observation reads every key with bb_get,
   which is itself an operation (it caches the ball in the backtrackable slot) *)
Fixpoint observations (s : state) (segs : list (list op)) (vs : list nat) (ats : list (nat * nat)) (ks : list nat) : list obs :=
  match segs with
  | [] => []
  | ops :: r => let s' := run ops s in
                observe s' vs ats ks :: observations (run (map BbGet ks) s') r vs ats ks
  end.

Definition init (nkeys : nat) : state :=
  {| heap := []; loc := repeat None nkeys; ball := repeat None nkeys; trail := []; stack := []; hb := 0 |}.

(* the implementation's observations through the compiled-clause path and through the query (meta-call) path *)
Definition check_case (nkeys : nat) (segs : list (list op)) (vs : list nat) (ats : list (nat * nat)) (ks : list nat)
                      (impl1 impl2 : list obs) : bool :=
  let m := observations (init nkeys) segs vs ats ks in
  list_eqb obs_eqb m impl1 && list_eqb obs_eqb m impl2.

(* ---------- data of the non-vacuity examples in Props.v *)
Definition ex_pre : list op := [NewVar; NewVar; NewVar; Bind 2 (VInt 7); BbBPut 0 (VInt 1)].
Definition ex_ops : list op :=
  [NewVar; Bind 0 (VStr 1 3); Unify 1 3; SetVal 1 (Some (VInt 5)); SetVal 1 (Some (VInt 6));
   Try; Bind 3 (VInt 9); Cut; BbBPut 0 (VInt 2); BbPut 1 (VInt 3);
   Try; NewVar; Retry; Bind 1 (VInt 4); Trust].
Definition wrong_cond (a h : nat) : bool := a <? h - 1.
