(* C11 -- proofs about the trail discipline model *)
From Coq Require Import List Arith Bool Lia.
Import ListNotations.
From V Require Import C11.Model.

(* ------------------------------------------------------------------ upd *)
Lemma upd_length A n (v : A) l : length (upd n v l) = length l.
Proof. revert n. induction l as [|x r IH]; intros [|n]; simpl; auto. Qed.

Lemma nth_upd_same A n (v : A) l d : n < length l -> nth n (upd n v l) d = v.
Proof. revert n. induction l as [|x r IH]; intros [|n] Hn; simpl in *; try lia; auto. apply IH. lia. Qed.

Lemma nth_upd_other A n m (v : A) l d : n <> m -> nth m (upd n v l) d = nth m l d.
Proof. revert n m. induction l as [|x r IH]; intros [|n] [|m] Hn; simpl; auto; try congruence. Qed.

Lemma upd_upd A n (v w : A) l : upd n v (upd n w l) = upd n v l.
Proof. revert n. induction l as [|x r IH]; intros [|n]; simpl; auto. f_equal. apply IH. Qed.

Lemma upd_nth_id A n (l : list A) d : upd n (nth n l d) l = l.
Proof. revert n. induction l as [|x r IH]; intros [|n]; simpl; auto. f_equal. apply IH. Qed.

Lemma upd_ge A n (v : A) l : length l <= n -> upd n v l = l.
Proof. revert n. induction l as [|x r IH]; intros [|n] Hn; simpl in *; auto; try lia. f_equal. apply IH. lia. Qed.

Lemma firstn_upd A m n (v : A) l : firstn m (upd n v l) = upd n v (firstn m l).
Proof.
  revert m n. induction l as [|x r IH]; intros [|m] [|n]; simpl; auto.
  f_equal. apply IH.
Qed.

Lemma nth_upd_None n (l : list cell) : nth n (upd n None l) None = None.
Proof.
  destruct (Nat.lt_ge_cases n (length l)) as [H|H].
  - apply nth_upd_same. exact H.
  - rewrite upd_ge by exact H. apply nth_overflow. exact H.
Qed.

(* ------------------------------------------------------------------ unwinding *)
Lemma undo_list_app A (u : tentry -> A -> A) a b x : undo_list u (a ++ b) x = undo_list u b (undo_list u a x).
Proof. revert x. induction a as [|e a IH]; intros x; simpl; auto. Qed.

Lemma unwind_h_snoc seg e hp : unwind_h (seg ++ [e]) hp = unwind_h seg (undo_h e hp).
Proof. unfold unwind_h. rewrite rev_app_distr. reflexivity. Qed.
Lemma unwind_l_snoc seg e lc : unwind_l (seg ++ [e]) lc = unwind_l seg (undo_l e lc).
Proof. unfold unwind_l. rewrite rev_app_distr. reflexivity. Qed.
Lemma unwind_h_app a b hp : unwind_h (a ++ b) hp = unwind_h a (unwind_h b hp).
Proof. unfold unwind_h. rewrite rev_app_distr. apply undo_list_app. Qed.
Lemma unwind_l_app a b lc : unwind_l (a ++ b) lc = unwind_l a (unwind_l b lc).
Proof. unfold unwind_l. rewrite rev_app_distr. apply undo_list_app. Qed.

Lemma firstn_undo_h n e hp : firstn n (undo_h e hp) = undo_h e (firstn n hp).
Proof. destruct e; simpl; auto using firstn_upd. Qed.
Lemma firstn_undo_list n es hp : firstn n (undo_list undo_h es hp) = undo_list undo_h es (firstn n hp).
Proof. revert hp. induction es as [|e r IH]; intros hp; simpl; auto. rewrite IH, firstn_undo_h. reflexivity. Qed.
Lemma firstn_unwind_h n seg hp : firstn n (unwind_h seg hp) = unwind_h seg (firstn n hp).
Proof. apply firstn_undo_list. Qed.

Definition bb_free (k : nat) (e : tentry) : Prop := match e with TrailBB k' _ => k' <> k | _ => True end.
Definition no_bb (k : nat) (seg : list tentry) : Prop := Forall (bb_free k) seg.

Lemma nth_undo_l_free k e lc : bb_free k e -> nth k (undo_l e lc) None = nth k lc None.
Proof. destruct e; simpl; auto. intros H. apply nth_upd_other. exact H. Qed.
Lemma nth_undo_list_free k es lc : Forall (bb_free k) es -> nth k (undo_list undo_l es lc) None = nth k lc None.
Proof.
  revert lc. induction es as [|e r IH]; intros lc H; simpl; auto.
  inversion H as [|? ? He Hr]; subst. rewrite IH by exact Hr. apply nth_undo_l_free. exact He.
Qed.
Lemma nth_unwind_l_free k seg lc : no_bb k seg -> nth k (unwind_l seg lc) None = nth k lc None.
Proof. intros H. apply nth_undo_list_free. apply Forall_rev. exact H. Qed.

Definition agree_at (k : nat) (l1 l2 : list cell) : Prop := length l1 = length l2 /\ nth k l1 None = nth k l2 None.

Lemma agree_upd k j v l1 l2 : agree_at k l1 l2 -> agree_at k (upd j v l1) (upd j v l2).
Proof.
  intros [Hl Hn]. split. { rewrite !upd_length. exact Hl. }
  destruct (Nat.eq_dec j k) as [->|Hjk].
  - destruct (Nat.lt_ge_cases k (length l1)) as [H|H].
    + rewrite !nth_upd_same; auto. lia.
    + rewrite !upd_ge by lia. exact Hn.
  - rewrite !nth_upd_other by exact Hjk. exact Hn.
Qed.
Lemma agree_undo_list k es l1 l2 : agree_at k l1 l2 -> agree_at k (undo_list undo_l es l1) (undo_list undo_l es l2).
Proof.
  revert l1 l2. induction es as [|e r IH]; intros l1 l2 H; simpl; auto.
  apply IH. destruct e; simpl; auto. apply agree_upd. exact H.
Qed.
Lemma nth_unwind_l_upd_other k j v seg lc :
  j <> k -> nth k (unwind_l seg (upd j v lc)) None = nth k (unwind_l seg lc) None.
Proof.
  intros H. apply (agree_undo_list k (rev seg) (upd j v lc) lc).
  split. { apply upd_length. } apply nth_upd_other. exact H.
Qed.

(* ------------------------------------------------------------------ the invariant (ghost snapshots) *)
Record glevel := { g_snap : state; g_puts : list nat; g_bputs : list nat }.

Record level_ok (hp lc : list cell) (tr : list tentry) (hbv : nat) (c : cpoint) (gl : glevel) : Prop := {
  lo_tr_le : cp_tr c <= length tr;
  lo_trail : firstn (cp_tr c) tr = trail (g_snap gl);
  lo_h_eq : cp_h c = length (heap (g_snap gl));
  lo_h_hb : cp_h c <= hbv;
  lo_h_len : cp_h c <= length hp;
  lo_heap : firstn (cp_h c) (unwind_h (skipn (cp_tr c) tr) hp) = heap (g_snap gl);
  lo_loc : forall k, ~ In k (g_puts gl) ->
             nth k (unwind_l (skipn (cp_tr c) tr) lc) None = nth k (loc (g_snap gl)) None;
  lo_none : forall k, ~ In k (g_bputs gl) -> nth k (loc (g_snap gl)) None = None ->
             nth k lc None = None /\ no_bb k (skipn (cp_tr c) tr)
}.

Fixpoint levels_ok (hp lc : list cell) (tr : list tentry) (hbv : nat) (st : list cpoint) (g : list glevel) : Prop :=
  match st, g with
  | [], [] => True
  | c :: st', gl :: g' =>
      level_ok hp lc tr hbv c gl /\ stack (g_snap gl) = st' /\
      Forall (fun c' => cp_tr c' <= cp_tr c /\ cp_h c' <= cp_h c) st' /\
      levels_ok hp lc tr hbv st' g'
  | _, _ => False
  end.

Definition Inv (s : state) (g : list glevel) : Prop := levels_ok (heap s) (loc s) (trail s) (hb s) (stack s) g.

Definition add_put (k : nat) (gl : glevel) := {| g_snap := g_snap gl; g_puts := k :: g_puts gl; g_bputs := g_bputs gl |}.
Definition add_bput (k : nat) (gl : glevel) := {| g_snap := g_snap gl; g_puts := g_puts gl; g_bputs := k :: g_bputs gl |}.

Definition gstep (s : state) (g : list glevel) (o : op) : list glevel :=
  match o with
  | Try => {| g_snap := s; g_puts := []; g_bputs := [] |} :: g
  | Trust | Cut => tl g
  | BbPut k _ => map (add_put k) g
  | BbBPut k _ | BbGet k => map (add_bput k) g
  | _ => g
  end.
Fixpoint grun (ops : list op) (s : state) (g : list glevel) : list glevel :=
  match ops with [] => g | o :: r => grun r (step s o) (gstep s g o) end.

Lemma levels_ok_map (P : cpoint -> Prop) hp lc tr hbv hp' lc' tr' hbv' f :
  (forall gl, g_snap (f gl) = g_snap gl) ->
  (forall c gl, P c -> level_ok hp lc tr hbv c gl -> level_ok hp' lc' tr' hbv' c (f gl)) ->
  forall st g, Forall P st -> levels_ok hp lc tr hbv st g -> levels_ok hp' lc' tr' hbv' st (map f g).
Proof.
  intros Hs Hl st. induction st as [|c st IH]; intros [|gl g] HP H; simpl in *; auto; try contradiction.
  destruct H as (H1 & H2 & H3 & H4).
  pose proof (Forall_inv HP) as Pc. pose proof (Forall_inv_tail HP) as Pst.
  split; [apply Hl; auto|]. split; [rewrite Hs; exact H2|]. split; auto.
Qed.

Lemma levels_ok_same hp lc tr hbv hp' lc' tr' hbv' (P : cpoint -> Prop) :
  (forall c gl, P c -> level_ok hp lc tr hbv c gl -> level_ok hp' lc' tr' hbv' c gl) ->
  forall st g, Forall P st -> levels_ok hp lc tr hbv st g -> levels_ok hp' lc' tr' hbv' st g.
Proof.
  intros Hl st g HP H. rewrite <- (map_id g).
  apply (levels_ok_map P hp lc tr hbv hp' lc' tr' hbv' (fun x => x)); auto.
Qed.

Lemma Forall_True A (l : list A) : Forall (fun _ => True) l.
Proof. induction l; auto. Qed.

Lemma levels_ok_bounds hp lc tr hbv st g :
  levels_ok hp lc tr hbv st g -> Forall (fun c => cp_tr c <= length tr /\ cp_h c <= length hp /\ cp_h c <= hbv) st.
Proof.
  revert g. induction st as [|c st IH]; intros [|gl g] H; simpl in *; auto; try contradiction.
  destruct H as (H1 & _ & _ & H4). constructor; eauto.
  destruct H1 as [A _ _ B C _ _ _]. auto.
Qed.

(* a heap change invisible below cp_h, trail unchanged *)
Lemma level_ok_heap_change hp hp' lc tr hbv c gl :
  firstn (cp_h c) hp' = firstn (cp_h c) hp -> length hp <= length hp' ->
  level_ok hp lc tr hbv c gl -> level_ok hp' lc tr hbv c gl.
Proof.
  intros Hf Hlen [A B C D E F G H].
  constructor; auto; try lia.
  rewrite firstn_unwind_h, Hf, <- firstn_unwind_h. exact F.
Qed.

(* a trailed change: undoing the new entry gives back the old components *)
Lemma level_ok_push hp hp' lc lc' tr hbv e c gl gl' :
  undo_h e hp' = hp -> undo_l e lc' = lc -> length hp' = length hp ->
  g_snap gl' = g_snap gl -> g_puts gl' = g_puts gl ->
  (forall k, ~ In k (g_bputs gl') -> ~ In k (g_bputs gl) /\ bb_free k e /\ nth k lc' None = nth k lc None) ->
  level_ok hp lc tr hbv c gl -> level_ok hp' lc' (tr ++ [e]) hbv c gl'.
Proof.
  intros Hh Hl Hlen Hs Hp Hb [A B C D E F G H].
  assert (Hsk : skipn (cp_tr c) (tr ++ [e]) = skipn (cp_tr c) tr ++ [e]).
  { rewrite skipn_app. replace (cp_tr c - length tr) with 0 by lia. reflexivity. }
  constructor; rewrite ?Hs, ?Hp; auto; try lia.
  - rewrite app_length. lia.
  - rewrite firstn_app. replace (cp_tr c - length tr) with 0 by lia. simpl. rewrite app_nil_r. exact B.
  - rewrite Hsk, unwind_h_snoc, Hh. exact F.
  - intros k Hk. rewrite Hsk, unwind_l_snoc, Hl. apply G. exact Hk.
  - intros k Hk Hn. destruct (Hb k Hk) as (Hb1 & Hb2 & Hb3). rewrite Hb3, Hsk.
    destruct (H k Hb1 Hn) as [H1 H2]. split; auto.
    apply Forall_app. split; auto.
Qed.

Lemma level_ok_add_bput hp lc tr hbv k c gl : level_ok hp lc tr hbv c gl -> level_ok hp lc tr hbv c (add_bput k gl).
Proof.
  intros [A B C D E F G H]. constructor; auto; simpl in *.
  intros k0 Hk0 Hn. apply H; auto.
Qed.

(* ------------------------------------------------------------------ preservation, operation by operation *)
Lemma Inv_bind_at r v s g : Inv s g -> Inv (bind_at Nat.ltb r v s) g.
Proof.
  unfold Inv, bind_at. intros H.
  destruct (nth r (heap s) (Some (VInt 0))) eqn:Hc; auto.
  destruct (r <? hb s) eqn:Hlt; simpl.
  - apply Nat.ltb_lt in Hlt.
    apply (levels_ok_same (heap s) (loc s) (trail s) (hb s) _ _ _ _ (fun _ => True)); auto using Forall_True.
    intros c gl _ Hl.
    apply (level_ok_push (heap s) _ (loc s) (loc s) (trail s) (hb s) (TrailCell r) c gl gl); auto.
    + simpl. rewrite upd_upd. rewrite <- Hc at 1. apply upd_nth_id.
    + apply upd_length.
    + intros k Hk. simpl. auto.
  - apply Nat.ltb_ge in Hlt.
    apply (levels_ok_same (heap s) (loc s) (trail s) (hb s) _ _ _ _ (fun _ => True)); auto using Forall_True.
    intros c gl _ Hl. apply (level_ok_heap_change (heap s)); auto.
    + rewrite firstn_upd. apply upd_ge. rewrite firstn_length.
      pose proof (lo_h_hb _ _ _ _ _ _ Hl). lia.
    + rewrite upd_length. apply le_n.
Qed.

Lemma skipn_split_two (tr : list tentry) a b : a <= b -> b <= length tr ->
  skipn a tr = skipn a (firstn b tr) ++ skipn b tr.
Proof.
  intros Hab Hb. rewrite <- (firstn_skipn b tr) at 1. rewrite skipn_app.
  rewrite firstn_length. replace (a - Nat.min b (length tr)) with 0 by lia. reflexivity.
Qed.

(* the levels below the one that is backtracked to *)
Lemma level_ok_deeper hp lc tr hbv c c' gl' :
  cp_tr c <= length tr -> length (firstn (cp_h c) (unwind_h (skipn (cp_tr c) tr) hp)) = cp_h c ->
  cp_tr c' <= cp_tr c /\ cp_h c' <= cp_h c ->
  level_ok hp lc tr hbv c' gl' ->
  level_ok (firstn (cp_h c) (unwind_h (skipn (cp_tr c) tr) hp)) (unwind_l (skipn (cp_tr c) tr) lc)
           (firstn (cp_tr c) tr) (cp_h c) c' gl'.
Proof.
  intros A Hlen (Ht & Hh) [A' B' C' D' E' F' G' I'].
  pose proof (skipn_split_two tr (cp_tr c') (cp_tr c) Ht A) as Hsk.
  constructor; auto.
  - rewrite firstn_length. lia.
  - rewrite firstn_firstn. replace (Nat.min (cp_tr c') (cp_tr c)) with (cp_tr c') by lia. exact B'.
  - lia.
  - rewrite firstn_unwind_h, firstn_firstn.
    replace (Nat.min (cp_h c') (cp_h c)) with (cp_h c') by lia.
    rewrite <- firstn_unwind_h, <- unwind_h_app, <- Hsk. exact F'.
  - intros k Hk. rewrite <- unwind_l_app, <- Hsk. apply G'. exact Hk.
  - intros k Hk Hn. destruct (I' k Hk Hn) as (I1 & I2).
    rewrite Hsk in I2. apply Forall_app in I2. destruct I2 as [I2 I3].
    split; auto. rewrite nth_unwind_l_free; auto.
Qed.

Lemma Inv_step s g o : Inv s g -> Inv (step s o) (gstep s g o).
Proof.
  intros H. destruct o as [ | a v | a b | a c | k v | k v | k | | | | ]; unfold step; simpl.
  - (* NewVar *)
    unfold Inv in *; simpl.
    apply (levels_ok_same (heap s) (loc s) (trail s) (hb s) _ _ _ _ (fun _ => True)); auto using Forall_True.
    intros c gl _ Hl. apply (level_ok_heap_change (heap s)); auto.
    + rewrite firstn_app. pose proof (lo_h_len _ _ _ _ _ _ Hl).
      replace (cp_h c - length (heap s)) with 0 by lia. simpl. apply app_nil_r.
    + rewrite app_length. apply Nat.le_add_r.
  - (* Bind *) apply Inv_bind_at. exact H.
  - (* Unify *)
    destruct (root s a =? root s b); auto.
    destruct (nth (root s a) (heap s) (Some (VInt 0))); auto.
    destruct (nth (root s b) (heap s) (Some (VInt 0))); auto.
    destruct (root s a <? root s b); apply Inv_bind_at; exact H.
  - (* SetVal *)
    unfold Inv in *; simpl. destruct (a <? hb s) eqn:Hlt.
    + apply (levels_ok_same (heap s) (loc s) (trail s) (hb s) _ _ _ _ (fun _ => True)); auto using Forall_True.
      intros c0 gl _ Hl.
      apply (level_ok_push (heap s) _ (loc s) (loc s) (trail s) (hb s) (TrailVal a (nth a (heap s) None)) c0 gl gl); auto.
      * simpl. rewrite upd_upd. apply upd_nth_id.
      * apply upd_length.
      * intros k Hk. simpl. auto.
    + apply Nat.ltb_ge in Hlt.
      apply (levels_ok_same (heap s) (loc s) (trail s) (hb s) _ _ _ _ (fun _ => True)); auto using Forall_True.
      intros c0 gl _ Hl. apply (level_ok_heap_change (heap s)); auto.
      * rewrite firstn_upd. apply upd_ge. rewrite firstn_length.
        pose proof (lo_h_hb _ _ _ _ _ _ Hl). lia.
      * rewrite upd_length. apply le_n.
  - (* BbPut *)
    unfold Inv in *; simpl.
    apply (levels_ok_map (fun _ => True) (heap s) (loc s) (trail s) (hb s)); auto using Forall_True.
    intros c gl _ [A B C D E F G I]. constructor; auto; simpl.
    + intros k0 Hk0. rewrite nth_unwind_l_upd_other by (intro; apply Hk0; auto). apply G. intro; apply Hk0; auto.
    + intros k0 Hk0 Hn. destruct (I k0 Hk0 Hn) as [I1 I2]. split; auto.
      destruct (Nat.eq_dec k k0) as [->|Hne].
      * apply nth_upd_None.
      * rewrite nth_upd_other by exact Hne. exact I1.
  - (* BbBPut *)
    unfold Inv in *; simpl.
    apply (levels_ok_map (fun _ => True) (heap s) (loc s) (trail s) (hb s)); auto using Forall_True.
    intros c gl _ Hl.
    apply (level_ok_push (heap s) (heap s) (loc s) _ (trail s) (hb s) (TrailBB k (nth k (loc s) None)) c gl (add_bput k gl)); auto.
    + simpl. rewrite upd_upd. apply upd_nth_id.
    + simpl. intros k0 Hk0. split; [|split].
      * intro; apply Hk0; auto.
      * intro; apply Hk0; auto.
      * apply nth_upd_other. intro; apply Hk0; auto.
  - (* BbGet *)
    destruct (nth k (loc s) None) eqn:Hloc.
    { unfold Inv in *. apply (levels_ok_map (fun _ => True) (heap s) (loc s) (trail s) (hb s)); auto using Forall_True.
      intros c gl _ Hl. apply level_ok_add_bput. exact Hl. }
    destruct (nth k (ball s) None) eqn:Hball.
    2:{ unfold Inv in *. apply (levels_ok_map (fun _ => True) (heap s) (loc s) (trail s) (hb s)); auto using Forall_True.
        intros c gl _ Hl. apply level_ok_add_bput. exact Hl. }
    unfold Inv in *; simpl.
    apply (levels_ok_map (fun _ => True) (heap s) (loc s) (trail s) (hb s)); auto using Forall_True.
    intros c gl _ Hl.
    apply (level_ok_push (heap s) (heap s) (loc s) _ (trail s) (hb s) (TrailBB k None) c gl (add_bput k gl)); auto.
    + simpl. rewrite upd_upd. rewrite <- Hloc. apply upd_nth_id.
    + simpl. intros k0 Hk0. split; [|split].
      * intro; apply Hk0; auto.
      * intro; apply Hk0; auto.
      * apply nth_upd_other. intro; apply Hk0; auto.
  - (* Try *)
    unfold Inv in *; simpl.
    pose proof (levels_ok_bounds _ _ _ _ _ _ H) as Hb.
    split; [|split; [|split]]; auto.
    + constructor; simpl; auto.
      * apply firstn_all.
      * rewrite skipn_all. unfold unwind_h; simpl. apply firstn_all.
      * intros k Hk. rewrite skipn_all. reflexivity.
      * intros k Hk Hn. split; auto. rewrite skipn_all. constructor.
    + eapply Forall_impl; [|exact Hb]. simpl. intros c (A & B & C). lia.
    + apply (levels_ok_same (heap s) (loc s) (trail s) (hb s) _ _ _ _
               (fun c => cp_h c <= length (heap s))); auto.
      * intros c gl Hc [A B C D E F G I]. constructor; auto.
      * eapply Forall_impl; [|exact Hb]. simpl. intros c (A & B & C). lia.
  - (* Retry *)
    unfold Inv in *. destruct (stack s) as [|c st] eqn:Hst; [rewrite Hst; exact H|].
    destruct g as [|gl g]; simpl in H; [contradiction|].
    destruct H as (Hl & Hs & Hord & Hrest). simpl. rewrite Hst.
    destruct Hl as [A B C D E F G I].
    assert (Hlen : length (firstn (cp_h c) (unwind_h (skipn (cp_tr c) (trail s)) (heap s))) = cp_h c).
    { rewrite F. auto. }
    split; [|split; [|split]]; auto.
    + constructor; auto.
      * rewrite firstn_length. lia.
      * rewrite firstn_firstn. rewrite Nat.min_id. exact B.
      * lia.
      * rewrite skipn_all2 by (rewrite firstn_length; lia). unfold unwind_h at 1; simpl.
        rewrite firstn_firstn, Nat.min_id. exact F.
      * intros k Hk. rewrite skipn_all2 by (rewrite firstn_length; lia). unfold unwind_l at 1; simpl. apply G; auto.
      * intros k Hk Hn. destruct (I k Hk Hn) as [I1 I2]. split.
        -- rewrite nth_unwind_l_free; auto.
        -- rewrite skipn_all2 by (rewrite firstn_length; lia). constructor.
    + apply (levels_ok_same (heap s) (loc s) (trail s) (hb s) _ _ _ _
               (fun c' => cp_tr c' <= cp_tr c /\ cp_h c' <= cp_h c)); auto.
      intros c' gl' Hc' Hl'. apply (level_ok_deeper _ _ _ (hb s)); auto.
  - (* Trust *)
    unfold Inv in *. destruct (stack s) as [|c st] eqn:Hst.
    { rewrite Hst. destruct g; simpl in *; auto; contradiction. }
    destruct g as [|gl g]; simpl in H; [contradiction|].
    destruct H as (Hl & Hs & Hord & Hrest). simpl.
    destruct Hl as [A B C D E F G I].
    assert (Hlen : length (firstn (cp_h c) (unwind_h (skipn (cp_tr c) (trail s)) (heap s))) = cp_h c).
    { rewrite F. auto. }
    apply (levels_ok_same (heap s) (loc s) (trail s) (hb s) _ _ _ _
             (fun c' => cp_tr c' <= cp_tr c /\ cp_h c' <= cp_h c)); auto.
    intros c' gl' Hc' Hl'. apply (level_ok_deeper _ _ _ (hb s)); auto.
  - (* Cut *)
    unfold Inv in *. destruct (stack s) as [|c st] eqn:Hst.
    { rewrite Hst. destruct g; simpl in *; auto; contradiction. }
    destruct g as [|gl g]; simpl in H; [contradiction|]. simpl. apply H.
Qed.

Lemma run_cons o r s : run (o :: r) s = run r (step s o).
Proof. reflexivity. Qed.
Lemma run_app a b s : run (a ++ b) s = run b (run a s).
Proof. unfold run, run_gen. apply fold_left_app. Qed.

Theorem Inv_run ops : forall s g, Inv s g -> Inv (run ops s) (grun ops s g).
Proof.
  induction ops as [|o r IH]; intros s g H.
  - exact H.
  - rewrite run_cons. simpl grun. apply IH. apply Inv_step. exact H.
Qed.

Lemma Inv_empty s : stack s = [] -> Inv s [].
Proof. intros H. unfold Inv. rewrite H. exact I. Qed.

(* what the invariant says when the newest choice point is backtracked to *)
Lemma Inv_retry_top s c st gl g :
  Inv s (gl :: g) -> stack s = c :: st ->
  let s1 := retry_state s c in
  heap s1 = heap (g_snap gl) /\ trail s1 = trail (g_snap gl) /\ st = stack (g_snap gl) /\
  (forall k, ~ In k (g_puts gl) -> nth k (loc s1) None = nth k (loc (g_snap gl)) None) /\
  (forall k, ~ In k (g_bputs gl) -> nth k (loc (g_snap gl)) None = None -> nth k (loc s1) None = None).
Proof.
  unfold Inv. intros H Hst. rewrite Hst in H. simpl in H.
  destruct H as ([A B C D E F G I] & Hs & _ & _). simpl.
  split; [|split; [|split; [|split]]]; auto.
  intros k Hk Hn. destruct (I k Hk Hn) as (I1 & I2). rewrite nth_unwind_l_free; auto.
Qed.

(* ------------------------------------------------------------------ ghost tracking for balanced segments *)
Definition has_put (k : nat) (ops : list op) : bool := existsb (is_put k) ops.
Definition has_bput (k : nat) (ops : list op) : bool := existsb (is_bput k) ops.

Definition grel (ops : list op) (a b : glevel) : Prop :=
  g_snap a = g_snap b /\
  (forall k, In k (g_puts a) -> In k (g_puts b) \/ has_put k ops = true) /\
  (forall k, In k (g_bputs a) -> In k (g_bputs b) \/ has_bput k ops = true).

Lemma grel_refl ops l : Forall2 (grel ops) l l.
Proof. induction l; constructor; auto. split; [|split]; auto. Qed.

Lemma skipn_tl A n (l : list A) : skipn n (tl l) = skipn (S n) l.
Proof. destruct l; simpl; auto. apply skipn_nil. Qed.

Lemma Forall2_map_l A B (R : A -> B -> Prop) (f : B -> A) l : (forall x, R (f x) x) -> Forall2 R (map f l) l.
Proof. intros H. induction l; simpl; constructor; auto. Qed.

Lemma Forall2_trans_rel ops o l1 l2 l3 :
  Forall2 (grel ops) l1 l2 -> Forall2 (grel [o]) l2 l3 -> Forall2 (grel (o :: ops)) l1 l3.
Proof.
  intros H. revert l3. induction H as [|a b l1 l2 Hab H IH]; intros l3 H3; inversion H3 as [|? c ? l3' H2 H3']; subst; constructor; auto.
  destruct Hab as (S1 & P1 & B1). destruct H2 as (S2 & P2 & B2).
  unfold grel, has_put, has_bput in *. simpl in *. split; [|split].
  - congruence.
  - intros k Hk. destruct (P1 k Hk) as [Hb|Hb].
    + destruct (P2 k Hb) as [Hc|Hc]; auto. right. rewrite orb_false_r in Hc. rewrite Hc. reflexivity.
    + right. rewrite Hb. apply orb_true_r.
  - intros k Hk. destruct (B1 k Hk) as [Hb|Hb].
    + destruct (B2 k Hb) as [Hc|Hc]; auto. right. rewrite orb_false_r in Hc. rewrite Hc. reflexivity.
    + right. rewrite Hb. apply orb_true_r.
Qed.

Lemma gstep_rel o s g d d1 :
  depth [o] d = Some d1 -> Forall2 (grel [o]) (skipn d1 (gstep s g o)) (skipn d g).
Proof.
  destruct o; simpl; intros Hd; try (injection Hd as <-; apply grel_refl).
  - (* BbPut *) injection Hd as <-. rewrite skipn_map. apply Forall2_map_l. intros x.
    unfold grel, has_put, has_bput; simpl. split; [|split]; auto.
    intros k0 [<-|Hk]; auto. right. rewrite Nat.eqb_refl. reflexivity.
  - (* BbBPut *) injection Hd as <-. rewrite skipn_map. apply Forall2_map_l. intros x.
    unfold grel, has_put, has_bput; simpl. split; [|split]; auto.
    intros k0 [<-|Hk]; auto. right. rewrite Nat.eqb_refl. reflexivity.
  - (* BbGet *) injection Hd as <-. rewrite skipn_map. apply Forall2_map_l. intros x.
    unfold grel, has_put, has_bput; simpl. split; [|split]; auto.
    intros k0 [<-|Hk]; auto. right. rewrite Nat.eqb_refl. reflexivity.
  - (* Trust *) destruct d; [discriminate|]. injection Hd as <-. rewrite skipn_tl. apply grel_refl.
  - (* Cut *) destruct d; [discriminate|]. injection Hd as <-. rewrite skipn_tl. apply grel_refl.
Qed.

Lemma depth_cons o r d : depth (o :: r) d = match depth [o] d with Some d1 => depth r d1 | None => None end.
Proof. destruct o; simpl; auto; destruct d; auto. Qed.

Lemma grun_rel ops : forall s g d d',
  depth ops d = Some d' -> Forall2 (grel ops) (skipn d' (grun ops s g)) (skipn d g).
Proof.
  induction ops as [|o r IH]; intros s g d d' Hd.
  - simpl in *. injection Hd as <-. apply grel_refl.
  - rewrite depth_cons in Hd. destruct (depth [o] d) as [d1|] eqn:H1; [|discriminate].
    simpl grun. eapply Forall2_trans_rel.
    + apply IH. exact Hd.
    + apply gstep_rel. exact H1.
Qed.

Lemma grun_rel0 ops s g : balanced ops -> Forall2 (grel ops) (grun ops s g) g.
Proof. intros H. apply (grun_rel ops s g 0 0 H). Qed.

(* ------------------------------------------------------------------ the ball layer *)
Lemma ball_bind_at tc r v s : ball (bind_at tc r v s) = ball s.
Proof. unfold bind_at. destruct (nth r (heap s) (Some (VInt 0))); reflexivity. Qed.

Lemma ball_step s o : ball (step s o) = match o with BbPut k v => upd k (Some v) (ball s) | _ => ball s end.
Proof.
  destruct o; unfold step; simpl; auto using ball_bind_at.
  - destruct (root s a =? root s b); auto.
    destruct (nth (root s a) (heap s) (Some (VInt 0))); auto.
    destruct (nth (root s b) (heap s) (Some (VInt 0))); auto.
    destruct (root s a <? root s b); apply ball_bind_at.
  - destruct (nth k (loc s) None); auto. destruct (nth k (ball s) None); auto.
  - destruct (stack s); auto.
  - destruct (stack s); auto.
  - destruct (stack s); auto.
Qed.

Lemma ball_run_last k ops : forall s, k < length (ball s) ->
  nth k (ball (run ops s)) None = last_put k ops (nth k (ball s) None).
Proof.
  induction ops as [|o r IH]; intros s Hk; auto.
  rewrite run_cons.
  assert (Hlen : length (ball (step s o)) = length (ball s)).
  { rewrite ball_step. destruct o; auto. apply upd_length. }
  rewrite IH by lia. rewrite ball_step.
  destruct o; simpl; auto.
  destruct (Nat.eqb_spec k0 k) as [->|Hne].
  - rewrite nth_upd_same by exact Hk. reflexivity.
  - rewrite nth_upd_other by exact Hne. reflexivity.
Qed.

Lemma ball_run_noput k ops : forall s, has_put k ops = false ->
  nth k (ball (run ops s)) None = nth k (ball s) None.
Proof.
  induction ops as [|o r IH]; intros s H; auto.
  unfold has_put in *. simpl in H. apply orb_false_iff in H. destruct H as [H1 H2].
  rewrite run_cons, IH by exact H2. rewrite ball_step.
  destruct o; auto. simpl in H1. apply Nat.eqb_neq in H1. apply nth_upd_other. exact H1.
Qed.

Lemma ball_run_try ops : forall s, ball (run ops (step s Try)) = ball (run ops s).
Proof.
  induction ops as [|o r IH] using rev_ind; intros s; auto.
  rewrite !run_app.
  change (run [o] (run r (step s Try))) with (step (run r (step s Try)) o).
  change (run [o] (run r s)) with (step (run r s) o).
  rewrite !ball_step, IH. reflexivity.
Qed.

(* ------------------------------------------------------------------ the main statement *)
Definition after_failure (ops : list op) (s : state) : state := step (run ops (step s Try)) Trust.

Theorem undo_all s g ops :
  Inv s g -> balanced ops ->
  let s2 := after_failure ops s in
  heap s2 = heap s /\ trail s2 = trail s /\ stack s2 = stack s /\
  (forall k, has_put k ops = false -> nth k (loc s2) None = nth k (loc s) None) /\
  (forall k, has_bput k ops = false -> nth k (loc s) None = None -> nth k (loc s2) None = None) /\
  ball s2 = ball (run ops s) /\
  exists g', Inv s2 g' /\ map g_snap g' = map g_snap g.
Proof.
  intros HI Hb. unfold after_failure.
  set (gl0 := {| g_snap := s; g_puts := []; g_bputs := [] |}).
  pose proof (Inv_step s g Try HI) as H1. change (gstep s g Try) with (gl0 :: g) in H1.
  pose proof (grun_rel0 ops (step s Try) (gl0 :: g) Hb) as HR.
  pose proof (Inv_run ops _ _ H1) as H2.
  remember (grun ops (step s Try) (gl0 :: g)) as g2 eqn:Hg. clear Hg.
  destruct g2 as [|gl g2']; [inversion HR|].
  pose proof (Inv_step _ _ Trust H2) as HT. simpl gstep in HT.
  assert (Hrel : grel ops gl gl0) by (inversion HR; auto).
  assert (Hrest : Forall2 (grel ops) g2' g) by (inversion HR; auto). clear HR.
  destruct Hrel as (Hsn & Hpu & Hbp). simpl in Hsn, Hpu, Hbp.
  remember (run ops (step s Try)) as s1 eqn:Hs1.
  destruct (stack s1) as [|c st] eqn:Hst.
  { unfold Inv in H2. rewrite Hst in H2. simpl in H2. contradiction. }
  destruct (Inv_retry_top s1 c st gl g2' H2 Hst) as (R1 & R2 & R3 & R4 & R5).
  rewrite Hsn in *.
  assert (Hstep : step s1 Trust = set_stack (retry_state s1 c) st).
  { unfold step; simpl. rewrite Hst. reflexivity. }
  rewrite Hstep in *. simpl.
  split; [|split; [|split; [|split; [|split; [|split]]]]]; auto.
  - intros k Hk. apply R4. intros Hin. destruct (Hpu k Hin) as [[]|Hp]. congruence.
  - intros k Hk Hn. apply R5; auto. intros Hin. destruct (Hbp k Hin) as [[]|Hp]. congruence.
  - subst s1. apply ball_run_try.
  - exists g2'. split. { exact HT. }
    clear - Hrest. induction Hrest as [|a b l1 l2 Hab H IH]; simpl; auto.
    destruct Hab as (E & _). rewrite E, IH. reflexivity.
Qed.

(* ------------------------------------------------------------------ corollaries in the shape of the property *)
Lemma undo_restores_l s g ops a :
  Inv s g -> balanced ops -> nth a (heap (after_failure ops s)) None = nth a (heap s) None.
Proof. intros HI Hb. destruct (undo_all s g ops HI Hb) as (H & _). rewrite H. reflexivity. Qed.

Lemma young_cells_discarded_l s g ops :
  Inv s g -> balanced ops -> length (heap (after_failure ops s)) = length (heap s).
Proof. intros HI Hb. destruct (undo_all s g ops HI Hb) as (H & _). rewrite H. reflexivity. Qed.

Lemma bound_before_unchanged_l s g ops a v :
  Inv s g -> balanced ops -> nth a (heap s) None = Some v -> nth a (heap (after_failure ops s)) None = Some v.
Proof. intros HI Hb Hv. rewrite (undo_restores_l s g ops a HI Hb). exact Hv. Qed.

Lemma unbound_before_unbound_again_l s g ops a :
  Inv s g -> balanced ops -> nth a (heap s) None = None -> nth a (heap (after_failure ops s)) None = None.
Proof. intros HI Hb Hv. rewrite (undo_restores_l s g ops a HI Hb). exact Hv. Qed.

Lemma registers_restored_l s g ops :
  Inv s g -> balanced ops -> trail (after_failure ops s) = trail s /\ stack (after_failure ops s) = stack s.
Proof. intros HI Hb. destruct (undo_all s g ops HI Hb) as (_ & H1 & H2 & _). auto. Qed.

Lemma resolve_ext s s' : heap s = heap s' -> forall fuel a, resolve fuel s a = resolve fuel s' a.
Proof.
  intros H fuel. induction fuel as [|f IH]; intros a; simpl; auto.
  unfold root. rewrite H. destruct (nth _ (heap s') None) as [[n|b|g b]|]; auto. rewrite IH. reflexivity.
Qed.

Lemma observation_restored_l s g ops fuel a :
  Inv s g -> balanced ops -> resolve fuel (after_failure ops s) a = resolve fuel s a.
Proof. intros HI Hb. apply resolve_ext. destruct (undo_all s g ops HI Hb) as (H & _). exact H. Qed.

Lemma bb_b_put_reverts_l s g ops k :
  Inv s g -> balanced ops -> has_put k ops = false -> visible (after_failure ops s) k = visible s k.
Proof.
  intros HI Hb Hp. destruct (undo_all s g ops HI Hb) as (_ & _ & _ & H4 & _ & H6 & _).
  unfold visible. rewrite (H4 k Hp), H6, (ball_run_noput k ops s Hp). reflexivity.
Qed.

Lemma bb_put_persists_l s g ops k :
  Inv s g -> balanced ops -> k < length (ball s) -> nth k (loc s) None = None -> has_bput k ops = false ->
  visible (after_failure ops s) k = last_put k ops (nth k (ball s) None).
Proof.
  intros HI Hb Hk Hn Hp. destruct (undo_all s g ops HI Hb) as (_ & _ & _ & _ & H5 & H6 & _).
  unfold visible. rewrite (H5 k Hp Hn), H6. apply ball_run_last. exact Hk.
Qed.

Lemma bb_put_ball_persists_l s g ops :
  Inv s g -> balanced ops -> ball (after_failure ops s) = ball (run ops s).
Proof. intros HI Hb. destruct (undo_all s g ops HI Hb) as (_ & _ & _ & _ & _ & H6 & _). exact H6. Qed.

Lemma reachable_Inv ops0 s0 : stack s0 = [] -> Inv (run ops0 s0) (grun ops0 s0 []).
Proof. intros H. apply Inv_run. apply Inv_empty. exact H. Qed.

Lemma undo_restores_reachable_l ops0 s0 ops :
  stack s0 = [] -> balanced ops ->
  heap (after_failure ops (run ops0 s0)) = heap (run ops0 s0).
Proof.
  intros H Hb. destruct (undo_all _ _ ops (reachable_Inv ops0 s0 H) Hb) as (H1 & _). exact H1.
Qed.

(* failure after failure: the invariant survives, so the next enclosing choice point restores its own snapshot *)
Lemma failure_chain_l s g ops1 ops2 :
  Inv s g -> balanced ops1 -> balanced ops2 ->
  heap (after_failure ops2 (after_failure ops1 s)) = heap s.
Proof.
  intros HI H1 H2. destruct (undo_all s g ops1 HI H1) as (E1 & _ & _ & _ & _ & _ & g' & HI' & _).
  destruct (undo_all _ g' ops2 HI' H2) as (E2 & _). rewrite E2. exact E1.
Qed.
