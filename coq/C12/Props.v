(* C12 -- pinned property theorems (nothing else lives here) *)
From Coq Require Import ZArith NArith List Bool String.
From V Require Import Base.Term Engine.Sld Engine.SldProofs C12.Model C12.Proofs C07.Model.
Import ListNotations.
Open Scope N_scope.

(* catch/3 without an exception is transparent *)
Theorem catch_transparent_without_exception : forall ex g c r s k,
  (forall b p, snd (protected ex g s k) <> SExc b p) -> do_catch ex g c r s k = protected ex g s k.
Proof. exact catch_transparent. Qed.
Print Assumptions catch_transparent_without_exception.

(* innermost catch, bindings restored, recovery continues as if: the exception of the goal is handled here when the copy of the
   ball unifies with the catcher; the recovery goal starts from the substitution at the call of catch/3 (sub s) extended by that
   unification only, and continues with catch/3's own continuation *)
Theorem catch_restores_bindings_and_recovers : forall ex g c r s k b s',
  snd (protected ex g s k) = SExc b None ->
  unify ufuel (sub s) [(c, shift (ctr s + 1) b)] = UOk s' ->
  do_catch ex g c r s k = pre (fst (protected ex g s k)) (do_call ex r [] (mkst s' (ctr s + 1 + nvars b)) k).
Proof. exact catch_recovers. Qed.
Print Assumptions catch_restores_bindings_and_recovers.

Theorem rethrow_when_no_unify : forall ex g c r s k b,
  snd (protected ex g s k) = SExc b None ->
  unify ufuel (sub s) [(c, shift (ctr s + 1) b)] = UFail ->
  do_catch ex g c r s k = protected ex g s k.
Proof. exact catch_rethrows. Qed.
Print Assumptions rethrow_when_no_unify.

(* catch/3 is only active during the execution of its goal *)
Theorem catch_inactive_after_exit : forall ex g c r s k b,
  snd (protected ex g s k) = SExc b (Some (ctr s)) ->
  do_catch ex g c r s k = (fst (protected ex g s k), SExc b None).
Proof. exact catch_ignores_continuation_exceptions. Qed.
Print Assumptions catch_inactive_after_exit.

Theorem ball_is_copy : forall c t v, occurs v (shift c t) = true -> c <= v.
Proof. exact shift_vars_fresh. Qed.
Print Assumptions ball_is_copy.

Theorem throw_raises_instantiated_ball : forall b s, (forall v, apply (sub s) b <> Var v) ->
  do_throw b s = ([], SExc (apply (sub s) b) None).
Proof. exact throw_ball. Qed.
Print Assumptions throw_raises_instantiated_ball.

Theorem builtin_errors_have_error_shape : forall f, exists c, mkerr f = Cmp n_error [f; c].
Proof. exact mkerr_shape. Qed.
Print Assumptions builtin_errors_have_error_shape.

(* setup_call_cleanup/3, deterministic goal: exit, failure, exception -- one cleanup run each, partial: the cut / late-failure
   cases of non-deterministic goals are not modelled exactly (only that the cleanup entry occurs once) *)
Theorem scc_cleanup_once_on_exit_partial : forall ex st g c s k s2 s3 oc,
  snd (setup_out ex st s) = SCommit (ctr s) s2 -> det_syn (term_size g) g = true ->
  snd (goal_out ex g s2) = SCommit (ctr s2) s3 ->
  oc = run_cleanup ex c (fst (setup_out ex st s) ++ fst (goal_out ex g s2)) s3 SNorm -> snd oc = SNorm ->
  do_scc ex st g c s k = pre (fst oc) (k s3).
Proof. exact scc_det_exit. Qed.
Print Assumptions scc_cleanup_once_on_exit_partial.

Theorem scc_cleanup_once_on_failure_partial : forall ex st g c s k s2,
  snd (setup_out ex st s) = SCommit (ctr s) s2 -> det_syn (term_size g) g = true ->
  snd (goal_out ex g s2) = SNorm ->
  do_scc ex st g c s k = run_cleanup ex c (fst (setup_out ex st s) ++ fst (goal_out ex g s2)) s2 SNorm.
Proof. exact scc_det_fail. Qed.
Print Assumptions scc_cleanup_once_on_failure_partial.

Theorem scc_cleanup_once_on_exception_partial : forall ex st g c s k s2 b p,
  snd (setup_out ex st s) = SCommit (ctr s) s2 -> det_syn (term_size g) g = true ->
  snd (goal_out ex g s2) = SExc b p ->
  do_scc ex st g c s k = run_cleanup ex c (fst (setup_out ex st s) ++ fst (goal_out ex g s2)) s2 (SExc b p).
Proof. exact scc_det_exception. Qed.
Print Assumptions scc_cleanup_once_on_exception_partial.

Theorem cleanup_runs_once_and_keeps_signal : forall ex c ev sc sg,
  (forall r, snd (do_call ex c [] (bump sc) (commit_k (ctr sc))) <> SAbort r) ->
  run_cleanup ex c ev sc sg = (ev ++ fst (do_call ex c [] (bump sc) (commit_k (ctr sc))), sg).
Proof. exact run_cleanup_once. Qed.
Print Assumptions cleanup_runs_once_and_keeps_signal.

(* non-vacuity *)
Local Open Scope string_scope.
(* catch(( p(X), log(X), X > 1, throw(b(X,Z)) ), b(Y,W), log(caught)):  X is unbound again in the answer, Y = 2, the log survives *)
Example ex_catch :
  solve 30 ex_facts
    (cm "catch" [cm "," [cm "p" [Var 0]; cm "," [cm "log" [Var 0]; cm "," [cm ">" [Var 0; Int 1]; cm "throw" [cm "b" [Var 0; Var 2]]]]];
                 cm "b" [Var 1; Var 3]; cm "log" [at_ "caught"]])
    (cm "a" [Var 0; Var 1])
  = Done [cm "a" [Var 0; Int 2]] None [Int 1; Int 2; at_ "caught"].
Proof. vm_compute. reflexivity. Qed.
(* inner catcher does not match, outer does *)
Example ex_nested :
  solve 30 ex_facts
    (cm "catch" [cm "catch" [cm "throw" [at_ "x"]; at_ "y"; cm "log" [at_ "inner"]]; Var 0; cm "log" [at_ "outer"]]) (Var 0)
  = Done [at_ "x"] None [at_ "outer"].
Proof. vm_compute. reflexivity. Qed.
(* an exception after the exit of catch/3 is not caught by it *)
Example ex_after_exit :
  solve 30 ex_facts (cm "," [cm "catch" [cm "p" [Var 0]; Var 1; at_ "true"]; cm "throw" [at_ "late"]]) (Var 0)
  = Done [] (Some (at_ "late")) [].
Proof. vm_compute. reflexivity. Qed.
Example ex_scc :
  solve 30 ex_facts (cm "setup_call_cleanup" [cm "log" [at_ "s"]; cm "throw" [at_ "x"]; cm "log" [at_ "cl1"]]) (at_ "t")
  = Done [] (Some (at_ "x")) [at_ "s"; at_ "cl1"].
Proof. vm_compute. reflexivity. Qed.
