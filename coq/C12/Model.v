(* C12 -- exceptions: the model is catch/3, throw/1 and the restricted setup_call_cleanup/3 of Engine/Sld.v.
   This file adds the comparison used by the correspondence: cleanup log entries (atoms cl<N>) of non-deterministic
   setup_call_cleanup goals are compared as a multiset, everything else exactly. *)
From Coq Require Import ZArith NArith List Bool.
From V Require Export Base.Term Engine.Sld.
Import ListNotations.
Open Scope N_scope.

Definition is_cl (t : term) : bool :=
  match t with
  | Atom (99 :: 108 :: _) => true        (* cl... *)
  | _ => false
  end.

(* every setup_call_cleanup goal in the term is syntactically deterministic (then the model's cleanup timing is exact) *)
Fixpoint scc_all_det (t : term) : bool :=
  match t with
  | Cmp f args =>
      (match args with
       | [_; g; _] => if name_eqb f n_scc then det_syn (term_size g) g else true
       | _ => true
       end) && forallb scc_all_det args
  | _ => true
  end.

Definition prog_scc_all_det (p : program) (q : term) : bool :=
  scc_all_det q && forallb (fun c => scc_all_det (snd c)) p.

Definition log_eq_modulo_cleanup (l1 l2 : list term) : bool :=
  terms_eqb (filter (fun t => negb (is_cl t)) l1) (filter (fun t => negb (is_cl t)) l2) &&
  terms_eqb (sort_by (fun t => t) (filter is_cl l1)) (sort_by (fun t => t) (filter is_cl l2)).

(* codes as Sld.check_run, plus 6 = equal except for the position of cleanup entries of non-deterministic scc goals *)
Definition check_c12 (n : nat) (prog : program) (q tmpl : term) (cap : nat)
           (answers : list term) (ball : option term) (log : list term) : N :=
  match solve n prog q tmpl with
  | NoFuel => 2
  | Stuck _ => 3
  | Prefix a l => if is_prefix (map normt a) answers && is_prefix (filter (fun t => negb (is_cl t)) (map normt l)) (filter (fun t => negb (is_cl t)) log) then 5 else 1
  | Done a b l =>
      if Nat.ltb cap (List.length a) then 4
      else if terms_eqb (map normt a) answers && oball_eqb (option_map normt b) ball then
             if terms_eqb (map normt l) log then 0
             else if negb (prog_scc_all_det prog q) && log_eq_modulo_cleanup (map normt l) log then 6 else 1
           else 1
  end.
