From Coq Require Import ZArith NArith List Bool Lia.
From V Require Import Base.Term Engine.Sld Engine.SldProofs C12.Model.
Import ListNotations.
Open Scope N_scope.

Definition t_catch (g c r : term) : term := Cmp n_catch [g; c; r].
Definition t_throw (b : term) : term := Cmp n_throw [b].

Lemma exec_catch : forall n prog g c r cb s k,
  exec (S n) prog (t_catch g c r) cb s k = do_catch (exec n prog) g c r s k.
Proof. reflexivity. Qed.

Lemma exec_throw : forall n prog b cb s k,
  exec (S n) prog (t_throw b) cb s k = do_throw b s.
Proof. reflexivity. Qed.

(* the outcome of the protected goal: its continuation is the catch's continuation, tagged *)
Definition protected (ex : exec_t) (g : term) (s : bst) (k : kont) : outcome :=
  do_call ex g [] (bump s) (fun s' => tag (ctr s) (k s')).

(* no exception: catch/3 is transparent (same events, same signal) *)
Lemma catch_transparent : forall ex g c r s k,
  (forall b p, snd (protected ex g s k) <> SExc b p) ->
  do_catch ex g c r s k = protected ex g s k.
Proof.
  intros ex g c r s k H. unfold do_catch. fold (protected ex g s k).
  destruct (snd (protected ex g s k)) as [| | | b p |] eqn:E; try reflexivity.
  exfalso. apply (H b p). reflexivity.
Qed.

(* an exception raised inside the goal whose fresh copy unifies with the catcher: the recovery runs in the substitution
   of the call of catch/3 extended by that unification only (bindings of the goal are undone), with the catch's own
   (untagged) continuation: execution continues as if catch/3 had been call(Recovery) *)
Lemma catch_recovers : forall ex g c r s k b s',
  snd (protected ex g s k) = SExc b None ->
  unify ufuel (sub s) [(c, shift (ctr s + 1) b)] = UOk s' ->
  do_catch ex g c r s k =
    pre (fst (protected ex g s k)) (do_call ex r [] (mkst s' (ctr s + 1 + nvars b)) k).
Proof.
  intros ex g c r s k b s' H Hu. unfold do_catch. fold (protected ex g s k). rewrite H.
  cbn [bump ctr sub]. rewrite Hu. reflexivity.
Qed.

(* the catcher does not unify: the exception travels on unchanged (to the next enclosing catch/3) *)
Lemma catch_rethrows : forall ex g c r s k b,
  snd (protected ex g s k) = SExc b None ->
  unify ufuel (sub s) [(c, shift (ctr s + 1) b)] = UFail ->
  do_catch ex g c r s k = protected ex g s k.
Proof.
  intros ex g c r s k b H Hu. unfold do_catch. fold (protected ex g s k). rewrite H.
  cbn [bump ctr sub]. rewrite Hu. reflexivity.
Qed.

(* an exception raised by the continuation (after the goal has exited) is not handled by this catch/3 *)
Lemma catch_ignores_continuation_exceptions : forall ex g c r s k b,
  snd (protected ex g s k) = SExc b (Some (ctr s)) ->
  do_catch ex g c r s k = (fst (protected ex g s k), SExc b None).
Proof.
  intros ex g c r s k b H. unfold do_catch. fold (protected ex g s k). rewrite H.
  rewrite N.eqb_refl. reflexivity.
Qed.

Lemma tag_exception : forall id ev b, tag id (ev, SExc b None) = (ev, SExc b (Some id)).
Proof. reflexivity. Qed.

(* the ball handed to the catcher is a copy: all its variables are fresh (>= the counter at the catch) *)
Lemma shift_vars_fresh : forall c t v, occurs v (shift c t) = true -> c <= v.
Proof.
  intros c t v. induction t using term_ind'; cbn [shift occurs]; try discriminate.
  - intros H. apply N.eqb_eq in H. lia.
  - intros Hex. rewrite existsb_exists in Hex. destruct Hex as [x [Hin Hx]].
    rewrite in_map_iff in Hin. destruct Hin as [y [Hy Hin]]. subst x.
    rewrite Forall_forall in H. apply (H y Hin). exact Hx.
Qed.

(* throw/1: the ball is the argument as instantiated at the time of the throw; an unbound ball is an instantiation error *)
Lemma throw_ball : forall b s, (forall v, apply (sub s) b <> Var v) -> do_throw b s = ([], SExc (apply (sub s) b) None).
Proof.
  intros b s H. unfold do_throw. destruct (apply (sub s) b) eqn:E; try reflexivity.
  exfalso. apply (H v). reflexivity.
Qed.

Lemma throw_unbound : forall b s v, apply (sub s) b = Var v -> do_throw b s = ([], SExc (mkerr inst_error) None).
Proof. intros b s v H. unfold do_throw. rewrite H. reflexivity. Qed.

(* every error term the interpreter's builtins raise is error(Formal, Context) *)
Lemma mkerr_shape : forall f, exists c, mkerr f = Cmp n_error [f; c].
Proof. intros f. eexists. reflexivity. Qed.

(* ---- setup_call_cleanup/3 (restricted model): the cleanup runs exactly once in each outcome of a deterministic goal *)
Definition setup_out (ex : exec_t) (st : term) (s : bst) : outcome := do_call ex st [] (bump s) (commit_k (ctr s)).
Definition goal_out (ex : exec_t) (g : term) (s2 : bst) : outcome := do_call ex g [] (bump s2) (commit_k (ctr s2)).

Lemma scc_det_exit : forall ex st g c s k s2 s3 oc,
  snd (setup_out ex st s) = SCommit (ctr s) s2 ->
  det_syn (term_size g) g = true ->
  snd (goal_out ex g s2) = SCommit (ctr s2) s3 ->
  oc = run_cleanup ex c (fst (setup_out ex st s) ++ fst (goal_out ex g s2)) s3 SNorm ->
  snd oc = SNorm ->
  do_scc ex st g c s k = pre (fst oc) (k s3).
Proof.
  intros ex st g c s k s2 s3 oc Hs Hd Hg Hoc Hn. unfold do_scc. fold (setup_out ex st s). rewrite Hs.
  rewrite N.eqb_refl. cbn [negb]. rewrite Hd. fold (goal_out ex g s2). rewrite Hg. rewrite N.eqb_refl. cbn [negb].
  rewrite <- Hoc. rewrite Hn. reflexivity.
Qed.

Lemma scc_det_fail : forall ex st g c s k s2,
  snd (setup_out ex st s) = SCommit (ctr s) s2 ->
  det_syn (term_size g) g = true ->
  snd (goal_out ex g s2) = SNorm ->
  do_scc ex st g c s k = run_cleanup ex c (fst (setup_out ex st s) ++ fst (goal_out ex g s2)) s2 SNorm.
Proof.
  intros ex st g c s k s2 Hs Hd Hg. unfold do_scc. fold (setup_out ex st s). rewrite Hs.
  rewrite N.eqb_refl. cbn [negb]. rewrite Hd. fold (goal_out ex g s2). rewrite Hg. reflexivity.
Qed.

Lemma scc_det_exception : forall ex st g c s k s2 b p,
  snd (setup_out ex st s) = SCommit (ctr s) s2 ->
  det_syn (term_size g) g = true ->
  snd (goal_out ex g s2) = SExc b p ->
  do_scc ex st g c s k = run_cleanup ex c (fst (setup_out ex st s) ++ fst (goal_out ex g s2)) s2 (SExc b p).
Proof.
  intros ex st g c s k s2 b p Hs Hd Hg. unfold do_scc. fold (setup_out ex st s). rewrite Hs.
  rewrite N.eqb_refl. cbn [negb]. rewrite Hd. fold (goal_out ex g s2). rewrite Hg. reflexivity.
Qed.

(* run_cleanup keeps the pending signal and appends the events of exactly one run of once(Cleanup) *)
Lemma run_cleanup_once : forall ex c ev sc sg,
  (forall r, snd (do_call ex c [] (bump sc) (commit_k (ctr sc))) <> SAbort r) ->
  run_cleanup ex c ev sc sg = (ev ++ fst (do_call ex c [] (bump sc) (commit_k (ctr sc))), sg).
Proof.
  intros ex c ev sc sg H. unfold run_cleanup.
  destruct (snd (do_call ex c [] (bump sc) (commit_k (ctr sc)))) eqn:E; try reflexivity.
  exfalso. apply (H r). reflexivity.
Qed.

(* Setup fails: neither Goal nor Cleanup run *)
Lemma scc_setup_fails : forall ex st g c s k,
  snd (setup_out ex st s) = SNorm -> do_scc ex st g c s k = setup_out ex st s.
Proof. intros ex st g c s k H. unfold do_scc. fold (setup_out ex st s). rewrite H. reflexivity. Qed.
