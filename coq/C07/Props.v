(* C07 -- pinned property theorems about the reference interpreter (nothing else lives here) *)
From Coq Require Import ZArith NArith List Bool String.
From V Require Import Base.Term Engine.Sld Engine.SldProofs Engine.SldRel Engine.SldRelProofs C07.Model.
Import ListNotations.
Open Scope N_scope.

(* A run that completes gives the same answers, exception and log with any larger fuel:
   running out of fuel is the only way fuel can influence a result. *)
Theorem solve_fuel_mono : forall prog q tmpl n a b l, solve n prog q tmpl = Done a b l ->
  forall m, (n <= m)%nat -> solve m prog q tmpl = Done a b l.
Proof. intros prog q tmpl n a b l H m Hle. exact (solve_done_mono prog q tmpl n m a b l Hle H). Qed.
Print Assumptions solve_fuel_mono.

Theorem solve_fuel_mono_any : forall prog q tmpl n m, (n <= m)%nat ->
  solve n prog q tmpl <> NoFuel -> solve m prog q tmpl = solve n prog q tmpl.
Proof. exact solve_fuel_mono_lemma. Qed.
Print Assumptions solve_fuel_mono_any.

(* the interpreter itself (every goal, cut barrier, state and continuation) is monotone in the fuel *)
Theorem exec_fuel_mono : forall prog n m, (n <= m)%nat -> exle (exec n prog) (exec m prog).
Proof. exact exec_mono. Qed.
Print Assumptions exec_fuel_mono.

(* ISO control constructs as equations of the interpreter *)
Theorem conj_law : forall n prog a b cb s k,
  exec (S n) prog (t_conj a b) cb s k = exec n prog a cb s (fun s' => exec n prog b cb s' k).
Proof. exact SldProofs.conj_law. Qed.
Print Assumptions conj_law.

Theorem true_conj_law : forall n prog g tmpl,
  solve (S (S n)) prog (t_conj t_true g) tmpl = solve (S n) prog g tmpl.
Proof. exact solve_true_conj. Qed.
Print Assumptions true_conj_law.

Theorem disj_law : forall n prog a b cb s k, is_arrow a = None ->
  exec (S n) prog (t_disj a b) cb s k = seq (exec n prog a cb s k) (fun _ => exec n prog b cb s k).
Proof. exact SldProofs.disj_law. Qed.
Print Assumptions disj_law.

(* answers (G1 ; G2) = answers G1 ++ answers G2 when the run of G1 ends normally (no pending cut, no exception) *)
Theorem disj_answers_law : forall c n prog a b tmpl, is_arrow a = None ->
  snd (run c n prog a tmpl) = SNorm ->
  answers_of (fst (run c (S n) prog (t_disj a b) tmpl)) =
    answers_of (fst (run c n prog a tmpl)) ++ answers_of (fst (run c n prog b tmpl))
  /\ log_of (fst (run c (S n) prog (t_disj a b) tmpl)) =
    log_of (fst (run c n prog a tmpl)) ++ log_of (fst (run c n prog b tmpl))
  /\ snd (run c (S n) prog (t_disj a b) tmpl) = snd (run c n prog b tmpl).
Proof. exact SldProofs.disj_answers_law. Qed.
Print Assumptions disj_answers_law.

Theorem fail_disj_law : forall n prog g cb s k,
  exec (S (S n)) prog (t_disj t_fail g) cb s k = exec (S n) prog g cb s k.
Proof. exact SldProofs.fail_disj_law. Qed.
Print Assumptions fail_disj_law.

Theorem ite_then_law : forall n prog c t e cb s k s',
  snd (exec n prog c (ctr s) (bump s) (commit_k (ctr s))) = SCommit (ctr s) s' ->
  exec (S n) prog (t_ite c t e) cb s k =
    pre (fst (exec n prog c (ctr s) (bump s) (commit_k (ctr s)))) (exec n prog t cb s' k).
Proof. exact SldProofs.ite_then_law. Qed.
Print Assumptions ite_then_law.

Theorem ite_else_law : forall n prog c t e cb s k,
  snd (exec n prog c (ctr s) (bump s) (commit_k (ctr s))) = SNorm ->
  exec (S n) prog (t_ite c t e) cb s k =
    pre (fst (exec n prog c (ctr s) (bump s) (commit_k (ctr s)))) (exec n prog e cb (bump s) k).
Proof. exact SldProofs.ite_else_law. Qed.
Print Assumptions ite_else_law.

Theorem ite_cond_cut_local_law : forall n prog c t e cb s k,
  snd (exec n prog c (ctr s) (bump s) (commit_k (ctr s))) = SCut (ctr s) ->
  exec (S n) prog (t_ite c t e) cb s k =
    pre (fst (exec n prog c (ctr s) (bump s) (commit_k (ctr s)))) (exec n prog e cb (bump s) k).
Proof. exact SldProofs.ite_cond_cut_local_law. Qed.
Print Assumptions ite_cond_cut_local_law.

Theorem naf_succeeds_law : forall n prog g cb s k,
  snd (do_call (exec n prog) g [] (bump s) (commit_k (ctr s))) = SNorm ->
  exec (S n) prog (t_naf g) cb s k =
    pre (fst (do_call (exec n prog) g [] (bump s) (commit_k (ctr s)))) (k (bump s)).
Proof. exact SldProofs.naf_succeeds_law. Qed.
Print Assumptions naf_succeeds_law.

Theorem naf_fails_law : forall n prog g cb s k s',
  snd (do_call (exec n prog) g [] (bump s) (commit_k (ctr s))) = SCommit (ctr s) s' ->
  exec (S n) prog (t_naf g) cb s k = (fst (do_call (exec n prog) g [] (bump s) (commit_k (ctr s))), SNorm).
Proof. exact SldProofs.naf_fails_law. Qed.
Print Assumptions naf_fails_law.

Theorem cut_law : forall n prog cb s k, snd (k s) = SNorm ->
  exec (S n) prog t_cut cb s k = (fst (k s), SCut cb).
Proof. exact SldProofs.cut_law. Qed.
Print Assumptions cut_law.

Theorem clause_cut_law : forall ex c rest args id s k s' o,
  unify ufuel (sub s) (zip_terms (map (shift (ctr s)) (head_args (fst c))) args) = UOk s' ->
  o = ex (shift (ctr s) (snd c)) id (mkst s' (ctr s + clause_nvars c)) k ->
  snd o = SCut id ->
  try_clauses ex (c :: rest) args id s k = (fst o, SNorm).
Proof. exact SldProofs.clause_cut_law. Qed.
Print Assumptions clause_cut_law.

Theorem call_opaque_law : forall ex g extra s k id,
  snd (do_call ex g extra s k) = SCut id -> id <> ctr s.
Proof. exact SldProofs.call_opaque_law. Qed.
Print Assumptions call_opaque_law.

Theorem once_first_law : forall n prog g cb s k s',
  snd (exec (S n) prog g (ctr s) (bump s) (commit_k (ctr s))) = SCommit (ctr s) s' ->
  exec (S (S n)) prog (t_once g) cb s k =
    pre (fst (exec (S n) prog g (ctr s) (bump s) (commit_k (ctr s)))) (k s').
Proof. exact SldProofs.once_first_law. Qed.
Print Assumptions once_first_law.

(* non-vacuity: concrete runs *)
Local Open Scope string_scope.
Example ex_answers : solve 20 ex_facts (cm "p" [Var 0]) (Var 0) = Done [Int 1; Int 2; Int 3] None [].
Proof. vm_compute. reflexivity. Qed.
(* the cut in the condition of an if-then-else is local: c1(X) has the answers a and c *)
Example ex_ite_cut_local : solve 20 ex_cut (cm "c1" [Var 0]) (Var 0) = Done [at_ "a"; at_ "c"] None [].
Proof. vm_compute. reflexivity. Qed.
Example ex_clause_cut : solve 20 ex_cut (cm "r" [Var 0]) (Var 0) = Done [Int 1] None [].
Proof. vm_compute. reflexivity. Qed.
Example ex_nofuel : solve 2 ex_cut (cm "r" [Var 0]) (Var 0) = NoFuel.
Proof. vm_compute. reflexivity. Qed.
Example ex_naf : solve 20 ex_facts (cm "\+" [cm "p" [Int 4]]) (at_ "yes") = Done [at_ "yes"] None [].
Proof. vm_compute. reflexivity. Qed.
Example ex_disj_hyp : snd (run 1 20 ex_facts (cm "p" [Var 0]) (Var 0)) = SNorm /\ is_arrow (cm "p" [Var 0]) = None.
Proof. vm_compute. auto. Qed.

(* ===================================================================================================================
   The interpreter against an INDUCTIVE derivation semantics (Engine/SldRel.v: answers_rel prog g s l = "goal g started in
   state s has exactly the answer states l, in this order and multiplicity", textbook depth-first left-to-right resolution
   stated without fuel, continuations, signals or cut barriers).
   FRAGMENT of all theorems below (pure_goal / pure_prog): true, fail, false, (A , B), (A ; B), A = B and calls of user
   predicates (names not reserved by the interpreter's ftable) -- no cut, if-then-else, \+, call/N inside, no other
   builtins, no exceptions (a predicate without clauses has no derivation).  The relation uses the interpreter's unification
   function and its renaming-apart convention (fresh-name counter in the state), so the statements are exact equalities of
   answer lists. *)

(* soundness: a completed exception-free run returns a derivable answer list (order and multiplicity included), and no log *)
Theorem sld_sound : forall prog q tmpl n a lg, pure_prog prog -> pure_goal q ->
  solve n prog q tmpl = Done a None lg ->
  exists l, answers_rel prog q (init_state q tmpl) l /\ a = map (inst tmpl) l /\ lg = [].
Proof. exact sld_sound_lemma. Qed.
Print Assumptions sld_sound.

(* completeness for terminating derivations: a derivation of the whole answer list gives a fuel from which on solve returns it
   (no purity hypothesis is needed: the relation only has rules for the pure fragment) *)
Theorem sld_complete : forall prog q tmpl l, answers_rel prog q (init_state q tmpl) l ->
  exists n, forall m, (n <= m)%nat -> solve m prog q tmpl = Done (map (inst tmpl) l) None [].
Proof. exact sld_complete_lemma. Qed.
Print Assumptions sld_complete.

Theorem sld_sound_complete : forall prog q tmpl a lg, pure_prog prog -> pure_goal q ->
  ((exists n, solve n prog q tmpl = Done a None lg) <->
   (exists l, answers_rel prog q (init_state q tmpl) l /\ a = map (inst tmpl) l /\ lg = [])).
Proof. exact sld_sound_complete_lemma. Qed.
Print Assumptions sld_sound_complete.

(* the same inside any context: under ANY continuation k that returns no cut / commit signal for a frame younger than the
   state (all continuations the interpreter builds), running g is running k over the derivable answer list, in order,
   stopping at the first continuation call that does not end normally *)
Theorem exec_complete_any_continuation : forall prog g s l, answers_rel prog g s l ->
  exists n, forall m, (n <= m)%nat -> forall cb k c, c <= ctr s -> ksafe_on c k l ->
    exec m prog g cb s k = run_list k l.
Proof. exact rel_exec. Qed.
Print Assumptions exec_complete_any_continuation.

Theorem exec_sound_nice_continuation : forall prog, pure_prog prog -> forall n g cb s k, pure_goal g -> knice k ->
  sound_at (exec n prog g cb s k) (answers_rel prog g s) k.
Proof. exact exec_sound_all. Qed.
Print Assumptions exec_sound_nice_continuation.

(* the relation is a partial function of (goal, state): the ordered answer list is unique *)
Theorem answers_rel_functional : forall prog g s l l', answers_rel prog g s l -> answers_rel prog g s l' -> l = l'.
Proof. exact answers_functional. Qed.
Print Assumptions answers_rel_functional.

(* call/1 of a pure goal, exact form (both directions, any state, relative to the relation): call(G) in state s runs the
   instantiated goal G.sub(s) from the state whose fresh-name counter is one higher (the frame id call/1 takes) *)
Theorem call_pure_rel_complete : forall prog g s l, pure_goal g ->
  answers_rel prog (apply (sub s) g) (bump s) l ->
  exists n, forall m, (n <= m)%nat -> forall cb k c, c <= ctr s -> ksafe_on c k l ->
    exec m prog (t_call g) cb s k = run_list k l.
Proof. exact call_pure_complete. Qed.
Print Assumptions call_pure_rel_complete.

Theorem call_pure_rel_sound : forall prog n g cb s k, pure_prog prog -> pure_goal g -> knice k ->
  sound_at (exec n prog (t_call g) cb s k) (answers_rel prog (apply (sub s) g) (bump s)) k.
Proof. exact call_pure_sound. Qed.
Print Assumptions call_pure_rel_sound.

Theorem call_body_rel : forall prog g tmpl a lg, pure_prog prog -> pure_goal g ->
  ((exists n, solve n prog (t_call g) tmpl = Done a None lg) <->
   (exists l, answers_rel prog g (bump (init_state g tmpl)) l /\ a = map (inst tmpl) l /\ lg = [])).
Proof. exact call_body_rel_lemma. Qed.
Print Assumptions call_body_rel.

(* call(G) and G have the same answers.  PARTIAL: proved (1) only in the direction G ==> call(G) (if the query G completes
   with answers a, then the query call(G) completes with the same number of answers in the same order, each the
   corresponding answer of G with the fresh variables -- those numbered above the variables of G and the template --
   renamed v -> v+1, hence a variant; ground answers are identical); (2) only for top-level queries (empty substitution).
   MISSING: the converse direction (termination of call(G) implies termination of G: needs the inverse renaming, which is
   not injective on all of N), and call(G) inside a clause body, where in addition the goal is instantiated by the current
   substitution before it is run (needs: running G.sigma under sigma = running G under sigma, a property of `unify`
   over idempotent substitutions that is not proved here).  For those cases only call_pure_rel_* / call_body_rel hold. *)
Theorem call_body_equiv_partial : forall prog g tmpl n a lg, pure_prog prog -> pure_goal g ->
  solve n prog g tmpl = Done a None lg ->
  exists n', solve n' prog (t_call g) tmpl =
             Done (map (rename (up_from (N.max (nvars g) (nvars tmpl) + 1))) a) None [].
Proof. exact call_body_equiv_lemma. Qed.
Print Assumptions call_body_equiv_partial.

Theorem call_body_variants_partial : forall prog g tmpl n a lg, pure_prog prog -> pure_goal g ->
  solve n prog g tmpl = Done a None lg ->
  exists n' a', solve n' prog (t_call g) tmpl = Done a' None [] /\ map canon a' = map canon a.
Proof. exact call_body_variants_lemma. Qed.
Print Assumptions call_body_variants_partial.

(* the derivation relation is invariant under moving the fresh variables up by one (used for call/1) *)
Theorem answers_rel_equivariant : forall prog b g s l, answers_rel prog g s l -> b <= ctr s ->
  answers_rel prog (rename (up_from b) g) (rst b s) (map (rst b) l).
Proof. intros prog b. exact (proj1 (answers_rename prog b)). Qed.
Print Assumptions answers_rel_equivariant.

(* derived forms over a PURE condition (Then / Else / continuation arbitrary, any goals):
   ( C -> T ; E ) commits to the FIRST derivable answer of C or runs E when C has none; once(G) likewise;
   \+ G succeeds once without bindings iff the instantiated G has no derivable answer *)
Theorem ite_pure_cond : forall prog c t e s l, answers_rel prog c (bump s) l ->
  exists n, forall m, (n <= m)%nat -> forall cb k,
    exec (S m) prog (t_ite c t e) cb s k =
      match l with [] => exec m prog e cb (bump s) k | s1 :: _ => exec m prog t cb s1 k end.
Proof. exact ite_pure_lemma. Qed.
Print Assumptions ite_pure_cond.

Theorem once_pure : forall prog g s l, answers_rel prog g (bump s) l ->
  exists n, forall m, (n <= m)%nat -> forall cb k,
    exec (S m) prog (t_once g) cb s k = match l with [] => ([], SNorm) | s1 :: _ => k s1 end.
Proof. exact once_pure_lemma. Qed.
Print Assumptions once_pure.

Theorem naf_pure : forall prog g s l, pure_goal g ->
  answers_rel prog (apply (sub s) g) (bump (bump s)) l ->
  exists n, forall m, (n <= m)%nat -> forall cb k,
    exec (S m) prog (t_naf g) cb s k = match l with [] => k (bump s) | _ :: _ => ([], SNorm) end.
Proof. exact naf_pure_lemma. Qed.
Print Assumptions naf_pure.

(* non-vacuity of the new theorems: a pure program and query (the hypotheses hold), a derivation exists, and it is the one
   the interpreter finds; the query with two solutions per solution shows order and multiplicity *)
Example ex_pure_prog : pure_prog ex_facts.
Proof. repeat constructor. Qed.
Example ex_pure_goal : pure_goal (cm "," [cm "p" [Var 0]; cm ";" [cm "=" [Var 1; Var 0]; cm "p" [Var 1]]]).
Proof.
  apply PConj; [eapply PUser; vm_compute; reflexivity |].
  apply PDisj; [apply PUnify | eapply PUser; vm_compute; reflexivity].
Qed.
Example ex_rel_answers : exists l,
  answers_rel ex_facts (cm "," [cm "p" [Var 0]; cm ";" [cm "=" [Var 1; Var 0]; cm "p" [Var 1]]])
              (init_state (cm "," [cm "p" [Var 0]; cm ";" [cm "=" [Var 1; Var 0]; cm "p" [Var 1]]]) (cm "a" [Var 0; Var 1])) l
  /\ map (inst (cm "a" [Var 0; Var 1])) l =
     [cm "a" [Int 1; Int 1]; cm "a" [Int 1; Int 1]; cm "a" [Int 1; Int 2]; cm "a" [Int 1; Int 3];
      cm "a" [Int 2; Int 2]; cm "a" [Int 2; Int 1]; cm "a" [Int 2; Int 2]; cm "a" [Int 2; Int 3];
      cm "a" [Int 3; Int 3]; cm "a" [Int 3; Int 1]; cm "a" [Int 3; Int 2]; cm "a" [Int 3; Int 3]].
Proof.
  destruct (sld_sound ex_facts (cm "," [cm "p" [Var 0]; cm ";" [cm "=" [Var 1; Var 0]; cm "p" [Var 1]]]) (cm "a" [Var 0; Var 1]) 20
              [cm "a" [Int 1; Int 1]; cm "a" [Int 1; Int 1]; cm "a" [Int 1; Int 2]; cm "a" [Int 1; Int 3];
               cm "a" [Int 2; Int 2]; cm "a" [Int 2; Int 1]; cm "a" [Int 2; Int 2]; cm "a" [Int 2; Int 3];
               cm "a" [Int 3; Int 3]; cm "a" [Int 3; Int 1]; cm "a" [Int 3; Int 2]; cm "a" [Int 3; Int 3]] []
              ex_pure_prog ex_pure_goal) as (l & Hr & Ha & _).
  - vm_compute. reflexivity.
  - exists l. split; [exact Hr | symmetry; exact Ha].
Qed.
Example ex_call_same : solve 20 ex_facts (cm "call" [cm "p" [Var 0]]) (Var 0) = Done [Int 1; Int 2; Int 3] None [].
Proof. vm_compute. reflexivity. Qed.
