(* C07 -- pinned property theorems about the reference interpreter (nothing else lives here) *)
From Coq Require Import ZArith NArith List Bool String.
From V Require Import Base.Term Engine.Sld Engine.SldProofs C07.Model.
Import ListNotations.
Open Scope N_scope.

(* A run that completes gives the same answers, exception and log with any larger fuel:
   running out of fuel is the only way fuel can influence a result. *)
Theorem solve_fuel_mono : forall prog q tmpl n a b l, solve n prog q tmpl = Done a b l ->
  forall m, (n <= m)%nat -> solve m prog q tmpl = Done a b l.
Proof. intros prog q tmpl n a b l H m Hle. exact (solve_done_mono prog q tmpl n m a b l Hle H). Qed.
Print Assumptions solve_fuel_mono.

Theorem solve_fuel_mono_any : forall prog q tmpl n m, (n <= m)%nat ->
  solve n prog q tmpl <> NoFuel -> solve m prog q tmpl = solve n prog q tmpl.
Proof. exact solve_fuel_mono_lemma. Qed.
Print Assumptions solve_fuel_mono_any.

(* the interpreter itself (every goal, cut barrier, state and continuation) is monotone in the fuel *)
Theorem exec_fuel_mono : forall prog n m, (n <= m)%nat -> exle (exec n prog) (exec m prog).
Proof. exact exec_mono. Qed.
Print Assumptions exec_fuel_mono.

(* ISO control constructs as equations of the interpreter *)
Theorem conj_law : forall n prog a b cb s k,
  exec (S n) prog (t_conj a b) cb s k = exec n prog a cb s (fun s' => exec n prog b cb s' k).
Proof. exact SldProofs.conj_law. Qed.
Print Assumptions conj_law.

Theorem true_conj_law : forall n prog g tmpl,
  solve (S (S n)) prog (t_conj t_true g) tmpl = solve (S n) prog g tmpl.
Proof. exact solve_true_conj. Qed.
Print Assumptions true_conj_law.

Theorem disj_law : forall n prog a b cb s k, is_arrow a = None ->
  exec (S n) prog (t_disj a b) cb s k = seq (exec n prog a cb s k) (fun _ => exec n prog b cb s k).
Proof. exact SldProofs.disj_law. Qed.
Print Assumptions disj_law.

(* answers (G1 ; G2) = answers G1 ++ answers G2 when the run of G1 ends normally (no pending cut, no exception) *)
Theorem disj_answers_law : forall c n prog a b tmpl, is_arrow a = None ->
  snd (run c n prog a tmpl) = SNorm ->
  answers_of (fst (run c (S n) prog (t_disj a b) tmpl)) =
    answers_of (fst (run c n prog a tmpl)) ++ answers_of (fst (run c n prog b tmpl))
  /\ log_of (fst (run c (S n) prog (t_disj a b) tmpl)) =
    log_of (fst (run c n prog a tmpl)) ++ log_of (fst (run c n prog b tmpl))
  /\ snd (run c (S n) prog (t_disj a b) tmpl) = snd (run c n prog b tmpl).
Proof. exact SldProofs.disj_answers_law. Qed.
Print Assumptions disj_answers_law.

Theorem fail_disj_law : forall n prog g cb s k,
  exec (S (S n)) prog (t_disj t_fail g) cb s k = exec (S n) prog g cb s k.
Proof. exact SldProofs.fail_disj_law. Qed.
Print Assumptions fail_disj_law.

Theorem ite_then_law : forall n prog c t e cb s k s',
  snd (exec n prog c (ctr s) (bump s) (commit_k (ctr s))) = SCommit (ctr s) s' ->
  exec (S n) prog (t_ite c t e) cb s k =
    pre (fst (exec n prog c (ctr s) (bump s) (commit_k (ctr s)))) (exec n prog t cb s' k).
Proof. exact SldProofs.ite_then_law. Qed.
Print Assumptions ite_then_law.

Theorem ite_else_law : forall n prog c t e cb s k,
  snd (exec n prog c (ctr s) (bump s) (commit_k (ctr s))) = SNorm ->
  exec (S n) prog (t_ite c t e) cb s k =
    pre (fst (exec n prog c (ctr s) (bump s) (commit_k (ctr s)))) (exec n prog e cb (bump s) k).
Proof. exact SldProofs.ite_else_law. Qed.
Print Assumptions ite_else_law.

Theorem ite_cond_cut_local_law : forall n prog c t e cb s k,
  snd (exec n prog c (ctr s) (bump s) (commit_k (ctr s))) = SCut (ctr s) ->
  exec (S n) prog (t_ite c t e) cb s k =
    pre (fst (exec n prog c (ctr s) (bump s) (commit_k (ctr s)))) (exec n prog e cb (bump s) k).
Proof. exact SldProofs.ite_cond_cut_local_law. Qed.
Print Assumptions ite_cond_cut_local_law.

Theorem naf_succeeds_law : forall n prog g cb s k,
  snd (do_call (exec n prog) g [] (bump s) (commit_k (ctr s))) = SNorm ->
  exec (S n) prog (t_naf g) cb s k =
    pre (fst (do_call (exec n prog) g [] (bump s) (commit_k (ctr s)))) (k (bump s)).
Proof. exact SldProofs.naf_succeeds_law. Qed.
Print Assumptions naf_succeeds_law.

Theorem naf_fails_law : forall n prog g cb s k s',
  snd (do_call (exec n prog) g [] (bump s) (commit_k (ctr s))) = SCommit (ctr s) s' ->
  exec (S n) prog (t_naf g) cb s k = (fst (do_call (exec n prog) g [] (bump s) (commit_k (ctr s))), SNorm).
Proof. exact SldProofs.naf_fails_law. Qed.
Print Assumptions naf_fails_law.

Theorem cut_law : forall n prog cb s k, snd (k s) = SNorm ->
  exec (S n) prog t_cut cb s k = (fst (k s), SCut cb).
Proof. exact SldProofs.cut_law. Qed.
Print Assumptions cut_law.

Theorem clause_cut_law : forall ex c rest args id s k s' o,
  unify ufuel (sub s) (zip_terms (map (shift (ctr s)) (head_args (fst c))) args) = UOk s' ->
  o = ex (shift (ctr s) (snd c)) id (mkst s' (ctr s + clause_nvars c)) k ->
  snd o = SCut id ->
  try_clauses ex (c :: rest) args id s k = (fst o, SNorm).
Proof. exact SldProofs.clause_cut_law. Qed.
Print Assumptions clause_cut_law.

Theorem call_opaque_law : forall ex g extra s k id,
  snd (do_call ex g extra s k) = SCut id -> id <> ctr s.
Proof. exact SldProofs.call_opaque_law. Qed.
Print Assumptions call_opaque_law.

Theorem once_first_law : forall n prog g cb s k s',
  snd (exec (S n) prog g (ctr s) (bump s) (commit_k (ctr s))) = SCommit (ctr s) s' ->
  exec (S (S n)) prog (t_once g) cb s k =
    pre (fst (exec (S n) prog g (ctr s) (bump s) (commit_k (ctr s)))) (k s').
Proof. exact SldProofs.once_first_law. Qed.
Print Assumptions once_first_law.

(* non-vacuity: concrete runs *)
Local Open Scope string_scope.
Example ex_answers : solve 20 ex_facts (cm "p" [Var 0]) (Var 0) = Done [Int 1; Int 2; Int 3] None [].
Proof. vm_compute. reflexivity. Qed.
(* the cut in the condition of an if-then-else is local: c1(X) has the answers a and c *)
Example ex_ite_cut_local : solve 20 ex_cut (cm "c1" [Var 0]) (Var 0) = Done [at_ "a"; at_ "c"] None [].
Proof. vm_compute. reflexivity. Qed.
Example ex_clause_cut : solve 20 ex_cut (cm "r" [Var 0]) (Var 0) = Done [Int 1] None [].
Proof. vm_compute. reflexivity. Qed.
Example ex_nofuel : solve 2 ex_cut (cm "r" [Var 0]) (Var 0) = NoFuel.
Proof. vm_compute. reflexivity. Qed.
Example ex_naf : solve 20 ex_facts (cm "\+" [cm "p" [Int 4]]) (at_ "yes") = Done [at_ "yes"] None [].
Proof. vm_compute. reflexivity. Qed.
Example ex_disj_hyp : snd (run 1 20 ex_facts (cm "p" [Var 0]) (Var 0)) = SNorm /\ is_arrow (cm "p" [Var 0]) = None.
Proof. vm_compute. auto. Qed.
