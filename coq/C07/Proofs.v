(* C07 -- the proofs live in Engine/SldProofs.v (shared with C08, C12, C25). *)
From V Require Export Engine.SldProofs.
