(* C07 -- the model is the shared reference interpreter Engine/Sld.v (ISO 7.7/7.8 control by success continuations).
   This file only adds small example programs used for the non-vacuity examples of Props.v. *)
From Coq Require Import ZArith NArith List String.
From V Require Export Base.Term Engine.Sld.
Import ListNotations.
Open Scope N_scope.

Definition at_ (s : string) : term := Atom (nm s).
Definition cm (s : string) (args : list term) : term := Cmp (nm s) args.
Local Open Scope string_scope.

(* p(1). p(2). p(3). *)
Definition ex_facts : program :=
  [ (cm "p" [Int 1], at_ "true"); (cm "p" [Int 2], at_ "true"); (cm "p" [Int 3], at_ "true") ].

(* c1(X) :- ( ! -> X = a ; X = b ).   c1(c).      r(X) :- p(X), !.   r(9). *)
Definition ex_cut : program :=
  (ex_facts ++
  [ (cm "c1" [Var 0], cm ";" [cm "->" [at_ "!"; cm "=" [Var 0; at_ "a"]]; cm "=" [Var 0; at_ "b"]]);
    (cm "c1" [at_ "c"], at_ "true");
    (cm "r" [Var 0], cm "," [cm "p" [Var 0]; at_ "!"]);
    (cm "r" [Int 9], at_ "true") ])%list.
