(* C20 -- proofs about the partial-string layout mirror, the list reading and the comparison mirror *)
From Coq Require Import List NArith ZArith Bool Arith Lia.
From V Require Import Base.Term C13.Model C13.Proofs C18.Model C18.Proofs C33.Model C33.Proofs C20.Model.
Import ListNotations.
Open Scope N_scope.
Ltac Zify.zify_post_hook ::= Z.to_euclidean_division_equations.
Local Arguments N.mul : simpl never.
Local Arguments N.add : simpl never.
Local Arguments N.sub : simpl never.
Local Arguments N.div : simpl never.
Local Arguments N.modulo : simpl never.

(* ---------------------------------------------------------------- small list facts *)
Lemma lenN_app {A} (a b : list A) : lenN (a ++ b) = lenN a + lenN b.
Proof. unfold lenN. rewrite app_length. lia. Qed.
Lemma lenN_zeros n : lenN (zeros n) = n.
Proof. unfold lenN, zeros. rewrite repeat_length. lia. Qed.
Lemma lenN_cons {A} (x : A) l : lenN (x :: l) = 1 + lenN l.
Proof. unfold lenN. cbn [length]. lia. Qed.
Lemma lenN_nil {A} : lenN (@nil A) = 0.
Proof. reflexivity. Qed.
Lemma lenN_rev {A} (l : list A) : lenN (rev l) = lenN l.
Proof. unfold lenN. rewrite rev_length. reflexivity. Qed.

Lemma zeros_pos n : 1 <= n -> zeros n = 0 :: zeros (n - 1).
Proof.
  intros H. unfold zeros. replace (N.to_nat n) with (S (N.to_nat (n - 1))) by lia. reflexivity.
Qed.

(* ---------------------------------------------------------------- sentinel, segment size *)
Lemma sentinel_in_1_8_proof l : 1 <= sentinel l <= 8 /\ (l + sentinel l) mod 8 = 0.
Proof. apply sentinel_range. Qed.

Lemma sentinel_formula l : sentinel l = 8 - l mod 8.
Proof. unfold sentinel. destruct (N.eqb_spec (l mod 8) 0); lia. Qed.

Lemma segment_cells_agree_proof s : s <> [] -> lenN (encode_segment s) = 8 * seg_cells (lenN s).
Proof.
  intros Hs. destruct s as [|b r]; [congruence|].
  unfold encode_segment. set (t := b :: r). rewrite seg_cells_bytes.
  rewrite !lenN_app, lenN_zeros.
  destruct (N.eqb_spec (sentinel (lenN t)) 1); [rewrite lenN_zeros|rewrite lenN_nil]; lia.
Qed.

(* ---------------------------------------------------------------- the scanner *)
Lemma take_nz_stop s r : nul_free s = true -> take_nz (s ++ 0 :: r) = s.
Proof.
  induction s as [|b t IH]; intros H; cbn [app take_nz nul_free] in *.
  - reflexivity.
  - apply andb_true_iff in H as [Hb Ht]. apply negb_true_iff in Hb. rewrite Hb. f_equal. auto.
Qed.

Lemma encode_segment_shape s : s <> [] -> exists pad, encode_segment s = s ++ 0 :: pad.
Proof.
  intros Hs. destruct s as [|b r]; [congruence|]. unfold encode_segment. set (t := b :: r).
  pose proof (sentinel_range (lenN t)) as [Hr _].
  rewrite (zeros_pos (sentinel (lenN t))) by lia. cbn [app]. eexists. reflexivity.
Qed.

Lemma next_mult8_id n : n mod 8 = 0 -> next_mult8 n = n.
Proof. intros H. unfold next_mult8. rewrite H. reflexivity. Qed.

Lemma scan_tail_idx_aligned l : scan_tail_idx 0 l = seg_cells l.
Proof.
  unfold scan_tail_idx, seg_cells. rewrite N.add_0_l.
  pose proof (sentinel_range l) as [Hr Hm]. rewrite next_mult8_id by exact Hm.
  destruct (N.eqb_spec (sentinel l) 1) as [E|E].
  - rewrite E. reflexivity.
  - destruct (N.leb_spec (sentinel l) 1); [lia|reflexivity].
Qed.

Theorem scan_encode_proof s rest : nul_free s = true -> s <> [] ->
  scan (encode_segment s ++ rest) = (s, seg_cells (lenN s)).
Proof.
  intros Hn Hs. destruct (encode_segment_shape s Hs) as [pad E]. rewrite E.
  unfold scan, scan_at. rewrite <- app_assoc. cbn [app]. rewrite take_nz_stop by exact Hn.
  rewrite scan_tail_idx_aligned. reflexivity.
Qed.

(* both tail-index formulas name the same cell: for a slice starting at byte location loc whose zero byte
   is l bytes further, cell_index(loc) + (scan_slice_to_str's relative index) = Heap::pstr_tail_idx(loc + l) *)
Theorem tail_idx_two_formulas_agree_proof loc l :
  loc / 8 + scan_tail_idx loc l = pstr_tail_idx (loc + l).
Proof.
  unfold scan_tail_idx, pstr_tail_idx, next_mult8. rewrite sentinel_formula.
  set (z := loc + l).
  assert (Hz : z mod 8 < 8) by (apply N.mod_lt; lia).
  assert (Hl : loc mod 8 < 8) by (apply N.mod_lt; lia).
  assert (Ez : z = 8 * (z / 8) + z mod 8) by (apply N.div_mod'; lia).
  assert (El : loc = 8 * (loc / 8) + loc mod 8) by (apply N.div_mod'; lia).
  remember (z / 8) as zq. remember (z mod 8) as zr. remember (loc / 8) as lq. remember (loc mod 8) as lr.
  assert (Hq : lq <= zq) by lia.
  (* l + (8 - zr) = 8 * (zq + 1 - lq) - lr *)
  assert (Esum : l + (8 - zr) + lr = 8 * (zq + 1 - lq)) by lia.
  set (m := l + (8 - zr)) in *.
  assert (Hnm : (if m mod 8 =? 0 then m else m + (8 - m mod 8)) / 8 = zq + 1 - lq).
  { destruct (N.eqb_spec (m mod 8) 0) as [E0|E0].
    - assert (lr = 0) by lia. lia.
    - assert (Em : m mod 8 = 8 - lr) by lia. rewrite Em.
      replace (m + (8 - (8 - lr))) with ((zq + 1 - lq) * 8) by lia. apply N.div_mul. lia. }
  rewrite Hnm.
  assert (E1 : (z + 1) mod 8 = if zr =? 7 then 0 else zr + 1).
  { destruct (N.eqb_spec zr 7); lia. }
  rewrite E1.
  destruct (N.eqb_spec zr 7) as [E7|E7].
  - cbn [N.eqb]. destruct (N.leb_spec (8 - zr) 1); lia.
  - destruct (N.eqb_spec (zr + 1) 0); [lia|]. destruct (N.leb_spec (8 - zr) 1); lia.
Qed.

(* ---------------------------------------------------------------- the comparison mirror *)
(* the decision of calculate_result depends only on the two bytes at the first position of interest *)
Definition dec (b1 b2 : N) : comparison :=
  if b1 =? 0 then (if b2 =? 0 then Eq else Lt) else if b2 =? 0 then Gt else if b1 <? b2 then Lt else Gt.

Lemma verdict_cmp a1 a2 x y :
  verdict (cmp_slices a1 a2 x y) = dec (nth (mismatch x y) x 0) (nth (mismatch x y) y 0).
Proof.
  unfold cmp_slices, dec.
  destruct (nth (mismatch x y) x 0 =? 0); destruct (nth (mismatch x y) y 0 =? 0); cbn [verdict]; try reflexivity.
  destruct (nth (mismatch x y) x 0 <? nth (mismatch x y) y 0); reflexivity.
Qed.

Lemma dec_lcompare : forall s1 s2 r1 r2, nul_free s1 = true -> nul_free s2 = true ->
  dec (nth (mismatch (s1 ++ 0 :: r1) (s2 ++ 0 :: r2)) (s1 ++ 0 :: r1) 0)
      (nth (mismatch (s1 ++ 0 :: r1) (s2 ++ 0 :: r2)) (s2 ++ 0 :: r2) 0) = lcompare N.compare s1 s2.
Proof.
  induction s1 as [|a t1 IH]; intros [|b t2] r1 r2 H1 H2; cbn [app mismatch nth lcompare nul_free] in *.
  - reflexivity.
  - apply andb_true_iff in H2 as [Hb _]. apply negb_true_iff in Hb.
    cbn [N.eqb orb]. rewrite orb_true_r. cbn [orb nth]. unfold dec. cbn [N.eqb]. rewrite Hb. reflexivity.
  - apply andb_true_iff in H1 as [Ha _]. apply negb_true_iff in Ha.
    cbn [N.eqb]. rewrite !orb_true_r. cbn [nth]. unfold dec. rewrite Ha. reflexivity.
  - apply andb_true_iff in H1 as [Ha Ht1]. apply negb_true_iff in Ha.
    apply andb_true_iff in H2 as [Hb Ht2]. apply negb_true_iff in Hb.
    rewrite Ha, Hb, !orb_false_r.
    destruct (N.eqb_spec a b) as [E|E].
    + subst b. cbn [negb nth]. rewrite N.compare_refl. cbn [lex]. apply IH; assumption.
    + cbn [negb nth]. unfold dec. rewrite Ha, Hb.
      destruct (N.ltb_spec a b) as [L|L].
      * apply N.compare_lt_iff in L. rewrite L. reflexivity.
      * assert (G : b < a) by lia. apply N.compare_gt_iff in G. rewrite G. reflexivity.
Qed.

(* byte level, any alignment, any continuation of the heap after the terminating zero bytes *)
Theorem cmp_slices_is_byte_lex a1 a2 s1 s2 r1 r2 : nul_free s1 = true -> nul_free s2 = true ->
  verdict (cmp_slices a1 a2 (s1 ++ 0 :: r1) (s2 ++ 0 :: r2)) = lcompare N.compare s1 s2.
Proof. intros H1 H2. rewrite verdict_cmp. apply dec_lcompare; assumption. Qed.

(* when a string ends at the position of interest, the TailIndex handed back (made absolute by offset_by:
   + cell_index(pstr_loc)) is the cell Heap::pstr_tail_idx names for that zero byte *)
Theorem compare_tail_index_correct_proof loc pos r :
  snd (scan_at (loc + pos) (0 :: r)) + (pos + loc mod 8) / 8 + loc / 8 = pstr_tail_idx (loc + pos).
Proof.
  unfold scan_at. cbn [take_nz N.eqb snd]. rewrite lenN_nil.
  pose proof (tail_idx_two_formulas_agree_proof (loc + pos) 0) as H. rewrite N.add_0_r in H. rewrite <- H.
  assert ((loc + pos) / 8 = (pos + loc mod 8) / 8 + loc / 8) by lia. lia.
Qed.

(* ---------------------------------------------------------------- UTF-8 preserves the order *)
Lemma lex_eq_r c : lex c Eq = c.  Proof. destruct c; reflexivity. Qed.

Ltac cmp_cases :=
  repeat match goal with
         | |- context [N.compare ?a ?b] => destruct (N.compare_spec a b); cbn [lex]
         end; try reflexivity; try lia.

Lemma utf8_step c1 c2 r1 r2 :
  lcompare N.compare (encode_utf8 c1 ++ r1) (encode_utf8 c2 ++ r2) = lex (c1 ?= c2) (lcompare N.compare r1 r2).
Proof.
  unfold encode_utf8.
  destruct (N.ltb_spec c1 128) as [A1|A1]; [|destruct (N.ltb_spec c1 2048) as [A2|A2]; [|destruct (N.ltb_spec c1 65536) as [A3|A3]]];
  (destruct (N.ltb_spec c2 128) as [B1|B1]; [|destruct (N.ltb_spec c2 2048) as [B2|B2]; [|destruct (N.ltb_spec c2 65536) as [B3|B3]]]);
  cbn [app lcompare]; cmp_cases.
Qed.

Lemma utf8_lex : forall cs1 cs2, lcompare N.compare (utf8 cs1) (utf8 cs2) = lcompare N.compare cs1 cs2.
Proof.
  induction cs1 as [|c1 t1 IH]; intros [|c2 t2]; unfold utf8; cbn [flat_map lcompare].
  - reflexivity.
  - unfold encode_utf8.
    destruct (c2 <? 128); [|destruct (c2 <? 2048); [|destruct (c2 <? 65536)]]; reflexivity.
  - unfold encode_utf8.
    destruct (c1 <? 128); [|destruct (c1 <? 2048); [|destruct (c1 <? 65536)]]; reflexivity.
  - fold (utf8 t1). fold (utf8 t2). rewrite utf8_step. rewrite IH. reflexivity.
Qed.

Definition nonzero (c : N) : Prop := c <> 0.

Lemma encode_nul_free c : c <> 0 -> nul_free (encode_utf8 c) = true.
Proof.
  intros H. unfold encode_utf8.
  destruct (N.ltb_spec c 128); [|destruct (N.ltb_spec c 2048); [|destruct (N.ltb_spec c 65536)]]; cbn [nul_free];
  repeat match goal with |- context [?a =? 0] => destruct (N.eqb_spec a 0); [lia|] end; reflexivity.
Qed.

Lemma nul_free_app a b : nul_free a = true -> nul_free b = true -> nul_free (a ++ b) = true.
Proof. induction a as [|x t IH]; cbn [app nul_free]; auto. intros H Hb. apply andb_true_iff in H as [Hx Ht]. rewrite Hx. cbn [andb]. auto. Qed.

Lemma utf8_nul_free cs : Forall nonzero cs -> nul_free (utf8 cs) = true.
Proof.
  induction 1 as [|c t Hc _ IH]; [reflexivity|]. unfold utf8. cbn [flat_map]. apply nul_free_app; [apply encode_nul_free; exact Hc|exact IH].
Qed.

Lemma encode_nonempty c : encode_utf8 c <> [].
Proof. unfold encode_utf8. destruct (c <? 128); [|destruct (c <? 2048); [|destruct (c <? 65536)]]; discriminate. Qed.

Lemma utf8_nonempty cs : cs <> [] -> utf8 cs <> [].
Proof.
  destruct cs as [|c t]; [congruence|]. intros _. unfold utf8. cbn [flat_map].
  pose proof (encode_nonempty c). destruct (encode_utf8 c); [congruence|discriminate].
Qed.

(* the mirror of compare_pstr_slices on two stored strings decides as the standard order decides on the
   character lists they denote *)
Theorem pstr_compare_is_list_compare_proof cs1 cs2 rest1 rest2 :
  Forall nonzero cs1 -> Forall nonzero cs2 -> cs1 <> [] -> cs2 <> [] ->
  pstr_compare (utf8 cs1) (utf8 cs2) rest1 rest2 = lcompare N.compare cs1 cs2
  /\ pstr_compare (utf8 cs1) (utf8 cs2) rest1 rest2 = tcompare (tstring cs1) (tstring cs2).
Proof.
  intros H1 H2 N1 N2.
  assert (E : pstr_compare (utf8 cs1) (utf8 cs2) rest1 rest2 = lcompare N.compare cs1 cs2).
  { unfold pstr_compare.
    destruct (encode_segment_shape (utf8 cs1) (utf8_nonempty cs1 N1)) as [p1 E1].
    destruct (encode_segment_shape (utf8 cs2) (utf8_nonempty cs2 N2)) as [p2 E2].
    rewrite E1, E2, <- !app_assoc. cbn [app].
    rewrite cmp_slices_is_byte_lex by (apply utf8_nul_free; assumption).
    apply utf8_lex. }
  split; [exact E|]. rewrite E. symmetry. apply V.C13.Proofs.string_order.
Qed.

(* ---------------------------------------------------------------- the list reading inverts the encoder *)
Lemma encode_length c : length (encode_utf8 c) = len_utf8 c.
Proof. unfold encode_utf8, len_utf8. destruct (c <? 128); [|destruct (c <? 2048); [|destruct (c <? 65536)]]; reflexivity. Qed.

Lemma skipn_app_exact {A} (a b : list A) : skipn (length a) (a ++ b) = b.
Proof. induction a; cbn [length skipn app]; auto. Qed.

Lemma decode_all_utf8 : forall cs fuel, Forall scalar cs -> (length cs < fuel)%nat -> decode_all fuel (utf8 cs) = Some cs.
Proof.
  induction cs as [|c t IH]; intros fuel Hs Hf; (destruct fuel as [|f]; [lia|]); cbn [decode_all].
  - reflexivity.
  - inversion Hs as [|? ? Hc Ht]; subst. unfold utf8. cbn [flat_map]. fold (utf8 t).
    rewrite decode_encode_proof by exact Hc. rewrite <- encode_length, skipn_app_exact.
    rewrite IH; [reflexivity|exact Ht|cbn [length] in Hf; lia].
Qed.

Lemma utf8_length_ge cs : (length cs <= length (utf8 cs))%nat.
Proof.
  induction cs as [|c t IH]; [apply Nat.le_refl|]. unfold utf8. cbn [flat_map length]. fold (utf8 t).
  rewrite app_length. pose proof (encode_nonempty c). destruct (encode_utf8 c); [congruence|]. cbn [length]. lia.
Qed.

Theorem to_chars_utf8_proof cs : Forall scalar cs -> to_chars (utf8 cs) = Some cs.
Proof. intros H. unfold to_chars. apply decode_all_utf8; [exact H|]. pose proof (utf8_length_ge cs). lia. Qed.

(* ---------------------------------------------------------------- push_pstr: strings with NULs *)
Lemma decode_push_items : forall s cur, decode_cells (push_items s cur) = rev cur ++ s.
Proof.
  induction s as [|b r IH]; intros cur; cbn [push_items].
  - destruct cur as [|x c]; [reflexivity|]. unfold decode_cells. cbn [flat_map item_bytes]. rewrite !app_nil_r. reflexivity.
  - destruct (N.eqb_spec b 0) as [E|E].
    + subst b. destruct cur as [|x c].
      * unfold decode_cells. cbn [flat_map item_bytes]. fold (decode_cells (push_items r [])). rewrite IH. reflexivity.
      * unfold decode_cells. cbn [flat_map item_bytes]. fold (decode_cells (push_items r [])). rewrite IH.
        cbn [rev app]. rewrite <- !app_assoc. reflexivity.
    + rewrite IH. cbn [rev]. rewrite <- app_assoc. reflexivity.
Qed.

Theorem decode_cells_push_pstr_proof s : decode_cells (push_pstr s) = s.
Proof. unfold push_pstr. rewrite decode_push_items. reflexivity. Qed.

(* the cells of the items + link cells = C33's mirror of the cells push_pstr writes *)
Definition cells_from (l : list pitem) (started : bool) : N :=
  fold_right (fun i n => item_cells i + n) 0 l + (if started then lenN l else lenN l - 1).

Lemma pstr_cells_items : forall s cur started,
  pstr_cells s (lenN cur) started = cells_from (push_items s cur) started.
Proof.
  assert (Z0 : lenN (@nil N) = 0) by reflexivity.
  assert (Z1 : lenN (@nil pitem) = 0) by reflexivity.
  induction s as [|b r IH]; intros cur started; cbn [pstr_cells push_items].
  - destruct cur as [|x c].
    + rewrite Z0. cbn [N.eqb]. unfold cells_from. cbn [fold_right]. rewrite Z1. destruct started; reflexivity.
    + destruct (N.eqb_spec (lenN (x :: c)) 0) as [E|E]; [rewrite lenN_cons in E; lia|].
      unfold cells_from. cbn [fold_right item_cells]. rewrite lenN_rev, !lenN_cons, Z1. destruct started; lia.
  - destruct (N.eqb_spec b 0) as [E|E].
    + destruct cur as [|x c].
      * rewrite Z0. cbn [N.eqb]. change (pstr_cells r 0 true) with (pstr_cells r (lenN (@nil N)) true). rewrite IH.
        unfold cells_from. cbn [fold_right item_cells]. rewrite lenN_cons. destruct started; lia.
      * destruct (N.eqb_spec (lenN (x :: c)) 0) as [E0|E0]; [rewrite lenN_cons in E0; lia|].
        change (pstr_cells r 0 true) with (pstr_cells r (lenN (@nil N)) true). rewrite IH.
        unfold cells_from. cbn [fold_right item_cells]. rewrite lenN_rev, !lenN_cons. destruct started; lia.
    + replace (lenN cur + 1) with (lenN (b :: cur)) by (rewrite lenN_cons; lia). apply IH.
Qed.

Theorem count_cells_is_cells_written_proof s : count_cells (push_pstr s) = cells_written s.
Proof.
  unfold cells_written, push_pstr. change 0 with (lenN (@nil N)). rewrite pstr_cells_items.
  unfold cells_from, count_cells. destruct (push_items s []); [reflexivity|reflexivity].
Qed.

(* the string with NULs, as characters: what the cells denote is the original character list *)
Theorem chars_of_cells_proof cs : Forall scalar cs -> to_chars (decode_cells (push_pstr (utf8 cs))) = Some cs.
Proof. intros H. rewrite decode_cells_push_pstr_proof. apply to_chars_utf8_proof. exact H. Qed.

(* every segment push_pstr emits is non-empty and NUL-free (so scan_encode applies to it) *)
Lemma push_items_segments : forall s cur, nul_free cur = true ->
  Forall (fun i => match i with Seg b => b <> [] /\ nul_free b = true | CharCell c => c = 0 end) (push_items s cur).
Proof.
  assert (Hrev : forall l, nul_free l = true -> nul_free (rev l) = true).
  { induction l as [|x t IHl]; [auto|]. cbn [nul_free rev]. intros H. apply andb_true_iff in H as [Hx Ht].
    apply nul_free_app; [auto|]. cbn [nul_free]. rewrite Hx. reflexivity. }
  assert (Hne : forall (x : N) t, rev (x :: t) <> []).
  { intros x t E. apply (f_equal (@length N)) in E. rewrite rev_length in E. discriminate. }
  induction s as [|b r IH]; intros cur Hc; cbn [push_items].
  - destruct cur as [|x c]; constructor; [|constructor]. split; [apply Hne|apply Hrev; exact Hc].
  - destruct (N.eqb_spec b 0) as [E|E].
    + destruct cur as [|x c].
      * constructor; [reflexivity|]. apply IH. reflexivity.
      * constructor; [split; [apply Hne|apply Hrev; exact Hc]|]. constructor; [reflexivity|]. apply IH. reflexivity.
    + apply IH. cbn [nul_free]. rewrite Hc. destruct (N.eqb_spec b 0); [contradiction|reflexivity].
Qed.

(* ---------------------------------------------------------------- the open-list unifier of the correspondence *)
Lemma strip_prefix_spec : forall p l r, strip_prefix p l = Some r -> l = p ++ r.
Proof.
  induction p as [|x p IH]; intros l r H; cbn [strip_prefix] in H.
  - injection H as <-. reflexivity.
  - destruct l as [|y l]; [discriminate|]. destruct (N.eqb_spec x y); [|discriminate]. subst y.
    cbn [app]. f_equal. apply IH. exact H.
Qed.

Lemma plist_app a b t : plist (a ++ b) t = plist a (plist b t).
Proof. unfold plist. rewrite map_app. induction (map tchar a) as [|h r IH]; cbn [app tlist_tail]; [reflexivity|]. rewrite IH. reflexivity. Qed.

Definition simple_tail (t : term) : Prop := match t with Cmp _ _ => False | _ => True end.

Lemma subst_tail_nonvar sub t : is_var t = false -> subst_tail sub t = t.
Proof. destruct t; cbn [is_var]; try discriminate; reflexivity. Qed.

Lemma term_eqb_atomic_eq t1 t2 : simple_tail t1 -> term_eqb t1 t2 = true -> t1 = t2.
Proof.
  assert (Hl : forall a b : list N, name_eqb a b = true -> a = b).
  { unfold name_eqb. induction a as [|x a IHa]; intros [|y b] H; cbn [list_eqb] in H; try discriminate; [reflexivity|].
    apply andb_true_iff in H as [Hx Hr]. apply N.eqb_eq in Hx. subst. f_equal. auto. }
  destruct t1; cbn [simple_tail]; intros Hs H; try contradiction; destruct t2; cbn [term_eqb] in H; try discriminate.
  - apply N.eqb_eq in H. subst. reflexivity.
  - apply Z.eqb_eq in H. subst. reflexivity.
  - apply andb_true_iff in H as [A B]. apply Z.eqb_eq in A. apply Z.eqb_eq in B. subst. reflexivity.
  - apply Z.eqb_eq in H. subst. reflexivity.
  - f_equal. apply Hl. exact H.
Qed.

(* punify is sound: the substitution it returns makes the two open lists syntactically equal, provided the
   two tails are not the same variable unless the prefixes are equal (the generator's side condition) *)
Theorem punify_sound_proof p1 t1 p2 t2 sub :
  simple_tail t1 -> simple_tail t2 ->
  (forall x, t1 = Var x -> t2 = Var x -> p1 = p2) ->
  punify p1 t1 p2 t2 = Some sub ->
  plist p1 (subst_tail sub t1) = plist p2 (subst_tail sub t2).
Proof.
  intros S1 S2 Hsame H. unfold punify in H.
  destruct (strip_prefix p1 p2) as [rest2|] eqn:E12.
  - apply strip_prefix_spec in E12. subst p2.
    destruct rest2 as [|c rest2].
    + rewrite app_nil_r.
      destruct t1 as [x| | | | |]; try contradiction; destruct t2 as [y| | | | |]; try contradiction;
        try (injection H as <-; cbn [subst_tail find fst snd]; rewrite ?N.eqb_refl; reflexivity);
        try (destruct (term_eqb _ _) eqn:Et in H; [|discriminate]; injection H as <-;
             apply term_eqb_atomic_eq in Et; [|exact I]; rewrite Et; reflexivity).
      destruct (N.eqb_spec x y) as [Exy|Exy]; injection H as <-.
      * subst y. reflexivity.
      * cbn [subst_tail find fst snd]. rewrite N.eqb_refl.
        destruct (N.eqb_spec x y); [contradiction|]. reflexivity.
    + destruct t1 as [x| | | | |]; try discriminate. injection H as <-.
      cbn [subst_tail find fst snd]. rewrite N.eqb_refl.
      rewrite plist_app.
      destruct t2 as [y| | | | |]; try contradiction; try reflexivity.
      cbn [subst_tail find fst snd]. destruct (N.eqb_spec x y) as [Exy|Exy]; [|reflexivity].
      subst y. specialize (Hsame x eq_refl eq_refl).
      apply (f_equal (@length N)) in Hsame. rewrite app_length in Hsame. cbn [length] in Hsame. lia.
  - destruct (strip_prefix p2 p1) as [rest1|] eqn:E21; [|discriminate].
    apply strip_prefix_spec in E21. subst p1.
    destruct t2 as [y| | | | |]; try discriminate. injection H as <-.
    cbn [subst_tail find fst snd]. rewrite N.eqb_refl. rewrite plist_app.
    destruct t1 as [x| | | | |]; try contradiction; try reflexivity.
    cbn [subst_tail find fst snd]. destruct (N.eqb_spec y x) as [Exy|Exy]; [|reflexivity].
    subst y. specialize (Hsame x eq_refl eq_refl).
    destruct rest1 as [|c rest1].
    + reflexivity.
    + apply (f_equal (@length N)) in Hsame. rewrite app_length in Hsame. cbn [length] in Hsame. lia.
Qed.

(* ---------------------------------------------------------------- the comparison function of the check *)
Lemma bytes_eqb_eq a b : bytes_eqb a b = true <-> a = b.
Proof.
  unfold bytes_eqb. revert b. induction a as [|x a IH]; intros [|y b]; cbn [list_eqb]; split; intros H; try discriminate; try reflexivity.
  - apply andb_true_iff in H as [Hx Hr]. apply N.eqb_eq in Hx. apply IH in Hr. subst. reflexivity.
  - injection H as -> ->. rewrite N.eqb_refl. cbn [andb]. apply IH. reflexivity.
Qed.

(* one stored NUL-free string, read back: the scanner finds its bytes and they decode to its characters *)
Theorem segment_denotes_chars_proof cs rest : Forall scalar cs -> Forall nonzero cs -> cs <> [] ->
  to_chars (fst (scan (encode_segment (utf8 cs) ++ rest))) = Some cs
  /\ snd (scan (encode_segment (utf8 cs) ++ rest)) = seg_cells (lenN (utf8 cs)).
Proof.
  intros Hs Hz Hn. rewrite scan_encode_proof; [|apply utf8_nul_free; exact Hz|apply utf8_nonempty; exact Hn].
  cbn [fst snd]. split; [apply to_chars_utf8_proof; exact Hs|reflexivity].
Qed.
