(* C20 -- strings behave like the character lists they denote.
   Impl-mirror of the partial-string byte layout of src/machine/heap.rs (push_pstr_segment, push_pstr,
   scan_slice_to_str, Heap::pstr_tail_idx, compare_pstr_slices), the list reading of a string (UTF-8
   decoding, with C18's decode1) and the reference predictions of the list operations used by the
   correspondence check (over V.Base.Term, comparison by C13.tcompare).  Definitions only. *)
From Coq Require Import List NArith ZArith Bool Arith.
From V Require Import Base.Term C13.Model C18.Model C33.Model.
Import ListNotations.
Open Scope N_scope.

Definition lenN {A} (s : list A) : N := N.of_nat (length s).
Definition zeros (n : N) : list N := repeat 0 (N.to_nat n).

(* ---------------------------------------------------------------- layout of one segment *)

(* ReservedHeapSection::push_pstr_segment at a cell-aligned position: nothing for the empty string; otherwise
   the bytes, then pstr_sentinel_length zero bytes, then one more zeroed cell when the sentinel is one byte *)
Definition encode_segment (s : list N) : list N :=
  match s with
  | [] => []
  | _ => let a := sentinel (lenN s) in s ++ zeros a ++ (if a =? 1 then zeros 8 else [])
  end.

(* position(|b| b == 0).unwrap_or(len): the bytes before the first zero *)
Fixpoint take_nz (bs : list N) : list N :=
  match bs with [] => [] | b :: r => if b =? 0 then [] else b :: take_nz r end.

(* usize::next_multiple_of(8) *)
Definition next_mult8 (n : N) : N := if n mod 8 =? 0 then n else n + (8 - n mod 8).

(* the tail index scan_slice_to_str computes for a slice that starts at byte address `addr` (heap base is
   8-aligned, only addr mod 8 matters) and whose first zero byte is l bytes further: relative to the cell
   containing the slice start *)
Definition scan_tail_idx (addr l : N) : N :=
  let sl := sentinel (addr + l) in                    (* pstr_sentinel_length(zero_byte_addr) *)
  next_mult8 (l + sl) / 8 + (if sl <=? 1 then 1 else 0).

(* scan_slice_to_str on a slice starting at byte address addr: (string, tail_idx relative to cell_index(addr)) *)
Definition scan_at (addr : N) (bytes : list N) : list N * N :=
  let s := take_nz bytes in (s, scan_tail_idx addr (lenN s)).
Definition scan (bytes : list N) : list N * N := scan_at 0 bytes.

(* Heap::pstr_tail_idx(zero byte location), absolute cell index *)
Definition pstr_tail_idx (z : N) : N := if (z + 1) mod 8 =? 0 then z / 8 + 2 else z / 8 + 1.

(* ---------------------------------------------------------------- compare_pstr_slices *)
Inductive contin := TailIndex (n : N) | PStrOffset (n : N).
Inductive cmpres := Less | Greater | Continue (a b : contin).

(* zip(..).position(|(b1,b2)| b1 != b2 || b1 == 0 || b2 == 0), or min(len) when there is none *)
Fixpoint mismatch (s1 s2 : list N) : nat :=
  match s1, s2 with
  | b1 :: r1, b2 :: r2 => if negb (b1 =? b2) || (b1 =? 0) || (b2 =? 0) then O else S (mismatch r1 r2)
  | _, _ => O
  end.

(* a1, a2: byte addresses of the two slices (offset_pos_i = a_i mod 8).  The last arm of calculate_result
   compares the characters around pos through utf8_chunks(); for valid UTF-8 that are equal before pos this
   is the order of the bytes at pos (the character containing pos lies inside the 7-byte window). *)
Definition cmp_slices (a1 a2 : N) (s1 s2 : list N) : cmpres :=
  let p := mismatch s1 s2 in
  let pos := N.of_nat p in
  let b1 := nth p s1 0 in
  let b2 := nth p s2 0 in
  let tail1 := snd (scan_at (a1 + pos) (skipn p s1)) + (pos + a1 mod 8) / 8 in
  let tail2 := snd (scan_at (a2 + pos) (skipn p s2)) + (pos + a2 mod 8) / 8 in
  if b1 =? 0 then
    if b2 =? 0 then Continue (TailIndex tail1) (TailIndex tail2)
    else Continue (TailIndex tail1) (PStrOffset pos)
  else if b2 =? 0 then Continue (PStrOffset pos) (TailIndex tail2)
  else if b1 <? b2 then Less else Greater.

(* what the caller makes of the result when both strings are complete (their tail cells hold []):
   Continue(tail, tail) compares [] with [], Continue(tail, offset) compares [] with a non-empty rest *)
Definition verdict (r : cmpres) : comparison :=
  match r with
  | Less => Lt
  | Greater => Gt
  | Continue (TailIndex _) (TailIndex _) => Eq
  | Continue (TailIndex _) (PStrOffset _) => Lt
  | Continue (PStrOffset _) (TailIndex _) => Gt
  | Continue (PStrOffset _) (PStrOffset _) => Eq
  end.
Definition pstr_compare (s1 s2 rest1 rest2 : list N) : comparison :=
  verdict (cmp_slices 0 0 (encode_segment s1 ++ rest1) (encode_segment s2 ++ rest2)).

(* ---------------------------------------------------------------- the list reading *)
Definition utf8 (cs : list N) : list N := flat_map encode_utf8 cs.

Fixpoint decode_all (fuel : nat) (bs : list N) : option (list N) :=
  match fuel with
  | O => None
  | S f => match decode1 bs with
           | DEmpty => Some []
           | DChar c w => match decode_all f (skipn w bs) with Some r => Some (c :: r) | None => None end
           | _ => None
           end
  end.
(* the characters a byte string denotes (None: not UTF-8) *)
Definition to_chars (bs : list N) : option (list N) := decode_all (S (length bs)) bs.

(* ---------------------------------------------------------------- strings with NULs: push_pstr, cell-exact *)
Inductive pitem := Seg (bytes : list N) | CharCell (c : N).

(* ReservedHeapSection::push_pstr over the bytes of src; cur = the NUL-free run read so far (reversed).
   A NUL met with an empty run is a list cell + '\0' char cell; a NUL after a run is the run's segment, a
   list cell and the '\0' char cell; the last run is a segment.  Every item but the first is preceded by
   one link cell (Lis or PStrLoc). *)
Fixpoint push_items (s : list N) (cur : list N) : list pitem :=
  match s with
  | [] => match cur with [] => [] | _ => [Seg (rev cur)] end
  | b :: r =>
    if b =? 0 then
      match cur with
      | [] => CharCell 0 :: push_items r []
      | _ => Seg (rev cur) :: CharCell 0 :: push_items r []
      end
    else push_items r (b :: cur)
  end.
Definition push_pstr (s : list N) : list pitem := push_items s [].

Definition item_bytes (i : pitem) : list N := match i with Seg b => b | CharCell c => encode_utf8 c end.
Definition decode_cells (l : list pitem) : list N := flat_map item_bytes l.

Definition item_cells (i : pitem) : N := match i with Seg b => seg_cells (lenN b) | CharCell _ => 1 end.
(* cells: the items plus one link cell before every item but the first *)
Definition count_cells (l : list pitem) : N :=
  match l with [] => 0 | _ => fold_right (fun i n => item_cells i + n) 0 l + (lenN l - 1) end.

(* the byte image: Some b = a byte the model predicts, None = a byte of a link / char cell (not predicted) *)
Definition cell_any : list (option N) := repeat None 8.
Fixpoint image (l : list pitem) (first : bool) : list (option N) :=
  match l with
  | [] => []
  | i :: r =>
    (if first then [] else cell_any) ++
    (match i with Seg b => map Some (encode_segment b) | CharCell _ => cell_any end) ++ image r false
  end.
Fixpoint image_match (im : list (option N)) (bs : list N) : bool :=
  match im, bs with
  | [], [] => true
  | None :: im', _ :: bs' => image_match im' bs'
  | Some x :: im', b :: bs' => (x =? b) && image_match im' bs'
  | _, _ => false
  end.

(* ---------------------------------------------------------------- correspondence: layout *)
Definition bytes_eqb := list_eqb N.eqb.

(* dumped heap bytes of one allocate_pstr of s on an empty heap, and the scan at location 0 *)
Definition check_layout (s : list N) (dump : list N) (scanned : list N) (tail : N) (size : N) : bool :=
  image_match (image (push_pstr s) true) dump
  && (lenN dump =? 8 * count_cells (push_pstr s))
  && (lenN dump =? 8 * cells_written s)
  && (size =? compute_pstr_size s)
  && (match push_pstr s with
      | Seg b :: _ => bytes_eqb scanned b && (tail =? snd (scan dump)) && (tail =? seg_cells (lenN b))
                      && bytes_eqb (fst (scan dump)) b
      | _ => true
      end).

(* scan at an arbitrary byte location inside the segment of a NUL-free string stored at location 0 *)
Definition check_scan_at (s : list N) (loc : N) (scanned : list N) (tail : N) : bool :=
  let sl := skipn (N.to_nat loc) (encode_segment s) in
  bytes_eqb scanned (fst (scan_at loc sl))
  && (tail =? loc / 8 + snd (scan_at loc sl))
  && (tail =? pstr_tail_idx (lenN s))
  && (tail =? seg_cells (lenN s)).

(* ---------------------------------------------------------------- correspondence: behaviour on closed strings *)
(* The strings are given as lists of code points.  Predictions are plain list functions. *)
Fixpoint insert_sorted (dedup : bool) (x : N) (l : list N) : list N :=
  match l with
  | [] => [x]
  | y :: r => match x ?= y with
              | Lt => x :: l
              | Eq => if dedup then l else y :: insert_sorted dedup x r
              | Gt => y :: insert_sorted dedup x r
              end
  end.
Definition sort_chars (dedup : bool) (s : list N) : list N := fold_right (insert_sorted dedup) [] (rev s).

Record obs := {
  o_unify : bool;           (* 0  A = B *)
  o_eq : bool;              (* 1  A == B *)
  o_cmp : comparison;       (* 2  compare(O, A, B) *)
  o_lt : bool;              (* 3  A @< B *)
  o_len : N;                (* 4  length(A, N) *)
  o_app : list N;           (* 5  append(A, B, R) *)
  o_splits : option N;      (* 6  number of solutions of append(X, Y, A); None: not observed (long strings) *)
  o_nth : option N;         (* 7  nth0(K, A, C) *)
  o_head : option N;        (* 8  arg(1, A, H) *)
  o_tail : option (list N); (* 9  arg(2, A, T) *)
  o_arity : N;              (* 10 functor(A, _, Arity) *)
  o_name : list N;          (* 11 functor(A, Name, _) *)
  o_univ : N;               (* 12 length of L in A =.. L *)
  o_copy : list N;          (* 13 copy_term(A, C) *)
  o_findall : option (list N);  (* 14 findall(X, X = A, [C]); None: not observed *)
  o_assert : list N;        (* 15 assertz(t(A)), t(C), retract(t(_)) *)
  o_atomchars : list N;     (* 16 atom_chars(At, A), atom_chars(At, C) *)
  o_sort : list N;          (* 17 sort/2 *)
  o_ksort : list N;         (* 18 keysort of C-C pairs, keys *)
  o_ground : bool;          (* 19 *)
  o_nvars : N               (* 20 term_variables *)
}.

Definition predict (a b : list N) (k : N) : obs :=
  let c := tcompare (tstring a) (tstring b) in
  {| o_unify := bytes_eqb a b;
     o_eq := match c with Eq => true | _ => false end;
     o_cmp := c;
     o_lt := match c with Lt => true | _ => false end;
     o_len := lenN a;
     o_app := a ++ b;
     o_splits := Some (lenN a + 1);
     o_nth := nth_error a (N.to_nat k);
     o_head := hd_error a;
     o_tail := match a with [] => None | _ :: r => Some r end;
     o_arity := match a with [] => 0 | _ => 2 end;
     o_name := match a with [] => nil_name | _ => dot end;
     o_univ := match a with [] => 1 | _ => 3 end;
     o_copy := a; o_findall := Some a; o_assert := a; o_atomchars := a;
     o_sort := sort_chars true a;
     o_ksort := sort_chars false a;
     o_ground := true;
     o_nvars := 0 |}.

Definition opt_eqb {A} (e : A -> A -> bool) (x y : option A) : bool :=
  match x, y with Some a, Some b => e a b | None, None => true | _, _ => false end.

(* the numbers of the fields on which the prediction x and the observation y differ *)
Definition obs_diff (x y : obs) : list N :=
  let f (n : N) (ok : bool) := if ok then [] else [n] in
  f 0 (Bool.eqb (o_unify x) (o_unify y)) ++ f 1 (Bool.eqb (o_eq x) (o_eq y)) ++ f 2 (cmp_eqb (o_cmp x) (o_cmp y))
  ++ f 3 (Bool.eqb (o_lt x) (o_lt y)) ++ f 4 (o_len x =? o_len y) ++ f 5 (bytes_eqb (o_app x) (o_app y))
  ++ f 6 (match o_splits y with None => true | _ => opt_eqb N.eqb (o_splits x) (o_splits y) end)
  ++ f 7 (opt_eqb N.eqb (o_nth x) (o_nth y)) ++ f 8 (opt_eqb N.eqb (o_head x) (o_head y))
  ++ f 9 (opt_eqb bytes_eqb (o_tail x) (o_tail y)) ++ f 10 (o_arity x =? o_arity y) ++ f 11 (bytes_eqb (o_name x) (o_name y))
  ++ f 12 (o_univ x =? o_univ y) ++ f 13 (bytes_eqb (o_copy x) (o_copy y)) ++ f 14 (match o_findall y with None => true | _ => opt_eqb bytes_eqb (o_findall x) (o_findall y) end)
  ++ f 15 (bytes_eqb (o_assert x) (o_assert y)) ++ f 16 (bytes_eqb (o_atomchars x) (o_atomchars y))
  ++ f 17 (bytes_eqb (o_sort x) (o_sort y)) ++ f 18 (bytes_eqb (o_ksort x) (o_ksort y))
  ++ f 19 (Bool.eqb (o_ground x) (o_ground y)) ++ f 20 (o_nvars x =? o_nvars y).

Definition diff_obs (a b : list N) (k : N) (o : obs) : list N := obs_diff (predict a b k) o.
Definition check_obs (a b : list N) (k : N) (o : obs) : bool := match diff_obs a b k o with [] => true | _ => false end.

(* ---------------------------------------------------------------- correspondence: partial strings *)
(* an open list: characters and a tail term (a variable, [] or any other term) *)
Definition plist (pre : list N) (tail : term) : term := tlist_tail (map tchar pre) tail.

Definition is_var (t : term) : bool := match t with Var _ => true | _ => false end.

(* unification of two open character lists whose tails are variables or atomic terms: the substitution as
   (variable, value) pairs, or None when they do not unify.  (No occurs check is involved: the bound variable
   never occurs in its value for distinct tail variables; the same tail variable on both sides with different
   prefixes is excluded by the generator.) *)
Fixpoint strip_prefix (p l : list N) : option (list N) :=
  match p, l with
  | [], _ => Some l
  | x :: p', y :: l' => if x =? y then strip_prefix p' l' else None
  | _ :: _, [] => None
  end.

Definition punify (p1 : list N) (t1 : term) (p2 : list N) (t2 : term) : option (list (N * term)) :=
  match strip_prefix p1 p2 with
  | Some rest2 =>            (* p2 = p1 ++ rest2: t1 must become rest2 ++| t2 *)
    match rest2 with
    | [] => match t1, t2 with
            | Var x, Var y => if x =? y then Some [] else Some [(x, t2)]
            | Var x, _ => Some [(x, t2)]
            | _, Var y => Some [(y, t1)]
            | _, _ => if term_eqb t1 t2 then Some [] else None
            end
    | _ => match t1 with Var x => Some [(x, plist rest2 t2)] | _ => None end
    end
  | None =>
    match strip_prefix p2 p1 with
    | Some rest1 => match t2 with Var y => Some [(y, plist rest1 t1)] | _ => None end
    | None => None
    end
  end.

Definition subst_tail (sub : list (N * term)) (t : term) : term :=
  match t with
  | Var x => match find (fun p => fst p =? x) sub with Some (_, v) => v | None => t end
  | _ => t
  end.

(* number of distinct variables / groundness of an open char list *)
Definition pvars (t : term) : N := if is_var t then 1 else 0.

Record pobs := {
  p_eq : bool; p_cmp : comparison; p_unifies : bool;
  p_after : option term;        (* the first term after A = B *)
  p_nvars_a : N; p_ground_a : bool;
  p_len_a : option N            (* first answer of length(A, N) when the tail is a variable or []; None: fails *)
}.

Definition ppredict (p1 : list N) (t1 : term) (p2 : list N) (t2 : term) : pobs :=
  let a := plist p1 t1 in let b := plist p2 t2 in
  let c := tcompare a b in
  let u := punify p1 t1 p2 t2 in
  {| p_eq := match c with Eq => true | _ => false end;
     p_cmp := c;
     p_unifies := match u with Some _ => true | None => false end;
     p_after := match u with Some sub => Some (plist p1 (subst_tail sub t1)) | None => None end;
     p_nvars_a := pvars t1;
     p_ground_a := negb (is_var t1);
     p_len_a := match t1 with
                | Var _ => Some (lenN p1)
                | Atom [91; 93] => Some (lenN p1)
                | _ => None
                end |}.

Definition pobs_diff (x y : pobs) : list N :=
  let f (n : N) (ok : bool) := if ok then [] else [n] in
  f 0 (Bool.eqb (p_eq x) (p_eq y)) ++ f 1 (cmp_eqb (p_cmp x) (p_cmp y)) ++ f 2 (Bool.eqb (p_unifies x) (p_unifies y))
  ++ f 3 (opt_eqb term_eqb (p_after x) (p_after y)) ++ f 4 (p_nvars_a x =? p_nvars_a y)
  ++ f 5 (Bool.eqb (p_ground_a x) (p_ground_a y)) ++ f 6 (opt_eqb N.eqb (p_len_a x) (p_len_a y)).

Definition diff_pobs (p1 : list N) (t1 : term) (p2 : list N) (t2 : term) (o : pobs) : list N :=
  pobs_diff (ppredict p1 t1 p2 t2) o.
Definition check_pobs (p1 : list N) (t1 : term) (p2 : list N) (t2 : term) (o : pobs) : bool :=
  match diff_pobs p1 t1 p2 t2 o with [] => true | _ => false end.
