(* C20 -- pinned property theorems (nothing else lives here) *)
From Coq Require Import List NArith ZArith Bool.
From V Require Import Base.Term C13.Model C18.Model C18.Proofs C33.Model C33.Proofs C20.Model C20.Proofs.
Import ListNotations.
Open Scope N_scope.

(* pstr_sentinel_length: between 1 and 8 zero bytes, and they pad the string to a cell boundary *)
Theorem sentinel_in_1_8 : forall l, 1 <= sentinel l <= 8 /\ (l + sentinel l) mod 8 = 0.
Proof. exact sentinel_in_1_8_proof. Qed.
Print Assumptions sentinel_in_1_8.

(* the bytes push_pstr_segment writes are exactly the cells C33's accounting (seg_cells) charges *)
Theorem segment_cells_agree : forall s, s <> [] -> lenN (encode_segment s) = 8 * seg_cells (lenN s).
Proof. exact segment_cells_agree_proof. Qed.
Print Assumptions segment_cells_agree.

(* for EVERY non-empty NUL-free byte string and whatever follows it on the heap: scan_slice_to_str finds exactly
   the string and its tail index is the cell right after the padding *)
Theorem scan_encode : forall s rest, nul_free s = true -> s <> [] ->
  scan (encode_segment s ++ rest) = (s, seg_cells (lenN s)).
Proof. exact scan_encode_proof. Qed.
Print Assumptions scan_encode.

(* scan_slice_to_str's tail index (from any, also unaligned, byte location loc: string suffixes) and
   Heap::pstr_tail_idx(location of the zero byte) name the same cell *)
Theorem tail_idx_two_formulas_agree : forall loc l, loc / 8 + scan_tail_idx loc l = pstr_tail_idx (loc + l).
Proof. exact tail_idx_two_formulas_agree_proof. Qed.
Print Assumptions tail_idx_two_formulas_agree.

(* the TailIndex compare_pstr_slices hands back for a string that ends at pos is that same cell *)
Theorem compare_tail_index_correct : forall loc pos r,
  snd (scan_at (loc + pos) (0 :: r)) + (pos + loc mod 8) / 8 + loc / 8 = pstr_tail_idx (loc + pos).
Proof. exact compare_tail_index_correct_proof. Qed.
Print Assumptions compare_tail_index_correct.

(* the mirror of compare_pstr_slices on two NUL-terminated byte strings at ANY two addresses (suffixes
   included), whatever follows the terminators: first differing byte decides, a proper prefix is smaller,
   equal strings continue with their tails -- i.e. lexicographic comparison of the byte lists *)
Theorem cmp_slices_byte_lex : forall a1 a2 s1 s2 r1 r2, nul_free s1 = true -> nul_free s2 = true ->
  verdict (cmp_slices a1 a2 (s1 ++ 0 :: r1) (s2 ++ 0 :: r2)) = lcompare N.compare s1 s2.
Proof. exact cmp_slices_is_byte_lex. Qed.
Print Assumptions cmp_slices_byte_lex.

(* UTF-8 preserves the order: byte-lexicographic order of the encodings = code-point order *)
Theorem utf8_preserves_order : forall cs1 cs2, lcompare N.compare (utf8 cs1) (utf8 cs2) = lcompare N.compare cs1 cs2.
Proof. exact utf8_lex. Qed.
Print Assumptions utf8_preserves_order.

(* hence: two stored strings compare as the character lists they denote compare in the standard order (C13) *)
Theorem pstr_compare_is_list_compare : forall cs1 cs2 rest1 rest2,
  Forall nonzero cs1 -> Forall nonzero cs2 -> cs1 <> [] -> cs2 <> [] ->
  pstr_compare (utf8 cs1) (utf8 cs2) rest1 rest2 = lcompare N.compare cs1 cs2
  /\ pstr_compare (utf8 cs1) (utf8 cs2) rest1 rest2 = tcompare (tstring cs1) (tstring cs2).
Proof. exact pstr_compare_is_list_compare_proof. Qed.
Print Assumptions pstr_compare_is_list_compare.

(* a stored NUL-free string read back by the scanner and decoded is its character list *)
Theorem segment_denotes_chars : forall cs rest, Forall scalar cs -> Forall nonzero cs -> cs <> [] ->
  to_chars (fst (scan (encode_segment (utf8 cs) ++ rest))) = Some cs
  /\ snd (scan (encode_segment (utf8 cs) ++ rest)) = seg_cells (lenN (utf8 cs)).
Proof. exact segment_denotes_chars_proof. Qed.
Print Assumptions segment_denotes_chars.

(* strings with embedded NULs: the cell sequence push_pstr emits denotes the original bytes ... *)
Theorem decode_cells_push_pstr : forall s, decode_cells (push_pstr s) = s.
Proof. exact decode_cells_push_pstr_proof. Qed.
Print Assumptions decode_cells_push_pstr.

(* ... and characters (any Unicode scalar values, NUL included, any positions) ... *)
Theorem chars_of_cells : forall cs, Forall scalar cs -> to_chars (decode_cells (push_pstr (utf8 cs))) = Some cs.
Proof. exact chars_of_cells_proof. Qed.
Print Assumptions chars_of_cells.

(* ... occupies exactly the cells C33's mirror counts, and each emitted segment is non-empty and NUL-free
   (so scan_encode applies to it) *)
Theorem count_cells_is_cells_written : forall s, count_cells (push_pstr s) = cells_written s.
Proof. exact count_cells_is_cells_written_proof. Qed.
Print Assumptions count_cells_is_cells_written.

Theorem push_pstr_segments_scannable : forall s,
  Forall (fun i => match i with Seg b => b <> [] /\ nul_free b = true | CharCell c => c = 0 end) (push_pstr s).
Proof. intros s. apply push_items_segments. reflexivity. Qed.
Print Assumptions push_pstr_segments_scannable.

(* the open-list unifier that predicts `=` on partial strings is sound *)
Theorem punify_sound : forall p1 t1 p2 t2 sub,
  simple_tail t1 -> simple_tail t2 -> (forall x, t1 = Var x -> t2 = Var x -> p1 = p2) ->
  punify p1 t1 p2 t2 = Some sub -> plist p1 (subst_tail sub t1) = plist p2 (subst_tail sub t2).
Proof. exact punify_sound_proof. Qed.
Print Assumptions punify_sound.

(* ---------- non-vacuity and worked layouts *)
Example ex_sentinel_one : encode_segment [97;98;99;100;101;102;103] = [97;98;99;100;101;102;103;0; 0;0;0;0;0;0;0;0].
Proof. vm_compute. reflexivity. Qed.
Example ex_sentinel_eight : encode_segment [97;98;99;100;101;102;103;104] = [97;98;99;100;101;102;103;104; 0;0;0;0;0;0;0;0].
Proof. vm_compute. reflexivity. Qed.
Example ex_scan_suffix : scan_at 3 (skipn 3 (encode_segment [97;98;99;100;101;102;103])) = ([100;101;102;103], 2).
Proof. vm_compute. reflexivity. Qed.
Example ex_push_nul : push_pstr [97;0;0;98;0] = [Seg [97]; CharCell 0; CharCell 0; Seg [98]; CharCell 0].
Proof. vm_compute. reflexivity. Qed.
Example ex_compare_prefix : pstr_compare (utf8 [97;233]) (utf8 [97;233;98]) [] [1;2;3] = Lt.
Proof. vm_compute. reflexivity. Qed.
Example ex_compare_astral : pstr_compare (utf8 [97;128512]) (utf8 [97;65370]) [] [] = Gt.
Proof. vm_compute. reflexivity. Qed.
Example ex_hyps : Forall scalar [97;233;128512] /\ Forall nonzero [97;233;128512] /\ nul_free (utf8 [97;233;128512]) = true.
Proof.
  split; [|split].
  - apply Forall_cons; [left; reflexivity|]. apply Forall_cons; [left; reflexivity|].
    apply Forall_cons; [right; split; [discriminate|reflexivity]|]. apply Forall_nil.
  - apply Forall_cons; [discriminate|]. apply Forall_cons; [discriminate|]. apply Forall_cons; [discriminate|]. apply Forall_nil.
  - vm_compute. reflexivity.
Qed.
Example ex_punify : punify [97] (Var 0) [97;98] (Var 1) = Some [(0, plist [98] (Var 1))].
Proof. vm_compute. reflexivity. Qed.
