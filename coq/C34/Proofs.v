(* C34/Proofs.v -- closed forms of the reference functions on the builders, for every n *)
From Coq Require Import List NArith ZArith QArith Bool PeanoNat Lia.
From V Require Import Base.Term C13.Model C34.Model.
Import ListNotations.

(* ------------------------------------------------------------------ lists of integers *)
Lemma ints_from_length : forall n s, length (ints_from s n) = n.
Proof. induction n as [|n IH]; intros s; cbn; [reflexivity | rewrite IH; reflexivity]. Qed.

Lemma ints_from_snoc : forall n s, ints_from s (S n) = ints_from s n ++ [(s + Z.of_nat n)%Z].
Proof.
  induction n as [|n IH]; intros s.
  - cbn. rewrite Z.add_0_r. reflexivity.
  - change (ints_from s (S (S n))) with (s :: ints_from (s + 1) (S n)). rewrite IH.
    change (ints_from s (S n)) with (s :: ints_from (s + 1) n). rewrite <- app_comm_cons. do 3 f_equal. lia.
Qed.

Lemma ints_from_bound : forall n s y, In y (ints_from s n) -> (s <= y < s + Z.of_nat n)%Z.
Proof.
  induction n as [|n IH]; intros s y H; cbn in H; [contradiction|].
  destruct H as [<-|H]; [lia|]. apply IH in H. lia.
Qed.

(* ------------------------------------------------------------------ length *)
Lemma list_len_tlist : forall l, list_len (tlist l) = Some (length l).
Proof.
  induction l as [|x r IH]; [reflexivity|].
  change (tlist (x :: r)) with (Cmp dot [x; tlist r]). cbn [list_len]. change (name_eqb dot dot) with true.
  cbn iota. rewrite IH. reflexivity.
Qed.

Theorem length_long_list_proof : forall n, list_len (long_list n) = Some n.
Proof. intros n. unfold long_list. rewrite list_len_tlist, map_length. unfold ints. rewrite ints_from_length. reflexivity. Qed.

Theorem length_long_string_proof : forall n, list_len (long_string n) = Some n.
Proof. intros n. unfold long_string, tstring. rewrite list_len_tlist, map_length, repeat_length. reflexivity. Qed.

Theorem length_deep_list_proof : forall n, list_len (deep_list n) = Some (match n with O => 0 | _ => 1 end)%nat.
Proof. intros [|n]; reflexivity. Qed.

(* ------------------------------------------------------------------ number of nodes *)
Lemma size_tcons : forall h t, term_size (tcons h t) = S (term_size h + term_size t).
Proof. intros h t. unfold tcons. cbn [term_size fold_right]. lia. Qed.

Lemma size_tlist_atomic : forall l, (forall x, In x l -> term_size x = 1%nat) -> term_size (tlist l) = S (2 * length l).
Proof.
  induction l as [|x r IH]; intros H; [reflexivity|].
  change (tlist (x :: r)) with (tcons x (tlist r)). rewrite size_tcons, (H x (or_introl eq_refl)), IH.
  - cbn [length]. lia.
  - intros y Hy. apply H. right. exact Hy.
Qed.

Theorem size_long_list : forall n, term_size (long_list n) = S (2 * n).
Proof.
  intros n. unfold long_list. rewrite size_tlist_atomic.
  - rewrite map_length. unfold ints. rewrite ints_from_length. reflexivity.
  - intros x Hx. apply in_map_iff in Hx. destruct Hx as [z [<- _]]. reflexivity.
Qed.

Theorem size_long_string : forall n, term_size (long_string n) = S (2 * n).
Proof.
  intros n. unfold long_string, tstring. rewrite size_tlist_atomic.
  - rewrite map_length, repeat_length. reflexivity.
  - intros x Hx. apply in_map_iff in Hx. destruct Hx as [z [<- _]]. reflexivity.
Qed.

Theorem size_right_nest_proof : forall n, term_size (right_nest n) = S n.
Proof. induction n as [|n IH]; [reflexivity|]. cbn [right_nest term_size fold_right]. rewrite IH. lia. Qed.

Theorem size_left_nest : forall n, term_size (left_nest n) = S (2 * n).
Proof. induction n as [|n IH]; [reflexivity|]. cbn [left_nest term_size fold_right]. rewrite IH. lia. Qed.

Theorem size_deep_list : forall n, term_size (deep_list n) = S (2 * n).
Proof.
  induction n as [|n IH]; [reflexivity|]. cbn [deep_list]. rewrite size_tcons, IH.
  change (term_size tnil) with 1%nat. lia.
Qed.

Lemma size_args_app : forall (l1 l2 : list term),
  fold_right (fun x n => term_size x + n)%nat 0%nat (l1 ++ l2)
  = (fold_right (fun x n => term_size x + n)%nat 0%nat l1 + fold_right (fun x n => term_size x + n)%nat 0%nat l2)%nat.
Proof. induction l1 as [|x r IH]; intros l2; cbn [app fold_right]; [reflexivity | rewrite IH; lia]. Qed.

Lemma size_args_ints : forall l, fold_right (fun x n => term_size x + n)%nat 0%nat (map Int l) = length l.
Proof. induction l as [|x r IH]; cbn [map fold_right length term_size]; [reflexivity | rewrite IH; reflexivity]. Qed.

Theorem size_wide : forall k, term_size (wide_k k) = S (255 * k).
Proof.
  induction k as [|k IH]; [reflexivity|].
  cbn [wide_k term_size]. rewrite size_args_app, size_args_ints. unfold ints. rewrite ints_from_length.
  cbn [fold_right]. rewrite IH. lia.
Qed.

(* ------------------------------------------------------------------ standard order: an instance is smaller than the next *)
Lemma tcompare_int_refl : forall z, tcompare (Int z) (Int z) = Eq.
Proof. intros z. cbn. unfold Qcompare. cbn. apply Z.compare_refl. Qed.

Lemma tcompare_atom_cmp : forall s f args, tcompare (Atom s) (Cmp f args) = Lt.
Proof. reflexivity. Qed.

Lemma tcompare_unary : forall x y, tcompare (Cmp nf [x]) (Cmp nf [y]) = lex (tcompare x y) Eq.
Proof. reflexivity. Qed.

Lemma tcompare_plus : forall x y, tcompare (Cmp nplus [x; Atom nb]) (Cmp nplus [y; Atom nb]) = lex (tcompare x y) Eq.
Proof. reflexivity. Qed.

Lemma tcompare_cons : forall h h' t t',
  tcompare (tcons h t) (tcons h' t') = lex (tcompare h h') (lex (tcompare t t') Eq).
Proof. reflexivity. Qed.

Lemma lex_lt : forall c, lex Lt c = Lt. Proof. reflexivity. Qed.

Theorem compare_right_nest : forall n, tcompare (right_nest n) (right_nest (S n)) = Lt.
Proof.
  induction n as [|n IH]; [reflexivity|].
  change (right_nest (S (S n))) with (Cmp nf [right_nest (S n)]). change (right_nest (S n)) with (Cmp nf [right_nest n]) at 1.
  rewrite tcompare_unary, IH. reflexivity.
Qed.

Theorem compare_left_nest : forall n, tcompare (left_nest n) (left_nest (S n)) = Lt.
Proof.
  induction n as [|n IH]; [reflexivity|].
  change (left_nest (S (S n))) with (Cmp nplus [left_nest (S n); Atom nb]).
  change (left_nest (S n)) with (Cmp nplus [left_nest n; Atom nb]) at 1.
  rewrite tcompare_plus, IH. reflexivity.
Qed.

Theorem compare_deep_list : forall n, tcompare (deep_list n) (deep_list (S n)) = Lt.
Proof.
  induction n as [|n IH]; [reflexivity|].
  change (deep_list (S (S n))) with (tcons (deep_list (S n)) tnil). change (deep_list (S n)) with (tcons (deep_list n) tnil) at 1.
  rewrite tcompare_cons, IH. reflexivity.
Qed.

Lemma compare_ints_prefix : forall n s,
  tcompare (tlist (map Int (ints_from s n))) (tlist (map Int (ints_from s (S n)))) = Lt.
Proof.
  induction n as [|n IH]; intros s; [reflexivity|].
  change (ints_from s (S (S n))) with (s :: ints_from (s + 1) (S n)).
  change (ints_from s (S n)) with (s :: ints_from (s + 1) n).
  cbn [map]. change (tlist (?x :: ?r)) with (tcons x (tlist r)).
  rewrite tcompare_cons, tcompare_int_refl. cbn [lex]. rewrite IH. reflexivity.
Qed.

Theorem compare_long_list : forall n, tcompare (long_list n) (long_list (S n)) = Lt.
Proof. intros n. apply compare_ints_prefix. Qed.

Theorem compare_long_string : forall n, tcompare (long_string n) (long_string (S n)) = Lt.
Proof.
  induction n as [|n IH]; [reflexivity|]. unfold long_string, tstring in *.
  cbn [repeat map]. change (tlist (?x :: ?r)) with (tcons x (tlist r)).
  rewrite tcompare_cons. cbn [repeat map] in IH. rewrite IH. reflexivity.
Qed.

(* the argument loop of tcompare over a common prefix of integers *)
Lemma args_go_prefix : forall l x y,
  (fix go (l l' : list term) : comparison :=
     match l, l' with
     | [], [] => Eq
     | [], _ :: _ => Lt
     | _ :: _, [] => Gt
     | x :: r, y :: r' => lex (tcompare x y) (go r r')
     end) (map Int l ++ [x]) (map Int l ++ [y]) = lex (tcompare x y) Eq.
Proof.
  induction l as [|z r IH]; intros x y; [reflexivity|].
  cbn [map app]. rewrite tcompare_int_refl. cbn [lex]. apply IH.
Qed.

Theorem compare_wide : forall k, tcompare (wide_k k) (wide_k (S k)) = Lt.
Proof.
  induction k as [|k IH]; [reflexivity|].
  change (wide_k (S (S k))) with (Cmp nw (map Int (ints 254) ++ [wide_k (S k)])).
  change (wide_k (S k)) with (Cmp nw (map Int (ints 254) ++ [wide_k k])) at 1.
  cbn [tcompare cat]. rewrite !app_length, !map_length. cbn [length].
  rewrite Nat.compare_refl. cbn [lex]. change (name_compare nw nw) with Eq. cbn [lex].
  rewrite args_go_prefix, IH. reflexivity.
Qed.

(* ------------------------------------------------------------------ ground terms and their copies *)
Theorem rename_ground : forall f t, ground t = true -> rename f t = t.
Proof.
  intros f t. induction t as [v|z|n d|b|s|g args IH] using term_ind'; intros H; try reflexivity.
  - discriminate.
  - cbn [rename]. f_equal. cbn [ground] in H. induction args as [|x r IHr]; [reflexivity|].
    cbn [forallb] in H. apply andb_prop in H. destruct H as [Hx Hr].
    inversion IH as [|? ? Px Pr]; subst. cbn [map]. rewrite (Px Hx), (IHr Pr Hr). reflexivity.
Qed.

Theorem tvars_ground : forall t, ground t = true -> tvars t = [].
Proof.
  intros t. induction t as [v|z|n d|b|s|g args IH] using term_ind'; intros H; try reflexivity.
  - discriminate.
  - cbn [tvars]. cbn [ground] in H. induction args as [|x r IHr]; [reflexivity|].
    cbn [forallb] in H. apply andb_prop in H. destruct H as [Hx Hr].
    inversion IH as [|? ? Px Pr]; subst. cbn [flat_map]. rewrite (Px Hx), (IHr Pr Hr). reflexivity.
Qed.

Lemma ground_tlist : forall l, forallb ground l = true -> ground (tlist l) = true.
Proof.
  induction l as [|x r IH]; intros H; [reflexivity|]. cbn [forallb] in H. apply andb_prop in H. destruct H as [Hx Hr].
  change (tlist (x :: r)) with (Cmp dot [x; tlist r]). cbn [ground forallb]. rewrite Hx, (IH Hr). reflexivity.
Qed.

Lemma forallb_ground_ints : forall l, forallb ground (map Int l) = true.
Proof. induction l as [|x r IH]; [reflexivity | exact IH]. Qed.

Lemma forallb_ground_chars : forall l, forallb ground (map tchar l) = true.
Proof. induction l as [|x r IH]; [reflexivity | exact IH]. Qed.

Theorem ground_build : forall s n, ground (build s n) = true.
Proof.
  intros s n. destruct s; cbn [build].
  - apply ground_tlist, forallb_ground_ints.
  - induction n as [|n IH]; [reflexivity|]. cbn [right_nest ground forallb]. rewrite IH. reflexivity.
  - induction n as [|n IH]; [reflexivity|]. cbn [left_nest ground forallb]. rewrite IH. reflexivity.
  - induction n as [|n IH]; [reflexivity|]. cbn [deep_list]. unfold tcons. cbn [ground forallb]. rewrite IH. reflexivity.
  - apply ground_tlist, forallb_ground_chars.
  - generalize (n / 255)%nat. intros k. induction k as [|k IH]; [reflexivity|].
    cbn [wide_k ground]. rewrite forallb_app, forallb_ground_ints. cbn [forallb]. rewrite IH. reflexivity.
Qed.

(* ------------------------------------------------------------------ sorting *)
Lemma insert_max : forall x l, (forall y, In y l -> (y < x)%Z) -> insert x l = l ++ [x].
Proof.
  intros x l. induction l as [|y r IH]; intros H; [reflexivity|].
  cbn [insert app]. pose proof (H y (or_introl eq_refl)) as Hy.
  destruct (Z.compare_spec x y); [lia | lia |]. rewrite IH; [reflexivity|]. intros z Hz. apply H. right. exact Hz.
Qed.

Theorem sort_reversed_ints : forall n, isort (rev (ints n)) = ints n.
Proof.
  unfold ints. induction n as [|n IH]; [reflexivity|].
  rewrite ints_from_snoc, rev_app_distr. cbn [rev app]. unfold isort in *. cbn [fold_right]. rewrite IH.
  apply insert_max. intros y Hy. apply ints_from_bound in Hy. lia.
Qed.

Lemma insert_length : forall x l, (length (insert x l) <= S (length l))%nat.
Proof.
  intros x l. induction l as [|y r IH]; cbn [insert length]; [lia|].
  destruct (x ?= y)%Z; cbn [length]; lia.
Qed.

Theorem sort_length_bound_proof : forall l, (length (isort l) <= length l)%nat.
Proof.
  induction l as [|x r IH]; [cbn; lia|]. unfold isort in *. cbn [fold_right length].
  pose proof (insert_length x (fold_right insert [] r)). lia.
Qed.

(* ------------------------------------------------------------------ length of the written text *)
Lemma wl_tcons : forall h t, wl false (tcons h t) = (1 + wl false h + wl true t)%nat.
Proof. reflexivity. Qed.
Lemma wl_tcons_tail : forall h t, wl true (tcons h t) = (1 + wl false h + wl true t)%nat.
Proof. reflexivity. Qed.

Theorem write_right_nest : forall n, wl false (right_nest n) = (3 * n + 1)%nat.
Proof.
  induction n as [|n IH]; [reflexivity|].
  change (wl false (right_nest (S n))) with (length nf + 1 + (wl false (right_nest n) + 1 + 0))%nat.
  rewrite IH. cbn [length nf]. lia.
Qed.

Theorem write_left_nest : forall n, wl false (left_nest n) = (2 * n + 1)%nat.
Proof.
  induction n as [|n IH]; [reflexivity|].
  change (wl false (left_nest (S n))) with (wl false (left_nest n) + 1 + wl false (Atom nb))%nat.
  rewrite IH. change (wl false (Atom nb)) with 1%nat. lia.
Qed.

Theorem write_deep_list : forall n, wl false (deep_list n) = (2 * n + 2)%nat.
Proof.
  induction n as [|n IH]; [reflexivity|]. cbn [deep_list]. rewrite wl_tcons, IH.
  change (wl true tnil) with 1%nat. lia.
Qed.

Lemma wl_tchar : forall c, wl false (tchar c) = 1%nat.
Proof.
  intros c. unfold tchar. cbn [wl]. replace (name_eqb [c] nil_name) with false; [reflexivity|].
  unfold name_eqb, nil_name. cbn [list_eqb]. rewrite andb_false_r. reflexivity.
Qed.

Lemma wl_tail_chars : forall l, wl true (tlist (map tchar l)) = (2 * length l + 1)%nat.
Proof.
  induction l as [|c r IH]; [reflexivity|]. cbn [map]. change (tlist (?x :: ?r)) with (tcons x (tlist r)).
  rewrite wl_tcons_tail, IH, wl_tchar. cbn [length]. lia.
Qed.

Theorem write_long_string : forall n, wl false (long_string n) = match n with O => 2 | _ => 2 * n + 1 end%nat.
Proof.
  intros [|n]; [reflexivity|]. unfold long_string, tstring. cbn [repeat map].
  change (tlist (?x :: ?r)) with (tcons x (tlist r)). rewrite wl_tcons, wl_tail_chars, repeat_length.
  rewrite wl_tchar. lia.
Qed.

Lemma wl_tail_ints : forall l, wl true (tlist (map Int l)) = (sum_digits l + length l + 1)%nat.
Proof.
  induction l as [|z r IH]; [reflexivity|]. cbn [map]. change (tlist (?x :: ?r)) with (tcons x (tlist r)).
  rewrite wl_tcons_tail, IH. change (wl false (Int z)) with (0 + zdigits z)%nat. cbn [sum_digits fold_right length].
  fold (sum_digits r). lia.
Qed.

Theorem write_long_list : forall n, wl false (long_list n) = match n with O => 2 | _ => sum_digits (ints n) + n + 1 end%nat.
Proof.
  intros [|n]; [reflexivity|]. unfold long_list, ints. cbn [ints_from map].
  change (tlist (?x :: ?r)) with (tcons x (tlist r)). rewrite wl_tcons, wl_tail_ints, ints_from_length.
  change (wl false (Int 1)) with (0 + zdigits 1)%nat. cbn [sum_digits fold_right]. fold (sum_digits (ints_from (1 + 1) n)). lia.
Qed.

(* ------------------------------------------------------------------ the table of expected answers is the model's value, for every shape and size *)
Theorem expect_nodes_sound : forall s n, expect s ONodes n = Some (AInt (term_size (build s n))).
Proof.
  intros s n. destruct s; cbn [expect build].
  - rewrite size_long_list. reflexivity.
  - rewrite size_right_nest_proof. reflexivity.
  - rewrite size_left_nest. reflexivity.
  - rewrite size_deep_list. reflexivity.
  - rewrite size_long_string. reflexivity.
  - rewrite size_wide. reflexivity.
Qed.

Theorem expect_write_sound : forall s n e, expect s OWrite n = Some e -> e = AInt (wl false (build s n)).
Proof.
  intros s n e. destruct s; cbn [expect build]; intros [= <-].
  - rewrite write_long_list. reflexivity.
  - rewrite write_right_nest. reflexivity.
  - rewrite write_left_nest. reflexivity.
  - rewrite write_deep_list. reflexivity.
  - rewrite write_long_string. reflexivity.
Qed.

Theorem expect_length_sound : forall s n e, expect s OLength n = Some e ->
  exists k, e = AInt k /\ list_len (build s n) = Some k.
Proof.
  intros s n e. destruct s; cbn [expect build]; intros [= <-].
  - exists n. split; [reflexivity | apply length_long_list_proof].
  - eexists. split; [reflexivity | apply length_deep_list_proof].
  - exists n. split; [reflexivity | apply length_long_string_proof].
Qed.

Theorem compare_next : forall s n, tcompare (build s n) (build s (next s n)) = Lt.
Proof.
  intros s n. destruct s; cbn [build next].
  - apply compare_long_list.
  - apply compare_right_nest.
  - apply compare_left_nest.
  - apply compare_deep_list.
  - apply compare_long_string.
  - replace ((n + 255) / 255)%nat with (S (n / 255)).
    + apply compare_wide.
    + change (n + 255)%nat with (n + 1 * 255)%nat. rewrite Nat.div_add by discriminate. lia.
Qed.
