(* C34 -- pinned property theorems (nothing else lives here).
   The builders long_list, right_nest, left_nest, deep_list, long_string, wide_k are the terms the Prolog builders of
   checks/C34.py construct; the theorems give, for EVERY size n, the answers the operations must produce on them
   (unless they raise a resource error).  The crash itself is detected at process level, not here. *)
From Coq Require Import List NArith ZArith Bool PeanoNat.
From V Require Import Base.Term C13.Model C34.Model C34.Proofs.
Import ListNotations.

(* length/2: a list of n elements has length n *)
Theorem length_long_list : forall n, list_len (long_list n) = Some n.
Proof. exact length_long_list_proof. Qed.
Print Assumptions length_long_list.

(* the number of nodes of the depth-n right-nested term (and of every other shape: expect_nodes) *)
Theorem size_right_nest : forall n, term_size (right_nest n) = S n.
Proof. exact size_right_nest_proof. Qed.
Print Assumptions size_right_nest.

Theorem expect_nodes : forall s n, expect s ONodes n = Some (AInt (term_size (build s n))).
Proof. exact expect_nodes_sound. Qed.
Print Assumptions expect_nodes.

(* standard order (the model of C13): every instance precedes the next larger one, at every depth and for every shape *)
Theorem compare_nested_prefix : forall n, tcompare (right_nest n) (right_nest (S n)) = Lt.
Proof. exact compare_right_nest. Qed.
Print Assumptions compare_nested_prefix.

Theorem compare_next_instance : forall s n, tcompare (build s n) (build s (next s n)) = Lt.
Proof. exact compare_next. Qed.
Print Assumptions compare_next_instance.

(* copy_term/2, ==/2, unification with a copy, findall/3, assertz+call: all shapes are ground, a ground term is its
   own copy under every renaming and has no variables *)
Theorem copy_ground_identity : forall s n f,
  ground (build s n) = true /\ rename f (build s n) = build s n /\ tvars (build s n) = [].
Proof.
  intros s n f. pose proof (ground_build s n) as H.
  split; [exact H | split; [apply rename_ground; exact H | apply tvars_ground; exact H]].
Qed.
Print Assumptions copy_ground_identity.

(* sort/2: the n distinct integers n..1 sort to 1..n *)
Theorem msort_long_list_sorted : forall n, isort (rev (ints n)) = ints n.
Proof. exact sort_reversed_ints. Qed.
Print Assumptions msort_long_list_sorted.

(* ... and sorting never lengthens a list *)
Theorem sort_length_bound : forall l, (length (isort l) <= length l)%nat.
Proof. exact sort_length_bound_proof. Qed.
Print Assumptions sort_length_bound.

(* the length of the written text and the length of lists, as used in the table of expected answers *)
Theorem expect_write : forall s n e, expect s OWrite n = Some e -> e = AInt (wl false (build s n)).
Proof. exact expect_write_sound. Qed.
Print Assumptions expect_write.

Theorem expect_length : forall s n e, expect s OLength n = Some e ->
  exists k, e = AInt k /\ list_len (build s n) = Some k.
Proof. exact expect_length_sound. Qed.
Print Assumptions expect_length.

(* ------------------------------------------------------------------ non-vacuity: the builders at small sizes *)
Example ex_right_nest_3 : right_nest 3 = Cmp nf [Cmp nf [Cmp nf [Atom na]]].
Proof. reflexivity. Qed.
Example ex_left_nest_2 : left_nest 2 = Cmp nplus [Cmp nplus [Atom na; Atom nb]; Atom nb].
Proof. reflexivity. Qed.
Example ex_deep_list_2 : deep_list 2 = tlist [tlist [tlist []]].
Proof. reflexivity. Qed.
Example ex_long_list_3 : long_list 3 = tlist [Int 1; Int 2; Int 3].
Proof. reflexivity. Qed.
Example ex_write_lengths : wl false (right_nest 2) = 7%nat /\ wl false (left_nest 2) = 5%nat /\ wl false (deep_list 1) = 4%nat
                           /\ wl false (long_list 12) = 28%nat /\ wl false (long_string 3) = 7%nat.
Proof. vm_compute. repeat split; reflexivity. Qed.
Example ex_check_table : check RightNest ONodes 100000 (ObsInt 100001) = true /\ check LongList OWrite 1000 (ObsInt 3894) = true
                         /\ check Wide ONodes 1000 (ObsInt 766) = true /\ check DeepList OCompare 5 (ObsAtom [62%N]) = false.
Proof. vm_compute. repeat split; reflexivity. Qed.
