(* C34/Model.v -- size-generic builders of large terms and the reference functions whose values on them are the
   expected answers of the process-level check (closed forms in n; proved in Proofs.v for EVERY n).

   A native stack overflow is a run-time event that no Gallina function can exhibit: the model contributes the expected
   answers at sizes no unit test uses, the harness contributes the crash detection. *)
From Coq Require Import List NArith ZArith QArith Bool PeanoNat.
From V Require Import Base.Term C13.Model.
Import ListNotations.

Definition nf : list N := [102%N].      (* f *)
Definition na : list N := [97%N].       (* a *)
Definition nb : list N := [98%N].       (* b *)
Definition nw : list N := [119%N].      (* w *)
Definition nend : list N := [101%N; 110%N; 100%N].
Definition nplus : list N := [43%N].    (* + *)
Definition cx : N := 120%N.             (* x *)

Fixpoint ints_from (start : Z) (n : nat) : list Z :=
  match n with O => [] | S k => start :: ints_from (start + 1) k end.
Definition ints (n : nat) : list Z := ints_from 1 n.            (* [1..n] *)

(* the shapes: the Prolog builders of checks/C34.py construct exactly these terms *)
Definition long_list (n : nat) : term := tlist (map Int (ints n)).                      (* numlist(1, N, T) *)
Fixpoint right_nest (n : nat) : term :=                                                  (* f(f(...f(a)...)) *)
  match n with O => Atom na | S k => Cmp nf [right_nest k] end.
Fixpoint left_nest (n : nat) : term :=                                                   (* ((a+b)+b)+...+b *)
  match n with O => Atom na | S k => Cmp nplus [left_nest k; Atom nb] end.
Fixpoint deep_list (n : nat) : term :=                                                   (* [[[...[]...]]] *)
  match n with O => tnil | S k => tcons (deep_list k) tnil end.
Definition long_string (n : nat) : term := tstring (repeat cx n).                        (* "xxx...x" *)
Fixpoint wide_k (k : nat) : term :=                                                      (* w(1,...,254,w(1,...,254,...end)) *)
  match k with O => Atom nend | S j => Cmp nw (map Int (ints 254) ++ [wide_k j]) end.

Inductive shape := LongList | RightNest | LeftNest | DeepList | LongString | Wide.
Definition build (s : shape) (n : nat) : term :=
  match s with
  | LongList => long_list n | RightNest => right_nest n | LeftNest => left_nest n
  | DeepList => deep_list n | LongString => long_string n | Wide => wide_k (n / 255)
  end.
(* the next larger instance, used by the comparison operations *)
Definition next (s : shape) (n : nat) : nat := match s with Wide => n + 255 | _ => S n end.

(* ------------------------------------------------------------------ reference functions *)
(* length/2 on a proper list *)
Fixpoint list_len (t : term) : option nat :=
  match t with
  | Atom s => if name_eqb s nil_name then Some O else None
  | Cmp f args => match args with
                  | [_; r] => if name_eqb f dot then option_map S (list_len r) else None
                  | _ => None
                  end
  | _ => None
  end.

(* ground/1 and term_variables/2 *)
Fixpoint ground (t : term) : bool :=
  match t with
  | Var _ => false
  | Cmp _ args => forallb ground args
  | _ => true
  end.
Fixpoint tvars (t : term) : list N :=
  match t with
  | Var v => [v]
  | Cmp _ args => flat_map tvars args
  | _ => []
  end.

(* copy_term/2: the copy is the term with its variables renamed (by any renaming) *)
Fixpoint rename (f : N -> N) (t : term) : term :=
  match t with
  | Var v => Var (f v)
  | Cmp g args => Cmp g (map (rename f) args)
  | _ => t
  end.

(* sort/2 on integers: insertion sort that drops duplicates *)
Fixpoint insert (x : Z) (l : list Z) : list Z :=
  match l with
  | [] => [x]
  | y :: r => match (x ?= y)%Z with Lt => x :: y :: r | Eq => y :: r | Gt => y :: insert x r end
  end.
Definition isort (l : list Z) : list Z := fold_right insert [] l.

(* number of decimal digits *)
Fixpoint ndig (fuel : nat) (n : N) : nat :=
  match fuel with
  | O => 1
  | S k => if (n <? 10)%N then 1 else S (ndig k (n / 10)%N)
  end.
Definition zdigits (z : Z) : nat := ((if (z <? 0)%Z then 1 else 0) + ndig 400 (Z.abs_N z))%nat.

(* length of the text write/1 produces, for the term shapes used here: atoms that need no quotes, integers, lists,
   canonical compounds f(..) and left-nested yfx + (no brackets needed).  inl = the term is in list-tail position. *)
Fixpoint wl (inl : bool) (t : term) : nat :=
  match t with
  | Atom s => if name_eqb s nil_name then (if inl then 1 else 2) else ((if inl then 2 else 0) + List.length s)
  | Int z => (if inl then 2 else 0) + zdigits z
  | Cmp f args =>
      let generic := List.length f + 1 + (fix go (l : list term) : nat :=
                                             match l with [] => 0 | x :: r => wl false x + 1 + go r end) args in
      match args with
      | [h; r] => if name_eqb f dot then 1 + wl false h + wl true r
                  else if name_eqb f nplus then wl false h + 1 + wl false r
                  else generic
      | _ => generic
      end
  | _ => 0
  end%nat.

Definition sum_digits (l : list Z) : nat := fold_right (fun z a => (zdigits z + a)%nat) O l.

(* ------------------------------------------------------------------ expected answers (closed forms) *)
Inductive opn := ONodes | OWrite | OLength | OCompare | OGround | OTermVariables | OSame | OSort.
Inductive answer := AInt (n : nat) | AAtom (name : list N).
Definition lt_name : list N := [60%N].
Definition true_name : list N := [116%N; 114%N; 117%N; 101%N].
Definition same_name : list N := [115%N; 97%N; 109%N; 101%N].

(* None = the model makes no prediction (the operation must still not crash) *)
Definition expect (s : shape) (o : opn) (n : nat) : option answer :=
  match o with
  | ONodes => Some (AInt (match s with
                          | RightNest => S n
                          | Wide => S (255 * (n / 255))
                          | _ => S (2 * n)
                          end))
  | OWrite => match s with
              | RightNest => Some (AInt (3 * n + 1))
              | LeftNest => Some (AInt (2 * n + 1))
              | DeepList => Some (AInt (2 * n + 2))
              | LongString => Some (AInt (match n with O => 2 | _ => 2 * n + 1 end))
              | LongList => Some (AInt (match n with O => 2 | _ => sum_digits (ints n) + n + 1 end))
              | Wide => None
              end
  | OLength => match s with
               | LongList | LongString => Some (AInt n)
               | DeepList => Some (AInt (match n with O => 0 | _ => 1 end))
               | _ => None
               end
  | OCompare => Some (AAtom lt_name)
  | OGround => Some (AAtom true_name)
  | OTermVariables => Some (AInt 0)
  | OSame | OSort => Some (AAtom same_name)
  end.

Definition answer_eqb (a b : answer) : bool :=
  match a, b with
  | AInt x, AInt y => Nat.eqb x y
  | AAtom x, AAtom y => name_eqb x y
  | _, _ => false
  end.
(* the comparison used by the check: n and integer answers are passed as N *)
Inductive observed := ObsInt (n : N) | ObsAtom (name : list N).
Definition check (s : shape) (o : opn) (n : N) (obs : observed) : bool :=
  match expect s o (N.to_nat n) with
  | None => true
  | Some e => answer_eqb e (match obs with ObsInt k => AInt (N.to_nat k) | ObsAtom a => AAtom a end)
  end.
