From Coq Require Import List Arith Bool Lia.
Import ListNotations.
From V Require Import C29.Model.

(* ---------- induction principle for nested terms *)
Fixpoint tm_ind' (P : tm -> Prop) (HV : forall x, P (V x))
  (HF : forall f args, Forall P args -> P (F f args)) (t : tm) : P t :=
  match t with
  | V x => HV x
  | F f args => HF f args ((fix go (l : list tm) : Forall P l :=
                              match l with [] => Forall_nil P | a :: r => Forall_cons a (tm_ind' P HV HF a) (go r) end) args)
  end.

(* ---------- equations as goals *)
Lemma apply_id_when_free (e : eqs) t :
  (forall y, In y (map fst e) -> occurs y t = false) -> apply (subst_of e) t = t.
Proof.
  induction t as [x|f args IH] using tm_ind'; intros H.
  - simpl. unfold subst_of. destruct (lookup x e) as [t|] eqn:L; auto.
    exfalso. assert (In x (map fst e)) as Hin.
    { clear H. induction e as [|[y u] r IHe]; simpl in *; try discriminate.
      destruct (Nat.eqb_spec y x); auto. }
    specialize (H x Hin). simpl in H. rewrite Nat.eqb_refl in H. discriminate.
  - simpl. f_equal. induction args as [|a r IHr]; auto.
    inversion IH as [|? ? Ha Hr]; subst. simpl. f_equal.
    + apply Ha. intros y Hy. specialize (H y Hy). simpl in H. apply orb_false_iff in H. apply H.
    + apply IHr; auto. intros y Hy. specialize (H y Hy). simpl in H. apply orb_false_iff in H. apply H.
Qed.

Lemma lookup_in e : NoDup (map fst e) -> forall x t, In (x, t) e -> lookup x e = Some t.
Proof.
  induction e as [|[y u] r IH]; intros Hnd x t Hin; simpl in *; [contradiction|].
  inversion Hnd as [|? ? Hn Hr]; subst. destruct Hin as [E|Hin].
  - inversion E; subst. rewrite Nat.eqb_refl. reflexivity.
  - destruct (Nat.eqb_spec y x) as [->|Hne].
    + exfalso. apply Hn. apply in_map_iff. exists (x, t). auto.
    + apply IH; auto.
Qed.

(* the answer substitution solves every printed equation ... *)
Lemma eqs_solved e : wf_eqs e -> forall x t, In (x, t) e -> apply (subst_of e) (V x) = apply (subst_of e) t.
Proof.
  intros [Hnd Hfree] x t Hin. simpl. unfold subst_of at 1. rewrite (lookup_in e Hnd x t Hin).
  symmetry. apply apply_id_when_free. intros y Hy. eapply Hfree; eauto.
Qed.

(* ... and is most general: every other solution factors through it *)
Lemma eqs_most_general e (th : nat -> tm) :
  (forall x t, In (x, t) e -> th x = apply th t) -> forall y, apply th (subst_of e y) = th y.
Proof.
  intros H y. unfold subst_of. destruct (lookup y e) as [t|] eqn:L; auto.
  symmetry. apply H. clear H. induction e as [|[z u] r IH]; simpl in *; try discriminate.
  destruct (Nat.eqb_spec z y) as [->|Hne]; auto. inversion L; subst. auto.
Qed.

(* ---------- reader / writer *)
Lemma read_tms_mono fuel : forall n l r, read_tms fuel n l = Some r -> read_tms (S fuel) n l = Some r.
Proof.
  induction fuel as [|fu IH]; intros n l r H; [discriminate|].
  destruct n as [|n']; [exact H|].
  simpl in H. destruct l as [|[x|f k| | |] l']; try discriminate.
  - destruct (read_tms fu n' l') as [[ts r']|] eqn:E; try discriminate.
    apply IH in E. cbn [read_tms]. cbn [read_tms] in E. rewrite E. exact H.
  - destruct (read_tms fu k l') as [[args r1]|] eqn:E1; try discriminate.
    destruct (read_tms fu n' r1) as [[ts r2]|] eqn:E2; try discriminate.
    apply IH in E1. apply IH in E2. cbn [read_tms]. cbn [read_tms] in E1, E2. rewrite E1, E2. exact H.
Qed.
Lemma read_tms_mono_le fuel fuel' n l r : fuel <= fuel' -> read_tms fuel n l = Some r -> read_tms fuel' n l = Some r.
Proof. induction 1; auto. intros H0. apply read_tms_mono. auto. Qed.

Lemma read_tms_var fu n x r : read_tms (S fu) (S n) (TVar x :: r) =
  match read_tms fu n r with Some (ts, r') => Some (V x :: ts, r') | None => None end.
Proof. reflexivity. Qed.
Lemma read_tms_sym fu n f k r : read_tms (S fu) (S n) (TSym f k :: r) =
  match read_tms fu k r with
  | Some (args, r1) => match read_tms fu n r1 with Some (ts, r2) => Some (F f args :: ts, r2) | None => None end
  | None => None
  end.
Proof. reflexivity. Qed.

Definition sizes (ts : list tm) : nat := fold_right (fun a n => size a + n) 0 ts.

Lemma read_write_tms : forall ts rest,
  read_tms (S (2 * sizes ts)) (length ts) (flat_map write_tm ts ++ rest) = Some (ts, rest).
Proof.
  (* induction on the total size *)
  assert (forall m ts rest, 2 * sizes ts <= m ->
            read_tms (S m) (length ts) (flat_map write_tm ts ++ rest) = Some (ts, rest)) as Hm.
  { induction m as [|m IH]; intros ts rest Hle.
    - destruct ts as [|t ts]; [reflexivity|]. simpl in Hle. destruct t; simpl in Hle; lia.
    - destruct ts as [|t ts]; [reflexivity|].
      destruct t as [x|f args].
      + cbn [length flat_map write_tm app]. rewrite read_tms_var.
        simpl in Hle. rewrite (IH ts rest) by lia. reflexivity.
      + cbn [length flat_map write_tm]. rewrite <- app_assoc. cbn [app]. rewrite read_tms_sym.
        simpl in Hle. fold (sizes args) in Hle. fold (sizes ts) in Hle.
        rewrite (IH args (flat_map write_tm ts ++ rest)) by lia.
        rewrite (IH ts rest) by lia. reflexivity. }
  intros ts rest. apply Hm. lia.
Qed.

Lemma read_write_tm t rest fuel : S (S (2 * size t)) <= fuel -> read_tm fuel (write_tm t ++ rest) = Some (t, rest).
Proof.
  intros H. unfold read_tm.
  pose proof (read_write_tms [t] rest) as R.
  cbn [flat_map length sizes fold_right] in R. rewrite app_nil_r in R.
  assert (Hle : S (2 * (size t + 0)) <= fuel) by lia.
  rewrite (read_tms_mono_le _ fuel 1 _ _ Hle R). reflexivity.
Qed.

Definition asize (e : eqs) (g : list tm) : nat :=
  fold_right (fun p n => S (S (2 * size (snd p))) + n) 0 e + fold_right (fun t n => S (S (2 * size t)) + n) 0 g.

Lemma read_write_goals g : forall fuel es gs, S (asize [] g) <= fuel ->
  read_answer fuel (write_goals g ++ [TEnd]) es gs = Some {| a_eqs := rev es; a_res := rev gs ++ g |}.
Proof.
  induction g as [|t r IH]; intros fuel es gs H.
  - destruct fuel; [lia|]. simpl. rewrite app_nil_r. reflexivity.
  - destruct fuel as [|fu]; [unfold asize in H; simpl in H; lia|].
    cbn [write_goals app]. rewrite <- app_assoc. cbn [read_answer].
    unfold asize in *. simpl in H.
    rewrite read_write_tm by lia. rewrite IH by (unfold asize; simpl; lia).
    simpl. rewrite <- app_assoc. reflexivity.
Qed.

Lemma read_write_eqs e : forall g fuel es, S (asize e g) <= fuel ->
  read_answer fuel (write_eqs e ++ write_goals g ++ [TEnd]) es [] = Some {| a_eqs := rev es ++ e; a_res := g |}.
Proof.
  induction e as [|[x t] r IH]; intros g fuel es H.
  - simpl. rewrite read_write_goals by exact H. rewrite app_nil_r. reflexivity.
  - destruct fuel as [|fu]; [unfold asize in H; simpl in H; lia|].
    cbn [write_eqs app]. rewrite <- app_assoc. cbn [read_answer].
    unfold asize in *. simpl in H.
    rewrite read_write_tm by lia. rewrite IH by (unfold asize; simpl; lia).
    simpl. rewrite <- app_assoc. reflexivity.
Qed.

Lemma read_write_answer a : read_answer (S (asize (a_eqs a) (a_res a))) (write_answer a) [] [] = Some a.
Proof.
  unfold write_answer. rewrite read_write_eqs by lia. destruct a; reflexivity.
Qed.

(* ---------- the list of printed items *)
Lemma render_answers sols : flat_map (fun i => match i with IAns a => [a] | IFalse => [] end) (render sols) = map fst sols.
Proof.
  induction sols as [|[a m] r IH]; auto.
  destruct r as [|p r']; [destruct m; reflexivity|].
  change (render ((a, m) :: p :: r')) with (IAns a :: render (p :: r')).
  transitivity (a :: flat_map (fun i => match i with IAns a => [a] | IFalse => [] end) (render (p :: r'))); [reflexivity|].
  rewrite IH. reflexivity.
Qed.

Lemma render_last sols : last (render sols) IFalse = IFalse <-> (sols = [] \/ snd (last sols (Model.dummy, false)) = true).
Proof.
  induction sols as [|[a m] r IH].
  - simpl. split; auto.
  - destruct r as [|p r'].
    + destruct m; simpl; split; auto; intros H; try discriminate.
      destruct H as [H|H]; discriminate.
    + change (render ((a, m) :: p :: r')) with (IAns a :: render (p :: r')).
      assert (render (p :: r') <> []) as Hne by (destruct p as [a' m']; destruct r'; [destruct m'|]; discriminate).
      assert (last (IAns a :: render (p :: r')) IFalse = last (render (p :: r')) IFalse) as ->.
      { destruct (render (p :: r')); [contradiction|reflexivity]. }
      rewrite IH. split; intros [H|H]; try discriminate; right; exact H.
Qed.

Lemma render_false_only_last sols i : i < pred (length (render sols)) -> nth i (render sols) IFalse <> IFalse.
Proof.
  revert i. induction sols as [|[a m] r IH]; intros i H.
  - simpl in H. lia.
  - destruct r as [|p r'].
    + destruct m; simpl in *; destruct i; try lia; discriminate.
    + change (render ((a, m) :: p :: r')) with (IAns a :: render (p :: r')) in *.
      destruct i; [discriminate|]. cbn [nth]. apply IH. cbn [length Nat.pred] in H. lia.
Qed.
