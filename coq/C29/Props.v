(* C29 -- pinned property theorems (nothing else lives here) *)
From Coq Require Import List Arith Bool.
Import ListNotations.
From V Require Import C29.Model C29.Proofs.

(* a printed answer (reference linearisation), read back, is the answer it came from ... *)
Theorem answer_text_reads_back : forall a, read_answer (S (asize (a_eqs a) (a_res a))) (write_answer a) [] [] = Some a.
Proof. exact read_write_answer. Qed.
Print Assumptions answer_text_reads_back.

(* ... and its equations, run as goals, are satisfied by exactly the substitution they came from:
   it solves them and every other solution is an instance of it *)
Theorem answer_text_denotes_solution : forall e, wf_eqs e ->
  (forall x t, In (x, t) e -> apply (subst_of e) (V x) = apply (subst_of e) t) /\
  (forall th, (forall x t, In (x, t) e -> th x = apply th t) -> forall y, apply th (subst_of e y) = th y).
Proof. intros e H. split. { exact (eqs_solved e H). } exact (eqs_most_general e). Qed.
Print Assumptions answer_text_denotes_solution.

(* the printed answers are exactly the solutions, in order *)
Theorem answers_in_order : forall sols,
  flat_map (fun i => match i with IAns a => [a] | IFalse => [] end) (render sols) = map fst sols.
Proof. exact render_answers. Qed.
Print Assumptions answers_in_order.

(* the list ends with false iff there was no solution or the last solution left choice points *)
Theorem trailing_false_rule : forall sols,
  last (render sols) IFalse = IFalse <-> (sols = [] \/ snd (last sols (dummy, false)) = true).
Proof. exact render_last. Qed.
Print Assumptions trailing_false_rule.

Theorem false_only_at_the_end : forall sols i, i < pred (length (render sols)) -> nth i (render sols) IFalse <> IFalse.
Proof. exact render_false_only_last. Qed.
Print Assumptions false_only_at_the_end.

(* non-vacuity *)
Example ex_wf : wf_eqs [(0, F 1 [V 2]); (1, F 3 [])].
Proof. split. { repeat constructor; simpl; intuition discriminate. }
  intros x t y [E|[E|[]]] [<-|[<-|[]]]; inversion E; subst; reflexivity. Qed.
Example ex_roundtrip :
  read_answer 50 (write_answer {| a_eqs := [(0, F 1 [V 2; F 4 []]); (1, F 3 [])]; a_res := [F 9 [V 2; F 3 []]] |}) [] []
  = Some {| a_eqs := [(0, F 1 [V 2; F 4 []]); (1, F 3 [])]; a_res := [F 9 [V 2; F 3 []]] |}.
Proof. vm_compute. reflexivity. Qed.
Example ex_render : map shape_of (render (stream 3 true)) = [SAns; SAns; SAns; SFalse] /\
                    map shape_of (render (stream 2 false)) = [SAns; SAns] /\ map shape_of (render (stream 0 false)) = [SFalse].
Proof. vm_compute. auto. Qed.
