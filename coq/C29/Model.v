(* C29 -- reference model of what the toplevel prints for a query: the stream of solutions (each with the bit
   "choice points remained after it") rendered as a list of items, answers as equations Var = Term plus residual
   goals, and a reference linearisation (writer / reader) of answers.  No proofs in this file. *)
From Coq Require Import List Arith Bool.
Import ListNotations.

Inductive tm := V (x : nat) | F (f : nat) (args : list tm).

(* ---------- substitutions and equations *)
Definition eqs := list (nat * tm).
Fixpoint lookup (x : nat) (e : eqs) : option tm :=
  match e with [] => None | (y, t) :: r => if y =? x then Some t else lookup x r end.
Definition subst_of (e : eqs) (x : nat) : tm := match lookup x e with Some t => t | None => V x end.
Fixpoint apply (s : nat -> tm) (t : tm) : tm :=
  match t with
  | V x => s x
  | F f args => F f (map (apply s) args)
  end.
Fixpoint occurs (y : nat) (t : tm) : bool :=
  match t with
  | V x => x =? y
  | F _ args => existsb (occurs y) args
  end.
(* the shape of an answer substitution: distinct query variables on the left, none of them inside a right-hand side *)
Definition wf_eqs (e : eqs) : Prop :=
  NoDup (map fst e) /\ forall x t y, In (x, t) e -> In y (map fst e) -> occurs y t = false.

(* an answer: equations and residual goals (goals are terms) *)
Record answer := { a_eqs : eqs; a_res : list tm }.

(* ---------- the reference linearisation: symbols with their arity, variables; `=` and `,` and end markers *)
Inductive tok := TVar (x : nat) | TSym (f : nat) (arity : nat) | TEq | TGoal | TEnd.
Fixpoint write_tm (t : tm) : list tok :=
  match t with
  | V x => [TVar x]
  | F f args => TSym f (length args) :: flat_map write_tm args
  end.
Fixpoint write_eqs (e : eqs) : list tok :=
  match e with [] => [] | (x, t) :: r => TEq :: TVar x :: write_tm t ++ write_eqs r end.
Fixpoint write_goals (g : list tm) : list tok :=
  match g with [] => [] | t :: r => TGoal :: write_tm t ++ write_goals r end.
Definition write_answer (a : answer) : list tok := write_eqs (a_eqs a) ++ write_goals (a_res a) ++ [TEnd].

(* reader: n terms from the token list *)
Fixpoint read_tms (fuel : nat) (n : nat) (l : list tok) : option (list tm * list tok) :=
  match fuel with
  | O => None
  | S fu =>
    match n with
    | O => Some ([], l)
    | S n' =>
      match l with
      | TVar x :: r => match read_tms fu n' r with Some (ts, r') => Some (V x :: ts, r') | None => None end
      | TSym f k :: r =>
        match read_tms fu k r with
        | Some (args, r1) => match read_tms fu n' r1 with Some (ts, r2) => Some (F f args :: ts, r2) | None => None end
        | None => None
        end
      | _ => None
      end
    end
  end.
Definition read_tm (fuel : nat) (l : list tok) : option (tm * list tok) :=
  match read_tms fuel 1 l with Some ([t], r) => Some (t, r) | _ => None end.
Fixpoint read_answer (fuel : nat) (l : list tok) (es : eqs) (gs : list tm) : option answer :=
  match fuel with
  | O => None
  | S fu =>
    match l with
    | TEq :: TVar x :: r => match read_tm fuel r with Some (t, r') => read_answer fu r' ((x, t) :: es) gs | None => None end
    | TGoal :: r => match read_tm fuel r with Some (t, r') => read_answer fu r' es (t :: gs) | None => None end
    | [TEnd] => Some {| a_eqs := rev es; a_res := rev gs |}
    | _ => None
    end
  end.
Fixpoint size (t : tm) : nat := match t with V _ => 1 | F _ args => S (fold_right (fun a n => size a + n) 0 args) end.

(* ---------- what is printed for a stream of solutions *)
Inductive item := IAns (a : answer) | IFalse.
(* each solution comes with the bit "choice points remained when it was reported" *)
Fixpoint render (sols : list (answer * bool)) : list item :=
  match sols with
  | [] => [IFalse]
  | [(a, more)] => if more then [IAns a; IFalse] else [IAns a]
  | (a, _) :: r => IAns a :: render r
  end.

(* ---------- correspondence: the shape of the printed list (k answers, then false or not) *)
Inductive shape := SAns | SFalse.
Definition shape_of (i : item) : shape := match i with IAns _ => SAns | IFalse => SFalse end.
Definition shape_eqb (a b : shape) : bool := match a, b with SAns, SAns => true | SFalse, SFalse => true | _, _ => false end.
Fixpoint shapes_eqb (a b : list shape) : bool :=
  match a, b with [] , [] => true | x :: a', y :: b' => shape_eqb x y && shapes_eqb a' b' | _, _ => false end.
Definition dummy : answer := {| a_eqs := []; a_res := [] |}.
(* n solutions reported by the solution iterator, the last one with `more`; every earlier one necessarily had
   choice points left *)
Fixpoint stream (n : nat) (more : bool) : list (answer * bool) :=
  match n with
  | O => []
  | S O => [(dummy, more)]
  | S n' => (dummy, true) :: stream n' more
  end.
(* observed: code 0 = an answer, 1 = false ; verdicts of re-executing each printed answer *)
Definition shape_of_code (c : nat) : shape := match c with O => SAns | _ => SFalse end.
Definition check_case (n : nat) (more : bool) (observed : list nat) (verdicts : list bool) : bool :=
  shapes_eqb (map shape_of (render (stream n more))) (map shape_of_code observed)
  && forallb (fun b => b) verdicts && (length verdicts =? n).
