(* C17 -- reference reader: clause splitter + tokenizer + a precedence parser for a fixed sub-grammar.

   For an input text (list of code points) [read_all] gives the sequence of outcomes a conforming
   reader produces when read_term is called until end_of_file:
     OTerm t   the clause is in the decided sub-grammar and denotes t
     OErrLex   lexical error (bad escape, invalid character, unterminated quoted item / comment);
               the reader resumes right after the first end token at or after the error position
     OErrSyn   the token sequence up to the end token is certainly not a term (or the end token is missing)
     OUnknown  the clause is lexically fine and its extent is known, but it uses tokens outside the decided
               sub-grammar (other operators, prefix operators, floats, strings, '|' as an operator):
               either a term or a syntax error is acceptable
     OEof      only layout and comments remain
   Definitions only; lemmas are in Proofs.v. *)
From Coq Require Import List NArith ZArith Bool.
From V Require Import Base.Term.
Import ListNotations.
Local Open Scope N_scope.

(* ------------------------------------------------------------------ character classes
   (src/parser/macros.rs, restricted to the alphabet ASCII + { U+A0, E-acute, e-acute, U+2200, U+65E5 };
   the generator never leaves this alphabet; every other code point is treated as an invalid character) *)
Definition is_layout (c : N) : bool :=
  (c =? 32) || (c =? 10) || (c =? 9) || (c =? 13) || (c =? 11) || (c =? 12).
Definition is_digit (c : N) : bool := (48 <=? c) && (c <=? 57).
Definition is_octal (c : N) : bool := (48 <=? c) && (c <=? 55).
Definition is_binary (c : N) : bool := (c =? 48) || (c =? 49).
Definition is_hex (c : N) : bool :=
  is_digit c || ((65 <=? c) && (c <=? 70)) || ((97 <=? c) && (c <=? 102)).
Definition is_small (c : N) : bool := ((97 <=? c) && (c <=? 122)) || (c =? 233) || (c =? 26085).
Definition is_capital (c : N) : bool := ((65 <=? c) && (c <=? 90)) || (c =? 201).
Definition is_alnum (c : N) : bool :=
  is_small c || is_capital c || is_digit c || (c =? 95) || (c =? 8704).
(* graphic_token_char: # $ & * + - . / : < = > ? @ ^ ~ and backslash *)
Definition is_symch (c : N) : bool :=
  (c =? 35) || (c =? 36) || (c =? 38) || (c =? 42) || (c =? 43) || (c =? 45) || (c =? 46) || (c =? 47) ||
  (c =? 58) || (c =? 60) || (c =? 61) || (c =? 62) || (c =? 63) || (c =? 64) || (c =? 94) || (c =? 126) ||
  (c =? 92).
(* solo_char: ! ( ) , ; [ ] { } | % *)
Definition is_solo (c : N) : bool :=
  (c =? 33) || (c =? 40) || (c =? 41) || (c =? 44) || (c =? 59) || (c =? 91) || (c =? 93) || (c =? 123) ||
  (c =? 125) || (c =? 124) || (c =? 37).
(* meta_char: backslash, single quote, double quote, back quote *)
Definition is_meta (c : N) : bool := (c =? 92) || (c =? 39) || (c =? 34) || (c =? 96).
(* a character that stands for itself inside a quoted item (besides the other two quote characters) *)
Definition quotable (c : N) : bool :=
  (is_symch c && negb (c =? 92)) || is_alnum c || is_solo c || (c =? 32).
(* what may follow the '.' of an end token (or the end of the input) *)
Definition end_follow (c : N) : bool := is_layout c || (c =? 37).

(* ------------------------------------------------------------------ small scanners *)
Fixpoint span_len (p : N -> bool) (s : list N) : nat :=
  match s with
  | c :: r => if p c then S (span_len p r) else O
  | [] => O
  end.

Definition digit_val (c : N) : Z :=
  if is_digit c then Z.of_N (c - 48)
  else if (65 <=? c) && (c <=? 70) then Z.of_N (c - 55)
  else Z.of_N (c - 87).
Definition digits_val (base : Z) (ds : list N) : Z :=
  fold_left (fun acc c => (acc * base + digit_val c)%Z) ds 0%Z.

(* layout and comments: the number of characters up to the start of the next token;
   None = the input ends inside a bracketed comment *)
Inductive lmode := LNorm | LLine | LOpen | LBlock | LStar.
Fixpoint layout_len (m : lmode) (s : list N) : option nat :=
  match s with
  | [] => match m with LNorm | LLine => Some O | _ => None end
  | c :: r =>
    match m with
    | LNorm =>
        if is_layout c then option_map S (layout_len LNorm r)
        else if c =? 37 then option_map S (layout_len LLine r)
        else if (c =? 47) && (match r with d :: _ => d =? 42 | [] => false end)
             then option_map S (layout_len LOpen r)
        else Some O
    | LLine => option_map S (layout_len (if c =? 10 then LNorm else LLine) r)
    | LOpen => option_map S (layout_len LBlock r)
    | LBlock => option_map S (layout_len (if c =? 42 then LStar else LBlock) r)
    | LStar => option_map S (layout_len (if c =? 47 then LNorm else if c =? 42 then LStar else LBlock) r)
    end
  end.

(* escape sequences; the argument is the text after the backslash *)
Inductive escres := EChar (c : N) (k : nat) | ECont (k : nat) | EBad.
Definition valid_scalar (v : Z) : bool :=
  ((0 <=? v) && (v <? 55296) || (57344 <=? v) && (v <=? 1114111))%Z.
Definition num_escape (base : Z) (p : N -> bool) (s : list N) : escres :=
  let n := span_len p s in
  match skipn n s with
  | c :: _ =>
      let v := digits_val base (firstn n s) in
      if (c =? 92) && (Nat.leb n 8%nat) && valid_scalar v then EChar (Z.to_N v) (S n) else EBad
  | [] => EBad
  end.
Definition ctrl_escape (c : N) : option N :=
  if c =? 97 then Some 7 else if c =? 98 then Some 8 else if c =? 102 then Some 12
  else if c =? 110 then Some 10 else if c =? 114 then Some 13 else if c =? 116 then Some 9
  else if c =? 118 then Some 11 else None.
Definition escape (cont_ok : bool) (s : list N) : escres :=
  match s with
  | [] => EBad
  | c :: r =>
      if c =? 10 then (if cont_ok then ECont 1%nat else EBad)
      else if is_meta c then EChar c 1%nat
      else if is_octal c then num_escape 8 is_octal s
      else if c =? 120 then
        match num_escape 16 is_hex r with
        | EChar v k => (match k with 1%nat => EBad | _ => EChar v (S k) end)
        | _ => EBad
        end
      else match ctrl_escape c with Some v => EChar v 1%nat | None => EBad end
  end.

(* a quoted item; [s] is the text after the opening quote [q]; offsets count from the opening quote *)
Inductive qres := QOk (name : list N) (k : nat) | QErr (e : nat) | QNoFuel.
Fixpoint scan_q (q : N) (fuel : nat) (s : list N) (off : nat) (acc : list N) : qres :=
  match fuel with
  | O => QNoFuel
  | S f =>
    match s with
    | [] => QErr off
    | c :: r =>
      if c =? q then
        match r with
        | d :: r' => if d =? q then scan_q q f r' (2 + off)%nat (q :: acc) else QOk (rev acc) (S off)
        | [] => QOk (rev acc) (S off)
        end
      else if c =? 92 then
        match escape true r with
        | EChar ch k => scan_q q f (skipn k r) (S k + off)%nat (ch :: acc)
        | ECont k => scan_q q f (skipn k r) (S k + off)%nat acc
        | EBad => QErr off
        end
      else if quotable c || is_meta c then scan_q q f r (S off) (c :: acc)
      else QErr off
    end
  end.
Definition scan_quoted (q : N) (s : list N) : qres := scan_q q (S (length s)) s 1%nat [].

(* ------------------------------------------------------------------ tokens *)
Inductive tok :=
| TName (s : list N)     (* an atom (unquoted, quoted, symbolic, solo) *)
| TVar (s : list N)      (* a variable, by name; after numbering: [index] *)
| TInt (z : Z)
| TUnk                   (* a float or a double-quoted string: extent known, value not modelled *)
| TPunct (c : N)         (* ( ) [ ] { } , |   -- "(" here is one preceded by layout *)
| TOpenCT                (* "(" immediately after the previous token *)
| TEnd.

Inductive lexres :=
| LTok (t : tok) (k : nat)   (* k characters consumed, leading layout included *)
| LEof                       (* only layout and comments remain *)
| LErr (e : nat)             (* lexical error detected at offset e *)
| LNoFuel.

(* 0'c : [a] is the text after 0' ; [plain] is the result for the integer 0 alone *)
Definition char_lit (a : list N) (plain : lexres) : lexres :=
  match a with
  | [] => LErr 2%nat
  | d :: a' =>
      if d =? 92 then
        match escape false a' with
        | EChar ch k => LTok (TInt (Z.of_N ch)) (3 + k)%nat
        | _ => LErr 2%nat
        end
      else if d =? 39 then
        match a' with
        | d' :: _ => if d' =? 39 then LTok (TInt 39) 4%nat else plain
        | [] => plain
        end
      else if quotable d || (d =? 34) || (d =? 96) then LTok (TInt (Z.of_N d)) 3%nat
      else LErr 2%nat
  end.
(* 0x.. 0o.. 0b.. : [a] is the text after the radix letter *)
Definition radix_lit (base : Z) (p : N -> bool) (a : list N) (plain : lexres) : lexres :=
  let k := span_len p a in
  match k with
  | O => plain
  | S _ => LTok (TInt (digits_val base (firstn k a))) (2 + k)%nat
  end.
(* digits '.' digits [e [+-] digits] : [n] integer digits, [a] the text after the '.' *)
Definition float_lit (n : nat) (a : list N) (plain : lexres) : lexres :=
  let f := span_len is_digit a in
  match f with
  | O => plain
  | S _ =>
      let ex :=
        match skipn f a with
        | x :: b' =>
            if (x =? 101) || (x =? 69) then
              match b' with
              | y :: b'' =>
                  if is_digit y then (1 + span_len is_digit b')%nat
                  else if (y =? 43) || (y =? 45) then
                    match span_len is_digit b'' with O => O | S e => (3 + e)%nat end
                  else O
              | [] => O
              end
            else O
        | [] => O
        end in
      LTok TUnk (n + 1 + f + ex)%nat
  end.

(* number starting at a digit *)
Definition number_tok (s : list N) : lexres :=
  let n := span_len is_digit s in
  let ds := firstn n s in
  let plain := LTok (TInt (digits_val 10 ds)) n in
  let zero := match ds with [c] => c =? 48 | _ => false end in
  match skipn n s with
  | [] => plain
  | x :: a =>
      if x =? 46 then float_lit n a plain
      else if negb zero then plain
      else if x =? 39 then char_lit a plain
      else if x =? 120 then radix_lit 16 is_hex a plain
      else if x =? 111 then radix_lit 8 is_octal a plain
      else if x =? 98 then radix_lit 2 is_binary a plain
      else plain
  end.

(* the token starting at c :: r; lay = layout or a comment precedes it *)
Definition tok_at (lay : bool) (c : N) (r : list N) : lexres :=
  if is_capital c || (c =? 95) then
    let k := span_len is_alnum r in LTok (TVar (c :: firstn k r)) (S k)
  else if is_digit c then number_tok (c :: r)
  else if c =? 46 then
    match r with
    | [] => LTok TEnd 1%nat
    | d :: _ =>
        if end_follow d then LTok TEnd 1%nat
        else let k := span_len is_symch r in LTok (TName (c :: firstn k r)) (S k)
    end
  else if is_small c then
    let k := span_len is_alnum r in LTok (TName (c :: firstn k r)) (S k)
  else if is_symch c then
    let k := span_len is_symch r in LTok (TName (c :: firstn k r)) (S k)
  else if (c =? 33) || (c =? 59) then LTok (TName [c]) 1%nat
  else if c =? 40 then LTok (if lay then TPunct 40 else TOpenCT) 1%nat
  else if (c =? 41) || (c =? 44) || (c =? 91) || (c =? 93) || (c =? 123) || (c =? 125) || (c =? 124)
       then LTok (TPunct c) 1%nat
  else if c =? 39 then
    match scan_quoted 39 r with
    | QOk name k => LTok (TName name) k
    | QErr e => LErr e
    | QNoFuel => LNoFuel
    end
  else if c =? 34 then
    match scan_quoted 34 r with
    | QOk _ k => LTok TUnk k
    | QErr e => LErr e
    | QNoFuel => LNoFuel
    end
  else if c =? 96 then                        (* back-quoted strings are not supported: an error after the item *)
    match scan_quoted 96 r with
    | QOk _ k => LErr k
    | QErr e => LErr e
    | QNoFuel => LNoFuel
    end
  else LErr 0%nat.

Definition shift_lex (n : nat) (l : lexres) : lexres :=
  match l with
  | LTok t k => LTok t (n + k)%nat
  | LErr e => LErr (n + e)%nat
  | other => other
  end.

Definition next_token (s : list N) : lexres :=
  match layout_len LNorm s with
  | None => LErr (length s)                   (* unterminated bracketed comment: detected at the end of input *)
  | Some n =>
      match skipn n s with
      | [] => LEof
      | c :: r => shift_lex n (tok_at (Nat.ltb 0 n) c r)
      end
  end.

(* ------------------------------------------------------------------ clauses *)
Inductive cres :=
| CEof
| CToks (ts : list tok) (n : nat)   (* tokens up to and including the end token; n characters consumed *)
| CNoEnd (ts : list tok)            (* the input ends before an end token *)
| CLexErr (n : nat)                 (* lexical error at offset n *)
| CNoFuel.

Fixpoint lex_clause (fuel : nat) (s : list N) (off : nat) (acc : list tok) : cres :=
  match fuel with
  | O => CNoFuel
  | S f =>
    match next_token s with
    | LNoFuel => CNoFuel
    | LEof => match acc with [] => CEof | _ => CNoEnd (rev acc) end
    | LErr e => CLexErr (off + e)%nat
    | LTok TEnd k => CToks (rev (TEnd :: acc)) (off + k)%nat
    | LTok t k => lex_clause f (skipn k s) (off + k)%nat (t :: acc)
    end
  end.

(* resynchronisation after a lexical error: drop everything up to and including the first '.' that is
   followed by layout, '%' or the end of the input *)
Fixpoint skip_to_end (s : list N) : list N :=
  match s with
  | [] => []
  | c :: r =>
      if c =? 46 then
        match r with
        | [] => []
        | d :: _ => if end_follow d then r else skip_to_end r
        end
      else skip_to_end r
  end.

(* ------------------------------------------------------------------ the decided sub-grammar *)
Inductive optype := XFX | XFY | YFX.
Inductive nkind := NPlain | NOp (p : nat) (ty : optype) | NUnknown.

Definition word_ops : list (list N) :=
  [ [105;115]; [109;111;100]; [114;101;109]; [100;105;118]; [114;100;105;118]; [120;111;114];
    [110;111;110;95;99;111;117;110;116;101;100;95;98;97;99;107;116;114;97;99;107;105;110;103];
    [44]; [124] ].

Definition name_kind (s : list N) : nkind :=
  if name_eqb s [58;45] then NOp 1200%nat XFX            (* :- *)
  else if name_eqb s [59] then NOp 1100%nat XFY          (* ;  *)
  else if name_eqb s [45;62] then NOp 1050%nat XFY       (* -> *)
  else if name_eqb s [61] then NOp 700%nat XFX           (* =  *)
  else if name_eqb s [60] then NOp 700%nat XFX           (* <  *)
  else if name_eqb s [43] then NOp 500%nat YFX           (* +  *)
  else if name_eqb s [45] then NOp 500%nat YFX           (* -  *)
  else if name_eqb s [42] then NOp 400%nat YFX           (* *  *)
  else if existsb (name_eqb s) word_ops then NUnknown
  else match s with
       | [] => NPlain
       | c :: _ => if is_symch c then NUnknown else NPlain
       end.

(* brackets must nest properly: certain whatever else the clause contains *)
Fixpoint balanced (stack : list N) (ts : list tok) : bool :=
  match ts with
  | [] => match stack with [] => true | _ => false end
  | t :: r =>
    match t with
    | TOpenCT => balanced (41 :: stack) r
    | TPunct 40 => balanced (41 :: stack) r
    | TPunct 91 => balanced (93 :: stack) r
    | TPunct 123 => balanced (125 :: stack) r
    | TPunct c =>
        if (c =? 41) || (c =? 93) || (c =? 125) then
          match stack with
          | x :: st => if x =? c then balanced st r else false
          | [] => false
          end
        else balanced stack r
    | _ => balanced stack r
    end
  end.

Definition tok_unknown (t : tok) : bool :=
  match t with
  | TUnk => true
  | TName s => match name_kind s with NUnknown => true | _ => false end
  | _ => false
  end.

(* variables numbered by first occurrence; every "_" is fresh *)
Fixpoint lookup_var (s : list N) (env : list (list N)) (i : N) : option N :=
  match env with
  | [] => None
  | x :: r => if name_eqb x s then Some i else lookup_var s r (i + 1)
  end.
Fixpoint number_toks (env : list (list N)) (ts : list tok) : list tok :=
  match ts with
  | [] => []
  | TVar s :: r =>
      if name_eqb s [95] then TVar [N.of_nat (length env)] :: number_toks (env ++ [[]]) r
      else match lookup_var s env 0 with
           | Some i => TVar [i] :: number_toks env r
           | None => TVar [N.of_nat (length env)] :: number_toks (env ++ [s]) r
           end
  | t :: r => t :: number_toks env r
  end.

Inductive pres :=
| POk (t : term) (p : nat) (rest : list tok)
| PArgs (l : list term) (rest : list tok)
| PErr | PUnk | PFuel.

Definition comma_name : list N := [44].
Definition curly_name : list N := [123; 125].

(* parse f maxp ts     : a term of priority <= maxp at the head of ts
   infix f maxp l lp ts: continue after the complete left operand l of priority lp
   pargs f ts          : arguments "t , t , ... )" of priority 999 each, up to and including ")"
   plist f ts          : list items "t , ... [| t] ]" *)
Fixpoint parse (fuel : nat) (maxp : nat) (ts : list tok) {struct fuel} : pres :=
  match fuel with
  | O => PFuel
  | S f =>
    match ts with
    | [] => PErr
    | t :: r =>
      match t with
      | TInt z => infix f maxp (Int z) 0%nat r
      | TVar [i] => infix f maxp (Var i) 0%nat r
      | TVar _ => PErr
      | TUnk => PUnk
      | TName s =>
          match r with
          | TOpenCT :: r' =>
              match name_kind s with
              | NUnknown => PUnk
              | _ =>
                if name_eqb s nil_name || name_eqb s curly_name then PUnk else
                match pargs f r' with
                | PArgs args r'' => infix f maxp (Cmp s args) 0%nat r''
                | POk _ _ _ => PErr
                | e => e
                end
              end
          | _ =>
              match name_kind s with
              | NPlain => infix f maxp (Atom s) 0%nat r
              | _ => PUnk
              end
          end
      | TOpenCT | TPunct 40 =>
          match parse f 1200%nat r with
          | POk t1 _ (TPunct 41 :: r') => infix f maxp t1 0%nat r'
          | POk _ _ _ => PErr
          | PArgs _ _ => PErr
          | e => e
          end
      | TPunct 91 =>
          match r with
          | TPunct 93 :: TOpenCT :: _ => PUnk
          | TPunct 93 :: r' => infix f maxp tnil 0%nat r'
          | _ =>
              match plist f r with
              | POk t1 _ r' => infix f maxp t1 0%nat r'
              | PArgs _ _ => PErr
              | e => e
              end
          end
      | TPunct 123 =>
          match r with
          | TPunct 125 :: TOpenCT :: _ => PUnk
          | TPunct 125 :: r' => infix f maxp (Atom curly_name) 0%nat r'
          | _ =>
              match parse f 1200%nat r with
              | POk t1 _ (TPunct 125 :: r') => infix f maxp (Cmp curly_name [t1]) 0%nat r'
              | POk _ _ _ => PErr
              | PArgs _ _ => PErr
              | e => e
              end
          end
      | _ => PErr
      end
    end
  end
with infix (fuel : nat) (maxp : nat) (l : term) (lp : nat) (ts : list tok) {struct fuel} : pres :=
  match fuel with
  | O => PFuel
  | S f =>
    let binop := fun (name : list N) (p : nat) (ty : optype) (r : list tok) =>
      let la := match ty with YFX => p | _ => Nat.pred p end in
      let ra := match ty with XFY => p | _ => Nat.pred p end in
      if Nat.leb p maxp then
        if Nat.leb lp la then
          match parse f ra r with
          | POk t2 _ r' => infix f maxp (Cmp name [l; t2]) p r'
          | PArgs _ _ => PErr
          | e => e
          end
        else PErr
      else POk l lp ts in
    match ts with
    | [] => POk l lp ts
    | t :: r =>
      match t with
      | TName s =>
          match name_kind s with
          | NOp p ty => binop s p ty r
          | NPlain => PErr
          | NUnknown => PUnk
          end
      | TPunct 44 => binop comma_name 1000%nat XFY r
      | TPunct 124 => if Nat.leb 1100%nat maxp then PUnk else POk l lp ts
      | TPunct 41 | TPunct 93 | TPunct 125 | TEnd => POk l lp ts
      | TUnk => PUnk
      | _ => PErr
      end
    end
  end
with pargs (fuel : nat) (ts : list tok) {struct fuel} : pres :=
  match fuel with
  | O => PFuel
  | S f =>
    match parse f 999%nat ts with
    | POk t1 _ (TPunct 44 :: r) =>
        match pargs f r with
        | PArgs l r' => PArgs (t1 :: l) r'
        | POk _ _ _ => PErr
        | e => e
        end
    | POk t1 _ (TPunct 41 :: r) => PArgs [t1] r
    | POk _ _ _ => PErr
    | PArgs _ _ => PErr
    | e => e
    end
  end
with plist (fuel : nat) (ts : list tok) {struct fuel} : pres :=
  match fuel with
  | O => PFuel
  | S f =>
    match parse f 999%nat ts with
    | POk t1 _ (TPunct 44 :: r) =>
        match plist f r with
        | POk tl _ r' => POk (tcons t1 tl) 0%nat r'
        | PArgs _ _ => PErr
        | e => e
        end
    | POk t1 _ (TPunct 124 :: r) =>
        match parse f 999%nat r with
        | POk tl _ (TPunct 93 :: r') => POk (tcons t1 tl) 0%nat r'
        | POk _ _ _ => PErr
        | PArgs _ _ => PErr
        | e => e
        end
    | POk t1 _ (TPunct 93 :: r) => POk (tcons t1 tnil) 0%nat r
    | POk _ _ _ => PErr
    | PArgs _ _ => PErr
    | e => e
    end
  end.

(* ------------------------------------------------------------------ outcomes *)
Inductive outcome :=
| OTerm (t : term) | OErrLex | OErrSyn | OUnknown | OEof
| ONoFuel        (* lexer / reader fuel exhausted: proved impossible (reader_fuel_sufficient) *)
| OParseFuel.    (* parser fuel exhausted: not proved impossible; never agrees with anything in [verdict] *)

(* scryer reads "([)", "({)" and "(|)" as the atoms '[', '{' and '|' (reduce_brackets turns a lone separator
   between parentheses into an atom): such a group is outside the decided grammar, not a bracket error *)
Fixpoint collapse_sep (ts : list tok) : list tok :=
  match ts with
  | [] => []
  | o :: r =>
      match r with
      | TPunct c :: TPunct d :: r2 =>
          if (match o with TOpenCT => true | TPunct p => p =? 40 | _ => false end)
             && (d =? 41) && ((c =? 91) || (c =? 123) || (c =? 124))
          then TUnk :: collapse_sep r2
          else o :: collapse_sep r
      | _ => o :: collapse_sep r
      end
  end.

Definition classify (ts0 : list tok) : outcome :=
  let ts := collapse_sep ts0 in
  if negb (balanced [] ts) then OErrSyn
  else if existsb tok_unknown ts then OUnknown
  else match parse (4 * length ts + 8)%nat 1200%nat (number_toks [] ts) with
       | POk t _ [TEnd] => OTerm t
       | POk _ _ _ => OErrSyn
       | PArgs _ _ => OErrSyn
       | PErr => OErrSyn
       | PUnk => OUnknown
       | PFuel => OParseFuel
       end.

Definition read_clause (s : list N) : outcome * list N :=
  match lex_clause (S (length s)) s 0%nat [] with
  | CEof => (OEof, [])
  | CToks ts n => (classify ts, skipn n s)
  | CNoEnd _ => (OErrSyn, [])
  | CLexErr n => (OErrLex, skip_to_end (skipn n s))
  | CNoFuel => (ONoFuel, [])
  end.

Fixpoint read_all_f (fuel : nat) (s : list N) : list outcome :=
  match fuel with
  | O => [ONoFuel]
  | S f =>
    match read_clause s with
    | (OEof, _) => [OEof]
    | (o, rest) => o :: read_all_f f rest
    end
  end.
Definition read_all (s : list N) : list outcome := read_all_f (S (length s)) s.

(* ------------------------------------------------------------------ comparison with the implementation *)
(* what the driver observed for one read_term call (the final end_of_file is implicit) *)
Inductive iout := IT (t : term) | IE.      (* a term / error(syntax_error(_),_) *)

Definition agree1 (m : outcome) (i : iout) : bool :=
  match m, i with
  | OTerm t, IT t' => term_eqb t t'
  | OErrLex, IE | OErrSyn, IE => true
  | OUnknown, _ => true
  | _, _ => false
  end.

Definition mkind (m : outcome) : N :=
  match m with
  | OTerm _ => 0 | OErrLex => 1 | OErrSyn => 2 | OUnknown => 3 | OEof => 4 | _ => 7
  end.
Definition ikind (i : option iout) : N :=
  match i with Some (IT _) => 0 | Some IE => 1 | None => 3 end.

(* 0 = the sequences agree; otherwise 1 + ikind + 4*mkind + 32*lexat + 2048*index of the first divergence, where
   lexat = 0 when the model saw no lexical error before the divergence, else 1 + the index of its first lexical error *)
Fixpoint verdict_f (ms : list outcome) (is : list iout) (idx : N) (lexat : N) : N :=
  let code := fun (m : outcome) (i : option iout) =>
    1 + ikind i + 4 * mkind m + 32 * lexat + 2048 * idx in
  match ms with
  | [] => code ONoFuel (hd_error is)
  | OEof :: _ => match is with [] => 0 | i :: _ => code OEof (Some i) end
  | m :: mr =>
      match is with
      | [] => code m None
      | i :: ir =>
          if agree1 m i
          then verdict_f mr ir (idx + 1)
                 (match m with OErrLex => if lexat =? 0 then idx + 1 else lexat | _ => lexat end)
          else code m (Some i)
      end
  end.
Definition verdict (s : list N) (is : list iout) : N := verdict_f (read_all s) is 0 0.

(* the generator's own reading of an unmutated text: the model yields exactly these terms *)
Definition check_valid (s : list N) (ts : list term) : bool :=
  (fix eq (a : list outcome) (b : list term) : bool :=
     match a, b with
     | [OEof], [] => true
     | OTerm t :: a', t' :: b' => term_eqb t t' && eq a' b'
     | _, _ => false
     end) (read_all s) ts.

(* statistics for the evidence: #terms + 32*#lexical errors + 32^2*#syntax errors + 32^3*#unknown +
   32^4 * (1 if some term is read after an error or unknown clause: resynchronisation exercised) *)
Fixpoint term_after_error (seen : bool) (os : list outcome) : bool :=
  match os with
  | [] => false
  | OTerm _ :: r => seen || term_after_error seen r
  | OErrLex :: r | OErrSyn :: r | OUnknown :: r => term_after_error true r
  | _ :: r => term_after_error seen r
  end.
Definition profile_of (os : list outcome) : N :=
  let cnt := fun (f : outcome -> bool) => N.min 31 (N.of_nat (length (filter f os))) in
  cnt (fun o => match o with OTerm _ => true | _ => false end)
  + 32 * cnt (fun o => match o with OErrLex => true | _ => false end)
  + 1024 * cnt (fun o => match o with OErrSyn => true | _ => false end)
  + 32768 * cnt (fun o => match o with OUnknown => true | _ => false end)
  + 1048576 * (if term_after_error false os then 1 else 0).
Definition profile (s : list N) : N := profile_of (read_all s).

(* ------------------------------------------------------------------ compact input encoding for the correspondence
   Texts and atom names are passed as Coq strings (number-list literals are slow to parse): printable ASCII stands
   for itself except the double quote and the tilde; any code point may be written as tilde + 6 hex digits. *)
From Coq Require Import String Ascii.
Fixpoint dec_go (s : string) (k : nat) (v : N) : list N :=
  match s with
  | EmptyString => []
  | String a r =>
      let c := N_of_ascii a in
      let h := Z.to_N (digit_val c) in
      match k with
      | O => if c =? 126 then dec_go r 6 0 else c :: dec_go r 0 0
      | S O => (v * 16 + h) :: dec_go r 0 0
      | S k' => dec_go r k' (v * 16 + h)
      end
  end.
Definition dec (s : string) : list N := dec_go s 0 0.
(* decimal integers, optional leading minus *)
Definition zdec (s : string) : Z :=
  match dec s with
  | 45 :: ds => Z.opp (digits_val 10 ds)
  | ds => digits_val 10 ds
  end.
Definition ndec (s : string) : N := Z.to_N (zdec s).

(* verdict and profile in one evaluation of read_all: verdict + 2^20 * profile *)
Definition vp (s : list N) (is : list iout) : N :=
  let os := read_all s in
  verdict_f os is 0 0 + 1048576 * profile_of os.

(* the implementation's outcome list in one string (after dec): ( 'E' | 'T' term )*  with
   term := 'V' num ';' | 'I' ['-'] num ';' | 'A' len ';' chars | 'C' len ';' chars nargs ';' term* | 'F' (anything else) *)
Fixpoint read_num (s : list N) (acc : N) : option (N * list N) :=
  match s with
  | [] => None
  | c :: r => if c =? 59 then Some (acc, r)
              else if is_digit c then read_num r (acc * 10 + (c - 48)) else None
  end.
Fixpoint dterm (fuel : nat) (s : list N) : option (term * list N) :=
  match fuel with
  | O => None
  | S f =>
    match s with
    | [] => None
    | c :: r =>
      if c =? 86 then
        match read_num r 0 with Some (n, r') => Some (Var n, r') | None => None end
      else if c =? 73 then
        match r with
        | d :: r1 =>
            if d =? 45 then match read_num r1 0 with Some (n, r') => Some (Int (Z.opp (Z.of_N n)), r') | None => None end
            else match read_num r 0 with Some (n, r') => Some (Int (Z.of_N n), r') | None => None end
        | [] => None
        end
      else if c =? 65 then
        match read_num r 0 with
        | Some (n, r') => Some (Atom (firstn (N.to_nat n) r'), skipn (N.to_nat n) r')
        | None => None
        end
      else if c =? 67 then
        match read_num r 0 with
        | Some (n, r') =>
            match read_num (skipn (N.to_nat n) r') 0 with
            | Some (k, r'') =>
                match dargs f (N.to_nat k) r'' with
                | Some (args, r3) => Some (Cmp (firstn (N.to_nat n) r') args, r3)
                | None => None
                end
            | None => None
            end
        | None => None
        end
      else if c =? 70 then Some (Flt 0, r)
      else None
    end
  end
with dargs (fuel : nat) (k : nat) (s : list N) : option (list term * list N) :=
  match fuel with
  | O => None
  | S f =>
    match k with
    | O => Some ([], s)
    | S k' =>
        match dterm f s with
        | Some (t, r) => match dargs f k' r with Some (l, r') => Some (t :: l, r') | None => None end
        | None => None
        end
    end
  end.
Fixpoint douts (fuel : nat) (s : list N) : option (list iout) :=
  match fuel with
  | O => None
  | S f =>
    match s with
    | [] => Some []
    | c :: r =>
        if c =? 69 then option_map (cons IE) (douts f r)
        else if c =? 84 then
          match dterm (S (List.length r)) r with
          | Some (t, r') => option_map (cons (IT t)) (douts f r')
          | None => None
          end
        else None
    end
  end.
(* 4194303 = the outcome string could not be decoded *)
Definition vps (text outs : string) : N :=
  let o := dec outs in
  match douts (S (List.length o)) o with
  | Some is => vp (dec text) is
  | None => 4194303
  end.
Definition cvs (text outs : string) : N :=
  let o := dec outs in
  match douts (S (List.length o)) o with
  | Some is => if check_valid (dec text) (flat_map (fun i => match i with IT t => [t] | IE => [] end) is) then 0 else 1
  | None => 4194303
  end.
