(* C17 -- pinned property theorems (nothing else lives here) *)
From Coq Require Import List NArith ZArith Bool.
From V Require Import Base.Term C17.Model C17.Proofs.
Import ListNotations.
Open Scope N_scope.

(* The tokenizer never runs out of fuel on any input. *)
Theorem lexer_total : forall s, next_token s <> LNoFuel.
Proof. exact lexer_total_proof. Qed.
Print Assumptions lexer_total.

(* Reading any text with fuel = length + 1 never exhausts the fuel, and the outcome sequence always
   ends with end_of_file: the reference reader terminates on every input (no loop, no abort). *)
Theorem reader_fuel_sufficient : forall s,
  ~ In ONoFuel (read_all s) /\ last (read_all s) ONoFuel = OEof.
Proof. exact reader_fuel_sufficient_proof. Qed.
Print Assumptions reader_fuel_sufficient.

(* Every read that is not end_of_file consumes a non-empty prefix: the remaining input is a strict suffix. *)
Theorem reader_progress : forall s o rest,
  read_clause s = (o, rest) -> o <> OEof -> exists pre, pre <> [] /\ s = pre ++ rest.
Proof. exact reader_progress_proof. Qed.
Print Assumptions reader_progress.

(* A clause that is lexically well formed ends exactly at its end token: the character before the
   remaining input is '.', and the remaining input is empty or starts with layout or '%'. *)
Theorem clause_ends_at_end_token : forall s ts n,
  lex_clause (S (length s)) s 0 [] = CToks ts n ->
  read_clause s = (classify ts, skipn n s) /\
  exists m, n = S m /\ nth_error s m = Some 46 /\ ends_ok (skipn n s).
Proof. exact clause_ends_at_end_token_proof. Qed.
Print Assumptions clause_ends_at_end_token.

(* After a lexical error at offset n the remaining input is skip_to_end of the text from n on ... *)
Theorem resync_after_end_token : forall s rest,
  read_clause s = (OErrLex, rest) ->
  exists n, lex_clause (S (length s)) s 0 [] = CLexErr n /\ rest = skip_to_end (skipn n s).
Proof. exact resync_proof. Qed.
Print Assumptions resync_after_end_token.

(* ... and skip_to_end resumes right after the FIRST end token ('.' followed by layout, '%' or the end
   of the input) at or after that position; without such a token nothing remains. *)
Theorem skip_to_end_first : forall s i,
  end_at s i -> (forall j, (j < i)%nat -> ~ end_at s j) -> skip_to_end s = skipn (S i) s.
Proof. exact skip_to_end_first_proof. Qed.
Print Assumptions skip_to_end_first.

Theorem skip_to_end_none : forall s, (forall i, ~ end_at s i) -> skip_to_end s = [].
Proof. exact skip_to_end_none_proof. Qed.
Print Assumptions skip_to_end_none.

(* Later reads depend only on the text after the clause just read (no hidden reader state) ... *)
Theorem valid_suffix_unaffected : forall s o rest,
  read_clause s = (o, rest) -> o <> OEof -> read_all s = o :: read_all rest.
Proof. exact valid_suffix_unaffected_proof. Qed.
Print Assumptions valid_suffix_unaffected.

(* ... in particular: a lexical error, then junk without an end token, then an end token, then good text:
   read_all (.. bad ++ end ++ good) = err :: read_all good. *)
Theorem lexical_error_then_good : forall s n junk good,
  lex_clause (S (length s)) s 0 [] = CLexErr n ->
  skipn n s = junk ++ 46 :: good ->
  ends_ok good ->
  (forall j, (j < length junk)%nat -> ~ end_at (junk ++ 46 :: good) j) ->
  read_all s = OErrLex :: read_all good.
Proof. exact lexical_resync_proof. Qed.
Print Assumptions lexical_error_then_good.

(* ---- non-vacuity ---- *)
(* "foo('a\zb', 1). bar. baz." : bad escape, then two good clauses *)
Example ex_bad_escape :
  read_all [102;111;111;40;39;97;92;122;98;39;44;32;49;41;46;32;98;97;114;46;32;98;97;122;46;10]
  = [OErrLex; OTerm (Atom [98;97;114]); OTerm (Atom [98;97;122]); OEof].
Proof. vm_compute. reflexivity. Qed.
(* the hypotheses of lexical_error_then_good hold for it: error at offset 6 (the backslash) *)
Example ex_bad_escape_lexerr :
  lex_clause 27 [102;111;111;40;39;97;92;122;98;39;44;32;49;41;46;32;98;97;114;46;32;98;97;122;46;10] 0 [] = CLexErr 6.
Proof. vm_compute. reflexivity. Qed.
(* "foo(a b). bar." : a syntax error that is not lexical, resynchronised at the end token *)
Example ex_syntax_error :
  read_all [102;111;111;40;97;32;98;41;46;32;98;97;114;46;10] = [OErrSyn; OTerm (Atom [98;97;114]); OEof].
Proof. vm_compute. reflexivity. Qed.
(* "f(X,Y,X) :- a, b ; c." *)
Example ex_term :
  read_all [102;40;88;44;89;44;88;41;32;58;45;32;97;44;32;98;32;59;32;99;46;10]
  = [OTerm (Cmp [58;45] [Cmp [102] [Var 0; Var 1; Var 0]; Cmp [59] [Cmp [44] [Atom [97]; Atom [98]]; Atom [99]]]); OEof].
Proof. vm_compute. reflexivity. Qed.
(* a NUL character, an unterminated quoted atom, an unterminated comment *)
Example ex_nul : read_all [102;40;0;41;46;32;99;46;10] = [OErrLex; OTerm (Atom [99]); OEof].
Proof. vm_compute. reflexivity. Qed.
Example ex_unterminated_quote : read_all [97;46;32;39;98;99;46;10] = [OTerm (Atom [97]); OErrLex; OEof].
Proof. vm_compute. reflexivity. Qed.
Example ex_unterminated_comment : read_all [97;46;32;47;42;32;98;46;10] = [OTerm (Atom [97]); OErrLex; OEof].
Proof. vm_compute. reflexivity. Qed.
(* end_at is satisfiable: in "a. b" the end token is at index 1 *)
Example ex_end_at : end_at [97;46;32;98] 1.
Proof. split; reflexivity. Qed.
