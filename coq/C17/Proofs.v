(* C17 -- lemmas about the reference reader of Model.v *)
From Coq Require Import List NArith ZArith Bool Lia Arith.
From V Require Import Base.Term C17.Model.
Import ListNotations.
Local Open Scope nat_scope.

(* ------------------------------------------------------------------ list facts *)
Lemma skipn_length_le : forall (A : Type) k (l : list A), length (skipn k l) <= length l.
Proof. intros. rewrite skipn_length. lia. Qed.

Lemma skipn_cons_nth : forall (A : Type) n (s : list A) c r,
  skipn n s = c :: r -> nth_error s n = Some c /\ skipn (S n) s = r /\ n < length s.
Proof.
  induction n as [|n IH]; intros s c r H.
  - destruct s; simpl in H; [discriminate|]. inversion H; subst. simpl. repeat split; lia.
  - destruct s as [|x s]; simpl in H; [discriminate|].
    destruct (IH _ _ _ H) as (A1 & A2 & A3). simpl. repeat split; auto. lia.
Qed.

Lemma skipn_skipn' : forall (A : Type) a b (l : list A), skipn a (skipn b l) = skipn (b + a) l.
Proof.
  intros A a b. induction b as [|b IH]; intros l; simpl; auto.
  destruct l; simpl; auto. destruct a; reflexivity.
Qed.

Lemma nth_error_skipn : forall (A : Type) b a (l : list A), nth_error (skipn b l) a = nth_error l (b + a).
Proof.
  induction b as [|b IH]; intros a l; simpl; auto.
  destruct l; simpl; auto. destruct a; reflexivity.
Qed.

Lemma skipn_nonempty_shorter : forall (A : Type) k (l : list A), 1 <= k -> l <> [] -> length (skipn k l) < length l.
Proof. intros A k l Hk Hl. rewrite skipn_length. destruct l; [congruence|cbn [length]; lia]. Qed.

(* ------------------------------------------------------------------ the quoted-item scanner never runs out of fuel *)
Definition qres_ok (r : qres) : Prop :=
  match r with QOk _ k => 1 <= k | QErr _ => True | QNoFuel => False end.

Lemma scan_q_ok : forall fuel q s off acc, length s < fuel -> qres_ok (scan_q q fuel s off acc).
Proof.
  induction fuel as [|f IH]; intros q s off acc H; [lia|].
  destruct s as [|c r]; simpl; [exact I|].
  simpl in H.
  destruct (N.eqb c q).
  - destruct r as [|d r']; [simpl; lia|].
    destruct (N.eqb d q); [apply IH; simpl in H; lia | simpl; lia].
  - destruct (N.eqb c 92).
    + destruct (escape true r) as [ch k|k|]; try exact I;
        apply IH; pose proof (skipn_length_le _ k r); lia.
    + destruct (quotable c || is_meta c)%bool; [apply IH; lia | exact I].
Qed.

Lemma scan_quoted_ok : forall q s, qres_ok (scan_quoted q s).
Proof. intros. unfold scan_quoted. apply scan_q_ok. lia. Qed.

(* ------------------------------------------------------------------ one token *)
(* what a successful token scan guarantees: progress, and an end token only from a '.' *)
Definition lex_ok (l : lexres) : Prop :=
  match l with LTok _ k => 1 <= k | LNoFuel => False | _ => True end.
Definition not_end (l : lexres) : Prop :=
  match l with LTok TEnd _ => False | _ => True end.

Lemma span_len_pos : forall p c r, p c = true -> span_len p (c :: r) = S (span_len p r).
Proof. intros p c r H. simpl. rewrite H. reflexivity. Qed.

Lemma char_lit_ok : forall a plain, lex_ok plain -> not_end plain -> lex_ok (char_lit a plain) /\ not_end (char_lit a plain).
Proof.
  intros a plain H1 H2. unfold char_lit.
  destruct a as [|d a']; [simpl; auto|].
  destruct (N.eqb d 92).
  - destruct (escape false a'); simpl; auto; try (split; [lia|auto]).
  - destruct (N.eqb d 39).
    + destruct a' as [|d' ?]; auto. destruct (N.eqb d' 39); simpl; auto; try (split; [lia|auto]).
    + destruct (quotable d || N.eqb d 34 || N.eqb d 96)%bool; simpl; auto; try (split; [lia|auto]).
Qed.

Lemma radix_lit_ok : forall b p a plain, lex_ok plain -> not_end plain -> lex_ok (radix_lit b p a plain) /\ not_end (radix_lit b p a plain).
Proof.
  intros b p a plain H1 H2. unfold radix_lit. destruct (span_len p a); simpl; auto; try (split; [lia|auto]).
Qed.

Lemma float_lit_ok : forall n a plain, lex_ok plain -> not_end plain -> lex_ok (float_lit n a plain) /\ not_end (float_lit n a plain).
Proof.
  intros n a plain H1 H2. unfold float_lit. destruct (span_len is_digit a); simpl; auto; try (split; [lia|auto]).
Qed.

Lemma number_tok_ok : forall c r, is_digit c = true -> lex_ok (number_tok (c :: r)) /\ not_end (number_tok (c :: r)).
Proof.
  intros c r Hd. unfold number_tok.
  rewrite (span_len_pos _ _ _ Hd).
  set (n := S (span_len is_digit r)).
  set (plain := LTok (TInt (digits_val 10 (firstn n (c :: r)))) n).
  assert (P1 : lex_ok plain) by (simpl; unfold n; lia).
  assert (P2 : not_end plain) by exact I.
  destruct (skipn n (c :: r)) as [|x a]; [auto|].
  destruct (N.eqb x 46); [apply float_lit_ok; auto|].
  destruct (negb _); [auto|].
  destruct (N.eqb x 39); [apply char_lit_ok; auto|].
  destruct (N.eqb x 120); [apply radix_lit_ok; auto|].
  destruct (N.eqb x 111); [apply radix_lit_ok; auto|].
  destruct (N.eqb x 98); [apply radix_lit_ok; auto|].
  auto.
Qed.

(* the only way to an end token *)
Definition end_here (c : N) (r : list N) : Prop :=
  c = 46%N /\ match r with [] => True | d :: _ => end_follow d = true end.

Lemma tok_at_ok : forall lay c r,
  lex_ok (tok_at lay c r) /\
  (forall k, tok_at lay c r = LTok TEnd k -> k = 1 /\ end_here c r).
Proof.
  intros lay c r. unfold tok_at.
  destruct (is_capital c || N.eqb c 95)%bool.
  { split; [simpl; lia | intros k H; discriminate]. }
  destruct (is_digit c) eqn:Hd.
  { destruct (number_tok_ok c r Hd) as [A B]. split; [exact A|].
    intros k H. rewrite H in B. destruct B. }
  destruct (N.eqb c 46) eqn:Hdot.
  { apply N.eqb_eq in Hdot. destruct r as [|d r'].
    - split; [simpl; lia|]. intros k H. inversion H. split; [reflexivity|]. split; [assumption|exact I].
    - destruct (end_follow d) eqn:Hf.
      + split; [simpl; lia|]. intros k H. inversion H. split; [reflexivity|]. split; assumption.
      + split; [simpl; lia|]. intros k H. discriminate. }
  destruct (is_small c). { split; [simpl; lia | intros k H; discriminate]. }
  destruct (is_symch c). { split; [simpl; lia | intros k H; discriminate]. }
  destruct (N.eqb c 33 || N.eqb c 59)%bool. { split; [simpl; lia | intros k H; discriminate]. }
  destruct (N.eqb c 40). { split; [simpl; lia | intros k H; destruct lay; discriminate]. }
  destruct (N.eqb c 41 || N.eqb c 44 || N.eqb c 91 || N.eqb c 93 || N.eqb c 123 || N.eqb c 125 || N.eqb c 124)%bool.
  { split; [simpl; lia | intros k H; discriminate]. }
  destruct (N.eqb c 39).
  { pose proof (scan_quoted_ok 39 r) as Q. destruct (scan_quoted 39 r); simpl in Q |- *;
      (split; [auto | intros k' H; discriminate]). }
  destruct (N.eqb c 34).
  { pose proof (scan_quoted_ok 34 r) as Q. destruct (scan_quoted 34 r); simpl in Q |- *;
      (split; [auto | intros k' H; discriminate]). }
  destruct (N.eqb c 96).
  { pose proof (scan_quoted_ok 96 r) as Q. destruct (scan_quoted 96 r); simpl in Q |- *;
      (split; [auto | intros k' H; discriminate]). }
  split; [exact I | intros k H; discriminate].
Qed.

Lemma next_token_ok : forall s, lex_ok (next_token s).
Proof.
  intros s. unfold next_token.
  destruct (layout_len LNorm s) as [n|]; [|exact I].
  destruct (skipn n s) as [|c r]; [exact I|].
  destruct (tok_at_ok (Nat.ltb 0 n) c r) as [A _].
  destruct (tok_at (Nat.ltb 0 n) c r); simpl in *; auto. lia.
Qed.

Theorem lexer_total_proof : forall s, next_token s <> LNoFuel.
Proof. intros s H. pose proof (next_token_ok s) as P. rewrite H in P. exact P. Qed.

Lemma next_token_tok : forall s t k, next_token s = LTok t k -> 1 <= k /\ s <> [].
Proof.
  intros s t k H. pose proof (next_token_ok s) as P. rewrite H in P. simpl in P. split; [exact P|].
  intro E. subst s. unfold next_token in H. simpl in H. discriminate.
Qed.

(* an end token is a '.' followed by layout, '%' or the end of the input *)
Definition ends_ok (rest : list N) : Prop :=
  match rest with [] => True | d :: _ => end_follow d = true end.

Lemma next_token_end : forall s k, next_token s = LTok TEnd k ->
  exists m, k = S m /\ nth_error s m = Some 46%N /\ ends_ok (skipn k s).
Proof.
  intros s k H. unfold next_token in H.
  destruct (layout_len LNorm s) as [n|]; [|discriminate].
  destruct (skipn n s) as [|c r] eqn:Hs; [discriminate|].
  destruct (tok_at_ok (Nat.ltb 0 n) c r) as [_ B].
  destruct (tok_at (Nat.ltb 0 n) c r) as [t k'| |e|] eqn:Ht; simpl in H; try discriminate.
  inversion H; subst t k. destruct (B k' eq_refl) as [K [C F]]. subst k' c.
  destruct (skipn_cons_nth _ _ _ _ _ Hs) as (N1 & N2 & N3).
  exists n. split; [lia|]. split; [exact N1|].
  replace (n + 1) with (S n) by lia. rewrite N2. exact F.
Qed.

(* ------------------------------------------------------------------ one clause *)
Lemma lex_clause_fuel : forall fuel s off acc, length s < fuel -> lex_clause fuel s off acc <> CNoFuel.
Proof.
  induction fuel as [|f IH]; intros s off acc H; [lia|].
  simpl. destruct (next_token s) as [t k| |e|] eqn:Hn.
  - destruct (next_token_tok _ _ _ Hn) as [K S0].
    assert (L : length (skipn k s) < f) by (pose proof (skipn_nonempty_shorter _ k s K S0); lia).
    destruct t; try (apply IH; exact L). discriminate.
  - destruct acc; discriminate.
  - discriminate.
  - exfalso. exact (lexer_total_proof _ Hn).
Qed.

Lemma lex_clause_empty : forall fuel off, lex_clause (S fuel) [] off [] = CEof.
Proof. reflexivity. Qed.

(* the clause found in s0 from offset off on ends with an end token *)
Lemma lex_clause_toks : forall fuel s0 off acc ts n,
  lex_clause fuel (skipn off s0) off acc = CToks ts n ->
  exists m, n = S m /\ off <= m /\ nth_error s0 m = Some 46%N /\ ends_ok (skipn n s0).
Proof.
  induction fuel as [|f IH]; intros s0 off acc ts n H; [discriminate|].
  simpl in H. destruct (next_token (skipn off s0)) as [t k| |e|] eqn:Hn; try discriminate.
  - assert (REC : forall t', lex_clause f (skipn k (skipn off s0)) (off + k) (t' :: acc) = CToks ts n ->
              exists m, n = S m /\ off <= m /\ nth_error s0 m = Some 46%N /\ ends_ok (skipn n s0)).
    { intros t' R. rewrite skipn_skipn' in R. destruct (IH _ _ _ _ _ R) as (m & A & B & C & D).
      exists m. repeat split; auto. lia. }
    destruct t; try (eapply REC; exact H).
    inversion H; subst ts n.
    destruct (next_token_end _ _ Hn) as (m & K & N1 & E).
    exists (off + m). rewrite nth_error_skipn in N1. rewrite skipn_skipn' in E.
    repeat split; auto; lia.
  - destruct acc; discriminate.
Qed.

Lemma lex_clause_noend_nonempty : forall fuel s off ts, lex_clause fuel s off [] = CNoEnd ts -> s <> [].
Proof. intros fuel s off ts H E. subst s. destruct fuel; simpl in H; discriminate. Qed.
Lemma lex_clause_lexerr_nonempty : forall fuel s off n, lex_clause fuel s off [] = CLexErr n -> s <> [].
Proof. intros fuel s off n H E. subst s. destruct fuel; simpl in H; discriminate. Qed.

(* ------------------------------------------------------------------ resynchronisation *)
Definition end_at (s : list N) (i : nat) : Prop :=
  nth_error s i = Some 46%N /\
  match nth_error s (S i) with None => True | Some d => end_follow d = true end.

Theorem skip_to_end_first_proof : forall s i,
  end_at s i -> (forall j, j < i -> ~ end_at s j) -> skip_to_end s = skipn (S i) s.
Proof.
  induction s as [|c r IH]; intros i [H1 H2] Hmin.
  - destruct i; discriminate.
  - destruct i as [|i].
    + simpl in H1. inversion H1; subst c. simpl.
      destruct r as [|d r']; [reflexivity|]. simpl in H2. rewrite H2. reflexivity.
    + assert (R : skip_to_end (c :: r) = skip_to_end r).
      { simpl. destruct (N.eqb c 46) eqn:E; [|reflexivity].
        apply N.eqb_eq in E. subst c.
        destruct r as [|d r']; [destruct i; discriminate|].
        destruct (end_follow d) eqn:F; [|reflexivity].
        exfalso. apply (Hmin 0); [lia|]. split; [reflexivity|]. simpl. exact F. }
      rewrite R. simpl in H1, H2.
      rewrite (IH i).
      * reflexivity.
      * split; assumption.
      * intros j Hj [J1 J2]. apply (Hmin (S j)); [lia|]. split; assumption.
Qed.

Theorem skip_to_end_none_proof : forall s, (forall i, ~ end_at s i) -> skip_to_end s = [].
Proof.
  induction s as [|c r IH]; intros H; [reflexivity|].
  assert (R : skip_to_end (c :: r) = skip_to_end r).
  { simpl. destruct (N.eqb c 46) eqn:E; [|reflexivity].
    apply N.eqb_eq in E. subst c.
    destruct r as [|d r']; [exfalso; apply (H 0); split; [reflexivity|exact I]|].
    destruct (end_follow d) eqn:F; [|reflexivity].
    exfalso. apply (H 0). split; [reflexivity|]. simpl. exact F. }
  rewrite R. apply IH. intros i [J1 J2]. apply (H (S i)). split; assumption.
Qed.

Lemma skip_to_end_suffix : forall s, exists pre, s = pre ++ skip_to_end s /\ (s <> [] -> pre <> []).
Proof.
  induction s as [|c r IH].
  - exists []. split; [reflexivity|congruence].
  - destruct IH as (pre & E & _).
    assert (G : forall x : list N, x = skip_to_end r \/ x = r ->
                exists pre0, c :: r = pre0 ++ x /\ (c :: r <> [] -> pre0 <> [])).
    { intros x [X|X]; subst x.
      - exists (c :: pre). split; [simpl; rewrite <- E; reflexivity | intros _; discriminate].
      - exists [c]. split; [reflexivity | intros _; discriminate]. }
    simpl. destruct (N.eqb c 46).
    + destruct r as [|d r'].
      * exists [c]. split; [reflexivity | intros _; discriminate].
      * destruct (end_follow d); apply G; auto.
    + apply G; auto.
Qed.

(* ------------------------------------------------------------------ read_clause *)
Lemma classify_cases : forall ts,
  (exists t, classify ts = OTerm t) \/ classify ts = OErrSyn \/ classify ts = OUnknown \/ classify ts = OParseFuel.
Proof.
  intros ts. unfold classify. cbv zeta.
  destruct (negb _); [auto|].
  destruct (existsb _ _); [auto|].
  destruct (parse _ _ _) as [t p rest|l rest| | |]; auto.
  destruct rest as [|t0 rest']; auto. destruct t0; auto. destruct rest'; auto. left. eauto.
Qed.

Lemma classify_not : forall ts, classify ts <> ONoFuel /\ classify ts <> OEof /\ classify ts <> OErrLex.
Proof.
  intros ts. destruct (classify_cases ts) as [[t H]|[H|[H|H]]]; rewrite H; repeat split; discriminate.
Qed.

Theorem read_clause_no_nofuel : forall s, fst (read_clause s) <> ONoFuel.
Proof.
  intros s. unfold read_clause.
  pose proof (lex_clause_fuel (S (length s)) s 0 [] (Nat.lt_succ_diag_r _)) as F.
  destruct (lex_clause (S (length s)) s 0 []); simpl; try discriminate.
  - apply classify_not.
  - congruence.
Qed.

Theorem reader_progress_proof : forall s o rest,
  read_clause s = (o, rest) -> o <> OEof -> exists pre, pre <> [] /\ s = pre ++ rest.
Proof.
  intros s o rest H Ho. unfold read_clause in H.
  pose proof (lex_clause_fuel (S (length s)) s 0 [] (Nat.lt_succ_diag_r _)) as F.
  destruct (lex_clause (S (length s)) s 0 []) as [|ts n|ts|n|] eqn:L; inversion H; subst o rest; try congruence.
  - destruct (lex_clause_toks _ s 0 _ _ _ L) as (m & A & _ & C & _).
    exists (firstn n s). split.
    + intro E. assert (Hm : m < length s) by (apply nth_error_Some; congruence).
      apply (f_equal (@length N)) in E. rewrite firstn_length in E. simpl in E. lia.
    + symmetry. apply firstn_skipn.
  - exists s. split; [eapply lex_clause_noend_nonempty; exact L | rewrite app_nil_r; reflexivity].
  - pose proof (lex_clause_lexerr_nonempty _ _ _ _ L) as NE.
    destruct (skip_to_end_suffix (skipn n s)) as (pre & E & P).
    exists (firstn n s ++ pre). split.
    + destruct (skipn n s) as [|x y] eqn:K.
      * simpl in E. assert (pre = []) by (destruct pre; [reflexivity|discriminate]). subst pre.
        rewrite app_nil_r. intro Z. apply NE.
        rewrite <- (firstn_skipn n s). rewrite Z, K. reflexivity.
      * intro Z. apply app_eq_nil in Z. destruct Z as [_ Z]. apply P; [discriminate|exact Z].
    + rewrite <- app_assoc. rewrite <- E. symmetry. apply firstn_skipn.
Qed.

Theorem clause_ends_at_end_token_proof : forall s ts n,
  lex_clause (S (length s)) s 0 [] = CToks ts n ->
  read_clause s = (classify ts, skipn n s) /\
  exists m, n = S m /\ nth_error s m = Some 46%N /\ ends_ok (skipn n s).
Proof.
  intros s ts n L. split.
  - unfold read_clause. rewrite L. reflexivity.
  - destruct (lex_clause_toks _ s 0 _ _ _ L) as (m & A & _ & C & D). eauto.
Qed.

Theorem resync_proof : forall s rest,
  read_clause s = (OErrLex, rest) ->
  exists n, lex_clause (S (length s)) s 0 [] = CLexErr n /\ rest = skip_to_end (skipn n s).
Proof.
  intros s rest H. unfold read_clause in H.
  destruct (lex_clause (S (length s)) s 0 []) as [|ts n|ts|n|] eqn:L; inversion H.
  - exfalso. destruct (classify_not ts) as (_ & _ & C). congruence.
  - eauto.
Qed.

(* ------------------------------------------------------------------ read_all *)
Lemma progress_length : forall s o rest, read_clause s = (o, rest) -> o <> OEof -> length rest < length s.
Proof.
  intros s o rest H Ho. destruct (reader_progress_proof _ _ _ H Ho) as (pre & P & E).
  apply (f_equal (@length N)) in E. rewrite app_length in E. destruct pre; [congruence|simpl in E; lia].
Qed.

Lemma read_all_f_irrel : forall f1 f2 s, length s < f1 -> length s < f2 -> read_all_f f1 s = read_all_f f2 s.
Proof.
  induction f1 as [|f1 IH]; intros f2 s H1 H2; [lia|].
  destruct f2 as [|f2]; [lia|]. simpl.
  destruct (read_clause s) as [o rest] eqn:R.
  assert (D : o = OEof \/ o <> OEof) by (destruct o; auto; right; discriminate).
  destruct D as [D|D]; [subst o; reflexivity|].
  pose proof (progress_length _ _ _ R D) as PL.
  assert (E : read_all_f f1 rest = read_all_f f2 rest) by (apply IH; lia).
  destruct o; try congruence.
Qed.

Theorem valid_suffix_unaffected_proof : forall s o rest,
  read_clause s = (o, rest) -> o <> OEof -> read_all s = o :: read_all rest.
Proof.
  intros s o rest R D. unfold read_all at 1. simpl. rewrite R.
  pose proof (progress_length _ _ _ R D) as PL.
  assert (E : read_all_f (length s) rest = read_all rest) by (unfold read_all; apply read_all_f_irrel; lia).
  destruct o; try congruence.
Qed.

Theorem read_all_eof_proof : forall s o rest, read_clause s = (o, rest) -> o = OEof -> read_all s = [OEof].
Proof. intros s o rest R D. subst o. unfold read_all. simpl. rewrite R. reflexivity. Qed.

Lemma read_all_f_good : forall f s, length s < f ->
  ~ In ONoFuel (read_all_f f s) /\ last (read_all_f f s) ONoFuel = OEof.
Proof.
  induction f as [|f IH]; intros s H; [lia|].
  simpl. destruct (read_clause s) as [o rest] eqn:R.
  assert (D : o = OEof \/ o <> OEof) by (destruct o; auto; right; discriminate).
  destruct D as [D|D].
  - subst o. split; [intros [X|[]]; discriminate | reflexivity].
  - pose proof (progress_length _ _ _ R D) as PL.
    destruct (IH rest ltac:(lia)) as [A B].
    pose proof (read_clause_no_nofuel s) as NF. rewrite R in NF. simpl in NF.
    assert (NE : read_all_f f rest <> []) by (destruct f; [lia|]; simpl; destruct (read_clause rest) as [o' r']; destruct o'; discriminate).
    assert (G : ~ In ONoFuel (o :: read_all_f f rest) /\ last (o :: read_all_f f rest) ONoFuel = OEof).
    { split.
      - intros [X|X]; [congruence | exact (A X)].
      - destruct (read_all_f f rest) eqn:Q; [congruence|]. exact B. }
    destruct o; try congruence; exact G.
Qed.

Theorem reader_fuel_sufficient_proof : forall s,
  ~ In ONoFuel (read_all s) /\ last (read_all s) ONoFuel = OEof.
Proof. intros s. unfold read_all. apply read_all_f_good. lia. Qed.

(* the headline form: a lexical error followed by junk without an end token, an end token and a good suffix *)
Theorem lexical_resync_proof : forall s n junk good,
  lex_clause (S (length s)) s 0 [] = CLexErr n ->
  skipn n s = junk ++ 46%N :: good ->
  ends_ok good ->
  (forall j, j < length junk -> ~ end_at (junk ++ 46%N :: good) j) ->
  read_all s = OErrLex :: read_all good.
Proof.
  intros s n junk good L E G Hmin.
  assert (R : read_clause s = (OErrLex, good)).
  { unfold read_clause. rewrite L. f_equal. rewrite E.
    rewrite (skip_to_end_first_proof _ (length junk)).
    - clear. induction junk; simpl; auto.
    - split.
      + rewrite nth_error_app2 by lia. rewrite Nat.sub_diag. reflexivity.
      + rewrite nth_error_app2 by lia. replace (S (length junk) - length junk) with 1 by lia.
        simpl. destruct good; simpl; auto.
    - exact Hmin. }
  apply valid_suffix_unaffected_proof; [exact R | discriminate].
Qed.
