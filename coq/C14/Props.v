(* C14 -- pinned property theorems (nothing else lives here) *)
From Coq Require Import ZArith NArith List Bool Sorting Permutation.
From V Require Import Base.Term C13.Model C13.Proofs C14.Model C14.Proofs C14.Avl C14.AvlProofs.
Import ListNotations.

(* ---- generic: any comparison that is a total preorder (antisymmetric in the CompOpp sense, <= transitive) ---- *)
Theorem stable_sort_generic : forall (A : Type) (cmp : A -> A -> comparison),
  (forall x y, cmp x y = CompOpp (cmp y x)) ->
  (forall x y z, cmp x y <> Gt -> cmp y z <> Gt -> cmp x z <> Gt) ->
  forall l, Permutation (ssort cmp l) l /\
            StronglySorted (fun x y => cmp x y <> Gt) (ssort cmp l) /\
            (forall k, filter (eqvb cmp k) (ssort cmp l) = filter (eqvb cmp k) l) /\
            StronglySorted (fun x y => cmp x y = Lt) (usort cmp l) /\
            (forall x, memb cmp x (usort cmp l) = memb cmp x l).
Proof.
  intros A cmp Ha Ht l. repeat split.
  - apply ssort_perm.
  - apply (ssort_sorted cmp Ha Ht).
  - intros k. apply (ssort_stable cmp Ha Ht).
  - apply (usort_strict cmp Ha Ht).
  - intros x. apply (memb_usort cmp Ha Ht).
Qed.
Print Assumptions stable_sort_generic.

(* ---- sort/2: strictly ascending in the standard order, same elements up to == ---- *)
Theorem sort_strictly_sorted : forall l, StronglySorted (fun a b => tcompare a b = Lt) (tsort l).
Proof. intros l. exact (usort_strict tcompare tcompare_antisym tcompare_le_trans l). Qed.
Print Assumptions sort_strictly_sorted.

Theorem sort_same_elements : forall l,
  (forall x, memb tcompare x (tsort l) = memb tcompare x l) /\ (forall y, In y (tsort l) -> In y l).
Proof. intros l; split; [intros x; exact (memb_usort tcompare tcompare_antisym tcompare_le_trans x l) | exact (tsort_incl l)]. Qed.
Print Assumptions sort_same_elements.

(* ---- sorting without duplicate removal ---- *)
Theorem msort_permutation : forall l, Permutation (tmsort l) l.
Proof. intros l. exact (ssort_perm tcompare l). Qed.
Print Assumptions msort_permutation.

Theorem msort_sorted : forall l, StronglySorted (fun a b => tcompare a b <> Gt) (tmsort l).
Proof. intros l. exact (ssort_sorted tcompare tcompare_antisym tcompare_le_trans l). Qed.
Print Assumptions msort_sorted.

(* ---- keysort/2: a permutation, ascending on the keys, and stable ---- *)
Theorem keysort_permutation : forall l, Permutation (tkeysort l) l.
Proof. intros l. exact (ssort_perm kcompare l). Qed.
Print Assumptions keysort_permutation.

Theorem keysort_sorted_on_keys : forall l,
  StronglySorted (fun p q => tcompare (key_of p) (key_of q) <> Gt) (tkeysort l).
Proof. intros l. exact (ssort_sorted kcompare kcompare_anti kcompare_trans l). Qed.
Print Assumptions keysort_sorted_on_keys.

(* for every key: the subsequence of the pairs with that key (up to ==) is unchanged *)
Theorem keysort_stable : forall k l,
  filter (fun p => teq k (key_of p)) (tkeysort l) = filter (fun p => teq k (key_of p)) l.
Proof. exact tkeysort_stable. Qed.
Print Assumptions keysort_stable.

(* ---- library(ordsets) ---- *)
Theorem ord_union_spec : forall a b,
  StronglySorted (fun x y => tcompare x y = Lt) (set_union tcompare a b) /\
  forall x, memb tcompare x (set_union tcompare a b) = memb tcompare x a || memb tcompare x b.
Proof. exact (set_union_spec tcompare tcompare_antisym tcompare_le_trans). Qed.
Print Assumptions ord_union_spec.

Theorem ord_subtract_spec : forall a b,
  (StronglySorted (fun x y => tcompare x y = Lt) a -> StronglySorted (fun x y => tcompare x y = Lt) (set_subtract tcompare a b)) /\
  forall x, memb tcompare x (set_subtract tcompare a b) = memb tcompare x a && negb (memb tcompare x b).
Proof. exact (set_subtract_spec tcompare tcompare_antisym tcompare_le_trans). Qed.
Print Assumptions ord_subtract_spec.

Theorem ord_intersection_spec : forall a b,
  (StronglySorted (fun x y => tcompare x y = Lt) a -> StronglySorted (fun x y => tcompare x y = Lt) (set_inter tcompare a b)) /\
  forall x, memb tcompare x (set_inter tcompare a b) = memb tcompare x a && memb tcompare x b.
Proof. exact (set_inter_spec tcompare tcompare_antisym tcompare_le_trans). Qed.
Print Assumptions ord_intersection_spec.

Theorem ord_symdiff_spec : forall a b,
  StronglySorted (fun x y => tcompare x y = Lt) (set_symdiff tcompare a b) /\
  forall x, memb tcompare x (set_symdiff tcompare a b) = xorb (memb tcompare x a) (memb tcompare x b).
Proof. exact (set_symdiff_spec tcompare tcompare_antisym tcompare_le_trans). Qed.
Print Assumptions ord_symdiff_spec.

Theorem ord_memberchk_subset_spec : forall a b,
  (forall x, memb tcompare x a = true <-> exists y, In y a /\ tcompare x y = Eq) /\
  (set_subset tcompare a b = true <-> forall x, In x a -> memb tcompare x b = true).
Proof. intros a b; split; [intros x; exact (memb_In tcompare x a) | exact (set_subset_spec tcompare a b)]. Qed.
Print Assumptions ord_memberchk_subset_spec.

(* ---- library(lists) ---- *)
Theorem list_to_set_spec : forall l,
  (forall x, memb tcompare x (first_occ tcompare [] l) = memb tcompare x l) /\
  ForallOrdPairs (fun x y => teq x y = false) (first_occ tcompare [] l).
Proof.
  intros l; split.
  - intros x. rewrite (first_occ_memb tcompare tcompare_antisym tcompare_le_trans). cbn. apply andb_true_r.
  - exact (first_occ_nodup tcompare tcompare_antisym tcompare_le_trans l []).
Qed.
Print Assumptions list_to_set_spec.

Theorem reverse_involutive : forall l : list term, rev (rev l) = l.
Proof. exact (@rev_involutive term). Qed.
Print Assumptions reverse_involutive.

Theorem nth0_nth1_spec : forall i l a x b,
  ((1 <= i)%Z -> nth1 i l = nth0 (i - 1) l) /\ nth0 (Z.of_nat (length a)) (a ++ x :: b) = Some x.
Proof. intros; split; [apply nth1_nth0 | apply nth0_app]. Qed.
Print Assumptions nth0_nth1_spec.

Theorem sum_max_min_spec : forall x l l',
  zsum (l ++ l') = (zsum l + zsum l')%Z /\
  In (zmax x l) (x :: l) /\ Forall (fun y => (y <= zmax x l)%Z) (x :: l) /\
  In (zmin x l) (x :: l) /\ Forall (fun y => (zmin x l <= y)%Z) (x :: l).
Proof.
  intros x l l'. split; [apply zsum_app|].
  destruct (zmax_spec l x) as [H1 H2]. destruct (zmin_spec l x) as [H3 H4]. auto.
Qed.
Print Assumptions sum_max_min_spec.

(* ---- library(pairs) ---- *)
Theorem pairs_keys_values_zip : forall ks vs, length ks = length vs ->
  map key_of (map (fun p => tpair (fst p) (snd p)) (combine ks vs)) = ks /\
  map val_of (map (fun p => tpair (fst p) (snd p)) (combine ks vs)) = vs.
Proof. exact pairs_unzip_zip. Qed.
Print Assumptions pairs_keys_values_zip.

(* ---- library(assoc): the finite-map model ---- *)
Theorem assoc_put_get : forall k k2 v (m : amap),
  map_get tcompare k (map_put tcompare k v m) = Some v /\
  (teq k2 k = false -> map_get tcompare k2 (map_put tcompare k v m) = map_get tcompare k2 m).
Proof.
  intros; split.
  - apply (map_get_put_same tcompare tcompare_antisym).
  - apply (map_get_put_other tcompare tcompare_antisym tcompare_le_trans).
Qed.
Print Assumptions assoc_put_get.

Theorem assoc_del_get : forall k k2 (m : amap),
  map_get tcompare k (map_del tcompare k m) = None /\
  (teq k2 k = false -> map_get tcompare k2 (map_del tcompare k m) = map_get tcompare k2 m).
Proof.
  intros; split.
  - apply map_get_del_same.
  - apply (map_get_del_other tcompare tcompare_antisym tcompare_le_trans).
Qed.
Print Assumptions assoc_del_get.

(* after any history of put/del/get from any initial list the association list has strictly ascending keys *)
Theorem assoc_history_sorted : forall init ops,
  StronglySorted (fun p q => tcompare (fst p) (fst q) = Lt) (snd (run_ops ops (amap_of_pairs init))).
Proof. intros init ops. apply run_ops_sorted. apply amap_of_pairs_sorted. Qed.
Print Assumptions assoc_history_sorted.

(* ---- library(assoc): the mirror of assoc.pl (C14.Avl: AVL trees t / t(K,V,Balance,L,R), clause by clause) ----
   generic in any comparison that is a total preorder; None = the Prolog predicate fails *)

(* what the invariant says: in-order keys strictly ascending; every stored balance symbol is the sign of
   height(R) - height(L) and the two heights differ by at most one *)
Theorem avl_invariant_meaning : forall (K V : Type) (cmp : K -> K -> comparison) (t : tree K V) (k : K) (v : V) b (l r : tree K V),
  (avl_inv cmp t <-> StronglySorted (fun p q => cmp (fst p) (fst q) = Lt) (to_list t) /\ balanced t) /\
  (balanced (T k v b l r) <->
   balanced l /\ balanced r /\
   match b with BL => height l = S (height r) | BE => height l = height r | BR => height r = S (height l) end).
Proof. intros; split; reflexivity. Qed.
Print Assumptions avl_invariant_meaning.

(* put_assoc/4 always succeeds, inserts or overwrites in the sorted association list, and keeps the search-tree order
   and the balance invariant *)
Theorem avl_put_refines : forall (K V : Type) (cmp : K -> K -> comparison),
  (forall x y, cmp x y = CompOpp (cmp y x)) ->
  (forall x y z, cmp x y <> Gt -> cmp y z <> Gt -> cmp x z <> Gt) ->
  forall (t : tree K V) k v, avl_inv cmp t ->
  exists t', put cmp k v t = Some t' /\ to_list t' = map_put cmp k v (to_list t) /\ avl_inv cmp t'.
Proof. exact (@put_refines). Qed.
Print Assumptions avl_put_refines.

(* get_assoc/3 is the lookup in the association list *)
Theorem avl_get_refines : forall (K V : Type) (cmp : K -> K -> comparison),
  (forall x y, cmp x y = CompOpp (cmp y x)) ->
  (forall x y z, cmp x y <> Gt -> cmp y z <> Gt -> cmp x z <> Gt) ->
  forall (t : tree K V) k, avl_inv cmp t -> get cmp k t = map_get cmp k (to_list t).
Proof. exact (@get_refines). Qed.
Print Assumptions avl_get_refines.

(* del_assoc/4 fails exactly when the key is absent; otherwise it returns the value, removes the pair from the
   association list and keeps the invariant (del_min/del_max, deladjust and the rotations included) *)
Theorem avl_del_refines : forall (K V : Type) (cmp : K -> K -> comparison),
  (forall x y, cmp x y = CompOpp (cmp y x)) ->
  (forall x y z, cmp x y <> Gt -> cmp y z <> Gt -> cmp x z <> Gt) ->
  forall (t : tree K V) k, avl_inv cmp t ->
  match del cmp k t with
  | None => map_get cmp k (to_list t) = None
  | Some (v, t') => map_get cmp k (to_list t) = Some v /\ to_list t' = map_del cmp k (to_list t) /\ avl_inv cmp t'
  end.
Proof. exact (@del_refines). Qed.
Print Assumptions avl_del_refines.

(* list_to_assoc/2: with pairwise different keys the tree holds the key-sorted list, satisfies the invariant and has
   the minimal height; with a duplicate key there is no result (domain_error) *)
Theorem avl_list_to_assoc_refines : forall (K V : Type) (cmp : K -> K -> comparison),
  (forall x y, cmp x y = CompOpp (cmp y x)) ->
  (forall x y z, cmp x y <> Gt -> cmp y z <> Gt -> cmp x z <> Gt) ->
  forall l : list (K * V),
  match l with
  | [] => list_to_assoc cmp l = Some E
  | _ => if ord_pairs cmp (ssort (kcmp cmp) l)
         then exists t, list_to_assoc cmp l = Some t /\ to_list t = ssort (kcmp cmp) l /\ avl_inv cmp t /\
                        height t = S (Nat.log2 (length l))
         else list_to_assoc cmp l = None
  end.
Proof. exact (@list_to_assoc_spec). Qed.
Print Assumptions avl_list_to_assoc_refines.

(* assoc_to_list/2, assoc_to_keys/2, assoc_to_values/2 (difference lists) are the in-order views *)
Theorem avl_views : forall (K V : Type) (t : tree K V),
  assoc_to_list t = to_list t /\ assoc_to_keys t = map fst (to_list t) /\ assoc_to_values t = map snd (to_list t).
Proof. exact (@assoc_to_list_spec). Qed.
Print Assumptions avl_views.

(* the executable checker used by the correspondence decides the invariant *)
Theorem avl_ok_spec : forall (K V : Type) (cmp : K -> K -> comparison),
  (forall x y, cmp x y = CompOpp (cmp y x)) ->
  (forall x y z, cmp x y <> Gt -> cmp y z <> Gt -> cmp x z <> Gt) ->
  forall t : tree K V, avl_ok cmp t = true <-> avl_inv cmp t.
Proof. exact (@avl_ok_iff). Qed.
Print Assumptions avl_ok_spec.

(* height bound in Fibonacci form: fib(height + 2) <= entries + 1 (hence height <= 1.4405 log2(entries + 2));
   the conversion to the logarithm over the reals is not part of the statement *)
Theorem avl_height_fib : forall (K V : Type) (t : tree K V),
  balanced t -> fib (height t + 2) <= length (to_list t) + 1.
Proof. exact (@height_fib). Qed.
Print Assumptions avl_height_fib.

(* over the standard order of terms: every history of put/del/get on the mirror succeeds, returns the results of the
   finite-map model (run_ops), holds its content, and ends in a tree satisfying the invariant *)
Theorem avl_history_refines : forall ops (t : tree term term), avl_inv tcompare t ->
  exists o t', run_tree ops t = Some (o, t') /\ run_ops ops (to_list t) = (o, to_list t') /\ avl_inv tcompare t'.
Proof. exact run_tree_refines. Qed.
Print Assumptions avl_history_refines.

(* non-vacuity / examples *)
Example ex_keysort_stable :
  tkeysort [tpair (Int 1) (Atom [97%N]); tpair (Flt 4607182418800017408) (Atom [98%N]); tpair (Int 1) (Atom [99%N]);
            tpair (Flt 0) (Atom [100%N]); tpair (Flt two63) (Atom [101%N])]
  = [tpair (Flt 0) (Atom [100%N]); tpair (Flt two63) (Atom [101%N]); tpair (Flt 4607182418800017408) (Atom [98%N]);
     tpair (Int 1) (Atom [97%N]); tpair (Int 1) (Atom [99%N])].
Proof. vm_compute. reflexivity. Qed.
Example ex_sort : tsort [Atom [98%N]; Int 2; Atom [97%N]; Int 2; Flt 0] = [Flt 0; Int 2; Atom [97%N]; Atom [98%N]].
Proof. vm_compute. reflexivity. Qed.
Example ex_assoc :
  run_ops [APut (Atom [98%N]) (Int 1); APut (Atom [97%N]) (Int 2); AGet (Atom [97%N]); ADel (Atom [98%N]); AGet (Atom [98%N])] []
  = ([Some (Int 2); Some (Int 1); None], [(Atom [97%N], Int 2)]).
Proof. vm_compute. reflexivity. Qed.
(* the tree checker is not vacuous: a correct tree passes, a wrong balance symbol or a misplaced key fails *)
Definition term_avl_ok (t : term) : bool :=
  match tree_of_term t with Some tr => avl_ok tcompare tr | None => false end.
Example ex_avl :
  map term_avl_ok
    [Cmp t_name [Atom [98%N]; Int 1; Atom [60%N]; Cmp t_name [Atom [97%N]; Int 2; Atom [45%N]; Atom t_name; Atom t_name]; Atom t_name];
     Cmp t_name [Atom [98%N]; Int 1; Atom [45%N]; Cmp t_name [Atom [97%N]; Int 2; Atom [45%N]; Atom t_name; Atom t_name]; Atom t_name];
     Cmp t_name [Atom [97%N]; Int 1; Atom [60%N]; Cmp t_name [Atom [98%N]; Int 2; Atom [45%N]; Atom t_name; Atom t_name]; Atom t_name]]
  = [true; false; false].
Proof. vm_compute. reflexivity. Qed.
(* the hypotheses of the avl_* theorems are satisfiable: Z.compare is such an order, trees satisfying the invariant exist,
   and the mirror computes (ascending insertion rotates; deleting the root of a full tree takes the left maximum) *)
Example ex_avl_order_Z :
  (forall x y, Z.compare x y = CompOpp (Z.compare y x)) /\
  (forall x y z, Z.compare x y <> Gt -> Z.compare y z <> Gt -> Z.compare x z <> Gt).
Proof.
  split; [intros x y; apply Z.compare_antisym|].
  intros x y z H1 H2. apply Z.compare_le_iff in H1. apply Z.compare_le_iff in H2. apply Z.compare_le_iff.
  exact (Z.le_trans _ _ _ H1 H2).
Qed.
Example ex_avl_mirror :
  let t3 := T 2%Z 20%Z BE (T 1%Z 10%Z BE E E) (T 3%Z 30%Z BE E E) in
  put Z.compare 3%Z 30%Z (T 1%Z 10%Z BR E (T 2%Z 20%Z BE E E)) = Some t3 /\
  del Z.compare 2%Z t3 = Some (20%Z, T 1%Z 10%Z BR E (T 3%Z 30%Z BE E E)) /\
  list_to_assoc Z.compare [(3%Z, 30%Z); (1%Z, 10%Z); (2%Z, 20%Z)] = Some t3 /\
  avl_inv Z.compare t3 /\ avl_ok Z.compare (T 1%Z 10%Z BE E (T 2%Z 20%Z BE E E)) = false.
Proof.
  cbv zeta. split; [vm_compute; reflexivity|]. split; [vm_compute; reflexivity|]. split; [vm_compute; reflexivity|].
  split; [|vm_compute; reflexivity].
  apply (avl_ok_iff Z.compare (proj1 ex_avl_order_Z) (proj2 ex_avl_order_Z)). vm_compute. reflexivity.
Qed.
