(* C14 -- impl-mirror of library(assoc) (src/lib/assoc.pl): AVL trees t / t(K,V,Balance,L,R).
   Definitions only.  Every function follows the Prolog clauses one by one; a Prolog failure (no clause matches)
   is None.  Generic in the key comparison; the correspondence instantiates it with C13's tcompare. *)
From Coq Require Import ZArith NArith List Bool Arith Sorting.Sorted.
From V Require Import Base.Term C13.Model C14.Model.
Import ListNotations.

Inductive bal := BL | BE | BR.                 (* the balance symbols  <  -  >  *)
Inductive side := SLeft | SRight.              (* left / right *)
Inductive tree (K V : Type) : Type :=
| E                                             (* t *)
| T (k : K) (v : V) (b : bal) (l r : tree K V). (* t(K,V,Balance,L,R) *)
Arguments E {K V}.
Arguments T {K V} k v b l r.

(* Fibonacci numbers, for the height bound fib(height + 2) <= size + 1 *)
Fixpoint fib (n : nat) : nat :=
  match n with
  | O => 0
  | S m => match m with O => 1 | S p => fib m + fib p end
  end.

Definition bal_eqb (a b : bal) : bool :=
  match a, b with BL, BL | BE, BE | BR, BR => true | _, _ => false end.

Section Avl.
  Context {K V : Type} (cmp : K -> K -> comparison).
  Notation tr := (tree K V).

  (* ---- specification-side views *)
  Fixpoint to_list (t : tr) : list (K * V) :=
    match t with E => [] | T k v _ l r => to_list l ++ (k, v) :: to_list r end.
  Fixpoint height (t : tr) : nat :=
    match t with E => O | T _ _ _ l r => S (Nat.max (height l) (height r)) end.
  Fixpoint size (t : tr) : nat :=
    match t with E => O | T _ _ _ l r => S (size l + size r) end.
  Definition root_bal (t : tr) : bal := match t with E => BE | T _ _ b _ _ => b end.

  (* the stored symbol is the sign of height(R) - height(L), and |difference| <= 1 *)
  Definition bal_rel (b : bal) (hl hr : nat) : Prop :=
    match b with BL => hl = S hr | BE => hl = hr | BR => hr = S hl end.
  Fixpoint balanced (t : tr) : Prop :=
    match t with
    | E => True
    | T _ _ b l r => balanced l /\ balanced r /\ bal_rel b (height l) (height r)
    end.
  (* search-tree order: the in-order keys are strictly ascending *)
  Definition bst (t : tr) : Prop :=
    StronglySorted (fun p q => cmp (fst p) (fst q) = Lt) (to_list t).
  Definition avl_inv (t : tr) : Prop := bst t /\ balanced t.

  (* ---- executable checker of the invariant *)
  Definition bal_relb (b : bal) (hl hr : nat) : bool :=
    match b with BL => Nat.eqb hl (S hr) | BE => Nat.eqb hl hr | BR => Nat.eqb hr (S hl) end.
  Fixpoint hcheck (t : tr) : option nat :=
    match t with
    | E => Some O
    | T _ _ b l r =>
        match hcheck l, hcheck r with
        | Some hl, Some hr => if bal_relb b hl hr then Some (S (Nat.max hl hr)) else None
        | _, _ => None
        end
    end.
  Fixpoint ascending (l : list (K * V)) : bool :=
    match l with
    | [] => true
    | p :: r => match r with
                | [] => true
                | q :: _ => match cmp (fst p) (fst q) with Lt => ascending r | _ => false end
                end
    end.
  Definition avl_ok (t : tr) : bool :=
    match hcheck t with Some _ => ascending (to_list t) | None => false end.

  (* ---- assoc_to_list/2, assoc_to_keys/2, assoc_to_values/2 (difference-list accumulators) *)
  Fixpoint a2l (t : tr) (rest : list (K * V)) : list (K * V) :=
    match t with E => rest | T k v _ l r => a2l l ((k, v) :: a2l r rest) end.
  Definition assoc_to_list (t : tr) : list (K * V) := a2l t [].
  Fixpoint a2k (t : tr) (rest : list K) : list K :=
    match t with E => rest | T k _ _ l r => a2k l (k :: a2k r rest) end.
  Definition assoc_to_keys (t : tr) : list K := a2k t [].
  Fixpoint a2v (t : tr) (rest : list V) : list V :=
    match t with E => rest | T _ v _ l r => a2v l (v :: a2v r rest) end.
  Definition assoc_to_values (t : tr) : list V := a2v t [].

  (* ---- get_assoc/3: get_assoc_/3 + get_assoc/6 *)
  Fixpoint get (k : K) (t : tr) : option V :=
    match t with
    | E => None                                    (* get_assoc_ has no clause for t *)
    | T k' v _ l r => match cmp k k' with
                      | Eq => Some v
                      | Lt => get k l
                      | Gt => get k r
                      end
    end.

  (* ---- rotations: avl_geq/3, table2/3 *)
  Definition table2 (b1 : bal) : bal * bal :=
    match b1 with BL => (BE, BR) | BR => (BL, BE) | BE => (BE, BE) end.

  Definition avl_geq (t : tr) : option (tr * bool) :=
    match t with
    | T a va BR alpha (T b vb BR beta gamma) =>
        Some (T b vb BE (T a va BE alpha beta) gamma, true)
    | T a va BR alpha (T b vb BE beta gamma) =>
        Some (T b vb BL (T a va BR alpha beta) gamma, false)
    | T b vb BL (T a va BL alpha beta) gamma =>
        Some (T a va BE alpha (T b vb BE beta gamma), true)
    | T b vb BL (T a va BE alpha beta) gamma =>
        Some (T a va BR alpha (T b vb BL beta gamma), false)
    | T a va BR alpha (T b vb BL (T x vx b1 beta gamma) delta) =>
        let (b2, b3) := table2 b1 in
        Some (T x vx BE (T a va b2 alpha beta) (T b vb b3 gamma delta), true)
    | T b vb BL (T a va BR alpha (T x vx b1 beta gamma)) delta =>
        let (b2, b3) := table2 b1 in
        Some (T x vx BE (T a va b2 alpha beta) (T b vb b3 gamma delta), true)
    | _ => None
    end.

  (* rebalance(ToBeRebalanced, OldTree, B1, NewTree, Changed, RealChange) *)
  Definition rebalance (tbr : bool) (t : tr) (b1 : bal) (changed : bool) : option (tr * bool) :=
    if tbr then avl_geq t
    else match t with T k v _ l r => Some (T k v b1 l r, changed) | E => None end.

  (* ---- put_assoc/4: insert/5, insert/6, adjust/5, table/5 *)
  (*                           balance after, whole tree increased, to be rebalanced *)
  Definition table (b0 : bal) (lor : side) : bal * bool * bool :=
    match b0, lor with
    | BE, SLeft => (BL, true, false)
    | BE, SRight => (BR, true, false)
    | BL, SLeft => (BE, false, true)
    | BL, SRight => (BE, false, false)
    | BR, SLeft => (BE, false, false)
    | BR, SRight => (BE, false, true)
    end.

  Definition adjust (ch : bool) (t : tr) (lor : side) : option (tr * bool) :=
    if ch then
      match t with
      | T _ _ b0 _ _ =>
          let '(b1, whc, tbr) := table b0 lor in
          match rebalance tbr t b1 false with      (* last two arguments are anonymous in adjust/5 *)
          | Some (nt, _) => Some (nt, whc)
          | None => None
          end
      | E => None
      end
    else Some (t, false).

  Fixpoint insert (t : tr) (k : K) (v : V) : option (tr * bool) :=
    match t with
    | E => Some (T k v BE E E, true)
    | T key val b l r =>
        match cmp k key with
        | Eq => Some (T key v b l r, false)
        | Lt => match insert l k v with
                | Some (nl, ch) => adjust ch (T key val b nl r) SLeft
                | None => None
                end
        | Gt => match insert r k v with
                | Some (nr, ch) => adjust ch (T key val b l nr) SRight
                | None => None
                end
        end
    end.
  Definition put (k : K) (v : V) (t : tr) : option tr :=
    match insert t k v with Some (nt, _) => Some nt | None => None end.

  (* ---- del_assoc/4: delete/5, delete/6, deladjust/5, deltable/5, del_min_assoc/5, del_max_assoc/5 *)
  (*                              balance after, whole tree changed, to be rebalanced *)
  Definition deltable (b0 : bal) (lor : side) : bal * bool * bool :=
    match b0, lor with
    | BE, SRight => (BL, false, false)
    | BE, SLeft => (BR, false, false)
    | BL, SRight => (BE, true, true)
    | BL, SLeft => (BE, true, false)
    | BR, SRight => (BE, true, false)
    | BR, SLeft => (BE, true, true)
    end.

  Definition deladjust (ch : bool) (t : tr) (lor : side) : option (tr * bool) :=
    if ch then
      match t with
      | T _ _ b0 _ _ => let '(b1, whc, tbr) := deltable b0 lor in rebalance tbr t b1 whc
      | E => None
      end
    else Some (t, false).

  Fixpoint del_min (t : tr) : option (K * V * tr * bool) :=
    match t with
    | E => None
    | T k v b l r =>
        match l with
        | E => Some (k, v, r, true)
        | T _ _ _ _ _ =>
            match del_min l with
            | Some (mk, mv, nl, ch) =>
                match deladjust ch (T k v b nl r) SLeft with
                | Some (nt, c) => Some (mk, mv, nt, c)
                | None => None
                end
            | None => None
            end
        end
    end.

  Fixpoint del_max (t : tr) : option (K * V * tr * bool) :=
    match t with
    | E => None
    | T k v b l r =>
        match r with
        | E => Some (k, v, l, true)
        | T _ _ _ _ _ =>
            match del_max r with
            | Some (mk, mv, nr, ch) =>
                match deladjust ch (T k v b l nr) SRight with
                | Some (nt, c) => Some (mk, mv, nt, c)
                | None => None
                end
            | None => None
            end
        end
    end.

  (* the two last clauses of delete(=, ...) *)
  Definition del_root_right (val : V) (l r : tr) : option (V * tr * bool) :=
    match del_min r with
    | Some (mk, mv, nr, ch) =>
        match deladjust ch (T mk mv BR l nr) SRight with
        | Some (nt, c) => Some (val, nt, c)
        | None => None
        end
    | None => None
    end.
  Definition del_root_left (val : V) (b : bal) (l r : tr) : option (V * tr * bool) :=
    match del_max l with
    | Some (mk, mv, nl, ch) =>
        match deladjust ch (T mk mv b nl r) SLeft with
        | Some (nt, c) => Some (val, nt, c)
        | None => None
        end
    | None => None
    end.

  (* delete(=, ...): the four clauses *)
  Definition del_root (val : V) (b : bal) (l r : tr) : option (V * tr * bool) :=
    match l, r with
    | E, _ => Some (val, r, true)
    | _, E => Some (val, l, true)
    | _, _ =>
        match b with
        | BR => match del_root_right val l r with
                | Some res => Some res
                | None => del_root_left val b l r     (* the next clause is tried on failure *)
                end
        | _ => del_root_left val b l r
        end
    end.

  Fixpoint delete (t : tr) (k : K) : option (V * tr * bool) :=
    match t with
    | E => None                                    (* delete/5 has no clause for t *)
    | T key val b l r =>
        match cmp k key with
        | Eq => del_root val b l r
        | Lt => match delete l k with
                | Some (v, nl, ch) =>
                    match deladjust ch (T key val b nl r) SLeft with
                    | Some (nt, c) => Some (v, nt, c)
                    | None => None
                    end
                | None => None
                end
        | Gt => match delete r k with
                | Some (v, nr, ch) =>
                    match deladjust ch (T key val b l nr) SRight with
                    | Some (nt, c) => Some (v, nt, c)
                    | None => None
                    end
                | None => None
                end
        end
    end.
  Definition del (k : K) (t : tr) : option (V * tr) :=
    match delete t k with Some (v, nt, _) => Some (v, nt) | None => None end.

  (* ---- list_to_assoc/2, list_to_assoc/5, ord_pairs/1,2, balance/2 *)
  Definition balance_of (c : comparison) : bal := match c with Eq => BE | Lt => BL | Gt => BR end.

  Fixpoint ord_pairs_from (k0 : K) (l : list (K * V)) : bool :=
    match l with
    | [] => true
    | (k, _) :: r => match cmp k0 k with Lt => ord_pairs_from k r | _ => false end
    end.
  Definition ord_pairs (l : list (K * V)) : bool :=
    match l with [] => false | (k, _) :: r => ord_pairs_from k r end.

  (* list_to_assoc(N, List, More, Depth, Tree); fuel bounds the recursion depth (N = 0 does not terminate in Prolog) *)
  Fixpoint l2a (fuel n : nat) (l : list (K * V)) : option (tr * list (K * V) * nat) :=
    match fuel with
    | O => None
    | S f =>
        match n with
        | 0 => None
        | 1 => match l with (k, v) :: more => Some (T k v BE E E, more, 1) | _ => None end
        | 2 => match l with
               | (k1, v1) :: (k2, v2) :: more => Some (T k2 v2 BL (T k1 v1 BE E E) E, more, 2)
               | _ => None
               end
        | _ =>
            let n0 := n - 1 in
            let rn := Nat.div n0 2 in
            let rem := Nat.modulo n0 2 in
            let ln := rn + rem in
            match l2a f ln l with
            | Some (lt, (k, v) :: upper, ld) =>
                match l2a f rn upper with
                | Some (rt, more, rd) => Some (T k v (balance_of (Nat.compare rd ld)) lt rt, more, ld + 1)
                | None => None
                end
            | _ => None
            end
        end
    end.

  (* keysort/2 is the stable sort on keys (C14.Model.ssort, tied to the builtin by check_keysort);
     a duplicate key (domain_error) is None as well *)
  Definition list_to_assoc (l : list (K * V)) : option tr :=
    match l with
    | [] => Some E
    | _ =>
        let s := ssort (fun p q => cmp (fst p) (fst q)) l in
        if ord_pairs s then
          match l2a (S (length s)) (length s) s with
          | Some (t, [], _) => Some t
          | _ => None
          end
        else None
    end.
End Avl.

(* ------------------------------------------------------------------ correspondence: terms <-> trees *)
Definition bal_of_term (t : term) : option bal :=
  match t with
  | Atom [60%N] => Some BL
  | Atom [45%N] => Some BE
  | Atom [62%N] => Some BR
  | _ => None
  end.
Fixpoint tree_of_term (t : term) : option (tree term term) :=
  match t with
  | Atom [116%N] => Some E
  | Cmp [116%N] [k; v; b; l; r] =>
      match bal_of_term b, tree_of_term l, tree_of_term r with
      | Some b', Some l', Some r' => Some (T k v b' l' r')
      | _, _, _ => None
      end
  | _ => None
  end.
Fixpoint tree_eqb (a b : tree term term) : bool :=
  match a, b with
  | E, E => true
  | T k v c l r, T k' v' c' l' r' => teq k k' && teq v v' && bal_eqb c c' && tree_eqb l l' && tree_eqb r r'
  | _, _ => false
  end.

(* a history on the mirror; del_assoc failing (key absent) leaves the tree as it is, as in the generated query *)
Fixpoint run_tree (ops : list aop) (t : tree term term) : option (list (option term) * tree term term) :=
  match ops with
  | [] => Some ([], t)
  | APut k v :: r => match put tcompare k v t with Some t' => run_tree r t' | None => None end
  | ADel k :: r =>
      match del tcompare k t with
      | Some (v, t') => match run_tree r t' with Some (o, t'') => Some (Some v :: o, t'') | None => None end
      | None => match run_tree r t with Some (o, t'') => Some (None :: o, t'') | None => None end
      end
  | AGet k :: r => match run_tree r t with Some (o, t'') => Some (get tcompare k t :: o, t'') | None => None end
  end.

Definition pairs_of_terms (l : list term) : list (term * term) := map (fun p => (key_of p, val_of p)) l.

(* the implementation's final tree is exactly the mirror's tree (same shape, same balance symbols, keys and values ==),
   its results, assoc_to_list, assoc_to_keys, assoc_to_values are the mirror's, the tree passes the invariant checker,
   and results and content are also those of the finite-map reference model (run_ops) *)
Definition check_assoc_tree (init : list term) (ops : list aop) (res : list (option term))
           (lst keys vals : list term) (tree : term) : bool :=
  match list_to_assoc tcompare (pairs_of_terms init) with
  | Some t0 =>
      match run_tree ops t0, tree_of_term tree with
      | Some (o, t), Some it =>
          list_eqb opt_eq o res && tree_eqb t it && avl_ok tcompare it &&
          tlist_eq (pairs_of_amap (assoc_to_list t)) lst &&
          tlist_eq (assoc_to_keys t) keys && tlist_eq (assoc_to_values t) vals &&
          (let (o', m) := run_ops ops (amap_of_pairs init) in
           list_eqb opt_eq o' res && tlist_eq (pairs_of_amap m) lst)
      | _, _ => false
      end
  | None => false
  end.
