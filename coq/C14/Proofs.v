(* C14 -- proofs about the generic sorting / set / map models, then instantiated with tcompare *)
From Coq Require Import ZArith NArith List Bool Sorting Permutation Lia.
From V Require Import Base.Term C13.Model C13.Proofs C14.Model.
Import ListNotations.

Section Generic.
  Context {A : Type} (cmp : A -> A -> comparison).
  (* cmp is a total preorder *)
  Hypothesis Hanti : forall x y, cmp x y = CompOpp (cmp y x).
  Hypothesis Htrans : forall x y z, cmp x y <> Gt -> cmp y z <> Gt -> cmp x z <> Gt.

  Definition le (x y : A) : Prop := cmp x y <> Gt.
  Definition lt (x y : A) : Prop := cmp x y = Lt.
  Definition eqv (x y : A) : Prop := cmp x y = Eq.

  Lemma cmp_refl : forall x, cmp x x = Eq.
  Proof. intros x. pose proof (Hanti x x) as H. destruct (cmp x x); cbn in H; congruence. Qed.

  Lemma leb_le : forall x y, leb cmp x y = true <-> le x y.
  Proof. intros x y; unfold leb, le; destruct (cmp x y); split; congruence. Qed.

  Lemma leb_false : forall x y, leb cmp x y = false -> cmp x y = Gt /\ lt y x.
  Proof.
    intros x y H; unfold leb, lt in *. rewrite (Hanti y x). destruct (cmp x y); try discriminate; auto.
  Qed.

  Lemma eqvb_eqv : forall x y, eqvb cmp x y = true <-> eqv x y.
  Proof. intros x y; unfold eqvb, eqv; destruct (cmp x y); split; congruence. Qed.

  Lemma eqv_sym : forall x y, eqv x y -> eqv y x.
  Proof. unfold eqv; intros x y H. rewrite Hanti, H. reflexivity. Qed.

  Lemma eqv_trans : forall x y z, eqv x y -> eqv y z -> eqv x z.
  Proof.
    unfold eqv; intros x y z H1 H2.
    assert (L1 : cmp x z <> Gt) by (apply (Htrans x y z); congruence).
    assert (L2 : cmp z x <> Gt).
    { apply (Htrans z y x); rewrite Hanti; [rewrite H2 | rewrite H1]; cbn; congruence. }
    rewrite (Hanti z x) in L2. destruct (cmp x z); cbn in *; congruence.
  Qed.

  Lemma lt_le_trans : forall x y z, lt x y -> le y z -> lt x z.
  Proof.
    unfold lt, le; intros x y z H1 H2.
    assert (L1 : cmp x z <> Gt) by (apply (Htrans x y z); congruence).
    destruct (cmp x z) eqn:E; try congruence.
    exfalso. assert (L2 : cmp y x <> Gt).
    { apply (Htrans y z x); auto. rewrite Hanti, E. cbn; congruence. }
    rewrite Hanti, H1 in L2. cbn in L2. congruence.
  Qed.

  Lemma le_lt_trans : forall x y z, le x y -> lt y z -> lt x z.
  Proof.
    unfold lt, le; intros x y z H1 H2.
    assert (L1 : cmp x z <> Gt) by (apply (Htrans x y z); congruence).
    destruct (cmp x z) eqn:E; try congruence.
    exfalso. assert (L2 : cmp z y <> Gt).
    { apply (Htrans z x y); auto. rewrite Hanti, E. cbn; congruence. }
    rewrite Hanti, H2 in L2. cbn in L2. congruence.
  Qed.

  Lemma lt_le : forall x y, lt x y -> le x y.
  Proof. unfold lt, le; congruence. Qed.

  Lemma eqvb_congr : forall x y w, eqvb cmp x y = true -> eqvb cmp x w = eqvb cmp y w.
  Proof.
    intros x y w H. apply eqvb_eqv in H.
    destruct (eqvb cmp x w) eqn:E1, (eqvb cmp y w) eqn:E2; auto.
    - apply eqvb_eqv in E1. assert (eqv y w) by (eapply eqv_trans; [apply eqv_sym; eauto | auto]).
      apply eqvb_eqv in H0. congruence.
    - apply eqvb_eqv in E2. assert (eqv x w) by (eapply eqv_trans; eauto).
      apply eqvb_eqv in H0. congruence.
  Qed.

  Lemma eqvb_congr_r : forall x y w, eqvb cmp x y = true -> eqvb cmp w x = eqvb cmp w y.
  Proof.
    intros x y w H. unfold eqvb. rewrite (Hanti w x), (Hanti w y).
    pose proof (eqvb_congr x y w H) as E. unfold eqvb in E.
    destruct (cmp x w), (cmp y w); cbn; congruence.
  Qed.

  (* ---------------------------------------------------------------- insertion / stable sort *)
  Lemma insert_perm : forall x l, Permutation (insert cmp x l) (x :: l).
  Proof.
    induction l as [|y r IH]; cbn; auto.
    destruct (leb cmp x y); auto.
    eapply perm_trans; [apply perm_skip; exact IH | apply perm_swap].
  Qed.

  Lemma ssort_cons : forall x l, ssort cmp (x :: l) = insert cmp x (ssort cmp l).
  Proof. reflexivity. Qed.

  Lemma ssort_perm : forall l, Permutation (ssort cmp l) l.
  Proof.
    induction l as [|x l IH]; [constructor|]. rewrite ssort_cons.
    eapply perm_trans; [apply insert_perm | apply perm_skip; exact IH].
  Qed.

  Lemma insert_forall : forall (P : A -> Prop) x l, P x -> Forall P l -> Forall P (insert cmp x l).
  Proof.
    intros P x l Hx Hl. induction Hl as [|y r Hy Hr IH]; cbn.
    - constructor; auto.
    - destruct (leb cmp x y); constructor; auto.
  Qed.

  Lemma insert_sorted : forall x l, StronglySorted le l -> StronglySorted le (insert cmp x l).
  Proof.
    intros x l H. induction H as [|y r Hs IH Hf]; cbn.
    - constructor; constructor.
    - destruct (leb cmp x y) eqn:E.
      + apply leb_le in E. constructor; [constructor; auto|].
        constructor; auto. eapply Forall_impl; [|exact Hf]. intros z Hz. exact (Htrans x y z E Hz).
      + apply leb_false in E as [_ E]. constructor; auto.
        apply insert_forall; auto. apply lt_le; exact E.
  Qed.

  Lemma ssort_sorted : forall l, StronglySorted le (ssort cmp l).
  Proof. induction l as [|x l IH]; [constructor | rewrite ssort_cons; apply insert_sorted; exact IH]. Qed.

  (* stability: the elements of every equivalence class keep their input order *)
  Lemma insert_filter : forall k x l,
    filter (eqvb cmp k) (insert cmp x l) = if eqvb cmp k x then x :: filter (eqvb cmp k) l else filter (eqvb cmp k) l.
  Proof.
    intros k x l. induction l as [|y r IH]; cbn.
    - destruct (eqvb cmp k x); reflexivity.
    - destruct (leb cmp x y) eqn:E; cbn.
      + destruct (eqvb cmp k x); reflexivity.
      + rewrite IH. destruct (eqvb cmp k x) eqn:Ex; auto.
        destruct (eqvb cmp k y) eqn:Ey; auto.
        exfalso. apply leb_false in E as [E _].
        apply eqvb_eqv in Ex. apply eqvb_eqv in Ey.
        assert (H : eqv x y) by (eapply eqv_trans; [apply eqv_sym; eauto | auto]).
        unfold eqv in H. congruence.
  Qed.

  Lemma ssort_stable : forall k l, filter (eqvb cmp k) (ssort cmp l) = filter (eqvb cmp k) l.
  Proof.
    intros k l. induction l as [|x l IH]; [reflexivity|].
    rewrite ssort_cons, insert_filter, IH. reflexivity.
  Qed.

  (* ---------------------------------------------------------------- membership *)
  Lemma memb_insert : forall x y l, memb cmp x (insert cmp y l) = eqvb cmp x y || memb cmp x l.
  Proof.
    intros x y l. unfold memb. induction l as [|z r IH]; cbn [insert existsb]; [reflexivity|].
    destruct (leb cmp y z); cbn [existsb]; [reflexivity|]. rewrite IH.
    destruct (eqvb cmp x y), (eqvb cmp x z); reflexivity.
  Qed.

  Lemma memb_ssort : forall x l, memb cmp x (ssort cmp l) = memb cmp x l.
  Proof. intros x l. induction l as [|y l IH]; [reflexivity|]. rewrite ssort_cons, memb_insert, IH. reflexivity. Qed.

  Lemma memb_dedup : forall x l, memb cmp x (dedup cmp l) = memb cmp x l.
  Proof.
    intros x l. unfold memb. induction l as [|a l IH]; auto.
    destruct l as [|b r]; auto.
    change (dedup cmp (a :: b :: r)) with (if eqvb cmp a b then dedup cmp (b :: r) else a :: dedup cmp (b :: r)).
    destruct (eqvb cmp a b) eqn:E.
    - rewrite IH. cbn [existsb]. rewrite (eqvb_congr_r a b x E). destruct (eqvb cmp x b); reflexivity.
    - cbn [existsb] in *. rewrite IH. reflexivity.
  Qed.

  Lemma memb_usort : forall x l, memb cmp x (usort cmp l) = memb cmp x l.
  Proof. intros; unfold usort. rewrite memb_dedup, memb_ssort. reflexivity. Qed.

  Lemma memb_app : forall x a b, memb cmp x (a ++ b) = memb cmp x a || memb cmp x b.
  Proof. intros; unfold memb; apply existsb_app. Qed.

  Lemma memb_congr : forall x y l, eqvb cmp x y = true -> memb cmp x l = memb cmp y l.
  Proof.
    intros x y l H. unfold memb. induction l as [|w r IH]; cbn [existsb]; auto. rewrite (eqvb_congr x y w H), IH. reflexivity.
  Qed.

  Lemma memb_In : forall x l, memb cmp x l = true <-> exists y, In y l /\ eqv x y.
  Proof.
    intros x l. unfold memb. rewrite existsb_exists. split; intros [y [H1 H2]]; exists y; split; auto; apply eqvb_eqv; auto.
  Qed.

  Lemma memb_filter : forall (p : A -> bool), (forall y z, eqvb cmp y z = true -> p y = p z) ->
    forall x l, memb cmp x (filter p l) = memb cmp x l && p x.
  Proof.
    intros p Hp x l. unfold memb. induction l as [|y r IH]; cbn [filter existsb]; auto.
    destruct (p y) eqn:Py; cbn [existsb]; rewrite IH.
    - destruct (eqvb cmp x y) eqn:E; cbn; auto. rewrite (Hp x y E), Py. reflexivity.
    - destruct (eqvb cmp x y) eqn:E; cbn; auto. rewrite (Hp x y E), Py. rewrite andb_false_r. reflexivity.
  Qed.

  (* ---------------------------------------------------------------- duplicate removal *)
  Lemma dedup_incl : forall l z, In z (dedup cmp l) -> In z l.
  Proof.
    induction l as [|a l IH]; auto. destruct l as [|b r]; auto. intros z.
    change (dedup cmp (a :: b :: r)) with (if eqvb cmp a b then dedup cmp (b :: r) else a :: dedup cmp (b :: r)).
    destruct (eqvb cmp a b); intros H.
    - right. apply IH. exact H.
    - destruct H as [H|H]; [left; exact H | right; apply IH; exact H].
  Qed.

  Lemma dedup_strict : forall l, StronglySorted le l -> StronglySorted lt (dedup cmp l).
  Proof.
    induction l as [|a l IH]; intros Hs; [constructor|].
    destruct l as [|b r]; [constructor; constructor|].
    change (dedup cmp (a :: b :: r)) with (if eqvb cmp a b then dedup cmp (b :: r) else a :: dedup cmp (b :: r)).
    inversion Hs as [|? ? Hs' Hf]; subst.
    destruct (eqvb cmp a b) eqn:E; [apply IH; exact Hs'|].
    constructor; [apply IH; exact Hs'|].
    apply Forall_forall. intros z Hz. apply dedup_incl in Hz.
    inversion Hf as [|? ? Hab Hr]; subst. inversion Hs' as [|? ? _ Hbr]; subst.
    assert (Lab : lt a b).
    { unfold lt, le, eqvb in *. destruct (cmp a b); congruence. }
    destruct Hz as [Hz|Hz]; [subst; exact Lab|].
    eapply lt_le_trans; [exact Lab|]. rewrite Forall_forall in Hbr. apply Hbr; exact Hz.
  Qed.

  Lemma usort_strict : forall l, StronglySorted lt (usort cmp l).
  Proof. intros; apply dedup_strict, ssort_sorted. Qed.

  Lemma filter_sorted : forall {B : Type} (R : B -> B -> Prop) p l, StronglySorted R l -> StronglySorted R (filter p l).
  Proof.
    intros B R p l H. induction H as [|x l Hs IH Hf]; cbn; [constructor|].
    destruct (p x); auto. constructor; auto.
    apply Forall_forall. intros z Hz. apply filter_In in Hz as [Hz _]. rewrite Forall_forall in Hf. auto.
  Qed.

  (* ---------------------------------------------------------------- sets *)
  Lemma set_union_spec : forall a b,
    StronglySorted lt (set_union cmp a b) /\ forall x, memb cmp x (set_union cmp a b) = memb cmp x a || memb cmp x b.
  Proof.
    intros a b; split; [apply usort_strict|]. intros x. unfold set_union. rewrite memb_usort, memb_app. reflexivity.
  Qed.

  Lemma set_subtract_spec : forall a b,
    (StronglySorted lt a -> StronglySorted lt (set_subtract cmp a b)) /\
    forall x, memb cmp x (set_subtract cmp a b) = memb cmp x a && negb (memb cmp x b).
  Proof.
    intros a b; split; [apply filter_sorted|]. intros x. unfold set_subtract.
    apply memb_filter. intros y z H. rewrite (memb_congr y z b H). reflexivity.
  Qed.

  Lemma set_inter_spec : forall a b,
    (StronglySorted lt a -> StronglySorted lt (set_inter cmp a b)) /\
    forall x, memb cmp x (set_inter cmp a b) = memb cmp x a && memb cmp x b.
  Proof.
    intros a b; split; [apply filter_sorted|]. intros x. unfold set_inter.
    apply memb_filter. intros y z H. apply memb_congr; exact H.
  Qed.

  Lemma set_symdiff_spec : forall a b,
    StronglySorted lt (set_symdiff cmp a b) /\
    forall x, memb cmp x (set_symdiff cmp a b) = xorb (memb cmp x a) (memb cmp x b).
  Proof.
    intros a b; split; [apply usort_strict|]. intros x. unfold set_symdiff.
    rewrite memb_usort, memb_app, (proj2 (set_subtract_spec a b)), (proj2 (set_subtract_spec b a)).
    destruct (memb cmp x a), (memb cmp x b); reflexivity.
  Qed.

  Lemma set_subset_spec : forall a b, set_subset cmp a b = true <-> forall x, In x a -> memb cmp x b = true.
  Proof. intros; unfold set_subset. apply forallb_forall. Qed.

  (* ---------------------------------------------------------------- list_to_set *)
  Lemma memb_cons : forall x y l, memb cmp x (y :: l) = eqvb cmp x y || memb cmp x l.
  Proof. reflexivity. Qed.

  Lemma first_occ_memb : forall l seen x,
    memb cmp x (first_occ cmp seen l) = memb cmp x l && negb (memb cmp x seen).
  Proof.
    induction l as [|y r IH]; intros seen x; [reflexivity|].
    cbn [first_occ]. rewrite (memb_cons x y r).
    destruct (memb cmp y seen) eqn:Ey.
    - rewrite IH. destruct (eqvb cmp x y) eqn:E; cbn [orb]; auto.
      rewrite (memb_congr x y seen E), Ey. cbn [negb]. rewrite !andb_false_r. reflexivity.
    - rewrite memb_cons, IH, memb_cons. destruct (eqvb cmp x y) eqn:E; cbn [orb negb andb].
      + rewrite (memb_congr x y seen E), Ey. reflexivity.
      + reflexivity.
  Qed.

  Lemma first_occ_nodup : forall l seen,
    ForallOrdPairs (fun x y => eqvb cmp x y = false) (first_occ cmp seen l).
  Proof.
    induction l as [|y r IH]; intros seen; cbn [first_occ]; [constructor|].
    destruct (memb cmp y seen); [apply IH|]. constructor; [|apply IH].
    apply Forall_forall. intros z Hz.
    destruct (eqvb cmp y z) eqn:E; auto. exfalso.
    assert (Hm : memb cmp y (first_occ cmp (y :: seen) r) = true).
    { apply memb_In. exists z. split; auto. apply eqvb_eqv; exact E. }
    rewrite first_occ_memb, memb_cons in Hm.
    assert (Hy : eqvb cmp y y = true) by (unfold eqvb; rewrite cmp_refl; reflexivity).
    rewrite Hy in Hm. cbn [orb negb] in Hm. rewrite andb_false_r in Hm. discriminate.
  Qed.

  (* ---------------------------------------------------------------- finite maps *)
  Context {V : Type}.
  Definition ksorted (m : list (A * V)) : Prop := StronglySorted (fun p q => lt (fst p) (fst q)) m.

  Lemma eqvb_refl : forall x, eqvb cmp x x = true.
  Proof. intros x. unfold eqvb. rewrite cmp_refl. reflexivity. Qed.

  Lemma map_get_put_same : forall k (v : V) m, map_get cmp k (map_put cmp k v m) = Some v.
  Proof.
    intros k v m. unfold map_get. induction m as [|[k' v'] r IH]; cbn [map_put find fst snd].
    - rewrite eqvb_refl. reflexivity.
    - destruct (cmp k k') eqn:E; cbn [find fst snd].
      + unfold eqvb. rewrite E. reflexivity.
      + rewrite eqvb_refl. reflexivity.
      + unfold eqvb at 1. rewrite E. exact IH.
  Qed.

  Lemma map_get_put_other : forall k k2 (v : V) m, eqvb cmp k2 k = false ->
    map_get cmp k2 (map_put cmp k v m) = map_get cmp k2 m.
  Proof.
    intros k k2 v m H. unfold map_get. induction m as [|[k' v'] r IH]; cbn [map_put find fst snd].
    - rewrite H. reflexivity.
    - destruct (cmp k k') eqn:E; cbn [find fst snd].
      + assert (Ek : eqvb cmp k k' = true) by (unfold eqvb; rewrite E; reflexivity).
        rewrite <- (eqvb_congr_r k k' k2 Ek), H. reflexivity.
      + rewrite H. reflexivity.
      + destruct (eqvb cmp k2 k'); auto.
  Qed.

  Lemma map_put_keys : forall (P : A -> Prop) k (v : V) m, P k -> Forall (fun p => P (fst p)) m ->
    Forall (fun p => P (fst p)) (map_put cmp k v m).
  Proof.
    intros P k v m Hk Hm. induction Hm as [|[k' v'] r Hy Hr IH]; cbn [map_put].
    - constructor; auto.
    - destruct (cmp k k'); repeat (constructor; auto).
  Qed.

  Lemma map_put_sorted : forall k (v : V) m, ksorted m -> ksorted (map_put cmp k v m).
  Proof.
    intros k v m H. induction H as [|[k' v'] r Hs IH Hf]; cbn [map_put].
    - constructor; constructor.
    - destruct (cmp k k') eqn:E.
      + constructor; auto.
      + constructor; [constructor; auto|]. constructor; [exact E|].
        eapply Forall_impl; [|exact Hf]. intros [k3 v3] H3. cbn [fst] in *.
        eapply lt_le_trans; [exact E | apply lt_le; exact H3].
      + constructor; auto. apply (map_put_keys (fun x => lt k' x)); auto.
        unfold lt. rewrite Hanti, E. reflexivity.
  Qed.

  Lemma map_get_del_same : forall k (m : list (A * V)), map_get cmp k (map_del cmp k m) = None.
  Proof.
    intros k m. unfold map_get, map_del. induction m as [|[k' v'] r IH]; cbn [filter find fst snd]; auto.
    destruct (eqvb cmp k k') eqn:E; cbn [negb find fst snd]; auto. rewrite E. exact IH.
  Qed.

  Lemma map_get_del_other : forall k k2 (m : list (A * V)), eqvb cmp k2 k = false ->
    map_get cmp k2 (map_del cmp k m) = map_get cmp k2 m.
  Proof.
    intros k k2 m H. unfold map_get, map_del. induction m as [|[k' v'] r IH]; cbn [filter find fst snd]; auto.
    destruct (eqvb cmp k k') eqn:E; cbn [negb find fst snd].
    - rewrite <- (eqvb_congr_r k k' k2 E), H. exact IH.
    - destruct (eqvb cmp k2 k'); auto.
  Qed.

  Lemma map_del_sorted : forall k (m : list (A * V)), ksorted m -> ksorted (map_del cmp k m).
  Proof. intros k m H; unfold map_del, ksorted; apply filter_sorted; exact H. Qed.
End Generic.

(* ------------------------------------------------------------------ instantiation with the standard order *)
Lemma kcompare_anti : forall a b, kcompare a b = CompOpp (kcompare b a).
Proof. intros; apply tcompare_antisym. Qed.
Lemma kcompare_trans : forall a b c, kcompare a b <> Gt -> kcompare b c <> Gt -> kcompare a c <> Gt.
Proof. intros a b c; apply tcompare_le_trans. Qed.

Lemma run_ops_sorted : forall ops m, ksorted tcompare m -> ksorted tcompare (snd (run_ops ops m)).
Proof.
  induction ops as [|[k v|k|k] r IH]; intros m H; cbn; auto.
  - apply IH. apply (map_put_sorted tcompare tcompare_antisym tcompare_le_trans); auto.
  - specialize (IH (map_del tcompare k m) (map_del_sorted tcompare k m H)).
    destruct (run_ops r (map_del tcompare k m)); exact IH.
  - specialize (IH m H). destruct (run_ops r m); exact IH.
Qed.

Lemma amap_of_pairs_sorted : forall l, ksorted tcompare (amap_of_pairs l).
Proof.
  intros l. unfold amap_of_pairs.
  assert (G : forall l m, ksorted tcompare m ->
              ksorted tcompare (fold_left (fun m p => map_put tcompare (key_of p) (val_of p) m) l m)).
  { induction l0 as [|p r IH]; intros m H; cbn; auto.
    apply IH. apply (map_put_sorted tcompare tcompare_antisym tcompare_le_trans); auto. }
  apply G. constructor.
Qed.

(* integers *)
Lemma zsum_app : forall a b, zsum (a ++ b) = (zsum a + zsum b)%Z.
Proof. induction a as [|x a IH]; intros b; cbn [zsum fold_right app]; [reflexivity|]. fold (zsum (a ++ b)). fold (zsum a). rewrite IH. lia. Qed.

Lemma zmax_spec : forall l x, (In (zmax x l) (x :: l)) /\ Forall (fun y => (y <= zmax x l)%Z) (x :: l).
Proof.
  unfold zmax. induction l as [|y l IH]; intros x.
  - cbn. split; auto. constructor; [lia | constructor].
  - cbn [fold_left]. destruct (IH (Z.max x y)) as [H1 H2]. set (M := fold_left Z.max l (Z.max x y)) in *. split.
    + destruct H1 as [H1|H1]; [|right; right; exact H1].
      destruct (Z.max_spec x y) as [[_ E]|[_ E]]; [right; left | left]; congruence.
    + inversion H2 as [|? ? Hm Hl]; subst. constructor; [lia|]. constructor; [lia | exact Hl].
Qed.

Lemma zmin_spec : forall l x, (In (zmin x l) (x :: l)) /\ Forall (fun y => (zmin x l <= y)%Z) (x :: l).
Proof.
  unfold zmin. induction l as [|y l IH]; intros x.
  - cbn. split; auto. constructor; [lia | constructor].
  - cbn [fold_left]. destruct (IH (Z.min x y)) as [H1 H2]. set (M := fold_left Z.min l (Z.min x y)) in *. split.
    + destruct H1 as [H1|H1]; [|right; right; exact H1].
      destruct (Z.min_spec x y) as [[_ E]|[_ E]]; [left | right; left]; congruence.
    + inversion H2 as [|? ? Hm Hl]; subst. constructor; [lia|]. constructor; [lia | exact Hl].
Qed.

Lemma nth1_nth0 : forall i l, (1 <= i)%Z -> nth1 i l = nth0 (i - 1) l.
Proof.
  intros i l H. unfold nth1, nth0.
  destruct (Z.ltb_spec i 1); [lia|]. destruct (Z.ltb_spec (i - 1) 0); [lia|]. reflexivity.
Qed.

Lemma nth0_app : forall a x b, nth0 (Z.of_nat (length a)) (a ++ x :: b) = Some x.
Proof.
  intros a x b. unfold nth0. destruct (Z.ltb_spec (Z.of_nat (length a)) 0); [lia|].
  rewrite Nat2Z.id, nth_error_app2, Nat.sub_diag by auto. reflexivity.
Qed.

Lemma pairs_unzip_zip : forall ks vs, length ks = length vs ->
  map key_of (map (fun p => tpair (fst p) (snd p)) (combine ks vs)) = ks /\
  map val_of (map (fun p => tpair (fst p) (snd p)) (combine ks vs)) = vs.
Proof.
  induction ks as [|k ks IH]; intros [|v vs] H; try discriminate; cbn; auto.
  injection H as H. destruct (IH vs H) as [H1 H2]. cbn in *. rewrite H1, H2. auto.
Qed.

(* ------------------------------------------------------------------ keysort on Key-Value terms *)
Lemma tkeysort_stable : forall k l,
  filter (fun p => teq k (key_of p)) (tkeysort l) = filter (fun p => teq k (key_of p)) l.
Proof.
  intros k l.
  pose proof (ssort_stable kcompare kcompare_anti kcompare_trans (tpair k k) l) as H.
  unfold tkeysort.
  assert (E : forall a, teq k (key_of a) = eqvb kcompare (tpair k k) a) by reflexivity.
  rewrite (filter_ext _ _ E (ssort kcompare l)), (filter_ext _ _ E l).
  exact H.
Qed.

Lemma tsort_incl : forall l y, In y (tsort l) -> In y l.
Proof.
  intros l y H. unfold tsort, usort in H. apply dedup_incl in H.
  eapply Permutation_in; [apply ssort_perm | exact H].
Qed.
