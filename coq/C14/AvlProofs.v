(* C14 -- the library(assoc) mirror (C14.Avl) refines the finite-map model (C14.Model map_put / map_get / map_del)
   and keeps the AVL invariant. *)
From Coq Require Import ZArith NArith List Bool Arith Sorting.Sorted Permutation Lia.
From V Require Import Base.Term C13.Model C13.Proofs C14.Model C14.Proofs C14.Avl.
Import ListNotations.

Section AvlProofs.
  Context {K V : Type} (cmp : K -> K -> comparison).
  (* cmp is a total preorder *)
  Hypothesis Hanti : forall x y, cmp x y = CompOpp (cmp y x).
  Hypothesis Htrans : forall x y z, cmp x y <> Gt -> cmp y z <> Gt -> cmp x z <> Gt.
  Notation tr := (tree K V).
  Notation KV := (K * V)%type.

  Definition klt (p q : KV) : Prop := cmp (fst p) (fst q) = Lt.
  Definition gtall (k : K) (l : list KV) : Prop := Forall (fun a => cmp k (fst a) = Gt) l.
  Definition ltall (k : K) (l : list KV) : Prop := Forall (fun a => cmp k (fst a) = Lt) l.

  (* ---------------------------------------------------------------- order facts *)
  Lemma c_lt_trans : forall x y z, cmp x y = Lt -> cmp y z = Lt -> cmp x z = Lt.
  Proof.
    intros x y z H1 H2. apply (lt_le_trans cmp Hanti Htrans x y z H1). unfold le. congruence.
  Qed.
  Lemma c_lt_eq_trans : forall x y z, cmp x y = Lt -> cmp y z = Eq -> cmp x z = Lt.
  Proof.
    intros x y z H1 H2. apply (lt_le_trans cmp Hanti Htrans x y z H1). unfold le. congruence.
  Qed.
  Lemma c_eq_lt_trans : forall x y z, cmp x y = Eq -> cmp y z = Lt -> cmp x z = Lt.
  Proof.
    intros x y z H1 H2. apply (le_lt_trans cmp Hanti Htrans x y z); [unfold le; congruence | exact H2].
  Qed.
  Lemma c_gt_lt : forall x y, cmp x y = Gt -> cmp y x = Lt.
  Proof. intros x y H. rewrite Hanti, H. reflexivity. Qed.
  Lemma c_lt_gt : forall x y, cmp x y = Lt -> cmp y x = Gt.
  Proof. intros x y H. rewrite Hanti, H. reflexivity. Qed.
  Lemma c_eq_sym : forall x y, cmp x y = Eq -> cmp y x = Eq.
  Proof. intros x y H. rewrite Hanti, H. reflexivity. Qed.

  (* ---------------------------------------------------------------- sorted lists split at an element *)
  Lemma sorted_app_inv : forall (l1 : list KV) x l2, StronglySorted klt (l1 ++ x :: l2) ->
    StronglySorted klt l1 /\ StronglySorted klt l2 /\ Forall (fun a => klt a x) l1 /\ Forall (klt x) l2.
  Proof.
    induction l1 as [|a l1 IH]; intros x l2 H; cbn [app] in H.
    - inversion H as [|? ? Hs Hf]; subst. repeat split; auto; constructor.
    - inversion H as [|? ? Hs Hf]; subst. destruct (IH x l2 Hs) as (S1 & S2 & F1 & F2).
      rewrite Forall_app in Hf. destruct Hf as [Hf1 Hf2]. inversion Hf2 as [|? ? Hax _]; subst.
      repeat split; auto; constructor; auto.
  Qed.

  Lemma sorted_app_two : forall (l1 l2 : list KV), StronglySorted klt (l1 ++ l2) ->
    StronglySorted klt l1 /\ StronglySorted klt l2.
  Proof.
    induction l1 as [|a l1 IH]; intros l2 H; cbn [app] in H.
    - split; [constructor | exact H].
    - inversion H as [|? ? Hs Hf]; subst. destruct (IH l2 Hs) as [S1 S2].
      rewrite Forall_app in Hf. destruct Hf as [Hf1 Hf2]. split; [constructor; auto | exact S2].
  Qed.

  (* where the searched key lies relative to the two sides *)
  Lemma split_lt : forall k l1 k' (v' : V) l2, StronglySorted klt (l1 ++ (k', v') :: l2) -> cmp k k' = Lt ->
    ltall k ((k', v') :: l2).
  Proof.
    intros k l1 k' v' l2 Hs Hk. destruct (sorted_app_inv _ _ _ Hs) as (_ & _ & _ & F2).
    constructor; [exact Hk|]. eapply Forall_impl; [|exact F2]. intros a Ha. unfold klt in Ha. cbn [fst] in Ha.
    exact (c_lt_trans _ _ _ Hk Ha).
  Qed.
  Lemma split_gt : forall k l1 k' (v' : V) l2, StronglySorted klt (l1 ++ (k', v') :: l2) -> cmp k k' = Gt ->
    gtall k (l1 ++ [(k', v')]).
  Proof.
    intros k l1 k' v' l2 Hs Hk. destruct (sorted_app_inv _ _ _ Hs) as (_ & _ & F1 & _).
    apply Forall_app; split; [|constructor; [exact Hk | constructor]].
    eapply Forall_impl; [|exact F1]. intros a Ha. unfold klt in Ha. cbn [fst] in Ha.
    apply c_lt_gt. exact (c_lt_trans _ _ _ Ha (c_gt_lt _ _ Hk)).
  Qed.
  Lemma split_eq : forall k l1 k' (v' : V) l2, StronglySorted klt (l1 ++ (k', v') :: l2) -> cmp k k' = Eq ->
    gtall k l1 /\ ltall k l2.
  Proof.
    intros k l1 k' v' l2 Hs Hk. destruct (sorted_app_inv _ _ _ Hs) as (_ & _ & F1 & F2). split.
    - eapply Forall_impl; [|exact F1]. intros a Ha. unfold klt in Ha. cbn [fst] in Ha.
      apply c_lt_gt. exact (c_lt_eq_trans _ _ _ Ha (c_eq_sym _ _ Hk)).
    - eapply Forall_impl; [|exact F2]. intros a Ha. unfold klt in Ha. cbn [fst] in Ha.
      exact (c_eq_lt_trans _ _ _ Hk Ha).
  Qed.

  (* ---------------------------------------------------------------- the list operations on split lists *)
  Lemma map_put_skip : forall k (v : V) l1 l2, gtall k l1 -> map_put cmp k v (l1 ++ l2) = l1 ++ map_put cmp k v l2.
  Proof.
    intros k v l1 l2 H. induction H as [|[a va] l1 Ha Hl IH]; [reflexivity|].
    cbn [app map_put]. cbn [fst] in Ha. rewrite Ha, IH. reflexivity.
  Qed.
  Lemma map_put_left : forall k (v : V) l1 k' v' l2, cmp k k' = Lt ->
    map_put cmp k v (l1 ++ (k', v') :: l2) = map_put cmp k v l1 ++ (k', v') :: l2.
  Proof.
    intros k v l1 k' v' l2 Hk. induction l1 as [|[a va] l1 IH]; cbn [app map_put].
    - rewrite Hk. reflexivity.
    - destruct (cmp k a); [reflexivity | reflexivity | rewrite IH; reflexivity].
  Qed.

  Lemma find_app : forall {B : Type} (f : B -> bool) l1 l2,
    find f (l1 ++ l2) = match find f l1 with Some x => Some x | None => find f l2 end.
  Proof. intros B f l1 l2. induction l1 as [|a l1 IH]; cbn [app find]; [reflexivity|]. destruct (f a); auto. Qed.
  Lemma find_none_gt : forall k (l : list KV), gtall k l -> find (fun p => eqvb cmp k (fst p)) l = None.
  Proof. intros k l H. induction H as [|a l Ha Hl IH]; cbn [find]; [reflexivity|]. unfold eqvb at 1. rewrite Ha. exact IH. Qed.
  Lemma find_none_lt : forall k (l : list KV), ltall k l -> find (fun p => eqvb cmp k (fst p)) l = None.
  Proof. intros k l H. induction H as [|a l Ha Hl IH]; cbn [find]; [reflexivity|]. unfold eqvb at 1. rewrite Ha. exact IH. Qed.
  Lemma map_get_skip : forall k (l1 l2 : list KV), gtall k l1 -> map_get cmp k (l1 ++ l2) = map_get cmp k l2.
  Proof. intros k l1 l2 H. unfold map_get. rewrite find_app, (find_none_gt k l1 H). reflexivity. Qed.
  Lemma map_get_left : forall k (l1 l2 : list KV), ltall k l2 -> map_get cmp k (l1 ++ l2) = map_get cmp k l1.
  Proof.
    intros k l1 l2 H. unfold map_get. rewrite find_app, (find_none_lt k l2 H).
    destruct (find (fun p => eqvb cmp k (fst p)) l1); reflexivity.
  Qed.

  Lemma filter_id_gt : forall k (l : list KV), gtall k l -> filter (fun p => negb (eqvb cmp k (fst p))) l = l.
  Proof. intros k l H. induction H as [|a l Ha Hl IH]; cbn [filter]; [reflexivity|]. unfold eqvb at 1. rewrite Ha. cbn [negb]. rewrite IH. reflexivity. Qed.
  Lemma filter_id_lt : forall k (l : list KV), ltall k l -> filter (fun p => negb (eqvb cmp k (fst p))) l = l.
  Proof. intros k l H. induction H as [|a l Ha Hl IH]; cbn [filter]; [reflexivity|]. unfold eqvb at 1. rewrite Ha. cbn [negb]. rewrite IH. reflexivity. Qed.
  Lemma map_del_skip : forall k (l1 l2 : list KV), gtall k l1 -> map_del cmp k (l1 ++ l2) = l1 ++ map_del cmp k l2.
  Proof. intros k l1 l2 H. unfold map_del. rewrite filter_app, (filter_id_gt k l1 H). reflexivity. Qed.
  Lemma map_del_left : forall k (l1 l2 : list KV), ltall k l2 -> map_del cmp k (l1 ++ l2) = map_del cmp k l1 ++ l2.
  Proof. intros k l1 l2 H. unfold map_del. rewrite filter_app, (filter_id_lt k l2 H). reflexivity. Qed.

  (* ---------------------------------------------------------------- views *)
  Lemma a2l_spec : forall (t : tr) rest, a2l t rest = to_list t ++ rest.
  Proof.
    induction t as [|k v b l IHl r IHr]; intros rest; cbn [a2l to_list]; [reflexivity|].
    rewrite IHl, IHr, <- app_assoc. reflexivity.
  Qed.
  Lemma a2k_spec : forall (t : tr) rest, a2k t rest = map fst (to_list t) ++ rest.
  Proof.
    induction t as [|k v b l IHl r IHr]; intros rest; cbn [a2k to_list]; [reflexivity|].
    rewrite IHl, IHr, map_app, <- app_assoc. reflexivity.
  Qed.
  Lemma a2v_spec : forall (t : tr) rest, a2v t rest = map snd (to_list t) ++ rest.
  Proof.
    induction t as [|k v b l IHl r IHr]; intros rest; cbn [a2v to_list]; [reflexivity|].
    rewrite IHl, IHr, map_app, <- app_assoc. reflexivity.
  Qed.
  Lemma assoc_to_list_spec : forall t : tr,
    assoc_to_list t = to_list t /\ assoc_to_keys t = map fst (to_list t) /\ assoc_to_values t = map snd (to_list t).
  Proof.
    intros t. unfold assoc_to_list, assoc_to_keys, assoc_to_values.
    rewrite a2l_spec, a2k_spec, a2v_spec, !app_nil_r. auto.
  Qed.

  (* ---------------------------------------------------------------- get *)
  Lemma get_spec : forall k (t : tr), bst cmp t -> get cmp k t = map_get cmp k (to_list t).
  Proof.
    intros k t. unfold bst. induction t as [|k' v' b l IHl r IHr]; intros Hs; cbn [get to_list]; [reflexivity|].
    change (StronglySorted klt (to_list l ++ (k', v') :: to_list r)) in Hs.
    destruct (sorted_app_inv _ _ _ Hs) as (Sl & Sr & _ & _).
    destruct (cmp k k') eqn:Ek.
    - destruct (split_eq k _ _ _ _ Hs Ek) as [G _]. rewrite (map_get_skip k _ _ G).
      unfold map_get. cbn [find fst snd]. unfold eqvb. rewrite Ek. reflexivity.
    - rewrite (map_get_left k _ _ (split_lt k _ _ _ _ Hs Ek)). apply IHl; exact Sl.
    - pose proof (split_gt k _ _ _ _ Hs Ek) as G.
      change (to_list l ++ (k', v') :: to_list r) with (to_list l ++ [(k', v')] ++ to_list r).
      rewrite app_assoc, (map_get_skip k _ _ G). apply IHr; exact Sr.
  Qed.

  (* ---------------------------------------------------------------- rotations keep the in-order list *)
  Lemma avl_geq_list : forall (t t' : tr) c, avl_geq t = Some (t', c) -> to_list t' = to_list t.
  Proof.
    intros t t' c H. unfold avl_geq in H.
    repeat match type of H with context [match ?x with _ => _ end] => destruct x end;
      try discriminate; injection H as <- _; cbn [to_list];
      repeat (rewrite <- app_assoc; cbn [app]); reflexivity.
  Qed.
  Lemma rebalance_list : forall tbr (t t' : tr) b1 ch c, rebalance tbr t b1 ch = Some (t', c) -> to_list t' = to_list t.
  Proof.
    intros tbr t t' b1 ch c H. unfold rebalance in H. destruct tbr; [exact (avl_geq_list _ _ _ H)|].
    destruct t; [discriminate|]. injection H as <- _. reflexivity.
  Qed.
  Lemma adjust_list : forall ch (t t' : tr) lor c, adjust ch t lor = Some (t', c) -> to_list t' = to_list t.
  Proof.
    intros ch t t' lor c H. unfold adjust in H. destruct ch; [|injection H as <- _; reflexivity].
    destruct t as [|k v b0 l r]; [discriminate|]. destruct (table b0 lor) as [[b1 whc] tbr].
    destruct (rebalance tbr (T k v b0 l r) b1 false) as [[nt c']|] eqn:R; [|discriminate].
    injection H as <- _. exact (rebalance_list _ _ _ _ _ _ R).
  Qed.
  Lemma deladjust_list : forall ch (t t' : tr) lor c, deladjust ch t lor = Some (t', c) -> to_list t' = to_list t.
  Proof.
    intros ch t t' lor c H. unfold deladjust in H. destruct ch; [|injection H as <- _; reflexivity].
    destruct t as [|k v b0 l r]; [discriminate|]. destruct (deltable b0 lor) as [[b1 whc] tbr].
    exact (rebalance_list _ _ _ _ _ _ H).
  Qed.

  (* ---------------------------------------------------------------- put: the list view *)
  Lemma insert_list : forall (t : tr) k v t' c, bst cmp t -> insert cmp t k v = Some (t', c) ->
    to_list t' = map_put cmp k v (to_list t).
  Proof.
    unfold bst. induction t as [|k' v' b l IHl r IHr]; intros k v t' c Hs H; cbn [insert] in H.
    - injection H as <- _. reflexivity.
    - cbn [to_list] in *. change (StronglySorted klt (to_list l ++ (k', v') :: to_list r)) in Hs.
      destruct (sorted_app_inv _ _ _ Hs) as (Sl & Sr & _ & _).
      destruct (cmp k k') eqn:Ek.
      + injection H as <- _. cbn [to_list]. destruct (split_eq k _ _ _ _ Hs Ek) as [G _].
        rewrite (map_put_skip k v _ _ G). cbn [map_put]. rewrite Ek. reflexivity.
      + destruct (insert cmp l k v) as [[nl ch]|] eqn:I; [|discriminate].
        rewrite (adjust_list _ _ _ _ _ H). cbn [to_list]. rewrite (IHl _ _ _ _ Sl I).
        symmetry. apply map_put_left. exact Ek.
      + destruct (insert cmp r k v) as [[nr ch]|] eqn:I; [|discriminate].
        rewrite (adjust_list _ _ _ _ _ H). cbn [to_list]. rewrite (IHr _ _ _ _ Sr I).
        pose proof (split_gt k _ _ _ _ Hs Ek) as G.
        change (to_list l ++ (k', v') :: to_list r) with (to_list l ++ [(k', v')] ++ to_list r).
        rewrite (app_assoc (to_list l)), (map_put_skip k v _ _ G), <- app_assoc. reflexivity.
  Qed.

  (* ---------------------------------------------------------------- rotations restore the balance *)
  Definition is_BE (b : bal) : bool := match b with BE => true | _ => false end.

  Lemma avl_geq_right : forall k v (l r : tr), balanced l -> balanced r -> height r = S (S (height l)) ->
    exists t' c, avl_geq (T k v BR l r) = Some (t', c) /\ balanced t' /\
                 height t' = (if c then height r else S (height r)) /\ c = negb (is_BE (root_bal r)).
  Proof.
    intros k v l r Bl Br Hh. destruct r as [|kb vb rb rl rr]; cbn [height] in Hh; [lia|].
    cbn [balanced] in Br. destruct Br as (Brl & Brr & Rb).
    destruct rb; cbn [bal_rel] in Rb.
    - destruct rl as [|kx vx b1 be ga]; cbn [height] in Rb; [lia|].
      cbn [balanced] in Brl. destruct Brl as (Bbe & Bga & R1).
      destruct b1; cbn [bal_rel] in R1; cbn [avl_geq table2]; eexists; eexists; (split; [reflexivity|]);
        cbn [balanced bal_rel height root_bal is_BE negb] in *; repeat split; auto; lia.
    - cbn [avl_geq]. eexists; eexists; (split; [reflexivity|]).
      cbn [balanced bal_rel height root_bal is_BE negb] in *; repeat split; auto; lia.
    - cbn [avl_geq]. eexists; eexists; (split; [reflexivity|]).
      cbn [balanced bal_rel height root_bal is_BE negb] in *; repeat split; auto; lia.
  Qed.

  Lemma avl_geq_left : forall k v (l r : tr), balanced l -> balanced r -> height l = S (S (height r)) ->
    exists t' c, avl_geq (T k v BL l r) = Some (t', c) /\ balanced t' /\
                 height t' = (if c then height l else S (height l)) /\ c = negb (is_BE (root_bal l)).
  Proof.
    intros k v l r Bl Br Hh. destruct l as [|ka va lb ll lr]; cbn [height] in Hh; [lia|].
    cbn [balanced] in Bl. destruct Bl as (Bll & Blr & Rb).
    destruct lb; cbn [bal_rel] in Rb.
    - cbn [avl_geq]. eexists; eexists; (split; [reflexivity|]).
      cbn [balanced bal_rel height root_bal is_BE negb] in *; repeat split; auto; lia.
    - cbn [avl_geq]. eexists; eexists; (split; [reflexivity|]).
      cbn [balanced bal_rel height root_bal is_BE negb] in *; repeat split; auto; lia.
    - destruct lr as [|kx vx b1 be ga]; cbn [height] in Rb; [lia|].
      cbn [balanced] in Blr. destruct Blr as (Bbe & Bga & R1).
      destruct b1; cbn [bal_rel] in R1; cbn [avl_geq table2]; eexists; eexists; (split; [reflexivity|]);
        cbn [balanced bal_rel height root_bal is_BE negb] in *; repeat split; auto; lia.
  Qed.

  (* ---------------------------------------------------------------- put: the balance invariant *)
  Lemma insert_bal : forall (t : tr) k v, balanced t ->
    exists t' c, insert cmp t k v = Some (t', c) /\ balanced t' /\
      height t' = (if c then S (height t) else height t) /\
      (c = true -> is_BE (root_bal t') = false \/ height t = 0).
  Proof.
    induction t as [|k' v' b l IHl r IHr]; intros k v Bt; cbn [insert].
    - eexists; eexists; split; [reflexivity|]. cbn. repeat split; auto.
    - cbn [balanced] in Bt. destruct Bt as (Bl & Br & Rb).
      destruct (cmp k k').
      + eexists; eexists; split; [reflexivity|]. cbn [balanced height]. repeat split; auto. discriminate.
      + destruct (IHl k v Bl) as (nl & ch & I & Bnl & Hnl & Rnl). rewrite I.
        destruct ch; [|eexists; eexists; split; [reflexivity|]; cbn [balanced height]; rewrite Hnl; repeat split; auto; discriminate].
        unfold adjust. destruct b; cbn [table rebalance bal_rel] in *.
        * destruct (avl_geq_left k' v' nl r Bnl Br) as (t' & c & G & Bt' & Ht' & Hc); [lia|].
          rewrite G. eexists; eexists; split; [reflexivity|].
          destruct (Rnl eq_refl) as [Hr | Hr]; [|lia]. rewrite Hr in Hc. cbn [negb] in Hc. subst c.
          repeat split; auto; [cbn [height]; lia | discriminate].
        * eexists; eexists; split; [reflexivity|].
          cbn [balanced bal_rel height root_bal is_BE]. repeat split; auto; lia.
        * eexists; eexists; split; [reflexivity|].
          cbn [balanced bal_rel height root_bal is_BE]. repeat split; auto; try lia; discriminate.
      + destruct (IHr k v Br) as (nr & ch & I & Bnr & Hnr & Rnr). rewrite I.
        destruct ch; [|eexists; eexists; split; [reflexivity|]; cbn [balanced height]; rewrite Hnr; repeat split; auto; discriminate].
        unfold adjust. destruct b; cbn [table rebalance bal_rel] in *.
        * eexists; eexists; split; [reflexivity|].
          cbn [balanced bal_rel height root_bal is_BE]. repeat split; auto; try lia; discriminate.
        * eexists; eexists; split; [reflexivity|].
          cbn [balanced bal_rel height root_bal is_BE]. repeat split; auto; lia.
        * destruct (avl_geq_right k' v' l nr Bl Bnr) as (t' & c & G & Bt' & Ht' & Hc); [lia|].
          rewrite G. eexists; eexists; split; [reflexivity|].
          destruct (Rnr eq_refl) as [Hr | Hr]; [|lia]. rewrite Hr in Hc. cbn [negb] in Hc. subst c.
          repeat split; auto; [cbn [height]; lia | discriminate].
  Qed.

  (* ---------------------------------------------------------------- del: adjusting after a subtree shrank *)
  Lemma deladjust_left : forall (ch : bool) k v b (nl r : tr) hl, balanced nl -> balanced r ->
    hl = (if ch then S (height nl) else height nl) -> bal_rel b hl (height r) ->
    exists t' c, deladjust ch (T k v b nl r) SLeft = Some (t', c) /\ balanced t' /\
      S (Nat.max hl (height r)) = (if c then S (height t') else height t') /\
      to_list t' = to_list nl ++ (k, v) :: to_list r.
  Proof.
    intros ch k v b nl r hl Bnl Br Hhl Rb.
    assert (G : exists t' c, deladjust ch (T k v b nl r) SLeft = Some (t', c) /\ balanced t' /\
                  S (Nat.max hl (height r)) = (if c then S (height t') else height t')).
    { destruct ch.
      - unfold deladjust. destruct b; cbn [deltable rebalance bal_rel] in *.
        + eexists; eexists; split; [reflexivity|]. cbn [balanced bal_rel height]. repeat split; auto; lia.
        + eexists; eexists; split; [reflexivity|]. cbn [balanced bal_rel height]. repeat split; auto; lia.
        + destruct (avl_geq_right k v nl r Bnl Br) as (t' & c & G & Bt' & Ht' & Hc); [lia|].
          rewrite G. eexists; eexists; split; [reflexivity|]. split; auto. destruct c; lia.
      - eexists; eexists; split; [reflexivity|]. cbn [balanced height]. subst hl. repeat split; auto. }
    destruct G as (t' & c & D & Bt' & Ht'). exists t', c. repeat split; auto.
    exact (deladjust_list _ _ _ _ _ D).
  Qed.

  Lemma deladjust_right : forall (ch : bool) k v b (l nr : tr) hr, balanced l -> balanced nr ->
    hr = (if ch then S (height nr) else height nr) -> bal_rel b (height l) hr ->
    exists t' c, deladjust ch (T k v b l nr) SRight = Some (t', c) /\ balanced t' /\
      S (Nat.max (height l) hr) = (if c then S (height t') else height t') /\
      to_list t' = to_list l ++ (k, v) :: to_list nr.
  Proof.
    intros ch k v b l nr hr Bl Bnr Hhr Rb.
    assert (G : exists t' c, deladjust ch (T k v b l nr) SRight = Some (t', c) /\ balanced t' /\
                  S (Nat.max (height l) hr) = (if c then S (height t') else height t')).
    { destruct ch.
      - unfold deladjust. destruct b; cbn [deltable rebalance bal_rel] in *.
        + destruct (avl_geq_left k v l nr Bl Bnr) as (t' & c & G & Bt' & Ht' & Hc); [lia|].
          rewrite G. eexists; eexists; split; [reflexivity|]. split; auto. destruct c; lia.
        + eexists; eexists; split; [reflexivity|]. cbn [balanced bal_rel height]. repeat split; auto; lia.
        + eexists; eexists; split; [reflexivity|]. cbn [balanced bal_rel height]. repeat split; auto; lia.
      - eexists; eexists; split; [reflexivity|]. cbn [balanced height]. subst hr. repeat split; auto. }
    destruct G as (t' & c & D & Bt' & Ht'). exists t', c. repeat split; auto.
    exact (deladjust_list _ _ _ _ _ D).
  Qed.

  Lemma del_min_T : forall k v b (l r : tr),
    del_min (T k v b l r) =
    match l with
    | E => Some (k, v, r, true)
    | T _ _ _ _ _ =>
        match del_min l with
        | Some (mk, mv, nl, ch) =>
            match deladjust ch (T k v b nl r) SLeft with Some (nt, c) => Some (mk, mv, nt, c) | None => None end
        | None => None
        end
    end.
  Proof. reflexivity. Qed.
  Lemma del_max_T : forall k v b (l r : tr),
    del_max (T k v b l r) =
    match r with
    | E => Some (k, v, l, true)
    | T _ _ _ _ _ =>
        match del_max r with
        | Some (mk, mv, nr, ch) =>
            match deladjust ch (T k v b l nr) SRight with Some (nt, c) => Some (mk, mv, nt, c) | None => None end
        | None => None
        end
    end.
  Proof. reflexivity. Qed.

  Lemma tree_E_dec : forall t : tr, t = E \/ t <> E.
  Proof. destruct t; [left | right]; congruence. Qed.

  Lemma del_min_spec : forall (t : tr), balanced t -> t <> E ->
    exists mk mv t' c, del_min t = Some (mk, mv, t', c) /\ balanced t' /\
      height t = (if c then S (height t') else height t') /\ to_list t = (mk, mv) :: to_list t'.
  Proof.
    induction t as [|k v b l IHl r IHr]; intros Bt Hne; [congruence|].
    cbn [balanced] in Bt. destruct Bt as (Bl & Br & Rb). rewrite del_min_T.
    destruct (tree_E_dec l) as [-> | Hl].
    - exists k, v, r, true. split; [reflexivity|]. cbn [bal_rel height to_list app] in *.
      repeat split; auto.
    - destruct (IHl Bl Hl) as (mk & mv & nl & ch & D & Bnl & Hnl & Lnl). rewrite D.
      destruct (deladjust_left ch k v b nl r (height l) Bnl Br) as (t' & c & A & Bt' & Ht' & Lt').
      { destruct ch; auto. } { exact Rb. }
      rewrite A. destruct l; [congruence|]. exists mk, mv, t', c. split; [reflexivity|].
      split; auto. split; [exact Ht'|]. rewrite Lt'. change (to_list (T k v b (T k0 v0 b0 l1 l2) r)) with (to_list (T k0 v0 b0 l1 l2) ++ (k, v) :: to_list r).
      rewrite Lnl. reflexivity.
  Qed.

  Lemma del_max_spec : forall (t : tr), balanced t -> t <> E ->
    exists mk mv t' c, del_max t = Some (mk, mv, t', c) /\ balanced t' /\
      height t = (if c then S (height t') else height t') /\ to_list t = to_list t' ++ [(mk, mv)].
  Proof.
    induction t as [|k v b l IHl r IHr]; intros Bt Hne; [congruence|].
    cbn [balanced] in Bt. destruct Bt as (Bl & Br & Rb). rewrite del_max_T.
    destruct (tree_E_dec r) as [-> | Hr].
    - exists k, v, l, true. split; [reflexivity|]. cbn [bal_rel height to_list app] in *.
      repeat split; auto. rewrite Nat.max_0_r. reflexivity.
    - destruct (IHr Br Hr) as (mk & mv & nr & ch & D & Bnr & Hnr & Lnr). rewrite D.
      destruct (deladjust_right ch k v b l nr (height r) Bl Bnr) as (t' & c & A & Bt' & Ht' & Lt').
      { destruct ch; auto. } { exact Rb. }
      rewrite A. destruct r; [congruence|]. exists mk, mv, t', c. split; [reflexivity|].
      split; auto. split; [exact Ht'|]. rewrite Lt'. change (to_list (T k v b l (T k0 v0 b0 r1 r2))) with (to_list l ++ (k, v) :: to_list (T k0 v0 b0 r1 r2)).
      rewrite Lnr. rewrite <- app_assoc. reflexivity.
  Qed.

  Lemma del_root_spec : forall val b (l r : tr), balanced l -> balanced r -> bal_rel b (height l) (height r) ->
    exists t' c, del_root val b l r = Some (val, t', c) /\ balanced t' /\
      S (Nat.max (height l) (height r)) = (if c then S (height t') else height t') /\
      to_list t' = to_list l ++ to_list r.
  Proof.
    intros val b l r Bl Br Rb.
    destruct (tree_E_dec l) as [-> | Hl].
    { exists r, true. cbn [del_root height to_list app]. repeat split; auto. }
    destruct (tree_E_dec r) as [-> | Hr].
    { exists l, true. replace (del_root val b l E) with (Some (val, l, true)) by (destruct l; reflexivity).
      cbn [height to_list]. rewrite Nat.max_0_r, app_nil_r. repeat split; auto. }
    assert (Left : exists t' c, del_root_left val b l r = Some (val, t', c) /\ balanced t' /\
              S (Nat.max (height l) (height r)) = (if c then S (height t') else height t') /\
              to_list t' = to_list l ++ to_list r).
    { destruct (del_max_spec l Bl Hl) as (mk & mv & nl & ch & D & Bnl & Hnl & Lnl).
      destruct (deladjust_left ch mk mv b nl r (height l) Bnl Br) as (t' & c & A & Bt' & Ht' & Lt').
      { destruct ch; auto. } { exact Rb. }
      exists t', c. unfold del_root_left. rewrite D, A. repeat split; auto.
      rewrite Lt', Lnl, <- app_assoc. reflexivity. }
    assert (Right : b = BR -> exists t' c, del_root_right val l r = Some (val, t', c) /\ balanced t' /\
              S (Nat.max (height l) (height r)) = (if c then S (height t') else height t') /\
              to_list t' = to_list l ++ to_list r).
    { intros ->. destruct (del_min_spec r Br Hr) as (mk & mv & nr & ch & D & Bnr & Hnr & Lnr).
      destruct (deladjust_right ch mk mv BR l nr (height r) Bl Bnr) as (t' & c & A & Bt' & Ht' & Lt').
      { destruct ch; auto. } { exact Rb. }
      exists t', c. unfold del_root_right. rewrite D, A. repeat split; auto.
      rewrite Lt', Lnr. reflexivity. }
    destruct l as [|lk lv lb ll lr]; [congruence|]. destruct r as [|rk rv rb rl rr]; [congruence|].
    unfold del_root. destruct b; try exact Left.
    destruct (Right eq_refl) as (t' & c & D & Rest). rewrite D. exists t', c. split; [reflexivity | exact Rest].
  Qed.

  Lemma delete_T : forall key val b (l r : tr) k,
    delete cmp (T key val b l r) k =
    match cmp k key with
    | Eq => del_root val b l r
    | Lt => match delete cmp l k with
            | Some (v, nl, ch) =>
                match deladjust ch (T key val b nl r) SLeft with Some (nt, c) => Some (v, nt, c) | None => None end
            | None => None
            end
    | Gt => match delete cmp r k with
            | Some (v, nr, ch) =>
                match deladjust ch (T key val b l nr) SRight with Some (nt, c) => Some (v, nt, c) | None => None end
            | None => None
            end
    end.
  Proof. reflexivity. Qed.

  Lemma delete_spec : forall (t : tr) k, bst cmp t -> balanced t ->
    match delete cmp t k with
    | None => map_get cmp k (to_list t) = None
    | Some (v, t', c) => map_get cmp k (to_list t) = Some v /\ to_list t' = map_del cmp k (to_list t) /\
                         balanced t' /\ height t = (if c then S (height t') else height t')
    end.
  Proof.
    unfold bst. induction t as [|k' v' b l IHl r IHr]; intros k Hs Bt; [reflexivity|].
    rewrite delete_T. cbn [to_list height] in *. change (StronglySorted klt (to_list l ++ (k', v') :: to_list r)) in Hs.
    destruct (sorted_app_inv _ _ _ Hs) as (Sl & Sr & _ & _).
    cbn [balanced] in Bt. destruct Bt as (Bl & Br & Rb).
    destruct (cmp k k') eqn:Ek.
    - destruct (del_root_spec v' b l r Bl Br Rb) as (t' & c & D & Bt' & Ht' & Lt'). rewrite D.
      destruct (split_eq k _ _ _ _ Hs Ek) as [G L]. split; [|split; [|split]]; auto.
      + rewrite (map_get_skip k _ _ G). unfold map_get. cbn [find fst snd]. unfold eqvb. rewrite Ek. reflexivity.
      + rewrite (map_del_skip k _ _ G). unfold map_del at 1. cbn [filter fst]. unfold eqvb at 1. rewrite Ek. cbn [negb].
        rewrite (filter_id_lt k _ L). exact Lt'.
    - specialize (IHl k Sl Bl). pose proof (split_lt k _ _ _ _ Hs Ek) as L.
      destruct (delete cmp l k) as [[[v nl] ch]|].
      + destruct IHl as (Gv & Ll & Bnl & Hnl).
        destruct (deladjust_left ch k' v' b nl r (height l) Bnl Br) as (t' & c & A & Bt' & Ht' & Lt').
        { destruct ch; auto. } { exact Rb. }
        rewrite A. split; [|split; [|split]]; auto.
        * rewrite (map_get_left k _ _ L). exact Gv.
        * rewrite (map_del_left k _ _ L), Lt', Ll. reflexivity.
      + rewrite (map_get_left k _ _ L). exact IHl.
    - specialize (IHr k Sr Br). pose proof (split_gt k _ _ _ _ Hs Ek) as G.
      assert (Eapp : to_list l ++ (k', v') :: to_list r = (to_list l ++ [(k', v')]) ++ to_list r)
        by (rewrite <- app_assoc; reflexivity).
      destruct (delete cmp r k) as [[[v nr] ch]|].
      + destruct IHr as (Gv & Lr & Bnr & Hnr).
        destruct (deladjust_right ch k' v' b l nr (height r) Bl Bnr) as (t' & c & A & Bt' & Ht' & Lt').
        { destruct ch; auto. } { exact Rb. }
        rewrite A. split; [|split; [|split]]; auto.
        * rewrite Eapp, (map_get_skip k _ _ G). exact Gv.
        * rewrite Eapp, (map_del_skip k _ _ G), Lt', Lr, <- app_assoc. reflexivity.
      + rewrite Eapp, (map_get_skip k _ _ G). exact IHr.
  Qed.

  (* ---------------------------------------------------------------- the executable checker *)
  Lemma bal_relb_spec : forall b x y, bal_relb b x y = true <-> bal_rel b x y.
  Proof. intros [] x y; cbn [bal_relb bal_rel]; apply Nat.eqb_eq. Qed.

  Lemma hcheck_sound : forall (t : tr) h, hcheck t = Some h -> balanced t /\ height t = h.
  Proof.
    induction t as [|k v b l IHl r IHr]; intros h H; cbn [hcheck] in H.
    - injection H as <-. split; [exact I | reflexivity].
    - destruct (hcheck l) as [hl|]; [|discriminate]. destruct (hcheck r) as [hr|]; [|discriminate].
      destruct (bal_relb b hl hr) eqn:Eb; [|discriminate]. injection H as <-.
      destruct (IHl hl eq_refl) as [Bl <-]. destruct (IHr hr eq_refl) as [Br <-].
      apply bal_relb_spec in Eb. cbn [balanced height]. auto.
  Qed.
  Lemma hcheck_complete : forall t : tr, balanced t -> hcheck t = Some (height t).
  Proof.
    induction t as [|k v b l IHl r IHr]; intros Bt; [reflexivity|].
    cbn [balanced] in Bt. destruct Bt as (Bl & Br & Rb). cbn [hcheck height].
    rewrite (IHl Bl), (IHr Br). apply bal_relb_spec in Rb. rewrite Rb. reflexivity.
  Qed.

  Lemma ascending_spec : forall l : list KV, ascending cmp l = true <-> StronglySorted klt l.
  Proof.
    induction l as [|p l IH]; [split; [constructor | reflexivity]|].
    destruct l as [|q r].
    - split; [intros _; constructor; constructor | reflexivity].
    - change (ascending cmp (p :: q :: r)) with (match cmp (fst p) (fst q) with Lt => ascending cmp (q :: r) | _ => false end).
      split.
      + intros H. destruct (cmp (fst p) (fst q)) eqn:Epq; try discriminate.
        apply IH in H. constructor; [exact H|]. inversion H as [|? ? Hs Hf]; subst.
        constructor; [exact Epq|]. eapply Forall_impl; [|exact Hf]. intros a Ha. unfold klt in *.
        exact (c_lt_trans _ _ _ Epq Ha).
      + intros H. inversion H as [|? ? Hs Hf]; subst. inversion Hf as [|? ? Hpq _]; subst.
        unfold klt in Hpq. rewrite Hpq. apply IH. exact Hs.
  Qed.

  Lemma avl_ok_iff : forall t : tr, avl_ok cmp t = true <-> avl_inv cmp t.
  Proof.
    intros t. unfold avl_ok, avl_inv, bst. split.
    - destruct (hcheck t) as [h|] eqn:Eh; [|discriminate]. intros H.
      split; [apply ascending_spec; exact H | exact (proj1 (hcheck_sound t h Eh))].
    - intros [Hs Hb]. rewrite (hcheck_complete t Hb). apply ascending_spec. exact Hs.
  Qed.

  (* ---------------------------------------------------------------- the refinement theorems *)
  Theorem put_refines : forall (t : tr) k v, avl_inv cmp t ->
    exists t', put cmp k v t = Some t' /\ to_list t' = map_put cmp k v (to_list t) /\ avl_inv cmp t'.
  Proof.
    intros t k v [Hs Hb]. destruct (insert_bal t k v Hb) as (t' & c & I & Bt' & _ & _).
    exists t'. unfold put. rewrite I. pose proof (insert_list t k v t' c Hs I) as L.
    split; [reflexivity|]. split; [exact L|]. split; [|exact Bt'].
    unfold bst. rewrite L. exact (map_put_sorted cmp Hanti Htrans k v (to_list t) Hs).
  Qed.

  Theorem get_refines : forall (t : tr) k, avl_inv cmp t -> get cmp k t = map_get cmp k (to_list t).
  Proof. intros t k [Hs _]. apply get_spec. exact Hs. Qed.

  Theorem del_refines : forall (t : tr) k, avl_inv cmp t ->
    match del cmp k t with
    | None => map_get cmp k (to_list t) = None
    | Some (v, t') => map_get cmp k (to_list t) = Some v /\ to_list t' = map_del cmp k (to_list t) /\ avl_inv cmp t'
    end.
  Proof.
    intros t k [Hs Hb]. unfold del. pose proof (delete_spec t k Hs Hb) as D.
    destruct (delete cmp t k) as [[[v t'] c]|]; [|exact D].
    destruct D as (G & L & Bt' & _). split; [exact G|]. split; [exact L|]. split; [|exact Bt'].
    unfold bst. rewrite L. exact (map_del_sorted cmp k (to_list t) Hs).
  Qed.

  Lemma map_del_absent : forall k (m : list KV), map_get cmp k m = None -> map_del cmp k m = m.
  Proof.
    intros k m. unfold map_get, map_del. induction m as [|a m IH]; cbn [find filter]; [reflexivity|].
    destruct (eqvb cmp k (fst a)); [discriminate|]. cbn [negb]. intros H. rewrite (IH H). reflexivity.
  Qed.

  (* ---------------------------------------------------------------- list_to_assoc *)
  Lemma l2a_ge3 : forall f n (l : list KV), 3 <= n ->
    l2a (S f) n l =
    let n0 := n - 1 in
    let rn := Nat.div n0 2 in
    let rem := Nat.modulo n0 2 in
    let ln := rn + rem in
    match l2a f ln l with
    | Some (lt, (k, v) :: upper, ld) =>
        match l2a f rn upper with
        | Some (rt, more, rd) => Some (T k v (balance_of (Nat.compare rd ld)) lt rt, more, ld + 1)
        | None => None
        end
    | _ => None
    end.
  Proof. intros f n l H. destruct n as [|[|[|n]]]; try lia; reflexivity. Qed.

  Lemma l2a_spec : forall fuel n (l : list KV), 1 <= n -> n <= length l -> n <= fuel ->
    exists t more, l2a fuel n l = Some (t, more, height t) /\ l = to_list t ++ more /\
                   length (to_list t) = n /\ balanced t /\ height t = S (Nat.log2 n).
  Proof.
    induction fuel as [|f IH]; intros n l H1 Hlen Hf; [lia|].
    destruct (Nat.eq_dec n 1) as [-> | N1].
    { destruct l as [|[k v] more]; cbn [length] in Hlen; [lia|].
      exists (T k v BE E E), more. cbn. repeat split; auto. }
    destruct (Nat.eq_dec n 2) as [-> | N2].
    { destruct l as [|[k1 v1] [|[k2 v2] more]]; cbn [length] in Hlen; try lia.
      exists (T k2 v2 BL (T k1 v1 BE E E) E), more. cbn. repeat split; auto. }
    rewrite l2a_ge3 by lia. cbv zeta.
    pose proof (Nat.div_mod (n - 1) 2 ltac:(lia)) as Hdm.
    pose proof (Nat.mod_upper_bound (n - 1) 2 ltac:(lia)) as Hmb.
    set (rn := (n - 1) / 2) in *. set (rem := (n - 1) mod 2) in *.
    destruct (IH (rn + rem) l ltac:(lia) ltac:(lia) ltac:(lia)) as (lt & more1 & L1 & E1 & Len1 & B1 & Hh1).
    rewrite L1.
    assert (Lm : length l = (rn + rem) + length more1) by (rewrite E1 at 1; rewrite app_length, Len1; reflexivity).
    destruct more1 as [|[k v] upper]; cbn [length] in Lm; [lia|].
    destruct (IH rn upper ltac:(lia) ltac:(lia) ltac:(lia)) as (rt & more & L2 & E2 & Len2 & B2 & Hh2).
    rewrite L2.
    assert (Hle : height rt <= height lt).
    { rewrite Hh1, Hh2. apply le_n_S. apply Nat.log2_le_mono. lia. }
    assert (Hle2 : height lt <= S (height rt)).
    { rewrite Hh1, Hh2. apply le_n_S.
      destruct (Nat.eq_dec rem 0) as [-> | R1]; [rewrite Nat.add_0_r; lia|].
      replace (rn + rem) with (S rn) by lia. apply Nat.log2_succ_le. }
    exists (T k v (balance_of (Nat.compare (height rt) (height lt))) lt rt), more.
    split; [|split; [|split; [|split]]].
    - cbn [height]. rewrite Nat.max_l by exact Hle. rewrite Nat.add_1_r. reflexivity.
    - rewrite E1, E2. cbn [to_list]. rewrite <- app_assoc. reflexivity.
    - cbn [to_list]. rewrite app_length. cbn [length]. rewrite Len1, Len2. lia.
    - cbn [balanced]. split; [exact B1|]. split; [exact B2|].
      destruct (Nat.compare_spec (height rt) (height lt)) as [Hc | Hc | Hc]; cbn [balance_of bal_rel]; lia.
    - cbn [height]. rewrite Nat.max_l by exact Hle. rewrite Hh1. f_equal.
      destruct (Nat.eq_dec rem 0) as [R0 | R1].
      + replace n with (2 * (rn + rem) + 1) by lia. rewrite Nat.log2_succ_double by lia. reflexivity.
      + replace n with (2 * (rn + rem)) by lia. rewrite Nat.log2_double by lia. reflexivity.
  Qed.

  Lemma ord_pairs_from_ascending : forall (l : list KV) k0 v0,
    ord_pairs_from cmp k0 l = true -> ascending cmp ((k0, v0) :: l) = true.
  Proof.
    induction l as [|[k v] r IH]; intros k0 v0 H; [reflexivity|].
    cbn [ord_pairs_from] in H.
    change (ascending cmp ((k0, v0) :: (k, v) :: r)) with (match cmp k0 k with Lt => ascending cmp ((k, v) :: r) | _ => false end).
    destruct (cmp k0 k); try discriminate. apply IH. exact H.
  Qed.

  Definition kcmp (p q : KV) : comparison := cmp (fst p) (fst q).

  (* keys pairwise different (ord_pairs of the key-sorted list): the tree holds exactly the key-sorted list, satisfies
     the invariant and has minimal height; otherwise (duplicate key) there is no result *)
  Theorem list_to_assoc_spec : forall l : list KV,
    match l with
    | [] => list_to_assoc cmp l = Some E
    | _ => if ord_pairs cmp (ssort kcmp l)
           then exists t, list_to_assoc cmp l = Some t /\ to_list t = ssort kcmp l /\ avl_inv cmp t /\
                          height t = S (Nat.log2 (length l))
           else list_to_assoc cmp l = None
    end.
  Proof.
    intros l. destruct l as [|p l']; [reflexivity|]. set (l := p :: l').
    unfold list_to_assoc. fold kcmp. change (match l with [] => Some E | _ => if ord_pairs cmp (ssort kcmp l) then match l2a (S (length (ssort kcmp l))) (length (ssort kcmp l)) (ssort kcmp l) with Some (t, [], _) => Some t | _ => None end else None end) with (if ord_pairs cmp (ssort kcmp l) then match l2a (S (length (ssort kcmp l))) (length (ssort kcmp l)) (ssort kcmp l) with Some (t, [], _) => Some t | _ => None end else None).
    destruct (ord_pairs cmp (ssort kcmp l)) eqn:Eo; [|reflexivity].
    assert (Hlen : length (ssort kcmp l) = length l) by (apply Permutation.Permutation_length, ssort_perm).
    assert (Hpos : 1 <= length l) by (unfold l; cbn [length]; lia).
    destruct (l2a_spec (S (length (ssort kcmp l))) (length (ssort kcmp l)) (ssort kcmp l)) as (t & more & L & El & Len & Bt & Hh); try lia.
    rewrite L.
    assert (more = []).
    { apply (f_equal (@length KV)) in El. rewrite app_length, Len in El. destruct more; [reflexivity | cbn [length] in El; lia]. }
    subst more. rewrite app_nil_r in El. exists t. split; [reflexivity|]. split; [symmetry; exact El|].
    split; [|rewrite Hh, Hlen; reflexivity].
    split; [|exact Bt]. unfold bst. rewrite <- El. apply ascending_spec.
    destruct (ssort kcmp l) as [|[k0 v0] s]; [reflexivity|]. apply ord_pairs_from_ascending. exact Eo.
  Qed.

  (* ---------------------------------------------------------------- height bound (Fibonacci form) *)
  Lemma fib_SS : forall n, fib (S (S n)) = fib (S n) + fib n.
  Proof. reflexivity. Qed.
  Lemma fib_mono : forall n, fib n <= fib (S n).
  Proof. destruct n; [cbn; lia | rewrite fib_SS; lia]. Qed.
  Lemma size_length : forall t : tr, size t = length (to_list t).
  Proof.
    induction t as [|k v b l IHl r IHr]; [reflexivity|]. cbn [size to_list].
    rewrite app_length. cbn [length]. rewrite IHl, IHr. lia.
  Qed.
  Theorem height_fib : forall t : tr, balanced t -> fib (height t + 2) <= length (to_list t) + 1.
  Proof.
    intros t. rewrite <- size_length. induction t as [|k v b l IHl r IHr]; intros Bt; [cbn; lia|].
    cbn [balanced] in Bt. destruct Bt as (Bl & Br & Rb). specialize (IHl Bl). specialize (IHr Br).
    cbn [height size]. destruct b; cbn [bal_rel] in Rb.
    - rewrite Rb in *. rewrite Nat.max_l by lia.
      replace (S (S (height r)) + 2) with (S (S (height r + 2))) by lia. rewrite fib_SS.
      replace (S (height r + 2)) with (S (height r) + 2) by lia. lia.
    - rewrite Rb in *. rewrite Nat.max_id.
      replace (S (height r) + 2) with (S (S (height r + 1))) by lia. rewrite fib_SS.
      pose proof (fib_mono (height r + 1)) as M.
      replace (S (height r + 1)) with (height r + 2) in * by lia. lia.
    - rewrite Rb in *. rewrite Nat.max_r by lia.
      replace (S (S (height l)) + 2) with (S (S (height l + 2))) by lia. rewrite fib_SS.
      replace (S (height l + 2)) with (S (height l) + 2) by lia. lia.
  Qed.
End AvlProofs.

(* ------------------------------------------------------------------ instantiation with the standard order of terms *)
Definition tavl_inv (t : tree term term) : Prop := avl_inv tcompare t.

Lemma tput_refines : forall (t : tree term term) k v, tavl_inv t ->
  exists t', put tcompare k v t = Some t' /\ to_list t' = map_put tcompare k v (to_list t) /\ tavl_inv t'.
Proof. exact (put_refines tcompare tcompare_antisym tcompare_le_trans). Qed.
Lemma tget_refines : forall (t : tree term term) k, tavl_inv t -> get tcompare k t = map_get tcompare k (to_list t).
Proof. exact (get_refines tcompare tcompare_antisym tcompare_le_trans). Qed.
Lemma tdel_refines : forall (t : tree term term) k, tavl_inv t ->
  match del tcompare k t with
  | None => map_get tcompare k (to_list t) = None
  | Some (v, t') => map_get tcompare k (to_list t) = Some v /\ to_list t' = map_del tcompare k (to_list t) /\ tavl_inv t'
  end.
Proof. exact (del_refines tcompare tcompare_antisym tcompare_le_trans). Qed.

(* every history on the mirror succeeds, gives the results and the content of the finite-map model, and ends in a tree
   satisfying the invariant *)
Theorem run_tree_refines : forall ops (t : tree term term), tavl_inv t ->
  exists o t', run_tree ops t = Some (o, t') /\ run_ops ops (to_list t) = (o, to_list t') /\ tavl_inv t'.
Proof.
  induction ops as [|[k v|k|k] r IH]; intros t Ht; cbn [run_tree run_ops].
  - exists [], t. auto.
  - destruct (tput_refines t k v Ht) as (t1 & P & L & I1). rewrite P.
    destruct (IH t1 I1) as (o & t' & R & M & I'). exists o, t'. rewrite <- L. auto.
  - pose proof (tdel_refines t k Ht) as D. destruct (del tcompare k t) as [[v t1]|].
    + destruct D as (G & L & I1). destruct (IH t1 I1) as (o & t' & R & M & I'). rewrite R.
      exists (Some v :: o), t'. rewrite G, <- L, M. auto.
    + destruct (IH t Ht) as (o & t' & R & M & I'). rewrite R.
      exists (None :: o), t'. rewrite D, (map_del_absent tcompare k _ D), M. auto.
  - destruct (IH t Ht) as (o & t' & R & M & I'). rewrite R.
    exists (get tcompare k t :: o), t'. rewrite M, (tget_refines t k Ht). auto.
Qed.
