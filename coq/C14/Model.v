(* C14 -- reference models of sort/2, keysort/2 and of the list / ordset / pairs / assoc library predicates.
   Definitions only.  Everything is generic in a comparison function and instantiated with C13's tcompare. *)
From Coq Require Import ZArith NArith List Bool.
From V Require Import Base.Term C13.Model.
Import ListNotations.

Section Generic.
  Context {A : Type} (cmp : A -> A -> comparison).

  Definition leb (x y : A) : bool := match cmp x y with Gt => false | _ => true end.
  Definition eqvb (x y : A) : bool := match cmp x y with Eq => true | _ => false end.

  (* stable sort: x is put in front of the first element that is not smaller than x, so an element
     inserted earlier (= later in the input) stays behind its equivalents *)
  Fixpoint insert (x : A) (l : list A) : list A :=
    match l with
    | [] => [x]
    | y :: r => if leb x y then x :: l else y :: insert x r
    end.
  Definition ssort (l : list A) : list A := fold_right insert [] l.

  (* one representative of every run of equivalent neighbours *)
  Fixpoint dedup (l : list A) : list A :=
    match l with
    | [] => []
    | x :: r => match r with
                | [] => [x]
                | y :: _ => if eqvb x y then dedup r else x :: dedup r
                end
    end.
  Definition usort (l : list A) : list A := dedup (ssort l).

  (* sets = strictly ascending lists; membership is up to equivalence (==) *)
  Definition memb (x : A) (l : list A) : bool := existsb (eqvb x) l.
  Definition set_union (a b : list A) : list A := usort (a ++ b).
  Definition set_subtract (a b : list A) : list A := filter (fun x => negb (memb x b)) a.
  Definition set_inter (a b : list A) : list A := filter (fun x => memb x b) a.
  Definition set_symdiff (a b : list A) : list A := usort (set_subtract a b ++ set_subtract b a).
  Definition set_subset (a b : list A) : bool := forallb (fun x => memb x b) a.
  Definition set_del (a : list A) (x : A) : list A := filter (fun y => negb (eqvb x y)) a.

  (* list_to_set/2: the first occurrence of every ==-class, in input order *)
  Fixpoint first_occ (seen l : list A) : list A :=
    match l with
    | [] => []
    | x :: r => if memb x seen then first_occ seen r else x :: first_occ (x :: seen) r
    end.

  (* finite maps = association lists with strictly ascending keys *)
  Context {V : Type}.
  Fixpoint map_put (k : A) (v : V) (m : list (A * V)) : list (A * V) :=
    match m with
    | [] => [(k, v)]
    | (k', v') :: r => match cmp k k' with
                       | Lt => (k, v) :: m
                       | Eq => (k', v) :: r          (* put_assoc keeps the old key, replaces the value *)
                       | Gt => (k', v') :: map_put k v r
                       end
    end.
  Definition map_get (k : A) (m : list (A * V)) : option V :=
    match find (fun p => eqvb k (fst p)) m with Some p => Some (snd p) | None => None end.
  Definition map_del (k : A) (m : list (A * V)) : list (A * V) := filter (fun p => negb (eqvb k (fst p))) m.
End Generic.

(* ------------------------------------------------------------------ terms *)
Definition minus_name : list N := [45%N].
Definition tpair (k v : term) : term := Cmp minus_name [k; v].
Definition key_of (t : term) : term := match t with Cmp [45%N] [k; _] => k | _ => t end.
Definition val_of (t : term) : term := match t with Cmp [45%N] [_; v] => v | _ => t end.
Definition kcompare (a b : term) : comparison := tcompare (key_of a) (key_of b).

Definition tsort : list term -> list term := usort tcompare.            (* sort/2 *)
Definition tmsort : list term -> list term := ssort tcompare.           (* sorting without duplicate removal *)
Definition tkeysort : list term -> list term := ssort kcompare.         (* keysort/2 on Key-Value terms *)

(* results are compared up to == (the harness cannot tell -0.0 from 0.0, and which of two == terms survives
   duplicate removal is not fixed) *)
Definition teq (a b : term) : bool := eqvb tcompare a b.
Definition tlist_eq : list term -> list term -> bool := list_eqb teq.
Definition opt_eq (a b : option term) : bool :=
  match a, b with Some x, Some y => teq x y | None, None => true | _, _ => false end.

Definition check_sort (input out : list term) : bool := tlist_eq (tsort input) out.
Definition check_keysort (input out : list term) : bool := tlist_eq (tkeysort input) out.
(* msort is observed through keysort on pairs X-X *)
Definition check_msort_via_keysort (input out : list term) : bool :=
  tlist_eq (map (fun x => tpair x x) (tmsort input)) out.
Definition check_list_to_set (input out : list term) : bool := tlist_eq (first_occ tcompare [] input) out.
Definition check_union (a b out : list term) : bool := tlist_eq (set_union tcompare a b) out.
Definition check_subtract (a b out : list term) : bool := tlist_eq (set_subtract tcompare a b) out.
Definition check_inter (a b out : list term) : bool := tlist_eq (set_inter tcompare a b) out.
Definition check_symdiff (a b out : list term) : bool := tlist_eq (set_symdiff tcompare a b) out.
Definition check_memberchk (x : term) (a : list term) (out : bool) : bool := Bool.eqb (memb tcompare x a) out.
Definition check_subset (a b : list term) (out : bool) : bool := Bool.eqb (set_subset tcompare a b) out.
Definition check_add (a : list term) (x : term) (out : list term) : bool := tlist_eq (set_union tcompare a [x]) out.
Definition check_del (a : list term) (x : term) (out : list term) : bool := tlist_eq (set_del tcompare a x) out.

(* library(lists) *)
Definition check_append (a b out : list term) : bool := tlist_eq (a ++ b) out.
Definition check_append_lists (ls : list (list term)) (out : list term) : bool := tlist_eq (concat ls) out.
Definition check_reverse (a out : list term) : bool := tlist_eq (rev a) out.
Definition check_length (a : list term) (n : Z) : bool := Z.eqb (Z.of_nat (length a)) n.
Definition nth0 (i : Z) (l : list term) : option term := if (i <? 0)%Z then None else nth_error l (Z.to_nat i).
Definition nth1 (i : Z) (l : list term) : option term := if (i <? 1)%Z then None else nth_error l (Z.to_nat (i - 1)).
Definition check_nth0 (i : Z) (l : list term) (out : option term) : bool := opt_eq (nth0 i l) out.
Definition check_nth1 (i : Z) (l : list term) (out : option term) : bool := opt_eq (nth1 i l) out.
Definition zsum (l : list Z) : Z := fold_right Z.add 0%Z l.
Definition zmax (x : Z) (l : list Z) : Z := fold_left Z.max l x.
Definition zmin (x : Z) (l : list Z) : Z := fold_left Z.min l x.
Definition check_sum (l : list Z) (out : Z) : bool := Z.eqb (zsum l) out.
Definition check_max (x : Z) (l : list Z) (out : Z) : bool := Z.eqb (zmax x l) out.
Definition check_min (x : Z) (l : list Z) (out : Z) : bool := Z.eqb (zmin x l) out.
(* select/3 with a ground element: one answer per occurrence, in order *)
Fixpoint select_all (x : term) (pre l : list term) : list (list term) :=
  match l with
  | [] => []
  | y :: r => (if teq x y then [rev pre ++ r] else []) ++ select_all x (y :: pre) r
  end.
Definition check_select (x : term) (l : list term) (outs : list (list term)) : bool :=
  list_eqb tlist_eq (select_all x [] l) outs.

(* library(pairs) *)
Definition check_pairs_kv (pairs keys vals : list term) : bool :=
  tlist_eq (map key_of pairs) keys && tlist_eq (map val_of pairs) vals.
Definition check_pairs_zip (keys vals pairs : list term) : bool :=
  tlist_eq (map (fun p => tpair (fst p) (snd p)) (combine keys vals)) pairs.

(* library(assoc): a history of updates against the finite-map model *)
Inductive aop := APut (k v : term) | ADel (k : term) | AGet (k : term).
Definition amap := list (term * term).
Fixpoint run_ops (ops : list aop) (m : amap) : list (option term) * amap :=
  match ops with
  | [] => ([], m)
  | APut k v :: r => run_ops r (map_put tcompare k v m)
  | ADel k :: r => let res := map_get tcompare k m in
                   let (o, m') := run_ops r (map_del tcompare k m) in (res :: o, m')
  | AGet k :: r => let (o, m') := run_ops r m in (map_get tcompare k m :: o, m')
  end.
Definition amap_of_pairs (l : list term) : amap :=
  fold_left (fun m p => map_put tcompare (key_of p) (val_of p) m) l [].
Definition pairs_of_amap (m : amap) : list term := map (fun p => tpair (fst p) (snd p)) m.

(* the AVL tree t / t(K,V,Balance,L,R) returned by the library: in-order content and shape invariant *)
Definition t_name : list N := [116%N].
Fixpoint tree_list (t : term) : list term :=
  match t with
  | Cmp [116%N] [k; v; _; l; r] => tree_list l ++ tpair k v :: tree_list r
  | _ => []
  end.
Definition bal_ok (b : term) (hl hr : nat) : bool :=
  match b with
  | Atom [60%N] => Nat.eqb hl (S hr)      (* <  : left is deeper *)
  | Atom [45%N] => Nat.eqb hl hr          (* -  *)
  | Atom [62%N] => Nat.eqb hr (S hl)      (* >  : right is deeper *)
  | _ => false
  end.
Fixpoint avl_height (t : term) : option nat :=
  match t with
  | Atom [116%N] => Some O
  | Cmp [116%N] [_; _; b; l; r] =>
      match avl_height l, avl_height r with
      | Some hl, Some hr => if bal_ok b hl hr then Some (S (Nat.max hl hr)) else None
      | _, _ => None
      end
  | _ => None
  end.
Fixpoint strictly_ascending (l : list term) : bool :=
  match l with
  | [] => true
  | x :: r => match r with
              | [] => true
              | y :: _ => match tcompare x y with Lt => strictly_ascending r | _ => false end
              end
  end.
Definition avl_ok (t : term) : bool :=
  match avl_height t with Some _ => strictly_ascending (map key_of (tree_list t)) | None => false end.

(* start: list_to_assoc of init (unique keys); then the operations; observed: results of del/get, assoc_to_list,
   and the final tree *)
Definition check_assoc (init : list term) (ops : list aop) (res : list (option term)) (final_list : list term) (tree : term) : bool :=
  let (o, m) := run_ops ops (amap_of_pairs init) in
  list_eqb opt_eq o res && tlist_eq (pairs_of_amap m) final_list && tlist_eq (tree_list tree) final_list && avl_ok tree.
