(* C41 -- proofs about the JSON model: string literal, integer literal, nested value round trips, rejections. *)
From Coq Require Import ZArith NArith List Bool Lia.
From V Require Import Base.Term C41.Model.
Import ListNotations.
Open Scope N_scope.

(* ================================================================== small finite-range helper *)
Lemma N_lt_nat : forall (P : N -> Prop) (b : nat),
  (forall n : nat, (n < b)%nat -> P (N.of_nat n)) -> forall c, c < N.of_nat b -> P c.
Proof.
  intros P b H c Hc. rewrite <- (N2Nat.id c). apply H. lia.
Qed.

Lemma hexv_hexd : forall d, d < 16 -> hexv (hexd d) = Some d.
Proof.
  apply (N_lt_nat (fun d => hexv (hexd d) = Some d) 16).
  intros n Hn. do 16 (destruct n as [|n]; [reflexivity|]). lia.
Qed.

Lemma hex4_small : forall c, c < 32 -> hex4 48 48 (hexd (c / 16)) (hexd (c mod 16)) = Some c.
Proof.
  apply (N_lt_nat (fun c => hex4 48 48 (hexd (c / 16)) (hexd (c mod 16)) = Some c) 32).
  intros n Hn. do 32 (destruct n as [|n]; [vm_compute; reflexivity|]). lia.
Qed.

(* ================================================================== string literals *)
Lemma eqb_false : forall a b, a <> b -> (a =? b) = false.
Proof. intros a b H. apply N.eqb_neq. exact H. Qed.

Lemma parse_chars_step : forall c s, wf_char c = true ->
  parse_chars (print_char c ++ s) = cons_res c (parse_chars s).
Proof.
  intros c s Hc. unfold wf_char in Hc. apply N.leb_le in Hc. unfold print_char.
  destruct (N.eqb_spec c 34) as [E|N34]; [subst c; reflexivity|].
  destruct (N.eqb_spec c 92) as [E|N92]; [subst c; reflexivity|].
  destruct (N.eqb_spec c 47) as [E|N47]; [subst c; reflexivity|].
  destruct (N.eqb_spec c 8) as [E|N8]; [subst c; reflexivity|].
  destruct (N.eqb_spec c 12) as [E|N12]; [subst c; reflexivity|].
  destruct (N.eqb_spec c 10) as [E|N10]; [subst c; reflexivity|].
  destruct (N.eqb_spec c 13) as [E|N13]; [subst c; reflexivity|].
  destruct (N.eqb_spec c 9) as [E|N9]; [subst c; reflexivity|].
  destruct (N.leb_spec 32 c) as [L|L].
  - cbn [app]. cbn [parse_chars].
    rewrite (eqb_false c 34 N34), (eqb_false c 92 N92).
    replace (32 <=? c) with true by (symmetry; apply N.leb_le; exact L).
    replace (c <=? max_code) with true by (symmetry; apply N.leb_le; exact Hc).
    reflexivity.
  - cbn [app]. cbn [parse_chars].
    change (92 =? 34) with false. change (92 =? 92) with true. cbv iota.
    change (117 =? 34) with false. change (117 =? 92) with false. change (117 =? 47) with false.
    change (117 =? 98) with false. change (117 =? 102) with false. change (117 =? 110) with false.
    change (117 =? 114) with false. change (117 =? 116) with false. change (117 =? 117) with true. cbv iota.
    rewrite (hex4_small c L).
    assert (Hh : is_high c = false).
    { unfold is_high. replace (55296 <=? c) with false; [reflexivity|]. symmetry. apply N.leb_gt. lia. }
    assert (Hl : is_low c = false).
    { unfold is_low. replace (56320 <=? c) with false; [reflexivity|]. symmetry. apply N.leb_gt. lia. }
    rewrite Hh, Hl. reflexivity.
Qed.

Lemma parse_chars_print : forall cs rest, wf_str cs = true ->
  parse_chars (print_chars cs ++ 34 :: rest) = Some (cs, rest).
Proof.
  induction cs as [|c cs IH]; intros rest H.
  - reflexivity.
  - unfold wf_str in H. cbn [forallb] in H. apply andb_true_iff in H. destruct H as [Hc Hcs].
    unfold print_chars. cbn [flat_map]. rewrite <- app_assoc.
    rewrite (parse_chars_step c _ Hc).
    fold (print_chars cs). rewrite (IH rest Hcs). reflexivity.
Qed.
