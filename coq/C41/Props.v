(* C41 -- pinned property theorems (nothing else lives here) *)
From Coq Require Import ZArith NArith List Bool.
From V Require Import Base.Term C41.Model C41.Strings C41.Numbers C41.Proofs C41.Rejects C41.Escapes C41.Eqb.
Import ListNotations.
Open Scope N_scope.

(* Headline: the text the library generates for a value (first answer: no whitespace, escape table, \u00XX for the
   other control characters, number_chars for integers) is parsed back by the RFC 8259 parser to exactly that value:
   strings over every code point <= 0x10FFFF, integers of any size, arrays/objects nested to any depth. *)
Theorem json_parse_print : forall v, wf v -> parse (print v) = Some v.
Proof. exact json_parse_print_proof. Qed.
Print Assumptions json_parse_print.

(* string literal class: body + closing quote, whatever follows *)
Theorem string_literal_round_trip : forall cs rest, wf_str cs = true ->
  parse_chars (print_chars cs ++ 34 :: rest) = Some (cs, rest).
Proof. exact parse_chars_print. Qed.
Print Assumptions string_literal_round_trip.

(* integer literal class: every Z, followed by anything that cannot continue a number *)
Theorem integer_literal_round_trip : forall z rest, num_end rest ->
  parse_number (print_int z ++ rest) = Some (JInt z, rest).
Proof. exact parse_number_int. Qed.
Print Assumptions integer_literal_round_trip.

(* the decimal digits of n denote n, are digits, and have no leading zero *)
Theorem digits_correct : forall n, dval (digits n) = n /\ Forall (fun c => is_digit c = true) (digits n) /\
  leading_zero (digits n) = false.
Proof.
  intros n. split; [apply digits_val|]. split; [apply digits_all|].
  destruct (digits_head n) as [d [t [E [_ H]]]]. rewrite E. exact H.
Qed.
Print Assumptions digits_correct.

(* every escape decodes to the character it denotes: a string of Unicode scalar values spelled entirely with \uXXXX
   escapes (surrogate pairs above 0xFFFF) is parsed to that string *)
Theorem escaped_string_round_trip : forall cs, forallb scalar cs = true ->
  parse (34 :: print_chars_esc cs ++ [34]) = Some (JStr cs).
Proof. exact escaped_document_proof. Qed.
Print Assumptions escaped_string_round_trip.

(* the comparison functions evaluated by the correspondence decide what they are meant to decide *)
Theorem parses_to_correct : forall text v, parses_to text v = true <-> parse text = Some v.
Proof. exact parses_to_spec. Qed.
Print Assumptions parses_to_correct.

Theorem check_verdict_correct : forall text b, check_verdict text b = true <-> (b = true <-> parse text <> None).
Proof. exact check_verdict_spec. Qed.
Print Assumptions check_verdict_correct.

(* malformed families proved unparseable *)
Theorem parse_rejects_after_value : forall v g rest, wf v -> ok_rest (g :: rest) = true ->
  parse (print v ++ g :: rest) = None.          (* ',' ']' '}' (and anything behind it) after a complete document *)
Proof. exact reject_after_value_proof. Qed.
Print Assumptions parse_rejects_after_value.

Theorem parse_rejects_unterminated_string : forall cs, ~ In 34 cs -> parse (34 :: cs) = None.
Proof. exact reject_unterminated_string_proof. Qed.
Print Assumptions parse_rejects_unterminated_string.

Theorem parse_rejects_control_char : forall pre c rest, forallb plain pre = true -> c < 32 ->
  parse (34 :: pre ++ c :: rest) = None.
Proof. exact reject_control_char_proof. Qed.
Print Assumptions parse_rejects_control_char.

Theorem parse_rejects_lone_low_surrogate : forall pre a b c d u rest, forallb plain pre = true ->
  hex4 a b c d = Some u -> is_low u = true ->
  parse (34 :: pre ++ 92 :: 117 :: a :: b :: c :: d :: rest) = None.
Proof. exact reject_lone_low_surrogate_proof. Qed.
Print Assumptions parse_rejects_lone_low_surrogate.

Theorem parse_rejects_lone_high_surrogate : forall pre a b c d u rest, forallb plain pre = true ->
  hex4 a b c d = Some u -> is_high u = true ->
  match rest with x :: _ => x <> 92 | [] => True end ->
  parse (34 :: pre ++ 92 :: 117 :: a :: b :: c :: d :: rest) = None.
Proof. exact reject_lone_high_surrogate_proof. Qed.
Print Assumptions parse_rejects_lone_high_surrogate.

Theorem parse_rejects_leading_zero : forall d rest, is_digit d = true ->
  parse (48 :: d :: rest) = None /\ parse (45 :: 48 :: d :: rest) = None.
Proof. intros d rest H. split; [apply reject_leading_zero_proof | apply reject_neg_leading_zero_proof]; exact H. Qed.
Print Assumptions parse_rejects_leading_zero.

Theorem parse_rejects_trailing_comma : forall l, l <> [] -> Forall wf l ->
  parse (91 :: join (map print l) ++ [44; 93]) = None.
Proof. exact reject_trailing_comma_proof. Qed.
Print Assumptions parse_rejects_trailing_comma.

Theorem parse_rejects_unterminated_array : forall l, l <> [] -> Forall wf l ->
  parse (91 :: join (map print l)) = None.
Proof. exact reject_unterminated_array_proof. Qed.
Print Assumptions parse_rejects_unterminated_array.

(* non-vacuity *)
Definition sample : json :=
  JObj [([107; 34; 128512], JArr [JInt (-12345678901234567890123); JStr [0; 31; 34; 92; 47; 233; 1114111]; JArr []; JObj []; JNull]);
        ([], JBool false)].
Example ex_wf : wf sample.
Proof. reflexivity. Qed.
Example ex_round_trip : parse (print sample) = Some sample.
Proof. vm_compute. reflexivity. Qed.
Example ex_ws_escapes :      (*  [ "😀é" , 12E2 ]  *)
  parse [32; 91; 32; 34; 92; 117; 100; 56; 51; 100; 92; 117; 100; 101; 48; 48; 92; 117; 48; 48; 69; 57; 34; 10; 44; 9;
         49; 50; 69; 50; 32; 93; 13] = Some (JArr [JStr [128512; 233]; JInt 1200]).
Proof. vm_compute. reflexivity. Qed.
Example ex_scalar : forallb scalar [0; 34; 55295; 57344; 65535; 65536; 128512; 1114111] = true.
Proof. reflexivity. Qed.
Example ex_escaped : print_chars_esc [128512] = [92; 117; 100; 56; 51; 100; 92; 117; 100; 101; 48; 48].
Proof. reflexivity. Qed.
Example ex_plain : forallb plain [97; 233; 128512] = true.
Proof. reflexivity. Qed.
Example ex_lone_low : hex4 100 99 48 48 = Some 56320 /\ is_low 56320 = true.
Proof. split; reflexivity. Qed.
Example ex_num_end : num_end [44] /\ num_end [].
Proof. split; [repeat split; discriminate | exact I]. Qed.
