(* C41 -- the comparison functions used by the correspondence decide equality. *)
From Coq Require Import ZArith NArith List Bool Lia.
From V Require Import Base.Term C41.Model C41.Proofs.
Import ListNotations.
Open Scope N_scope.

Lemma name_eqb_eq : forall a b, name_eqb a b = true <-> a = b.
Proof.
  unfold name_eqb. induction a as [|x a IH]; destruct b as [|y b]; cbn [list_eqb]; split; intros H;
    try reflexivity; try discriminate.
  - apply andb_true_iff in H. destruct H as [H1 H2]. apply N.eqb_eq in H1. apply IH in H2. congruence.
  - inversion H; subst. apply andb_true_iff. split; [apply N.eqb_refl | apply IH; reflexivity].
Qed.

Definition arr_eqb : list json -> list json -> bool :=
  fix go (l l' : list json) : bool :=
    match l, l' with
    | [], [] => true
    | x :: r, y :: r' => json_eqb x y && go r r'
    | _, _ => false
    end.
Definition obj_eqb : list (list N * json) -> list (list N * json) -> bool :=
  fix go (l l' : list (list N * json)) : bool :=
    match l, l' with
    | [], [] => true
    | (k, x) :: r, (k', y) :: r' => name_eqb k k' && json_eqb x y && go r r'
    | _, _ => false
    end.

Lemma json_eqb_arr : forall l l', json_eqb (JArr l) (JArr l') = arr_eqb l l'.
Proof. reflexivity. Qed.
Lemma json_eqb_obj : forall l l', json_eqb (JObj l) (JObj l') = obj_eqb l l'.
Proof. reflexivity. Qed.

Lemma arr_eqb_eq : forall l, Forall (fun x => forall y, json_eqb x y = true <-> x = y) l ->
  forall l', arr_eqb l l' = true <-> l = l'.
Proof.
  induction l as [|x r IH]; intros HF l'; destruct l' as [|y r']; cbn [arr_eqb]; split; intros H;
    try reflexivity; try discriminate.
  - inversion HF as [|? ? Hx Hr]; subst. apply andb_true_iff in H. destruct H as [H1 H2].
    apply Hx in H1. apply (IH Hr) in H2. congruence.
  - inversion HF as [|? ? Hx Hr]; subst. inversion H; subst. apply andb_true_iff.
    split; [apply Hx; reflexivity | apply (IH Hr); reflexivity].
Qed.

Lemma obj_eqb_eq : forall l, Forall (fun kv => forall y, json_eqb (snd kv) y = true <-> snd kv = y) l ->
  forall l', obj_eqb l l' = true <-> l = l'.
Proof.
  induction l as [|[k x] r IH]; intros HF l'; destruct l' as [|[k' y] r']; cbn [obj_eqb]; split; intros H;
    try reflexivity; try discriminate.
  - inversion HF as [|? ? Hx Hr]; subst. cbn [snd] in Hx.
    apply andb_true_iff in H. destruct H as [H1 H2]. apply andb_true_iff in H1. destruct H1 as [H0 H1].
    apply name_eqb_eq in H0. apply Hx in H1. apply (IH Hr) in H2. congruence.
  - inversion HF as [|? ? Hx Hr]; subst. cbn [snd] in Hx. inversion H; subst.
    apply andb_true_iff. split; [apply andb_true_iff; split|].
    + apply name_eqb_eq. reflexivity.
    + apply Hx. reflexivity.
    + apply (IH Hr). reflexivity.
Qed.

Lemma json_eqb_eq : forall a b, json_eqb a b = true <-> a = b.
Proof.
  induction a as [|x|z|m e|s|l IHl|l IHl] using json_ind'; intros b.
  - destruct b; cbn [json_eqb]; split; intros H; try reflexivity; try discriminate.
  - destruct b as [|y| | | | |]; cbn [json_eqb]; split; intros H; try discriminate.
    + apply eqb_prop in H. congruence.
    + inversion H; subst. apply eqb_reflx.
  - destruct b as [| |y| | | |]; cbn [json_eqb]; split; intros H; try discriminate.
    + apply Z.eqb_eq in H. congruence.
    + inversion H; subst. apply Z.eqb_refl.
  - destruct b as [| | |m' e'| | |]; cbn [json_eqb]; split; intros H; try discriminate.
    + apply andb_true_iff in H. destruct H as [H1 H2]. apply Z.eqb_eq in H1, H2. congruence.
    + inversion H; subst. rewrite !Z.eqb_refl. reflexivity.
  - destruct b as [| | | |s'| |]; cbn [json_eqb]; split; intros H; try discriminate.
    + apply name_eqb_eq in H. congruence.
    + inversion H; subst. apply name_eqb_eq. reflexivity.
  - destruct b as [| | | | |l'|]; try (split; intros H; discriminate).
    rewrite json_eqb_arr. rewrite (arr_eqb_eq l IHl l'). split; intros H; [congruence | inversion H; reflexivity].
  - destruct b as [| | | | | |l']; try (split; intros H; discriminate).
    rewrite json_eqb_obj. rewrite (obj_eqb_eq l IHl l'). split; intros H; [congruence | inversion H; reflexivity].
Qed.

Lemma parses_to_spec : forall text v, parses_to text v = true <-> parse text = Some v.
Proof.
  intros text v. unfold parses_to. destruct (parse text) as [v'|].
  - rewrite json_eqb_eq. split; intros H; [congruence | inversion H; reflexivity].
  - split; intros H; discriminate.
Qed.

Lemma check_verdict_spec : forall text b, check_verdict text b = true <-> (b = true <-> parse text <> None).
Proof.
  intros text b. unfold check_verdict, model_accepts, is_none.
  destruct (parse text) as [v|]; destruct b; cbn; split; intros H; try reflexivity; try discriminate.
  - split; intros; [discriminate | reflexivity].
  - destruct H as [_ H]. assert (X : false = true) by (apply H; discriminate). discriminate.
  - destruct H as [H _]. exfalso. apply H; reflexivity.
  - split; intros; [discriminate | congruence].
Qed.
