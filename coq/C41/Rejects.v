(* C41 -- families of malformed texts proved unparseable by the model. *)
From Coq Require Import ZArith NArith List Bool Lia.
From V Require Import Base.Term C41.Model C41.Strings C41.Numbers C41.Proofs.
Import ListNotations.
Open Scope N_scope.

(* ------------------------------------------------------------------ something after a complete value *)
Lemma reject_after_value_proof : forall v g rest, wf v -> ok_rest (g :: rest) = true ->
  parse (print v ++ g :: rest) = None.
Proof.
  intros v g rest Hwf Hok. unfold parse. rewrite (parse_print_rest v (g :: rest) Hwf Hok).
  assert (Hws : is_ws g = false).
  { unfold ok_rest in Hok. repeat rewrite orb_true_iff in Hok. repeat rewrite N.eqb_eq in Hok.
    unfold is_ws.
    repeat match goal with
           | |- context [?a =? ?b] => destruct (N.eqb_spec a b); [exfalso; lia|]
           end. reflexivity. }
  cbn [skip_ws]. rewrite Hws. reflexivity.
Qed.

(* ------------------------------------------------------------------ strings *)
Lemma parse_string_none : forall r, parse_chars r = None -> parse (34 :: r) = None.
Proof.
  intros r H. unfold parse.
  change (skip_ws (34 :: r)) with (34 :: r).
  rewrite parse_value_S, value_body_str, H. reflexivity.
Qed.

(* a text without any quote character cannot close the string *)
Lemma parse_chars_no_quote : forall n s, (length s <= n)%nat -> ~ In 34 s -> parse_chars s = None.
Proof.
  induction n as [|n IH]; intros s Hl Hq.
  - destruct s; [reflexivity | cbn in Hl; lia].
  - destruct s as [|c r]; [reflexivity|].
    assert (IH' : forall pre r', c :: r = pre ++ r' -> pre <> [] -> parse_chars r' = None).
    { intros pre r' E Hp. apply IH.
      - assert (HL : length (c :: r) = (length pre + length r')%nat) by (rewrite E; apply app_length).
        destruct pre; [congruence|]. cbn [length] in *. lia.
      - intro Hin. apply Hq. rewrite E. apply in_or_app. right. exact Hin. }
    cbn [parse_chars].
    destruct (N.eqb_spec c 34) as [E|_]; [exfalso; apply Hq; left; auto|].
    destruct (c =? 92).
    + destruct r as [|e r1]; [reflexivity|].
      assert (He : (e =? 34) = false) by (apply N.eqb_neq; intro; apply Hq; right; left; auto).
      rewrite He.
      rewrite (IH' [c; e] r1 eq_refl) by discriminate.
      cbn [cons_res].
      repeat match goal with |- (if ?b then None else _) = None => destruct b; [reflexivity|] end.
      destruct (e =? 117); [|reflexivity].
      destruct r1 as [|a [|b [|c2 [|d r2]]]]; try reflexivity.
      destruct (hex4 a b c2 d) as [u|]; [|reflexivity].
      destruct (is_high u).
      * destruct r2 as [|bs [|uu [|a' [|b' [|c' [|d' r3]]]]]]; try reflexivity.
        destruct ((bs =? 92) && (uu =? 117)); [|reflexivity].
        destruct (hex4 a' b' c' d') as [lo|]; [|reflexivity].
        destruct (is_low lo); [|reflexivity].
        rewrite (IH' [c; e; a; b; c2; d; bs; uu; a'; b'; c'; d'] r3 eq_refl) by discriminate. reflexivity.
      * destruct (is_low u); [reflexivity|].
        rewrite (IH' [c; e; a; b; c2; d] r2 eq_refl) by discriminate. reflexivity.
    + rewrite (IH' [c] r eq_refl) by discriminate. cbn [cons_res].
      destruct ((32 <=? c) && (c <=? max_code)); reflexivity.
Qed.

Lemma reject_unterminated_string_proof : forall cs, ~ In 34 cs -> parse (34 :: cs) = None.
Proof. intros cs H. apply parse_string_none. apply (parse_chars_no_quote (length cs)); [lia | exact H]. Qed.

(* ordinary characters of a string body *)
Definition plain (c : N) : bool := (32 <=? c) && (c <=? max_code) && negb (c =? 34) && negb (c =? 92).

Lemma parse_chars_plain : forall p s, plain p = true -> parse_chars (p :: s) = cons_res p (parse_chars s).
Proof.
  intros p s H. unfold plain in H. repeat rewrite andb_true_iff in H.
  destruct H as [[[H1 H1'] H2] H3]. apply negb_true_iff in H2, H3.
  cbn [parse_chars]. rewrite H2, H3, H1, H1'. reflexivity.
Qed.

Lemma parse_chars_after_plain : forall pre s, forallb plain pre = true -> parse_chars s = None ->
  parse_chars (pre ++ s) = None.
Proof.
  induction pre as [|p pre IH]; intros s Hp Hs; [exact Hs|].
  cbn [forallb] in Hp. apply andb_true_iff in Hp. destruct Hp as [Hp1 Hp2].
  cbn [app]. rewrite (parse_chars_plain p _ Hp1). rewrite (IH s Hp2 Hs). reflexivity.
Qed.

(* a bare control character inside a string *)
Lemma reject_control_char_proof : forall pre c rest, forallb plain pre = true -> c < 32 ->
  parse (34 :: pre ++ c :: rest) = None.
Proof.
  intros pre c rest Hp Hc. apply parse_string_none. apply parse_chars_after_plain; [exact Hp|].
  cbn [parse_chars].
  destruct (N.eqb_spec c 34) as [E|_]; [lia|].
  destruct (N.eqb_spec c 92) as [E|_]; [lia|].
  replace (32 <=? c) with false; [reflexivity|]. symmetry. apply N.leb_gt. exact Hc.
Qed.

(* a \uXXXX escape denoting a low surrogate that does not follow a high surrogate *)
Lemma reject_lone_low_surrogate_proof : forall pre a b c d u rest, forallb plain pre = true ->
  hex4 a b c d = Some u -> is_low u = true ->
  parse (34 :: pre ++ 92 :: 117 :: a :: b :: c :: d :: rest) = None.
Proof.
  intros pre a b c d u rest Hp Hh Hl. apply parse_string_none. apply parse_chars_after_plain; [exact Hp|].
  assert (Hhi : is_high u = false).
  { unfold is_low in Hl. unfold is_high. apply andb_true_iff in Hl. destruct Hl as [H1 H2].
    apply N.leb_le in H1. apply andb_false_iff. right. apply N.leb_gt. lia. }
  cbn [parse_chars].
  change (92 =? 34) with false. change (92 =? 92) with true. cbv iota.
  change (117 =? 34) with false. change (117 =? 92) with false. change (117 =? 47) with false.
  change (117 =? 98) with false. change (117 =? 102) with false. change (117 =? 110) with false.
  change (117 =? 114) with false. change (117 =? 116) with false. change (117 =? 117) with true. cbv iota.
  rewrite Hh, Hhi, Hl. reflexivity.
Qed.

(* a high surrogate escape that is not followed by another escape *)
Lemma reject_lone_high_surrogate_proof : forall pre a b c d u rest, forallb plain pre = true ->
  hex4 a b c d = Some u -> is_high u = true ->
  match rest with x :: _ => x <> 92 | [] => True end ->
  parse (34 :: pre ++ 92 :: 117 :: a :: b :: c :: d :: rest) = None.
Proof.
  intros pre a b c d u rest Hp Hh Hhi Hr. apply parse_string_none. apply parse_chars_after_plain; [exact Hp|].
  cbn [parse_chars].
  change (92 =? 34) with false. change (92 =? 92) with true. cbv iota.
  change (117 =? 34) with false. change (117 =? 92) with false. change (117 =? 47) with false.
  change (117 =? 98) with false. change (117 =? 102) with false. change (117 =? 110) with false.
  change (117 =? 114) with false. change (117 =? 116) with false. change (117 =? 117) with true. cbv iota.
  rewrite Hh, Hhi.
  destruct rest as [|bs [|uu [|a' [|b' [|c' [|d' r3]]]]]]; try reflexivity.
  rewrite (proj2 (N.eqb_neq bs 92) Hr). reflexivity.
Qed.

(* ------------------------------------------------------------------ numbers *)
Lemma reject_leading_zero_proof : forall d rest, is_digit d = true -> parse (48 :: d :: rest) = None.
Proof.
  intros d rest Hd. unfold parse.
  change (skip_ws (48 :: d :: rest)) with (48 :: d :: rest).
  rewrite parse_value_S. rewrite value_body_num by (right; reflexivity).
  unfold parse_number. change (48 =? 45) with false. cbv iota beta.
  cbn [take_digits]. change (is_digit 48) with true. rewrite Hd. cbv iota.
  destruct (take_digits rest) as [ds r']. reflexivity.
Qed.

Lemma reject_neg_leading_zero_proof : forall d rest, is_digit d = true -> parse (45 :: 48 :: d :: rest) = None.
Proof.
  intros d rest Hd. unfold parse.
  change (skip_ws (45 :: 48 :: d :: rest)) with (45 :: 48 :: d :: rest).
  rewrite parse_value_S. rewrite value_body_num by (left; reflexivity).
  unfold parse_number. change (45 =? 45) with true. cbv iota beta.
  cbn [take_digits]. change (is_digit 48) with true. rewrite Hd. cbv iota.
  destruct (take_digits rest) as [ds r']. reflexivity.
Qed.

(* ------------------------------------------------------------------ arrays: trailing comma, missing bracket *)
Lemma elems_none_93 : forall k rest, parse_elems k (93 :: rest) = None.
Proof.
  intros k rest. destruct k as [|k]; [reflexivity|].
  rewrite parse_elems_S. unfold elems_body.
  change (skip_ws (93 :: rest)) with (93 :: rest).
  destruct k as [|k]; reflexivity.
Qed.

Lemma elems_fail : forall tail, ok_rest tail = true ->
  (forall pv k s v, pv (skip_ws s) = Some (v, tail) -> elems_body pv (parse_elems k) s = None) ->
  forall l, l <> [] -> Forall (fun v => wf v /\ RT v) l ->
  forall f, (length (join (map print l)) + 1 <= f)%nat ->
  parse_elems f (join (map print l) ++ tail) = None.
Proof.
  intros tail Hok HT.
  induction l as [|e es IH]; intros Hne HF f Hf; [congruence|].
  inversion HF as [|? ? [Hwf Hrt] HF']; subst.
  destruct f as [|k]; [lia|]. rewrite parse_elems_S.
  destruct es as [|e2 es'].
  - cbn [map] in *. rewrite join_single in *.
    apply (HT _ _ _ e). rewrite (skip_ws_print e _ Hwf).
    apply Hrt; [exact Hok | lia].
  - remember (e2 :: es') as l2 eqn:El2.
    assert (Hl2 : l2 <> []) by (subst l2; discriminate).
    assert (Hm : map print l2 <> []) by (subst l2; discriminate).
    cbn [map] in *. rewrite (join_cons_ne _ _ Hm) in *.
    rewrite app_length in Hf. cbn [length] in Hf.
    rewrite <- app_assoc. cbn [app].
    rewrite (elems_body_step _ _ _ e (join (map print l2) ++ tail)).
    + rewrite (IH Hl2 HF' k) by lia. reflexivity.
    + rewrite (skip_ws_print e _ Hwf). apply Hrt; [reflexivity | lia].
Qed.

Lemma all_rt : forall l, Forall wf l -> Forall (fun v => wf v /\ RT v) l.
Proof.
  intros l H. induction H as [|x r Hx Hr IH]; constructor; [|exact IH].
  split; [exact Hx | apply value_rt; exact Hx].
Qed.

Lemma array_open_fail : forall l tail rest0, l <> [] -> Forall wf l ->
  (forall f, (length (join (map print l)) + 1 <= f)%nat -> parse_elems f (join (map print l) ++ tail) = None) ->
  rest0 = join (map print l) ++ tail ->
  parse (91 :: rest0) = None.
Proof.
  intros l tail rest0 Hne HW HF E. unfold parse.
  change (skip_ws (91 :: rest0)) with (91 :: rest0).
  rewrite parse_value_S, value_body_arr.
  destruct l as [|e es]; [congruence|].
  assert (Hwe : wf e) by (inversion HW; assumption).
  destruct (print_head e Hwe) as [c [t [Ec Hs]]].
  destruct (start_props c Hs) as [Hws [H93 _]].
  destruct (join_head (print e) (map print es) c t Ec) as [t' EJ].
  assert (Esk : skip_ws rest0 = rest0).
  { rewrite E. cbn [map]. rewrite EJ. cbn [app skip_ws]. rewrite Hws. reflexivity. }
  rewrite Esk.
  assert (E2 : rest0 = c :: (t' ++ tail)) by (rewrite E; cbn [map]; rewrite EJ; reflexivity).
  rewrite E2 at 1. rewrite H93. rewrite <- E2.
  rewrite E. rewrite HF; [reflexivity|].
  cbn [length]. rewrite <- E. rewrite E. rewrite app_length. lia.
Qed.

Lemma reject_trailing_comma_proof : forall l, l <> [] -> Forall wf l ->
  parse (91 :: join (map print l) ++ [44; 93]) = None.
Proof.
  intros l Hne HW. apply (array_open_fail l [44; 93] _ Hne HW); [|reflexivity].
  intros f Hf. apply (elems_fail [44; 93]); [reflexivity | | exact Hne | apply all_rt; exact HW | exact Hf].
  intros pv k s v H. rewrite (elems_body_step _ _ _ _ _ H). rewrite elems_none_93. reflexivity.
Qed.

Lemma reject_unterminated_array_proof : forall l, l <> [] -> Forall wf l ->
  parse (91 :: join (map print l)) = None.
Proof.
  intros l Hne HW. apply (array_open_fail l [] _ Hne HW); [|symmetry; apply app_nil_r].
  intros f Hf. apply (elems_fail []); [reflexivity | | exact Hne | apply all_rt; exact HW | exact Hf].
  intros pv k s v H. unfold elems_body. rewrite H. reflexivity.
Qed.
