(* C41 -- JSON text <-> JSON terms (library(serialization/json), json_chars//1).

   Texts are lists of code points (N).  The value type mirrors the documented term form
     pairs([string(K)-V,...]) | list([...]) | string("...") | number(N) | boolean(B) | null.
   Numbers: the model represents integers exactly (JInt, any size).  A number text with a fraction part or a
   negative exponent is parsed to JDec m e (the exact decimal m * 10^e); the library turns those into floats, whose
   text is NOT modelled (JDec is excluded by wf; the printer's clause for it is only there to be total).

   print  : mirrors the library's FIRST generated answer (lazy whitespace = none; escape_char/2 table first, then the
            raw character when its code is >= 32, else \u00XX with lower-case hex digits; number_chars/2 for integers).
   parse  : reference recursive-descent parser for the McKeeman / RFC 8259 grammar (whitespace, all escapes,
            \uXXXX with surrogate pairs; lone surrogates rejected), fuel = length + 1. *)
From Coq Require Import ZArith NArith List Bool.
From V Require Import Base.Term.
Import ListNotations.
Open Scope N_scope.

Inductive json :=
| JNull
| JBool (b : bool)
| JInt (z : Z)
| JDec (m : Z) (e : Z)
| JStr (s : list N)
| JArr (l : list json)
| JObj (l : list (list N * json)).

(* ------------------------------------------------------------------ characters *)
Definition max_code : N := 1114111.   (* 0x10FFFF *)

Definition hexd (d : N) : N := if d <? 10 then 48 + d else 87 + d.     (* lower case *)
Definition hexv (c : N) : option N :=
  if (48 <=? c) && (c <=? 57) then Some (c - 48)
  else if (97 <=? c) && (c <=? 102) then Some (c - 87)
  else if (65 <=? c) && (c <=? 70) then Some (c - 55)
  else None.
Definition hex4 (a b c d : N) : option N :=
  match hexv a, hexv b, hexv c, hexv d with
  | Some x, Some y, Some z, Some w => Some (((x * 16 + y) * 16 + z) * 16 + w)
  | _, _, _, _ => None
  end.

Definition is_high (u : N) : bool := (55296 <=? u) && (u <=? 56319).   (* D800..DBFF *)
Definition is_low (u : N) : bool := (56320 <=? u) && (u <=? 57343).    (* DC00..DFFF *)
Definition combine_surr (hi lo : N) : N := 65536 + (hi - 55296) * 1024 + (lo - 56320).

(* the library's generation rules for one character of a string *)
Definition print_char (c : N) : list N :=
  if c =? 34 then [92; 34]
  else if c =? 92 then [92; 92]
  else if c =? 47 then [92; 47]
  else if c =? 8 then [92; 98]
  else if c =? 12 then [92; 102]
  else if c =? 10 then [92; 110]
  else if c =? 13 then [92; 114]
  else if c =? 9 then [92; 116]
  else if 32 <=? c then [c]
  else [92; 117; 48; 48; hexd (c / 16); hexd (c mod 16)].

Definition print_chars (cs : list N) : list N := flat_map print_char cs.
Definition print_str (cs : list N) : list N := 34 :: print_chars cs ++ [34].

Definition cons_res (c : N) (r : option (list N * list N)) : option (list N * list N) :=
  match r with Some (cs, rest) => Some (c :: cs, rest) | None => None end.

(* after the opening quote: characters up to and including the closing quote *)
Fixpoint parse_chars (s : list N) : option (list N * list N) :=
  match s with
  | [] => None
  | c :: r =>
    if c =? 34 then Some ([], r)
    else if c =? 92 then
      match r with
      | [] => None
      | e :: r1 =>
        if e =? 34 then cons_res 34 (parse_chars r1)
        else if e =? 92 then cons_res 92 (parse_chars r1)
        else if e =? 47 then cons_res 47 (parse_chars r1)
        else if e =? 98 then cons_res 8 (parse_chars r1)
        else if e =? 102 then cons_res 12 (parse_chars r1)
        else if e =? 110 then cons_res 10 (parse_chars r1)
        else if e =? 114 then cons_res 13 (parse_chars r1)
        else if e =? 116 then cons_res 9 (parse_chars r1)
        else if e =? 117 then
          match r1 with
          | a :: b :: c2 :: d :: r2 =>
            match hex4 a b c2 d with
            | None => None
            | Some u =>
              if is_high u then
                match r2 with
                | bs :: uu :: a' :: b' :: c' :: d' :: r3 =>
                  if (bs =? 92) && (uu =? 117) then
                    match hex4 a' b' c' d' with
                    | None => None
                    | Some lo => if is_low lo then cons_res (combine_surr u lo) (parse_chars r3) else None
                    end
                  else None
                | _ => None
                end
              else if is_low u then None
              else cons_res u (parse_chars r2)
            end
          | _ => None
          end
        else None
      end
    else if (32 <=? c) && (c <=? max_code) then cons_res c (parse_chars r)
    else None
  end.

(* ------------------------------------------------------------------ numbers *)
Definition is_digit (c : N) : bool := (48 <=? c) && (c <=? 57).

Fixpoint take_digits (s : list N) : list N * list N :=
  match s with
  | c :: r => if is_digit c then let (ds, rest) := take_digits r in (c :: ds, rest) else ([], s)
  | [] => ([], [])
  end.

Definition dval (ds : list N) : N := fold_left (fun a c => 10 * a + (c - 48)) ds 0.

(* decimal digits, least significant first *)
Fixpoint rdigits (fuel : nat) (n : N) : list N :=
  match fuel with
  | O => []
  | S k => (48 + n mod 10) :: (if n / 10 =? 0 then [] else rdigits k (n / 10))
  end.
Definition digits (n : N) : list N := rev (rdigits (S (N.to_nat (N.log2 n))) n).

Definition print_int (z : Z) : list N :=
  if (z <? 0)%Z then 45 :: digits (Z.abs_N z) else digits (Z.abs_N z).

Definition leading_zero (ds : list N) : bool :=
  match ds with c :: _ :: _ => c =? 48 | _ => false end.

(* exponent part: None = syntax error, Some (None, s) = absent *)
Definition parse_exp (s : list N) : option (option Z * list N) :=
  match s with
  | c :: r =>
    if (c =? 101) || (c =? 69) then
      let '(neg, r1) := match r with
                        | sg :: r' => if sg =? 45 then (true, r') else if sg =? 43 then (false, r') else (false, r)
                        | [] => (false, r)
                        end in
      let (ds, r2) := take_digits r1 in
      match ds with
      | [] => None
      | _ => Some (Some (if neg then (- Z.of_N (dval ds))%Z else Z.of_N (dval ds)), r2)
      end
    else Some (None, s)
  | [] => Some (None, s)
  end.

(* fraction part: None = syntax error, Some ([], s) = absent *)
Definition parse_frac (s : list N) : option (list N * list N) :=
  match s with
  | c :: r =>
    if c =? 46 then
      let (fs, r1) := take_digits r in
      match fs with [] => None | _ => Some (fs, r1) end
    else Some ([], s)
  | [] => Some ([], s)
  end.

Definition parse_number (s : list N) : option (json * list N) :=
  let '(neg, s1) := match s with
                    | c :: r => if c =? 45 then (true, r) else (false, s)
                    | [] => (false, s)
                    end in
  let (ds, s2) := take_digits s1 in
  match ds with
  | [] => None
  | _ =>
    if leading_zero ds then None
    else
      match parse_frac s2 with
      | None => None
      | Some (fs, s3) =>
        match parse_exp s3 with
        | None => None
        | Some (ex, s4) =>
          let sg := if neg then (-1)%Z else 1%Z in
          let e := match ex with Some e => e | None => 0%Z end in
          match fs with
          | [] => if (0 <=? e)%Z then Some (JInt (sg * Z.of_N (dval ds) * 10 ^ e)%Z, s4)
                  else Some (JDec (sg * Z.of_N (dval ds))%Z e, s4)
          | _ => let k := Z.of_nat (length fs) in
                 Some (JDec (sg * (Z.of_N (dval ds) * 10 ^ k + Z.of_N (dval fs)))%Z (e - k)%Z, s4)
          end
        end
      end
  end.

(* ------------------------------------------------------------------ printer *)
Fixpoint join (ls : list (list N)) : list N :=
  match ls with
  | [] => []
  | x :: r => match r with [] => x | _ => x ++ 44 :: join r end
  end.

Definition lit_null : list N := [110; 117; 108; 108].
Definition lit_true : list N := [116; 114; 117; 101].
Definition lit_false : list N := [102; 97; 108; 115; 101].

Fixpoint print (v : json) : list N :=
  match v with
  | JNull => lit_null
  | JBool true => lit_true
  | JBool false => lit_false
  | JInt z => print_int z
  | JDec m e => print_int m ++ 101 :: print_int e        (* not generated by the library in this form; excluded by wf *)
  | JStr s => print_str s
  | JArr l => 91 :: join (map print l) ++ [93]
  | JObj l => 123 :: join (map (fun kv => let '(k, x) := kv in print_str k ++ 58 :: print x) l) ++ [125]
  end.

(* ------------------------------------------------------------------ parser *)
Definition is_ws (c : N) : bool := (c =? 32) || (c =? 10) || (c =? 13) || (c =? 9).
Fixpoint skip_ws (s : list N) : list N :=
  match s with
  | c :: r => if is_ws c then skip_ws r else s
  | [] => []
  end.

Fixpoint strip_prefix (p s : list N) : option (list N) :=
  match p with
  | [] => Some s
  | a :: p' => match s with
               | b :: s' => if a =? b then strip_prefix p' s' else None
               | [] => None
               end
  end.

Definition expect_lit (p s : list N) (v : json) : option (json * list N) :=
  match strip_prefix p s with Some r => Some (v, r) | None => None end.

Definition value_body (pe : list N -> option (list json * list N))
                      (pm : list N -> option (list (list N * json) * list N))
                      (s : list N) : option (json * list N) :=
  match s with
  | [] => None
  | c :: r =>
    if c =? 110 then expect_lit lit_null s JNull
    else if c =? 116 then expect_lit lit_true s (JBool true)
    else if c =? 102 then expect_lit lit_false s (JBool false)
    else if c =? 34 then
      match parse_chars r with Some (cs, r') => Some (JStr cs, r') | None => None end
    else if c =? 91 then
      match skip_ws r with
      | [] => None
      | c1 :: r2 =>
        if c1 =? 93 then Some (JArr [], r2)
        else match pe (c1 :: r2) with Some (l, r3) => Some (JArr l, r3) | None => None end
      end
    else if c =? 123 then
      match skip_ws r with
      | [] => None
      | c1 :: r2 =>
        if c1 =? 125 then Some (JObj [], r2)
        else match pm (c1 :: r2) with Some (l, r3) => Some (JObj l, r3) | None => None end
      end
    else parse_number s
  end.

(* element (',' element)* ']' *)
Definition elems_body (pv : list N -> option (json * list N))
                      (pe : list N -> option (list json * list N))
                      (s : list N) : option (list json * list N) :=
  match pv (skip_ws s) with
  | None => None
  | Some (v, r) =>
    match skip_ws r with
    | [] => None
    | c :: r1 =>
      if c =? 44 then match pe r1 with Some (l, r2) => Some (v :: l, r2) | None => None end
      else if c =? 93 then Some ([v], r1)
      else None
    end
  end.

(* member (',' member)* '}'   with member = ws string ws ':' element *)
Definition members_body (pv : list N -> option (json * list N))
                        (pm : list N -> option (list (list N * json) * list N))
                        (s : list N) : option (list (list N * json) * list N) :=
  match skip_ws s with
  | [] => None
  | q :: r0 =>
    if q =? 34 then
      match parse_chars r0 with
      | None => None
      | Some (k, r1) =>
        match skip_ws r1 with
        | [] => None
        | col :: r2 =>
          if col =? 58 then
            match pv (skip_ws r2) with
            | None => None
            | Some (v, r3) =>
              match skip_ws r3 with
              | [] => None
              | c :: r4 =>
                if c =? 44 then match pm r4 with Some (l, r5) => Some ((k, v) :: l, r5) | None => None end
                else if c =? 125 then Some ([(k, v)], r4)
                else None
              end
            end
          else None
        end
      end
    else None
  end.

Fixpoint parse_value (fuel : nat) (s : list N) {struct fuel} : option (json * list N) :=
  match fuel with
  | O => None
  | S k => value_body (parse_elems k) (parse_members k) s
  end
with parse_elems (fuel : nat) (s : list N) {struct fuel} : option (list json * list N) :=
  match fuel with
  | O => None
  | S k => elems_body (parse_value k) (parse_elems k) s
  end
with parse_members (fuel : nat) (s : list N) {struct fuel} : option (list (list N * json) * list N) :=
  match fuel with
  | O => None
  | S k => members_body (parse_value k) (parse_members k) s
  end.

Definition parse (s : list N) : option json :=
  match parse_value (S (length s)) (skip_ws s) with
  | Some (v, r) => match skip_ws r with [] => Some v | _ => None end
  | None => None
  end.

(* ------------------------------------------------------------------ well-formed values (domain of the round trip) *)
Definition wf_char (c : N) : bool := c <=? max_code.
Definition wf_str (s : list N) : bool := forallb wf_char s.

Fixpoint wfb (v : json) : bool :=
  match v with
  | JNull | JBool _ | JInt _ => true
  | JDec _ _ => false
  | JStr s => wf_str s
  | JArr l => forallb wfb l
  | JObj l => forallb (fun kv => let '(k, x) := kv in wf_str k && wfb x) l
  end.
Definition wf (v : json) : Prop := wfb v = true.

(* ------------------------------------------------------------------ equality, terms, comparison functions *)
Fixpoint json_eqb (a b : json) : bool :=
  match a, b with
  | JNull, JNull => true
  | JBool x, JBool y => Bool.eqb x y
  | JInt x, JInt y => Z.eqb x y
  | JDec m e, JDec m' e' => Z.eqb m m' && Z.eqb e e'
  | JStr s, JStr s' => name_eqb s s'
  | JArr l, JArr l' =>
      (fix go (l l' : list json) : bool :=
         match l, l' with
         | [], [] => true
         | x :: r, y :: r' => json_eqb x y && go r r'
         | _, _ => false
         end) l l'
  | JObj l, JObj l' =>
      (fix go (l l' : list (list N * json)) : bool :=
         match l, l' with
         | [], [] => true
         | (k, x) :: r, (k', y) :: r' => name_eqb k k' && json_eqb x y && go r r'
         | _, _ => false
         end) l l'
  | _, _ => false
  end.

Definition a_null : list N := [110; 117; 108; 108].
Definition a_true : list N := [116; 114; 117; 101].
Definition a_false : list N := [102; 97; 108; 115; 101].
Definition f_boolean : list N := [98; 111; 111; 108; 101; 97; 110].
Definition f_number : list N := [110; 117; 109; 98; 101; 114].
Definition f_string : list N := [115; 116; 114; 105; 110; 103].
Definition f_list : list N := [108; 105; 115; 116].
Definition f_pairs : list N := [112; 97; 105; 114; 115].
Definition f_minus : list N := [45].

(* the documented term form of a value (JDec has no exact term: it becomes number(Float); mapped to a marker) *)
Fixpoint to_term (v : json) : term :=
  match v with
  | JNull => Atom a_null
  | JBool b => Cmp f_boolean [Atom (if b then a_true else a_false)]
  | JInt z => Cmp f_number [Int z]
  | JDec m e => Cmp f_number [Cmp [100; 101; 99] [Int m; Int e]]
  | JStr s => Cmp f_string [tstring s]
  | JArr l => Cmp f_list [tlist (map to_term l)]
  | JObj l => Cmp f_pairs [tlist (map (fun kv => let '(k, x) := kv in Cmp f_minus [Cmp f_string [tstring k]; to_term x]) l)]
  end.

Definition codes_eqb : list N -> list N -> bool := name_eqb.

Definition parses_to (text : list N) (v : json) : bool :=
  match parse text with Some v' => json_eqb v' v | None => false end.
Definition is_none {A} (o : option A) : bool := match o with None => true | Some _ => false end.

(* compact transport form of an implementation term (the harness sends strings as code-point lists instead of
   '.'/2 chains of one-character atoms); expand gives the term of Base.Term that is compared *)
Inductive cterm :=
| CVar
| CInt (z : Z)
| CFlt (bits : Z)
| CRat (n d : Z)
| CAtom (s : list N)
| CStr (s : list N)
| CList (l : list cterm)
| CCmp (f : list N) (args : list cterm).

Fixpoint expand (c : cterm) : term :=
  match c with
  | CVar => Var 0
  | CInt z => Int z
  | CFlt b => Flt b
  | CRat n d => Rat n d
  | CAtom s => Atom s
  | CStr s => tstring s
  | CList l => tlist (map expand l)
  | CCmp f a => Cmp f (map expand a)
  end.

(* (i)  the Python-side text is the model's print of v, and the implementation parsed it to exactly v's term *)
Definition check_model_text (v : json) (text : list N) (impl_term : cterm) : bool :=
  codes_eqb (print v) text && term_eqb (expand impl_term) (to_term v).
(* (ii) the model parses the implementation's generated text to exactly v;
   (iii) the implementation parsed its own text back to v's term *)
Definition check_impl_text (v : json) (impl_text : list N) (impl_term : cterm) : bool :=
  parses_to impl_text v && term_eqb (expand impl_term) (to_term v).
(* free-form valid text (whitespace, alternative escapes, exponents): model and implementation both give v *)
Definition check_valid_text (v : json) (text : list N) (impl_term : cterm) : bool :=
  parses_to text v && term_eqb (expand impl_term) (to_term v).
Definition model_accepts (text : list N) : bool := negb (is_none (parse text)).
(* malformed stream: the implementation's verdict (accepted = produced a term) equals the model's *)
Definition check_verdict (text : list N) (impl_accepted : bool) : bool :=
  Bool.eqb (model_accepts text) impl_accepted.

(* number texts that the library turns into floats: the model parses to the exact decimal m*10^e and the
   implementation's float (IEEE bits) must be within relative 2^-50 of it (exactly 0 when m = 0). *)
Definition float_close (m e : Z) (bits : Z) : bool :=
  let neg := (bits / 2 ^ 63 =? 1)%Z in
  let ex := ((bits / 2 ^ 52) mod 2 ^ 11)%Z in
  let man := (bits mod 2 ^ 52)%Z in
  if (ex =? 2047)%Z then false
  else
    let M := (if (ex =? 0)%Z then man else 2 ^ 52 + man)%Z in
    let E := (if (ex =? 0)%Z then -1074 else ex - 1075)%Z in
    let Ms := (if neg then - M else M)%Z in
    let A := (Ms * 2 ^ (Z.max E 0) * 10 ^ (Z.max (- e) 0))%Z in
    let B := (m * 10 ^ (Z.max e 0) * 2 ^ (Z.max (- E) 0))%Z in
    (Z.abs (A - B) * 2 ^ 50 <=? Z.abs B)%Z.
Definition check_dec_text (text : list N) (bits : Z) : bool :=
  match parse text with
  | Some (JDec m e) => float_close m e bits
  | _ => false
  end.
