(* C41 -- every \uXXXX escape and every surrogate pair decodes to the denoted character. *)
From Coq Require Import ZArith NArith List Bool Lia.
From V Require Import Base.Term C41.Model C41.Strings.
Import ListNotations.
Open Scope N_scope.

Ltac Zify.zify_post_hook ::= Z.to_euclidean_division_equations.

Lemma hex4_u4 : forall u, u < 65536 ->
  hex4 (hexd (u / 4096)) (hexd ((u / 256) mod 16)) (hexd ((u / 16) mod 16)) (hexd (u mod 16)) = Some u.
Proof.
  intros u H. unfold hex4.
  rewrite (hexv_hexd (u / 4096)) by lia.
  rewrite (hexv_hexd ((u / 256) mod 16)) by lia.
  rewrite (hexv_hexd ((u / 16) mod 16)) by lia.
  rewrite (hexv_hexd (u mod 16)) by lia.
  f_equal. lia.
Qed.

Lemma parse_chars_u : forall a b c d r2,
  parse_chars (92 :: 117 :: a :: b :: c :: d :: r2) =
  match hex4 a b c d with
  | None => None
  | Some u =>
    if is_high u then
      match r2 with
      | bs :: uu :: a' :: b' :: c' :: d' :: r3 =>
        if (bs =? 92) && (uu =? 117) then
          match hex4 a' b' c' d' with
          | None => None
          | Some lo => if is_low lo then cons_res (combine_surr u lo) (parse_chars r3) else None
          end
        else None
      | _ => None
      end
    else if is_low u then None
    else cons_res u (parse_chars r2)
  end.
Proof. reflexivity. Qed.

Lemma esc_char_step : forall c s, scalar c = true ->
  parse_chars (esc_char c ++ s) = cons_res c (parse_chars s).
Proof.
  intros c s H. unfold scalar in H. apply andb_true_iff in H. destruct H as [Hm Hs].
  apply N.leb_le in Hm. unfold max_code in Hm.
  apply negb_true_iff in Hs. apply orb_false_iff in Hs. destruct Hs as [Hh Hl].
  unfold esc_char. destruct (N.ltb_spec c 65536) as [L|L].
  - unfold esc_u4. cbn [app]. rewrite parse_chars_u. rewrite (hex4_u4 c L). rewrite Hh, Hl. reflexivity.
  - set (hi := 55296 + (c - 65536) / 1024). set (lo := 56320 + (c - 65536) mod 1024).
    assert (Hhi : hi < 65536) by (unfold hi; lia).
    assert (Hlo : lo < 65536) by (unfold lo; lia).
    unfold esc_u4. cbn [app]. rewrite parse_chars_u. rewrite (hex4_u4 hi Hhi).
    assert (E1 : is_high hi = true).
    { unfold is_high. apply andb_true_iff. split; apply N.leb_le; unfold hi; lia. }
    rewrite E1. change (92 =? 92) with true. change (117 =? 117) with true. cbn [andb].
    rewrite (hex4_u4 lo Hlo).
    assert (E2 : is_low lo = true).
    { unfold is_low. apply andb_true_iff. split; apply N.leb_le; unfold lo; lia. }
    rewrite E2.
    assert (E3 : combine_surr hi lo = c) by (unfold combine_surr, hi, lo; lia).
    rewrite E3. reflexivity.
Qed.

Lemma escaped_string_proof : forall cs rest, forallb scalar cs = true ->
  parse_chars (print_chars_esc cs ++ 34 :: rest) = Some (cs, rest).
Proof.
  induction cs as [|c cs IH]; intros rest H.
  - reflexivity.
  - cbn [forallb] in H. apply andb_true_iff in H. destruct H as [Hc Hcs].
    unfold print_chars_esc. cbn [flat_map]. rewrite <- app_assoc.
    rewrite (esc_char_step c _ Hc).
    fold (print_chars_esc cs). rewrite (IH rest Hcs). reflexivity.
Qed.

Lemma escaped_document_proof : forall cs, forallb scalar cs = true ->
  parse (34 :: print_chars_esc cs ++ [34]) = Some (JStr cs).
Proof.
  intros cs H. unfold parse.
  change (skip_ws (34 :: print_chars_esc cs ++ [34])) with (34 :: print_chars_esc cs ++ [34]).
  cbn [parse_value]. unfold value_body.
  change (34 =? 110) with false. change (34 =? 116) with false. change (34 =? 102) with false.
  change (34 =? 34) with true. cbv iota.
  rewrite (escaped_string_proof cs [] H). reflexivity.
Qed.
