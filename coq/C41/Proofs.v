(* C41 -- nested values: parse (print v) = Some v, by nested induction; rejection lemmas. *)
From Coq Require Import ZArith NArith List Bool Lia.
From V Require Import Base.Term C41.Model C41.Strings C41.Numbers.
Import ListNotations.
Open Scope N_scope.

(* ================================================================== induction principle for the nested datatype *)
Section json_ind_nested.
  Variable P : json -> Prop.
  Hypothesis HNull : P JNull.
  Hypothesis HBool : forall b, P (JBool b).
  Hypothesis HInt : forall z, P (JInt z).
  Hypothesis HDec : forall m e, P (JDec m e).
  Hypothesis HStr : forall s, P (JStr s).
  Hypothesis HArr : forall l, Forall P l -> P (JArr l).
  Hypothesis HObj : forall l, Forall (fun kv => P (snd kv)) l -> P (JObj l).
  Fixpoint json_ind' (v : json) : P v :=
    match v with
    | JNull => HNull
    | JBool b => HBool b
    | JInt z => HInt z
    | JDec m e => HDec m e
    | JStr s => HStr s
    | JArr l => HArr l ((fix go (l : list json) : Forall P l :=
                           match l with
                           | [] => Forall_nil P
                           | x :: r => Forall_cons x (json_ind' x) (go r)
                           end) l)
    | JObj l => HObj l ((fix go (l : list (list N * json)) : Forall (fun kv => P (snd kv)) l :=
                           match l with
                           | [] => Forall_nil _
                           | kv :: r => Forall_cons kv
                                          (match kv as p return P (snd p) with (k, x) => json_ind' x end) (go r)
                           end) l)
    end.
End json_ind_nested.

(* ================================================================== unfolding lemmas *)
Definition print_member (kv : list N * json) : list N := let '(k, x) := kv in print_str k ++ 58 :: print x.

Lemma print_arr : forall l, print (JArr l) = 91 :: join (map print l) ++ [93].
Proof. reflexivity. Qed.
Lemma print_obj : forall l, print (JObj l) = 123 :: join (map print_member l) ++ [125].
Proof. reflexivity. Qed.

Lemma parse_value_S : forall k s, parse_value (S k) s = value_body (parse_elems k) (parse_members k) s.
Proof. reflexivity. Qed.
Lemma parse_elems_S : forall k s, parse_elems (S k) s = elems_body (parse_value k) (parse_elems k) s.
Proof. reflexivity. Qed.
Lemma parse_members_S : forall k s, parse_members (S k) s = members_body (parse_value k) (parse_members k) s.
Proof. reflexivity. Qed.

Lemma join_cons_ne : forall x r, r <> [] -> join (x :: r) = x ++ 44 :: join r.
Proof. intros x [|y r] H; [congruence | reflexivity]. Qed.
Lemma join_single : forall x, join [x] = x.
Proof. reflexivity. Qed.

Lemma join_head : forall x r c t, x = c :: t -> exists t', join (x :: r) = c :: t'.
Proof.
  intros x [|y r] c t E.
  - exists t. rewrite join_single. exact E.
  - rewrite join_cons_ne by discriminate. rewrite E. eexists. reflexivity.
Qed.

(* ================================================================== first characters *)
Definition is_start (c : N) : bool :=
  (c =? 110) || (c =? 116) || (c =? 102) || (c =? 34) || (c =? 91) || (c =? 123) || (c =? 45) || is_digit c.

Lemma start_props : forall c, is_start c = true ->
  is_ws c = false /\ (c =? 93) = false /\ (c =? 125) = false /\ (c =? 44) = false.
Proof.
  intros c H. unfold is_start, is_digit in H.
  repeat rewrite orb_true_iff in H. rewrite andb_true_iff in H.
  repeat rewrite N.eqb_eq in H. repeat rewrite N.leb_le in H.
  unfold is_ws.
  repeat split;
    repeat match goal with
           | |- context [?a =? ?b] => destruct (N.eqb_spec a b); [exfalso; lia|]
           end; reflexivity.
Qed.

Lemma print_head : forall v, wf v -> exists c t, print v = c :: t /\ is_start c = true.
Proof.
  intros v Hwf. destruct v as [|b|z|m e|s|l|l].
  - exists 110, [117; 108; 108]. split; reflexivity.
  - destruct b.
    + exists 116, [114; 117; 101]. split; reflexivity.
    + exists 102, [97; 108; 115; 101]. split; reflexivity.
  - destruct (print_int_head z) as [c [t [E Hc]]]. exists c, t. split; [exact E|].
    destruct Hc as [Hc|Hc].
    + subst c. reflexivity.
    + unfold is_start. rewrite Hc. repeat rewrite orb_true_r. reflexivity.
  - discriminate Hwf.
  - exists 34, (print_chars s ++ [34]). split; reflexivity.
  - exists 91, (join (map print l) ++ [93]). split; reflexivity.
  - exists 123, (join (map print_member l) ++ [125]). split; reflexivity.
Qed.

Definition ok_rest (rest : list N) : bool :=
  match rest with
  | [] => true
  | c :: _ => (c =? 44) || (c =? 93) || (c =? 125)
  end.

Lemma ok_rest_num_end : forall rest, ok_rest rest = true -> num_end rest.
Proof.
  intros [|c r] H; [exact I|]. unfold ok_rest in H.
  repeat rewrite orb_true_iff in H. repeat rewrite N.eqb_eq in H.
  unfold num_end, is_digit. repeat split.
  - apply andb_false_iff. destruct (N.leb_spec 48 c); [right | left; reflexivity]. apply N.leb_gt. lia.
  - lia.
  - lia.
  - lia.
Qed.

(* ================================================================== value_body on each first character *)
Lemma value_body_str : forall pe pm r,
  value_body pe pm (34 :: r) = match parse_chars r with Some (cs, r') => Some (JStr cs, r') | None => None end.
Proof. reflexivity. Qed.

Lemma value_body_arr : forall pe pm r,
  value_body pe pm (91 :: r) =
  match skip_ws r with
  | [] => None
  | c1 :: r2 => if c1 =? 93 then Some (JArr [], r2)
                else match pe (c1 :: r2) with Some (l, r3) => Some (JArr l, r3) | None => None end
  end.
Proof. reflexivity. Qed.

Lemma value_body_obj : forall pe pm r,
  value_body pe pm (123 :: r) =
  match skip_ws r with
  | [] => None
  | c1 :: r2 => if c1 =? 125 then Some (JObj [], r2)
                else match pm (c1 :: r2) with Some (l, r3) => Some (JObj l, r3) | None => None end
  end.
Proof. reflexivity. Qed.

Lemma value_body_num : forall pe pm c t, (c = 45 \/ is_digit c = true) ->
  value_body pe pm (c :: t) = parse_number (c :: t).
Proof.
  intros pe pm c t H. unfold is_digit in H. rewrite andb_true_iff in H. repeat rewrite N.leb_le in H.
  unfold value_body.
  repeat match goal with
         | |- context [c =? ?b] => destruct (N.eqb_spec c b); [exfalso; lia|]
         end.
  reflexivity.
Qed.

Lemma elems_body_step : forall pv pe s v r, pv (skip_ws s) = Some (v, 44 :: r) ->
  elems_body pv pe s = match pe r with Some (l, r2) => Some (v :: l, r2) | None => None end.
Proof. intros pv pe s v r H. unfold elems_body. rewrite H. reflexivity. Qed.

Lemma elems_body_last : forall pv pe s v r, pv (skip_ws s) = Some (v, 93 :: r) ->
  elems_body pv pe s = Some ([v], r).
Proof. intros pv pe s v r H. unfold elems_body. rewrite H. reflexivity. Qed.

Lemma members_body_key : forall pv pm k s2, wf_str k = true ->
  members_body pv pm (print_str k ++ 58 :: s2) =
  match pv (skip_ws s2) with
  | None => None
  | Some (v, r3) =>
    match skip_ws r3 with
    | [] => None
    | c :: r4 =>
      if c =? 44 then match pm r4 with Some (l, r5) => Some ((k, v) :: l, r5) | None => None end
      else if c =? 125 then Some ([(k, v)], r4)
      else None
    end
  end.
Proof.
  intros pv pm k s2 Hk. unfold print_str. cbn [app]. rewrite <- app_assoc. cbn [app].
  unfold members_body.
  change (skip_ws (34 :: print_chars k ++ 34 :: 58 :: s2)) with (34 :: print_chars k ++ 34 :: 58 :: s2).
  change (34 =? 34) with true. cbv iota.
  rewrite (parse_chars_print k (58 :: s2) Hk).
  reflexivity.
Qed.

(* ================================================================== the round trip *)
Definition RT (v : json) : Prop :=
  forall f rest, ok_rest rest = true -> (length (print v) <= f)%nat ->
                 parse_value f (print v ++ rest) = Some (v, rest).

Lemma skip_ws_print : forall v r, wf v -> skip_ws (print v ++ r) = print v ++ r.
Proof.
  intros v r Hwf. destruct (print_head v Hwf) as [c [t [E Hs]]].
  destruct (start_props c Hs) as [Hws _]. rewrite E. cbn [app skip_ws]. rewrite Hws. reflexivity.
Qed.

Lemma elems_rt : forall l, l <> [] -> Forall (fun v => wf v /\ RT v) l ->
  forall f rest, (length (join (map print l)) + 1 <= f)%nat ->
  parse_elems f (join (map print l) ++ 93 :: rest) = Some (l, rest).
Proof.
  induction l as [|e es IH]; intros Hne HF f rest Hf; [congruence|].
  inversion HF as [|? ? [Hwf Hrt] HF']; subst.
  destruct f as [|k]; [lia|]. rewrite parse_elems_S.
  destruct es as [|e2 es'].
  - cbn [map] in *. rewrite join_single in *.
    apply elems_body_last. rewrite (skip_ws_print e _ Hwf).
    apply Hrt; [reflexivity | lia].
  - remember (e2 :: es') as l2 eqn:El2.
    assert (Hl2 : l2 <> []) by (subst l2; discriminate).
    assert (Hm : map print l2 <> []) by (subst l2; discriminate).
    cbn [map] in *. rewrite (join_cons_ne _ _ Hm) in *.
    rewrite app_length in Hf. cbn [length] in Hf.
    rewrite <- app_assoc. cbn [app].
    rewrite (elems_body_step _ _ _ e (join (map print l2) ++ 93 :: rest)).
    + rewrite (IH Hl2 HF' k rest) by lia. reflexivity.
    + rewrite (skip_ws_print e _ Hwf). apply Hrt; [reflexivity | lia].
Qed.

Definition member_ok (kv : list N * json) : Prop := wf_str (fst kv) = true /\ wf (snd kv) /\ RT (snd kv).

Lemma member_rt_step : forall k x f rest, member_ok (k, x) -> ok_rest rest = true ->
  (length (print_member (k, x)) <= f)%nat ->
  parse_value f (skip_ws (print x ++ rest)) = Some (x, rest).
Proof.
  intros k x f rest [Hk [Hwf Hrt]] Hok Hf. cbn [fst snd] in *.
  rewrite (skip_ws_print x _ Hwf). apply Hrt; [exact Hok|].
  unfold print_member in Hf. rewrite app_length in Hf. cbn [length] in Hf. lia.
Qed.

Lemma members_rt : forall l, l <> [] -> Forall member_ok l ->
  forall f rest, (length (join (map print_member l)) + 1 <= f)%nat ->
  parse_members f (join (map print_member l) ++ 125 :: rest) = Some (l, rest).
Proof.
  induction l as [|[k x] es IH]; intros Hne HF f rest Hf; [congruence|].
  inversion HF as [|? ? Hm HF']; subst.
  destruct f as [|f']; [lia|]. rewrite parse_members_S.
  destruct es as [|e2 es'].
  - cbn [map] in *. rewrite join_single in *.
    unfold print_member at 1. rewrite <- app_assoc. cbn [app].
    rewrite (members_body_key _ _ k _ (proj1 Hm)).
    rewrite (member_rt_step k x f' (125 :: rest) Hm); [reflexivity | reflexivity | lia].
  - remember (e2 :: es') as l2 eqn:El2.
    assert (Hl2 : l2 <> []) by (subst l2; discriminate).
    assert (Hmp : map print_member l2 <> []) by (subst l2; discriminate).
    cbn [map] in *. rewrite (join_cons_ne _ _ Hmp) in *.
    rewrite app_length in Hf. cbn [length] in Hf.
    rewrite <- app_assoc. cbn [app].
    unfold print_member at 1. rewrite <- app_assoc. cbn [app].
    rewrite (members_body_key _ _ k _ (proj1 Hm)).
    rewrite (member_rt_step k x f' (44 :: join (map print_member l2) ++ 125 :: rest) Hm); [| reflexivity | lia].
    cbn [skip_ws]. change (is_ws 44) with false. cbv iota. change (44 =? 44) with true. cbv iota.
    rewrite (IH Hl2 HF' f' rest) by lia. reflexivity.
Qed.

Lemma wf_arr_forall : forall l, wf (JArr l) -> Forall wf l.
Proof.
  intros l H. unfold wf in H. cbn [wfb] in H. rewrite forallb_forall in H.
  apply Forall_forall. intros x Hx. apply H. exact Hx.
Qed.

Lemma wf_obj_forall : forall l, wf (JObj l) -> Forall (fun kv => wf_str (fst kv) = true /\ wf (snd kv)) l.
Proof.
  intros l H. unfold wf in H. cbn [wfb] in H. rewrite forallb_forall in H.
  apply Forall_forall. intros [k x] Hx. specialize (H _ Hx). cbn beta iota in H.
  apply andb_true_iff in H. exact H.
Qed.

Lemma Forall_combine : forall A (P Q : A -> Prop) l, Forall P l -> Forall (fun x => P x -> Q x) l ->
  Forall (fun x => P x /\ Q x) l.
Proof.
  intros A P Q l HP. induction HP as [|x r Hx Hr IH]; intros HQ; constructor.
  - inversion HQ; subst. split; auto.
  - inversion HQ; subst. apply IH. assumption.
Qed.

Lemma value_rt : forall v, wf v -> RT v.
Proof.
  induction v as [|b|z|m e|s|l IHl|l IHl] using json_ind'; intros Hwf f rest Hok Hlen.
  - destruct f as [|k]; [cbn in Hlen; lia|]. reflexivity.
  - destruct b; (destruct f as [|k]; [cbn in Hlen; lia|]); reflexivity.
  - destruct (print_int_head z) as [c [t [E Hc]]].
    cbn [print] in *. destruct f as [|k]; [rewrite E in Hlen; cbn [length] in Hlen; lia|].
    rewrite parse_value_S. rewrite E. cbn [app]. rewrite (value_body_num _ _ c _ Hc).
    change (c :: t ++ rest) with ((c :: t) ++ rest). rewrite <- E.
    apply parse_number_int. apply ok_rest_num_end. exact Hok.
  - discriminate Hwf.
  - destruct f as [|k]; [cbn in Hlen; lia|].
    cbn [print]. unfold print_str. cbn [app]. rewrite <- app_assoc. cbn [app].
    rewrite parse_value_S, value_body_str.
    rewrite (parse_chars_print s rest Hwf). reflexivity.
  - destruct l as [|e es].
    + destruct f as [|k]; [cbn in Hlen; lia|]. reflexivity.
    + assert (HF : Forall (fun v => wf v /\ RT v) (e :: es))
        by (apply Forall_combine; [apply wf_arr_forall; exact Hwf | exact IHl]).
      rewrite print_arr in *. cbn [length] in Hlen. rewrite app_length in Hlen. cbn [length] in Hlen.
      destruct f as [|k]; [lia|].
      cbn [app]. rewrite <- app_assoc. cbn [app].
      rewrite parse_value_S, value_body_arr.
      assert (Hwe : wf e) by (inversion HF as [|? ? [H1 _] _]; exact H1).
      destruct (print_head e Hwe) as [c [t [Ec Hs]]].
      destruct (start_props c Hs) as [Hws [H93 _]].
      cbn [map]. destruct (join_head (print e) (map print es) c t Ec) as [t' EJ].
      cbn [map] in *.
      assert (Esk : skip_ws (join (print e :: map print es) ++ 93 :: rest) = c :: (t' ++ 93 :: rest))
        by (rewrite EJ; cbn [app skip_ws]; rewrite Hws; reflexivity).
      rewrite Esk. rewrite H93.
      change (c :: t' ++ 93 :: rest) with ((c :: t') ++ 93 :: rest). rewrite <- EJ.
      change (print e :: map print es) with (map print (e :: es)).
      rewrite (elems_rt (e :: es)); [reflexivity | discriminate | exact HF | cbn [map]; lia].
  - destruct l as [|[k0 x0] es].
    + destruct f as [|k]; [cbn in Hlen; lia|]. reflexivity.
    + assert (HF : Forall member_ok ((k0, x0) :: es)).
      { pose proof (wf_obj_forall _ Hwf) as HW. clear - HW IHl.
        induction HW as [|kv r [H1 H2] Hr IH]; constructor.
        - inversion IHl; subst. split; [exact H1|]. split; [exact H2|]. auto.
        - inversion IHl; subst. apply IH. assumption. }
      rewrite print_obj in *. cbn [length] in Hlen. rewrite app_length in Hlen. cbn [length] in Hlen.
      destruct f as [|k]; [lia|].
      cbn [app]. rewrite <- app_assoc. cbn [app].
      rewrite parse_value_S, value_body_obj.
      assert (Ec : print_member (k0, x0) = 34 :: (print_chars k0 ++ [34]) ++ 58 :: print x0) by reflexivity.
      cbn [map]. destruct (join_head (print_member (k0, x0)) (map print_member es) 34 _ Ec) as [t' EJ].
      cbn [map] in *.
      assert (Esk : skip_ws (join (print_member (k0, x0) :: map print_member es) ++ 125 :: rest)
                    = 34 :: (t' ++ 125 :: rest))
        by (rewrite EJ; reflexivity).
      rewrite Esk. change (34 =? 125) with false. cbv iota.
      change (34 :: t' ++ 125 :: rest) with ((34 :: t') ++ 125 :: rest). rewrite <- EJ.
      change (print_member (k0, x0) :: map print_member es) with (map print_member ((k0, x0) :: es)).
      rewrite (members_rt ((k0, x0) :: es)); [reflexivity | discriminate | exact HF | cbn [map]; lia].
Qed.

Lemma print_nonempty_fuel : forall v rest, (length (print v) <= S (length (print v ++ rest)))%nat.
Proof. intros v rest. rewrite app_length. lia. Qed.

Lemma parse_print_rest : forall v rest, wf v -> ok_rest rest = true ->
  parse_value (S (length (print v ++ rest))) (skip_ws (print v ++ rest)) = Some (v, rest).
Proof.
  intros v rest Hwf Hok. rewrite (skip_ws_print v rest Hwf).
  apply (value_rt v Hwf); [exact Hok | apply print_nonempty_fuel].
Qed.

Lemma json_parse_print_proof : forall v, wf v -> parse (print v) = Some v.
Proof.
  intros v Hwf. unfold parse.
  pose proof (parse_print_rest v [] Hwf eq_refl) as H. rewrite app_nil_r in H. rewrite H. reflexivity.
Qed.
