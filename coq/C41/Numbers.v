(* C41 -- integer literals: print_int / parse_number round trip for every Z. *)
From Coq Require Import ZArith NArith List Bool Lia.
From V Require Import Base.Term C41.Model.
Import ListNotations.
Open Scope N_scope.

Ltac Zify.zify_post_hook ::= Z.to_euclidean_division_equations.

Definition rval (l : list N) : N := fold_right (fun c a => 10 * a + (c - 48)) 0 l.

Lemma dval_rev : forall l, dval (rev l) = rval l.
Proof.
  intros l. unfold dval, rval.
  rewrite <- (rev_involutive l) at 2.
  rewrite (fold_left_rev_right (fun c a => 10 * a + (c - 48)) (rev l) 0). reflexivity.
Qed.

Lemma rval_cons : forall x t, rval (x :: t) = 10 * rval t + (x - 48).
Proof. reflexivity. Qed.

Lemma pow2_succ : forall k, 2 ^ N.of_nat (S k) = 2 * 2 ^ N.of_nat k.
Proof. intros k. rewrite Nat2N.inj_succ. apply N.pow_succ_r'. Qed.

Lemma rdigits_val : forall f n, n < 2 ^ N.of_nat f -> rval (rdigits f n) = n.
Proof.
  induction f as [|k IH]; intros n H.
  - change (2 ^ N.of_nat 0) with 1 in H. assert (E : n = 0) by lia. subst n. reflexivity.
  - rewrite pow2_succ in H. cbn [rdigits]. rewrite rval_cons.
    destruct (N.eqb_spec (n / 10) 0) as [E|NE].
    + change (rval []) with 0. lia.
    + rewrite IH by lia. lia.
Qed.

Lemma rdigits_digits : forall f n, Forall (fun c => is_digit c = true) (rdigits f n).
Proof.
  induction f as [|k IH]; intros n.
  - constructor.
  - cbn [rdigits]. constructor.
    + unfold is_digit. apply andb_true_iff. split; apply N.leb_le; lia.
    + destruct (n / 10 =? 0); [constructor | apply IH].
Qed.

Lemma rdigits_last : forall f n, n <> 0 -> n < 2 ^ N.of_nat f ->
  exists l d, rdigits f n = l ++ [d] /\ d <> 48.
Proof.
  induction f as [|k IH]; intros n Hn H.
  - change (2 ^ N.of_nat 0) with 1 in H. lia.
  - rewrite pow2_succ in H. cbn [rdigits].
    destruct (N.eqb_spec (n / 10) 0) as [E|NE].
    + exists [], (48 + n mod 10). split; [reflexivity | lia].
    + destruct (IH (n / 10) NE) as [l [d [E1 E2]]]; [lia|].
      exists ((48 + n mod 10) :: l), d. rewrite E1. split; [reflexivity | exact E2].
Qed.

Lemma digits_fuel_ok : forall n, n < 2 ^ N.of_nat (S (N.to_nat (N.log2 n))).
Proof.
  intros n. rewrite Nat2N.inj_succ, N2Nat.id.
  destruct (N.eq_dec n 0) as [E|NE].
  - subst n. reflexivity.
  - apply N.log2_spec. lia.
Qed.

Lemma digits_val : forall n, dval (digits n) = n.
Proof. intros n. unfold digits. rewrite dval_rev. apply rdigits_val. apply digits_fuel_ok. Qed.

Lemma digits_all : forall n, Forall (fun c => is_digit c = true) (digits n).
Proof. intros n. unfold digits. apply Forall_rev. apply rdigits_digits. Qed.

Lemma digits_head : forall n, exists d t, digits n = d :: t /\ is_digit d = true /\ leading_zero (d :: t) = false.
Proof.
  intros n. destruct (N.eq_dec n 0) as [E|NE].
  - subst n. exists 48, []. repeat split.
  - destruct (rdigits_last _ n NE (digits_fuel_ok n)) as [l [d [E1 E2]]].
    pose proof (digits_all n) as HA.
    unfold digits in *. rewrite E1 in *. rewrite rev_app_distr in *. cbn [rev app] in *.
    exists d, (rev l). split; [reflexivity|]. split.
    + inversion HA; assumption.
    + unfold leading_zero. destruct (rev l); [reflexivity | apply N.eqb_neq; exact E2].
Qed.

(* what may follow a number *)
Definition num_end (rest : list N) : Prop :=
  match rest with
  | [] => True
  | c :: _ => is_digit c = false /\ c <> 46 /\ c <> 101 /\ c <> 69
  end.

Lemma take_digits_app : forall ds rest, Forall (fun c => is_digit c = true) ds -> num_end rest ->
  take_digits (ds ++ rest) = (ds, rest).
Proof.
  induction ds as [|d t IH]; intros rest HA HE.
  - cbn [app]. destruct rest as [|c r]; [reflexivity|].
    cbn [take_digits]. destruct HE as [HE _]. rewrite HE. reflexivity.
  - inversion HA as [|? ? Hd Ht]; subst. cbn [app take_digits]. rewrite Hd. rewrite (IH rest Ht HE). reflexivity.
Qed.

Lemma parse_frac_none : forall rest, num_end rest -> parse_frac rest = Some ([], rest).
Proof.
  intros [|c r] H; [reflexivity|]. destruct H as [_ [H _]].
  unfold parse_frac. rewrite (proj2 (N.eqb_neq c 46) H). reflexivity.
Qed.

Lemma parse_exp_none : forall rest, num_end rest -> parse_exp rest = Some (None, rest).
Proof.
  intros [|c r] H; [reflexivity|]. destruct H as [_ [_ [H1 H2]]].
  unfold parse_exp. rewrite (proj2 (N.eqb_neq c 101) H1), (proj2 (N.eqb_neq c 69) H2). reflexivity.
Qed.

Lemma parse_number_digits : forall (neg : bool) d t rest,
  Forall (fun c => is_digit c = true) (d :: t) -> leading_zero (d :: t) = false -> num_end rest ->
  parse_number ((if neg then [45] else []) ++ (d :: t) ++ rest) =
  Some (JInt ((if neg then -1 else 1) * Z.of_N (dval (d :: t)) * 10 ^ 0)%Z, rest).
Proof.
  intros neg d t rest HA HL HE.
  assert (Hd : (d =? 45) = false).
  { inversion HA as [|? ? Hd _]; subst. unfold is_digit in Hd. apply andb_true_iff in Hd.
    destruct Hd as [Hd _]. apply N.leb_le in Hd. apply N.eqb_neq. lia. }
  unfold parse_number. destruct neg; cbn [app].
  - change (45 =? 45) with true. cbv iota beta.
    change (d :: t ++ rest) with ((d :: t) ++ rest).
    rewrite (take_digits_app (d :: t) rest HA HE). cbv iota beta.
    rewrite HL. rewrite (parse_frac_none rest HE). cbv iota beta.
    rewrite (parse_exp_none rest HE). cbv iota beta.
    reflexivity.
  - rewrite Hd. cbv iota beta.
    change (d :: t ++ rest) with ((d :: t) ++ rest).
    rewrite (take_digits_app (d :: t) rest HA HE). cbv iota beta.
    rewrite HL. rewrite (parse_frac_none rest HE). cbv iota beta.
    rewrite (parse_exp_none rest HE). cbv iota beta.
    reflexivity.
Qed.

Lemma parse_number_int : forall z rest, num_end rest ->
  parse_number (print_int z ++ rest) = Some (JInt z, rest).
Proof.
  intros z rest HE.
  destruct (digits_head (Z.abs_N z)) as [d [t [E [Hd HL]]]].
  pose proof (digits_all (Z.abs_N z)) as HA. pose proof (digits_val (Z.abs_N z)) as HV.
  rewrite E in HA, HV.
  unfold print_int. rewrite E. destruct (Z.ltb_spec z 0) as [L|L].
  - etransitivity; [exact (parse_number_digits true d t rest HA HL HE)|]. rewrite HV.
    assert (EZ : (-1 * Z.of_N (Z.abs_N z) * 10 ^ 0)%Z = z)
      by (rewrite N2Z.inj_abs_N; change (10 ^ 0)%Z with 1%Z; lia).
    rewrite EZ. reflexivity.
  - etransitivity; [exact (parse_number_digits false d t rest HA HL HE)|]. rewrite HV.
    assert (EZ : (1 * Z.of_N (Z.abs_N z) * 10 ^ 0)%Z = z)
      by (rewrite N2Z.inj_abs_N; change (10 ^ 0)%Z with 1%Z; lia).
    rewrite EZ. reflexivity.
Qed.

(* head of an integer literal *)
Lemma print_int_head : forall z, exists c t, print_int z = c :: t /\ (c = 45 \/ is_digit c = true).
Proof.
  intros z. destruct (digits_head (Z.abs_N z)) as [d [t [E [Hd _]]]].
  unfold print_int. rewrite E. destruct (z <? 0)%Z.
  - exists 45, (d :: t). split; [reflexivity | left; reflexivity].
  - exists d, t. split; [reflexivity | right; exact Hd].
Qed.
