(* C15 -- printed terms read back as the same term: the reference writer/reader pair for the FUNCTIONAL-notation
   fragment (definitions only).

   write_canonical_ref (coq/C55/Model.v): atoms quoted by the C55 rule, f(a,b) notation everywhere (lists as '.'(H,T),
   curly terms as {}(X): exactly the text of write_canonical/1 and write_term(ignore_ops(true), quoted(true))),
   integers of any size with a leading minus sign for negative ones, variables as _G<n>.

   read_canonical_ref: a small recursive-descent reader for exactly that syntax, written over the ISO character tables
   of C55/Model.v (iso_small, iso_alnum, iso_symbol), knowing NO operator. *)
From Coq Require Import NArith ZArith List Bool.
From V Require Import Base.Term Gen.CharClass C55.Model.
Import ListNotations.
Open Scope N_scope.
Open Scope bool_scope.

Fixpoint span (f : N -> bool) (s : list N) : list N * list N :=
  match s with
  | [] => ([], [])
  | c :: r => if f c then let (a, b) := span f r in (c :: a, b) else ([], s)
  end.

Definition is_digit (c : N) : bool := (48 <=? c) && (c <=? 57).
Definition dec_val (ds : list N) : N := fold_left (fun a c => a * 10 + (c - 48)) ds 0.

Definition cons_fst (c : N) (o : option (list N * list N)) : option (list N * list N) :=
  match o with Some (a, b) => Some (c :: a, b) | None => None end.

(* a quoted item: the text after the opening quote -> (the atom's characters, what follows the closing quote) *)
Fixpoint scan (st : ustate) (s : list N) : option (list N * list N) :=
  match s with
  | [] => match st with UQuote => Some ([], []) | _ => None end
  | c :: r =>
    match st with
    | UNorm => if c =? 39 then scan UQuote r
               else if c =? 92 then scan UEsc r
               else if (c <? 32) || (c =? 127) then None
               else cons_fst c (scan UNorm r)
    | UQuote => if c =? 39 then cons_fst 39 (scan UNorm r) else Some ([], c :: r)
    | UEsc => if c =? 120 then scan (UHex None) r
              else match esc_val c with Some v => cons_fst v (scan UNorm r) | None => None end
    | UHex acc =>
        if c =? 92 then match acc with Some v => cons_fst v (scan UNorm r) | None => None end
        else match hex_val c with
             | Some d => scan (UHex (Some (match acc with Some a => a * 16 + d | None => d end))) r
             | None => None
             end
    end
  end.

(* a name token (ISO 6.4.2): quoted item, letter digit token, graphic token (not the end token, not a comment opener),
   or one of the solo atoms [] {} ! ; *)
Definition read_name (s : list N) : option (list N * list N) :=
  match s with
  | [] => None
  | c :: r =>
    if c =? 39 then scan UNorm r
    else if iso_small c then let (a, b) := span iso_alnum r in Some (c :: a, b)
    else if iso_symbol c then
      let (a, b) := span iso_symbol r in
      if starts_comment (c :: a) || name_eq (c :: a) [46] then None else Some (c :: a, b)
    else if c =? 91 then match r with d :: r2 => if d =? 93 then Some ([91; 93], r2) else None | [] => None end
    else if c =? 123 then match r with d :: r2 => if d =? 125 then Some ([123; 125], r2) else None | [] => None end
    else if (c =? 33) || (c =? 59) then Some ([c], r)
    else None
  end.

Definition starts_with_digit (s : list N) : bool := match s with c :: _ => is_digit c | [] => false end.

Fixpoint read_term (fuel : nat) (s : list N) : option (term * list N) :=
  match fuel with
  | O => None
  | S k =>
    match s with
    | [] => None
    | c :: r =>
      if c =? 95 then                                  (* variable _G<n> *)
        match r with
        | g :: r2 => if (g =? 71) && starts_with_digit r2
                     then let (ds, rest) := span is_digit r2 in Some (Var (dec_val ds), rest) else None
        | [] => None
        end
      else if is_digit c then let (ds, rest) := span is_digit s in Some (Int (Z.of_N (dec_val ds)), rest)
      else if (c =? 45) && starts_with_digit r then
        let (ds, rest) := span is_digit r in Some (Int (- Z.of_N (dec_val ds)), rest)
      else
        match read_name s with
        | None => None
        | Some (name, rest) =>
          match rest with
          | d :: rest2 =>
            if d =? 40 then
              match read_args k rest2 with
              | Some (args, rest3) => Some (Cmp name args, rest3)
              | None => None
              end
            else Some (Atom name, rest)
          | [] => Some (Atom name, rest)
          end
        end
    end
  end
with read_args (fuel : nat) (s : list N) : option (list term * list N) :=
  match fuel with
  | O => None
  | S k =>
    match read_term k s with
    | Some (t, d :: rest) =>
      if d =? 44 then
        match read_args k rest with
        | Some (ts, rest2) => Some (t :: ts, rest2)
        | None => None
        end
      else if d =? 41 then Some ([t], rest) else None
    | _ => None
    end
  end.

Definition read_canonical_ref (s : list N) : option term :=
  match read_term (S (length s)) s with
  | Some (t, []) => Some t
  | _ => None
  end.

(* the terms of the fragment: atoms over the modelled alphabet, integers of any size, variables, compounds with at
   least one argument (no floats, no rationals) *)
Inductive wf : term -> Prop :=
| wf_var v : wf (Var v)
| wf_int z : wf (Int z)
| wf_atom s : in_alphabet s -> wf (Atom s)
| wf_cmp f args : in_alphabet f -> args <> [] -> Forall wf args -> wf (Cmp f args).

(* ------------------------------------------------------------------ comparison functions of the correspondence *)
Definition opt_term_eqb (o : option term) (t : term) : bool :=
  match o with Some t' => term_eqb t' t | None => false end.
(* the implementation's ignore_ops/quoted text IS the reference text (so that the implementation reading it back is the
   implementation reading the reference writer's text), and the reference reader reads it to the term *)
Definition check_cross (t : term) (impl_text : list N) : bool :=
  text_eq (write_canonical_ref t) impl_text && opt_term_eqb (read_canonical_ref impl_text) t.
