(* C15 -- lemmas: the reference reader inverts the reference canonical writer *)
From Coq Require Import NArith ZArith List Bool Lia.
From V Require Import Base.Term Gen.CharClass C55.Model C55.Proofs C15.Model.
Import ListNotations.
Open Scope N_scope.
Open Scope bool_scope.

(* ------------------------------------------------------------------ span *)
Definition stops (f : N -> bool) (rest : list N) : Prop := match rest with [] => True | c :: _ => f c = false end.

Lemma span_app f a rest : Forall (fun x => f x = true) a -> stops f rest -> span f (a ++ rest) = (a, rest).
Proof.
  intros H S. induction H as [|x a Hx Ha IH]; cbn [app span].
  - destruct rest as [|c r]; [reflexivity|]. cbn in S. cbn [span]. rewrite S. reflexivity.
  - rewrite Hx, IH. reflexivity.
Qed.

(* what may follow a name / a term in canonical text *)
Definition name_end (rest : list N) : bool := match rest with [] => true | c :: _ => (c =? 40) || (c =? 41) || (c =? 44) end.
Definition term_end (rest : list N) : bool := match rest with [] => true | c :: _ => (c =? 41) || (c =? 44) end.

Lemma term_end_name_end rest : term_end rest = true -> name_end rest = true.
Proof.
  destruct rest as [|c r]; cbn; auto. intros H. apply orb_true_iff in H.
  destruct H as [H|H]; rewrite H; rewrite ?orb_true_r; reflexivity.
Qed.

Lemma name_end_stops (f : N -> bool) rest :
  f 40 = false -> f 41 = false -> f 44 = false -> name_end rest = true -> stops f rest.
Proof.
  intros A B C H. destruct rest as [|c r]; cbn; auto. cbn in H.
  apply orb_true_iff in H. destruct H as [H|H]; [apply orb_true_iff in H; destruct H as [H|H]|];
    apply N.eqb_eq in H; subst; assumption.
Qed.

(* ------------------------------------------------------------------ decimal numbers *)
Lemma digit_char_dec d : d < 10 -> digit_char d = 48 + d /\ is_digit (digit_char d) = true.
Proof.
  intros H. unfold digit_char. assert (E : (d <? 10) = true) by (apply N.ltb_lt; exact H). rewrite E. split; [reflexivity|].
  unfold is_digit. apply andb_true_iff. split; apply N.leb_le; lia.
Qed.

Lemma dec_val_digits ds : forall acc, Forall (fun d => d < 10) ds ->
  fold_left (fun a c => a * 10 + (c - 48)) (map digit_char ds) acc = fold_left (fun a d => a * 10 + d) ds acc.
Proof.
  induction ds as [|d ds IH]; intros acc H; [reflexivity|].
  inversion H as [|d' ds' Hd Hds]; subst. cbn [map fold_left].
  destruct (digit_char_dec d Hd) as [E _]. rewrite E. replace (48 + d - 48) with d by lia. apply IH. exact Hds.
Qed.

Lemma to_dec_val n : dec_val (to_dec n) = n.
Proof.
  unfold dec_val, to_dec. rewrite to_base_digits, dec_val_digits.
  - apply (digits_msf_value 10 eq_refl).
  - apply (digits_msf_lt 10 eq_refl).
Qed.

Lemma to_dec_digits n : Forall (fun c => is_digit c = true) (to_dec n).
Proof.
  unfold to_dec. rewrite to_base_digits. pose proof (digits_msf_lt 10 eq_refl n) as L.
  induction L as [|d ds Hd Hds IH]; cbn [map]; constructor; auto. apply (digit_char_dec d Hd).
Qed.

Lemma to_dec_cons n : exists d ds, to_dec n = d :: ds /\ is_digit d = true.
Proof.
  pose proof (to_dec_digits n) as D. pose proof (digits_msf_nonempty 10 n) as NE.
  unfold to_dec in *. rewrite to_base_digits in *. destruct (digits_msf 10 n) as [|x xs]; [congruence|].
  cbn [map] in *. inversion D; subst. eauto.
Qed.

Lemma span_to_dec n rest : stops is_digit rest -> span is_digit (to_dec n ++ rest) = (to_dec n, rest).
Proof. intros S. apply span_app; auto. apply to_dec_digits. Qed.

Lemma is_digit_not_special c : is_digit c = true -> (c =? 95) = false /\ (c =? 45) = false /\ (c =? 39) = false.
Proof.
  unfold is_digit. intros H. apply andb_true_iff in H. destruct H as [A B]. apply N.leb_le in A, B.
  repeat split; apply N.eqb_neq; lia.
Qed.

(* ------------------------------------------------------------------ quoted items *)
Lemma scan_hex_digits ds : forall acc rest, Forall (fun d => d < 16) ds ->
  scan (UHex (Some acc)) (map digit_char ds ++ 92 :: rest)
  = cons_fst (fold_left (fun a d => a * 16 + d) ds acc) (scan UNorm rest).
Proof.
  induction ds as [|d ds IH]; intros acc rest H.
  - reflexivity.
  - inversion H as [|d' ds' Hd Hds]; subst d' ds'. destruct (hex_digit_ok d Hd) as [A B].
    cbn [map app scan fold_left]. rewrite A, B. apply IH. exact Hds.
Qed.

Lemma scan_hex_run n rest : scan (UHex None) (to_hex n ++ 92 :: rest) = cons_fst n (scan UNorm rest).
Proof.
  unfold to_hex. rewrite to_base_digits.
  pose proof (digits_msf_lt 16 eq_refl n) as HL. pose proof (digits_msf_nonempty 16 n) as HNE.
  pose proof (digits_msf_value 16 eq_refl n) as HV.
  remember (digits_msf 16 n) as ds0 eqn:Eds. clear Eds.
  destruct ds0 as [|d ds]; [congruence|].
  inversion HL as [|d' ds' Hd Hds]; subst d' ds'. destruct (hex_digit_ok d Hd) as [A B].
  cbn [map app scan]. rewrite A, B. rewrite scan_hex_digits by exact Hds.
  cbn [fold_left] in HV. change (0 * 16 + d) with d in HV. rewrite HV. reflexivity.
Qed.

Lemma scan_esc c rest : scan UNorm (esc_char c ++ rest) = cons_fst c (scan UNorm rest).
Proof.
  unfold esc_char.
  destruct (c =? 39) eqn:E39; [apply N.eqb_eq in E39; subst; reflexivity|].
  destruct (c =? 10) eqn:E10; [apply N.eqb_eq in E10; subst; reflexivity|].
  destruct (c =? 13) eqn:E13; [apply N.eqb_eq in E13; subst; reflexivity|].
  destruct (c =? 9) eqn:E9; [apply N.eqb_eq in E9; subst; reflexivity|].
  destruct (c =? 11) eqn:E11; [apply N.eqb_eq in E11; subst; reflexivity|].
  destruct (c =? 12) eqn:E12; [apply N.eqb_eq in E12; subst; reflexivity|].
  destruct (c =? 8) eqn:E8; [apply N.eqb_eq in E8; subst; reflexivity|].
  destruct (c =? 7) eqn:E7; [apply N.eqb_eq in E7; subst; reflexivity|].
  destruct (c =? 92) eqn:E92; [apply N.eqb_eq in E92; subst; reflexivity|].
  destruct ((c =? 32) || (c =? 34)) eqn:E32.
  { apply orb_true_iff in E32. destruct E32 as [E|E]; apply N.eqb_eq in E; subst; reflexivity. }
  destruct (u_is_whitespace c || u_is_control c) eqn:EW.
  - cbn [app]. rewrite <- app_assoc. cbn [app].
    change (scan UNorm (92 :: 120 :: to_hex c ++ 92 :: rest)) with (scan (UHex None) (to_hex c ++ 92 :: rest)).
    apply scan_hex_run.
  - cbn [app scan]. rewrite E39, E92, (not_control_ge32 c EW). reflexivity.
Qed.

Lemma scan_body s rest : stops (fun c => c =? 39) rest ->
  scan UNorm (flat_map esc_char s ++ 39 :: rest) = Some (s, rest).
Proof.
  intros S. induction s as [|c s IH].
  - cbn [flat_map app scan]. change (39 =? 39) with true. cbn iota.
    destruct rest as [|d r]; [reflexivity|]. cbn in S. cbn [scan]. rewrite S. reflexivity.
  - cbn [flat_map]. rewrite <- app_assoc, scan_esc, IH. reflexivity.
Qed.

(* ------------------------------------------------------------------ names *)
(* facts about one modelled character, by enumeration of the alphabet *)
Definition head_ok (c : N) : bool :=
  negb (iso_small c && iso_symbol c)
  && negb ((iso_small c || iso_symbol c || mem_N c [91; 123; 33; 59]) && ((c =? 39) || (c =? 95) || is_digit c))
  && negb (iso_small c && mem_N c [91; 123; 33; 59])
  && negb (iso_symbol c && mem_N c [91; 123; 33; 59]).

Lemma head_ok_all c : modelled c = true -> head_ok c = true.
Proof. apply (forall_alphabet head_ok). vm_compute. reflexivity. Qed.

Lemma delim_facts :
  iso_alnum 40 = false /\ iso_alnum 41 = false /\ iso_alnum 44 = false /\
  iso_symbol 40 = false /\ iso_symbol 41 = false /\ iso_symbol 44 = false /\
  is_digit 40 = false /\ is_digit 41 = false /\ is_digit 44 = false.
Proof. vm_compute. repeat split. Qed.

Lemma read_name_unquoted s rest : in_alphabet s -> iso_unquoted_b s = true -> name_end rest = true ->
  read_name (s ++ rest) = Some (s, rest).
Proof.
  intros HA HU HE. apply iso_unquoted_b_spec in HU.
  destruct delim_facts as (A1 & A2 & A3 & S1 & S2 & S3 & _).
  destruct HU as [(c & r & -> & Hc & Hr)|[(Hne & Hsym & Hdot & Hcom)|Hsolo]].
  - (* letter digit token *)
    inversion HA as [|c' r' Mc Mr]; subst. pose proof (head_ok_all c Mc) as K. unfold head_ok in K.
    rewrite Hc in K. cbn [andb orb negb] in K.
    destruct (c =? 39) eqn:E39. { rewrite !andb_false_r in K; cbn in K. rewrite ?andb_false_r in K. discriminate. }
    cbn [app read_name]. rewrite E39, Hc.
    rewrite (span_app iso_alnum r rest Hr (name_end_stops iso_alnum rest A1 A2 A3 HE)). reflexivity.
  - (* graphic token *)
    destruct s as [|c r]; [congruence|]. inversion HA as [|c' r' Mc Mr]; subst.
    inversion Hsym as [|c' r' Hc Hr]; subst. pose proof (head_ok_all c Mc) as K. unfold head_ok in K.
    rewrite Hc in K. rewrite andb_true_r in K.
    destruct (iso_small c) eqn:Esm. { cbn in K. discriminate. }
    cbn [negb andb orb] in K.
    destruct (c =? 39) eqn:E39. { cbn in K. rewrite ?andb_false_r in K. discriminate. }
    cbn [app read_name]. rewrite E39, Esm, Hc.
    rewrite (span_app iso_symbol r rest Hr (name_end_stops iso_symbol rest S1 S2 S3 HE)).
    assert (X1 : starts_comment (c :: r) = false).
    { destruct (starts_comment (c :: r)) eqn:E; auto. apply starts_comment_iff in E. contradiction. }
    assert (X2 : name_eq (c :: r) [46] = false).
    { destruct (name_eq (c :: r) [46]) eqn:E; auto. apply name_eq_iff in E. contradiction. }
    rewrite X1, X2. reflexivity.
  - destruct Hsolo as [ -> | [ -> | [ -> | -> ] ] ]; reflexivity.
Qed.

Lemma read_name_atom_text s rest : in_alphabet s -> name_end rest = true ->
  read_name (atom_text true s ++ rest) = Some (s, rest).
Proof.
  intros HA HE. unfold atom_text. cbn [negb orb]. destruct (non_quoted_token s) eqn:E.
  - rewrite (mirror_is_iso s HA) in E. apply read_name_unquoted; auto.
  - unfold quote_text. cbn [app]. rewrite <- app_assoc. cbn [app read_name]. change (39 =? 39) with true. cbn iota.
    apply scan_body. destruct rest as [|d r]; cbn; auto. cbn in HE.
    apply orb_true_iff in HE. destruct HE as [HE|HE]; [apply orb_true_iff in HE; destruct HE as [HE|HE]|];
      apply N.eqb_eq in HE; subst; reflexivity.
Qed.

(* the first character of an atom's text never starts a variable or a number *)
Lemma atom_text_head s rest : in_alphabet s -> name_end rest = true ->
  exists c r, atom_text true s ++ rest = c :: r /\ (c =? 95) = false /\ is_digit c = false
              /\ (c =? 45) && starts_with_digit r = false.
Proof.
  intros HA HE. unfold atom_text. cbn [negb orb]. destruct (non_quoted_token s) eqn:E.
  - rewrite (mirror_is_iso s HA) in E. pose proof E as E0. apply iso_unquoted_b_spec in E.
    destruct s as [|c r]; [discriminate|]. inversion HA as [|c' r' Mc Mr]; subst.
    pose proof (head_ok_all c Mc) as K. unfold head_ok in K.
    exists c, (r ++ rest). split; [reflexivity|].
    assert (CL : iso_small c || iso_symbol c || mem_N c [91; 123; 33; 59] = true).
    { destruct E as [(c' & r' & [= <- <-] & Hc & _)|[(_ & Hsym & _)|Hsolo]].
      - rewrite Hc. reflexivity.
      - inversion Hsym; subst. rewrite H1. rewrite orb_true_r. reflexivity.
      - destruct Hsolo as [[= -> ->]|[[= -> ->]|[[= -> ->]|[= -> ->]]]]; reflexivity. }
    rewrite CL in K. cbn [andb] in K.
    repeat (apply andb_true_iff in K; destruct K as [K ?]).
    assert (HD : (c =? 39) || (c =? 95) || is_digit c = false).
    { match goal with H : negb ((c =? 39) || (c =? 95) || is_digit c) = true |- _ => apply negb_true_iff in H; exact H end. }
    apply orb_false_iff in HD. destruct HD as [HD1 HD3]. apply orb_false_iff in HD1. destruct HD1 as [HD1 HD2].
    repeat split; auto.
    destruct (c =? 45) eqn:E45; [|reflexivity]. apply N.eqb_eq in E45. subst c. cbn [andb].
    (* an unquoted atom starting with - is a graphic token *)
    destruct E as [(c' & r' & [= <- <-] & Hc & _)|[(_ & Hsym & _)|Hsolo]].
    + vm_compute in Hc. discriminate.
    + inversion Hsym as [|c' r' _ Hr]; subst. destruct r as [|d r2].
      * cbn [app]. destruct rest as [|e r3]; [reflexivity|]. cbn in HE. cbn [starts_with_digit].
        destruct delim_facts as (_ & _ & _ & _ & _ & _ & D1 & D2 & D3).
        apply orb_true_iff in HE. destruct HE as [HE|HE]; [apply orb_true_iff in HE; destruct HE as [HE|HE]|];
          apply N.eqb_eq in HE; subst; assumption.
      * cbn [app starts_with_digit]. inversion Hr as [|d' r2' Hd _]; subst. inversion Mr as [|d' r2' Md _]; subst.
        pose proof (head_ok_all d Md) as Kd. unfold head_ok in Kd. rewrite Hd in Kd.
        rewrite orb_true_r in Kd. cbn [orb andb] in Kd.
        repeat (apply andb_true_iff in Kd; destruct Kd as [Kd ?]).
        match goal with H : negb ((d =? 39) || (d =? 95) || is_digit d) = true |- _ =>
          apply negb_true_iff in H; apply orb_false_iff in H; apply (proj2 H) end.
    + destruct Hsolo as [Hs|[Hs|[Hs|Hs]]]; discriminate.
  - exists 39, (flat_map esc_char s ++ [39] ++ rest). split.
    + unfold quote_text. cbn [app]. rewrite <- app_assoc. reflexivity.
    + repeat split; reflexivity.
Qed.

(* ------------------------------------------------------------------ terms *)
Fixpoint need (t : term) : nat :=
  match t with
  | Cmp _ args => S ((fix nl (l : list term) : nat := match l with [] => O | x :: r => S (Nat.max (need x) (nl r)) end) args)
  | _ => 1%nat
  end.
Definition needl (l : list term) : nat :=
  (fix nl (l : list term) : nat := match l with [] => O | x :: r => S (Nat.max (need x) (nl r)) end) l.
Lemma need_cmp f args : need (Cmp f args) = S (needl args).
Proof. reflexivity. Qed.
Lemma needl_cons x r : needl (x :: r) = S (Nat.max (need x) (needl r)).
Proof. reflexivity. Qed.

Lemma read_term_S k s : read_term (S k) s =
    match s with
    | [] => None
    | c :: r =>
      if c =? 95 then
        match r with
        | g :: r2 => if (g =? 71) && starts_with_digit r2
                     then let (ds, rest) := span is_digit r2 in Some (Var (dec_val ds), rest) else None
        | [] => None
        end
      else if is_digit c then let (ds, rest) := span is_digit s in Some (Int (Z.of_N (dec_val ds)), rest)
      else if (c =? 45) && starts_with_digit r then
        let (ds, rest) := span is_digit r in Some (Int (- Z.of_N (dec_val ds)), rest)
      else
        match read_name s with
        | None => None
        | Some (name, rest) =>
          match rest with
          | d :: rest2 =>
            if d =? 40 then
              match read_args k rest2 with
              | Some (args, rest3) => Some (Cmp name args, rest3)
              | None => None
              end
            else Some (Atom name, rest)
          | [] => Some (Atom name, rest)
          end
        end
    end.
Proof. reflexivity. Qed.

Lemma read_args_S k s : read_args (S k) s =
    match read_term k s with
    | Some (t, d :: rest) =>
      if d =? 44 then
        match read_args k rest with
        | Some (ts, rest2) => Some (t :: ts, rest2)
        | None => None
        end
      else if d =? 41 then Some ([t], rest) else None
    | _ => None
    end.
Proof. reflexivity. Qed.

Lemma term_end_stops_digit rest : term_end rest = true -> stops is_digit rest.
Proof.
  intros H. destruct delim_facts as (_ & _ & _ & _ & _ & _ & D1 & D2 & D3).
  apply name_end_stops; auto. apply term_end_name_end; auto.
Qed.

Lemma read_number_text n rest k : stops is_digit rest ->
  read_term (S k) (to_dec n ++ rest) = Some (Int (Z.of_N n), rest).
Proof.
  intros S. rewrite read_term_S. destruct (to_dec_cons n) as (d & ds & E & Hd).
  pose proof (span_to_dec n rest S) as SP. rewrite E in *. cbn [app] in *.
  destruct (is_digit_not_special d Hd) as (A & _ & _). rewrite A, Hd, SP. rewrite <- E, to_dec_val. reflexivity.
Qed.

Lemma join_args_cons2 x y r : join_args (x :: y :: r) = x ++ 44 :: join_args (y :: r).
Proof. reflexivity. Qed.

Lemma read_args_correct args :
  Forall (fun t => forall fuel rest, term_end rest = true -> (need t <= fuel)%nat ->
                   read_term fuel (write_canonical_ref t ++ rest) = Some (t, rest)) args ->
  args <> [] -> forall fuel rest, (needl args <= fuel)%nat ->
  read_args fuel (join_args (map write_canonical_ref args) ++ 41 :: rest) = Some (args, rest).
Proof.
  intros H. induction H as [|t ts Ht Hts IH]; intros NE fuel rest Hf; [congruence|].
  rewrite needl_cons in Hf. destruct fuel as [|k]; [lia|]. rewrite read_args_S.
  destruct ts as [|t2 ts].
  - cbn [map join_args]. rewrite (Ht k (41 :: rest) eq_refl) by lia.
    change (41 =? 44) with false. change (41 =? 41) with true. reflexivity.
  - cbn [map]. cbn [map] in IH. rewrite join_args_cons2, <- app_assoc. cbn [app].
    rewrite (Ht k (44 :: join_args (write_canonical_ref t2 :: map write_canonical_ref ts) ++ 41 :: rest) eq_refl) by lia.
    change (44 =? 44) with true. cbn iota.
    rewrite IH; [reflexivity | discriminate | lia].
Qed.

Lemma read_write_gen t : wf t -> forall fuel rest, term_end rest = true -> (need t <= fuel)%nat ->
  read_term fuel (write_canonical_ref t ++ rest) = Some (t, rest).
Proof.
  induction t as [v|z|n d|b|s|f args IH] using term_ind'; intros W fuel rest HE Hf.
  - (* variable *)
    destruct fuel as [|k]; [cbn in Hf; lia|]. cbn [write_canonical_ref app]. rewrite read_term_S.
    change (95 =? 95) with true. cbn iota. change (71 =? 71) with true. cbn [andb].
    destruct (to_dec_cons v) as (d & ds & E & Hd).
    pose proof (span_to_dec v rest (term_end_stops_digit rest HE)) as SP.
    rewrite E in *. cbn [app starts_with_digit] in *. rewrite Hd, SP. rewrite <- E, to_dec_val. reflexivity.
  - (* integer *)
    destruct fuel as [|k]; [cbn in Hf; lia|]. cbn [write_canonical_ref]. destruct z as [|p|p]; cbn [write_int].
    + apply (read_number_text 0 rest k). apply term_end_stops_digit; auto.
    + apply (read_number_text (Npos p) rest k). apply term_end_stops_digit; auto.
    + cbn [app]. rewrite read_term_S. change (45 =? 95) with false. change (is_digit 45) with false.
      change (45 =? 45) with true. cbn iota. cbn [andb].
      destruct (to_dec_cons (Npos p)) as (d & ds & E & Hd).
      pose proof (span_to_dec (Npos p) rest (term_end_stops_digit rest HE)) as SP.
      rewrite E in *. cbn [app starts_with_digit] in *. rewrite Hd, SP. rewrite <- E, to_dec_val. reflexivity.
  - inversion W.
  - inversion W.
  - (* atom *)
    inversion W as [| |s' HA|]; subst. destruct fuel as [|k]; [cbn in Hf; lia|]. cbn [write_canonical_ref].
    rewrite read_term_S.
    destruct (atom_text_head s rest HA (term_end_name_end rest HE)) as (c & r & E & A1 & A2 & A3).
    pose proof (read_name_atom_text s rest HA (term_end_name_end rest HE)) as RN.
    rewrite E in *. rewrite A1, A2, A3, RN.
    destruct rest as [|d r2]; [reflexivity|]. cbn in HE.
    assert (D : (d =? 40) = false).
    { apply orb_true_iff in HE. destruct HE as [HE|HE]; apply N.eqb_eq in HE; subst; reflexivity. }
    rewrite D. reflexivity.
  - (* compound *)
    inversion W as [| | |f' args' HA NE HW]; subst. rewrite need_cmp in Hf.
    destruct fuel as [|k]; [lia|]. cbn [write_canonical_ref]. rewrite <- app_assoc. cbn [app]. rewrite <- app_assoc.
    cbn [app]. rewrite read_term_S.
    set (tail := 40 :: join_args (map write_canonical_ref args) ++ 41 :: rest).
    destruct (atom_text_head f tail HA eq_refl) as (c & r & E & A1 & A2 & A3).
    pose proof (read_name_atom_text f tail HA eq_refl) as RN.
    rewrite E in *. rewrite A1, A2, A3, RN. unfold tail. change (40 =? 40) with true. cbn iota.
    rewrite (read_args_correct args).
    + reflexivity.
    + clear - IH HW. induction IH as [|t ts Ht Hts IH2]; constructor.
      * inversion HW; subst. intros fuel rest HE Hf. apply Ht; auto.
      * inversion HW; subst. apply IH2; auto.
    + exact NE.
    + lia.
Qed.

(* the fuel the reader gives itself is enough: every node writes at least one character *)
Lemma atom_text_nonempty s : (1 <= length (atom_text true s))%nat.
Proof.
  unfold atom_text. cbn [negb orb]. destruct (non_quoted_token s) eqn:E.
  - destruct s; [discriminate | cbn; lia].
  - unfold quote_text. cbn [length]. lia.
Qed.

Lemma to_dec_nonempty n : (1 <= length (to_dec n))%nat.
Proof. destruct (to_dec_cons n) as (d & ds & E & _). rewrite E. cbn. lia. Qed.

Lemma need_le_length t : (need t <= length (write_canonical_ref t) + 1)%nat.
Proof.
  induction t as [v|z|n d|b|s|f args IH] using term_ind'.
  - cbn. lia.
  - cbn. lia.
  - cbn. lia.
  - cbn. lia.
  - cbn [need write_canonical_ref]. pose proof (atom_text_nonempty s). lia.
  - rewrite need_cmp. cbn [write_canonical_ref]. rewrite app_length. cbn [length]. rewrite app_length. cbn [length].
    assert (L : (needl args <= length (join_args (map write_canonical_ref args)) + 2)%nat).
    { induction IH as [|t ts Ht Hts IH2]; [cbn; lia|].
      rewrite needl_cons. destruct ts as [|t2 ts].
      - cbn [map join_args needl]. cbn [needl] in *. lia.
      - cbn [map]. cbn [map] in IH2. rewrite join_args_cons2, app_length. cbn [length]. lia. }
    lia.
Qed.

Lemma canonical_roundtrip_proof t : wf t -> read_canonical_ref (write_canonical_ref t) = Some t.
Proof.
  intros W. unfold read_canonical_ref.
  pose proof (read_write_gen t W (S (length (write_canonical_ref t))) [] eq_refl) as R.
  rewrite app_nil_r in R. rewrite R; [reflexivity|]. pose proof (need_le_length t). lia.
Qed.

Lemma canonical_in_context_proof t rest : wf t -> term_end rest = true ->
  read_term (S (length (write_canonical_ref t))) (write_canonical_ref t ++ rest) = Some (t, rest).
Proof. intros W E. apply read_write_gen; auto. pose proof (need_le_length t). lia. Qed.

Lemma canonical_injective_proof t1 t2 : wf t1 -> wf t2 -> write_canonical_ref t1 = write_canonical_ref t2 -> t1 = t2.
Proof.
  intros W1 W2 E. pose proof (canonical_roundtrip_proof t1 W1) as R1. rewrite E, (canonical_roundtrip_proof t2 W2) in R1.
  congruence.
Qed.

Lemma atom_roundtrip_proof s : in_alphabet s -> read_canonical_ref (atom_text true s) = Some (Atom s).
Proof. intros H. apply (canonical_roundtrip_proof (Atom s)). constructor. exact H. Qed.

Lemma int_roundtrip_proof z : read_canonical_ref (write_int z) = Some (Int z).
Proof. apply (canonical_roundtrip_proof (Int z)). constructor. Qed.

Lemma opt_term_eqb_refl_hint t : forall o, o = Some t -> term_eqb t t = true -> opt_term_eqb o t = true.
Proof. intros o -> H. exact H. Qed.
