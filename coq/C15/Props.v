(* C15 -- pinned property theorems (nothing else lives here).
   What is proved: the reference writer/reader pair for the FUNCTIONAL-notation fragment (the text of write_canonical/1
   and of write_term with ignore_ops(true), quoted(true)) round-trips.  What is NOT proved: the operator-notation round
   trip of writeq/print (op_roundtrip); HCPrinter and the operator-precedence parser are not mirrored, that half is
   differential (checks/C15.py). *)
From Coq Require Import List NArith ZArith Bool.
From V Require Import Base.Term Gen.CharClass C55.Model C15.Model C15.Proofs.
Import ListNotations.
Open Scope N_scope.

(* every term of the fragment (atoms over the modelled alphabet incl. empty, quotes, backslashes, control and layout
   characters; integers of any size and sign; variables; nested compounds, hence lists, curly terms and strings in
   functional notation) is read back from its canonical text by a reader that knows no operator *)
Theorem canonical_roundtrip : forall t, wf t -> read_canonical_ref (write_canonical_ref t) = Some t.
Proof. exact canonical_roundtrip_proof. Qed.
Print Assumptions canonical_roundtrip.

(* the same inside any context: after the term's text the reader stops exactly in front of the following , or ) *)
Theorem canonical_roundtrip_in_context : forall t rest, wf t -> term_end rest = true ->
  read_term (S (length (write_canonical_ref t))) (write_canonical_ref t ++ rest) = Some (t, rest).
Proof. exact canonical_in_context_proof. Qed.
Print Assumptions canonical_roundtrip_in_context.

(* two different terms never have the same canonical text *)
Theorem canonical_injective : forall t1 t2, wf t1 -> wf t2 -> write_canonical_ref t1 = write_canonical_ref t2 -> t1 = t2.
Proof. exact canonical_injective_proof. Qed.
Print Assumptions canonical_injective.

(* every atom text (quoted or not) is read back as that atom *)
Theorem atom_roundtrip : forall s, in_alphabet s -> read_canonical_ref (atom_text true s) = Some (Atom s).
Proof. exact atom_roundtrip_proof. Qed.
Print Assumptions atom_roundtrip.

(* every integer, of any size and sign, is read back as itself *)
Theorem int_roundtrip : forall z, read_canonical_ref (write_int z) = Some (Int z).
Proof. exact int_roundtrip_proof. Qed.
Print Assumptions int_roundtrip.

(* non-vacuity *)
Example wf_example : wf (Cmp [45] [Int (-5)%Z; Cmp [46] [Atom [97; 32]; Atom [91; 93]]; Var 12; Atom []; Atom [39; 39]]).
Proof. repeat constructor; discriminate. Qed.
Example roundtrip_example :
  read_canonical_ref (write_canonical_ref (Cmp [45] [Int (-5)%Z; Cmp [46] [Atom [97; 32]; Atom [91; 93]]; Var 12; Atom []]))
  = Some (Cmp [45] [Int (-5)%Z; Cmp [46] [Atom [97; 32]; Atom [91; 93]]; Var 12; Atom []]).
Proof. vm_compute. reflexivity. Qed.
Example reader_rejects_operators : read_canonical_ref [97; 45; 98] = None.     (* a-b is not functional notation *)
Proof. vm_compute. reflexivity. Qed.
