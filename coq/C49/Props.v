(* C49 -- pinned property theorems (nothing else lives here) *)
From Coq Require Import ZArith NArith List Bool Sorted.
From V Require Import Base.Term C49.Model C49.Proofs.
Import ListNotations.
Open Scope Z_scope.

(* between(L, H, X) for ALL integers L, H.  X unbound: the answers are the first k elements of L..H, and L..H is
   ascending, duplicate-free and holds exactly the x with L <= x <= H (all of it once k reaches H-L+1: the enumeration
   is finite); the i-th answer is L+i (also the reading of a huge/"infinite" upper bound).  X bound: true iff L <= X <= H. *)
Theorem between_enum_exact : forall l h v k,
  between_model k (Int l) (Int h) (Var v) = Answers (map (fun z => [Int z]) (firstn k (zrange l h))) false /\
  ((Z.to_nat (h - l + 1) <= k)%nat ->
     between_model k (Int l) (Int h) (Var v) = Answers (map (fun z => [Int z]) (zrange l h)) false) /\
  StronglySorted Z.lt (zrange l h) /\ NoDup (zrange l h) /\
  (forall x, In x (zrange l h) <-> l <= x <= h) /\
  (forall i, (i < k)%nat -> l + Z.of_nat i <= h -> nth i (between_first k l h) 0 = l + Z.of_nat i) /\
  (forall x, between_model k (Int l) (Int h) (Int x) = yes <-> l <= x <= h).
Proof.
  intros l h v k.
  exact (conj (between_model_prefix k l h v) (conj (between_model_enum k l h v) (conj (zrange_sorted l h)
        (conj (zrange_nodup l h) (conj (zrange_In l h) (conj (fun i => between_nth k l h i) (between_check_iff k l h))))))).
Qed.
Print Assumptions between_enum_exact.

(* numlist(L, H, List), both bounds given, List unbound: the single answer [L..H] of length H-L+1 when L <= H, no answer otherwise *)
Theorem numlist_spec : forall win k l u v,
  numlist_model win k (Int l) (Int u) (Var v) = (if l <=? u then Answers [[numlist_term l u]] false else no) /\
  (l <= u -> as_list (numlist_term l u) = Some (map Int (zrange l u)) /\ Z.of_nat (length (zrange l u)) = u - l + 1).
Proof. intros win k l u v. exact (conj (numlist_plus_plus win k l u v) (numlist_term_length l u)). Qed.
Print Assumptions numlist_spec.

(* numlist/3 in every mode (also unbound bounds, bound or partial List): every answer comes from bounds l <= u that agree
   with the given bounds and from the unification of List with [l..u] *)
Theorem numlist_sound_all_modes : forall win k L U Lst ans inf a,
  numlist_model win k L U Lst = Answers ans inf -> In a ans ->
  exists l u b, l <= u /\ match_term Lst (numlist_term l u) = Some b /\
    (forall z, L = Int z -> z = l) /\ (forall z, U = Int z -> z = u) /\
    a = (if is_var L then [Int l] else []) ++ (if is_var U then [Int u] else []) ++ map snd b.
Proof. exact numlist_sound. Qed.
Print Assumptions numlist_sound_all_modes.

(* the candidate order of an unbound bound (enumerate_ints/2) reaches every integer, each once *)
Theorem gen_int_exact : forall fuel,
  NoDup (enum_ints fuel 0) /\ (forall z, In z (enum_ints fuel 0) <-> Z.abs z < Z.of_nat fuel) /\
  (forall z, In z (enum_ints (S (Z.to_nat (Z.abs z))) 0)).
Proof. exact gen_int_exact_lemma. Qed.
Print Assumptions gen_int_exact.

(* succ(X, Y) on the naturals: forward Y = X+1; backward X = Y-1 for Y > 0 and no answer for Y = 0; both bound: true iff Y = X+1 *)
Theorem succ_spec :
  (forall i v, 0 <= i -> succ_model (Int i) (Var v) = Answers [[Int (i + 1)]] false) /\
  (forall s v, 0 < s -> succ_model (Var v) (Int s) = Answers [[Int (s - 1)]] false) /\
  (forall v, succ_model (Var v) (Int 0) = no) /\
  (forall i s, 0 <= i -> 0 <= s -> (succ_model (Int i) (Int s) = yes <-> s = i + 1)).
Proof. exact (conj succ_fwd (conj succ_bwd (conj succ_zero succ_check))). Qed.
Print Assumptions succ_spec.

(* length(Xs, N).  Proper list: its number of elements (N unbound) / true iff N is that number (N >= 0 given).
   Partial list with unbound tail, N another unbound variable: infinitely many answers, the i-th is N = m+i with a tail of
   i fresh variables.  N given: no answer below the known prefix, otherwise the tail becomes N-m fresh variables. *)
Theorem length_spec :
  (forall k l v, length_model k (tlist l) (Var v) = Answers [[Int (Z.of_nat (length l))]] false) /\
  (forall k l n, 0 <= n -> (length_model k (tlist l) (Int n) = yes <-> n = Z.of_nat (length l)) /\
                           (length_model k (tlist l) (Int n) = yes \/ length_model k (tlist l) (Int n) = no)) /\
  (forall k pre v nv i, v <> nv -> (i < k)%nat ->
     exists ans inf, length_model k (tlist_tail pre (Var v)) (Var nv) = Answers ans inf /\ inf = true /\ length ans = k /\
       nth i ans [] = [Int (Z.of_nat (length pre + i)); fresh_list i]) /\
  (forall k pre v n, 0 <= n ->
     length_model k (tlist_tail pre (Var v)) (Int n) =
     if n <? Z.of_nat (length pre) then no
     else if mem_limit <=? n - Z.of_nat (length pre) then Error (FRes RMemory)
          else Answers [[fresh_list (Z.to_nat (n - Z.of_nat (length pre)))]] false) /\
  (forall n, fresh_list n = tlist (map (fun i => Var (N.of_nat i)) (seq 0 n)) /\ length (seq 0 n) = n /\
             NoDup (map N.of_nat (seq 0 n))) /\
  (forall k pre tail Nt, simple_tail tail -> tail <> tnil -> is_var tail = false ->
     (exists v, Nt = Var v) \/ (exists n, Nt = Int n /\ 0 <= n) -> length_model k (tlist_tail pre tail) Nt = no).
Proof.
  exact (conj length_proper (conj length_proper_check (conj length_partial_nth (conj length_partial_bound
        (conj fresh_list_vars length_not_list))))).
Qed.
Print Assumptions length_spec.

(* the error table: which arguments give instantiation_error / type_error(integer, Culprit) / domain_error(not_less_than_zero, N) *)
Theorem errors_per_mode :
  (forall k L H X, between_model k L H X = Error FInst <->
     (exists v, L = Var v) \/ ((exists l, L = Int l) /\ exists v, H = Var v)) /\
  (forall k L H X c, between_model k L H X = Error (FType integer_nm c) <->
     (is_var L = false /\ (forall z, L <> Int z) /\ c = L) \/
     ((exists l, L = Int l) /\ is_var H = false /\ (forall z, H <> Int z) /\ c = H) \/
     ((exists l, L = Int l) /\ (exists h, H = Int h) /\ is_var X = false /\ (forall z, X <> Int z) /\ c = X)) /\
  (forall i S, i < 0 -> succ_model (Int i) S = Error (FDomNLZ (Int i))) /\
  (forall I s, can_be_nlz I = None -> s < 0 -> succ_model I (Int s) = Error (FDomNLZ (Int s))) /\
  (forall a b, succ_model (Var a) (Var b) = Error FInst) /\
  (forall I S, is_var I = false -> (forall z, I <> Int z) -> succ_model I S = Error (FType integer_nm I)) /\
  (forall k Xs n, n < 0 -> length_model k Xs (Int n) = Error (FDomNLZ (Int n))) /\
  (forall k Xs Nt, is_var Nt = false -> (forall z, Nt <> Int z) -> length_model k Xs Nt = Error (FType integer_nm Nt)) /\
  (forall k pre v, length_model k (tlist_tail pre (Var v)) (Var v) = Error (FRes RFiniteMemory)).
Proof.
  exact (conj between_inst (conj between_type (conj succ_neg_left (conj succ_neg_right (conj succ_inst
        (conj succ_type_left (conj length_negative (conj length_type length_same_var)))))))).
Qed.
Print Assumptions errors_per_mode.

(* the comparison used by the correspondence accepts an observation only if it IS the model's observation *)
Theorem check_is_equality : forall L H X o,
  check_between L H X o = true -> o = observe K (between_model K L H X).
Proof. exact check_between_sound. Qed.
Print Assumptions check_is_equality.

(* non-vacuity *)
Example ex_between : between_model 20 (Int (-3)) (Int 2) (Var 0%N) =
  Answers [[Int (-3)]; [Int (-2)]; [Int (-1)]; [Int 0]; [Int 1]; [Int 2]] false.
Proof. vm_compute. reflexivity. Qed.
Example ex_between_big : observe 3 (between_model 3 (Int (2 ^ 55 - 1)) (Int (2 ^ 64)) (Var 0%N)) =
  mkobs [[Int 36028797018963967]; [Int 36028797018963968]; [Int 36028797018963969]] EMore.
Proof. vm_compute. reflexivity. Qed.
Example ex_length_partial : length_model 3 (tlist_tail [Atom [97%N]] (Var 0%N)) (Var 1%N) =
  Answers [[Int 1; tlist []]; [Int 2; tlist [Var 0%N]]; [Int 3; tlist [Var 0%N; Var 1%N]]] true.
Proof. vm_compute. reflexivity. Qed.
Example ex_numlist_modes : numlist_model 64 3 (Var 0%N) (Int 1) (Var 2%N) =
  Answers [[Int 0; tlist [Int 0; Int 1]]; [Int 1; tlist [Int 1]]; [Int (-1); tlist [Int (-1); Int 0; Int 1]]] true.
Proof. vm_compute. reflexivity. Qed.
Example ex_succ_err : succ_model (Int 2) (Int (-3)) = Error (FDomNLZ (Int (-3))).
Proof. vm_compute. reflexivity. Qed.
