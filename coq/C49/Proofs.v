(* C49 -- lemmas about the enumerators of Model.v *)
From Coq Require Import ZArith NArith List Bool Lia Sorted FinFun.
From V Require Import Base.Term C49.Model.
Import ListNotations.
Open Scope Z_scope.

Lemma firstn_In_incl : forall (A : Type) (n : nat) (l : list A) (x : A), In x (firstn n l) -> In x l.
Proof.
  intros A n. induction n as [|n IH]; intros l x H; [destruct H|].
  destruct l as [|y l]; [destruct H|]. cbn [firstn In] in *. destruct H as [H|H]; [now left | right; now apply IH].
Qed.

Lemma nth_firstn_lt : forall (A : Type) (k i : nat) (l : list A) (d : A), (i < k)%nat -> nth i (firstn k l) d = nth i l d.
Proof.
  intros A k. induction k as [|k IH]; intros i l d Hi; [lia|].
  destruct l as [|y l]; [reflexivity|]. destruct i as [|i]; [reflexivity|]. cbn [firstn nth]. apply IH. lia.
Qed.

(* ------------------------------------------------------------------ zrange *)
Lemma zrange_n_length : forall n l, length (zrange_n l n) = n.
Proof. induction n as [|n IH]; intros l; cbn [zrange_n length]; [reflexivity | now rewrite IH]. Qed.

Lemma zrange_n_In : forall n l x, In x (zrange_n l n) <-> l <= x < l + Z.of_nat n.
Proof.
  induction n as [|n IH]; intros l x; cbn [zrange_n In].
  - split; [intros [] | lia].
  - rewrite IH. lia.
Qed.

Lemma zrange_n_nth : forall n l i, (i < n)%nat -> nth i (zrange_n l n) 0 = l + Z.of_nat i.
Proof.
  induction n as [|n IH]; intros l i Hi; [lia|].
  destruct i as [|i]; cbn [zrange_n nth]; [lia|].
  rewrite IH by lia. lia.
Qed.

Lemma zrange_n_lower : forall n l x, In x (zrange_n l n) -> l <= x.
Proof. intros n l x H. apply zrange_n_In in H. lia. Qed.

Lemma zrange_n_sorted : forall n l, StronglySorted Z.lt (zrange_n l n).
Proof.
  induction n as [|n IH]; intros l; cbn [zrange_n]; constructor.
  - apply IH.
  - apply Forall_forall. intros x Hx. apply zrange_n_lower in Hx. lia.
Qed.

Lemma sorted_lt_nodup : forall l : list Z, StronglySorted Z.lt l -> NoDup l.
Proof.
  induction 1 as [|a l Hs IH Hall]; constructor; [|exact IH].
  intro Hin. rewrite Forall_forall in Hall. specialize (Hall a Hin). lia.
Qed.

Lemma zrange_length : forall l h, l <= h -> Z.of_nat (length (zrange l h)) = h - l + 1.
Proof. intros l h H. unfold zrange. rewrite zrange_n_length. lia. Qed.

Lemma zrange_empty : forall l h, h < l -> zrange l h = [].
Proof. intros l h H. unfold zrange. replace (Z.to_nat (h - l + 1)) with O by lia. reflexivity. Qed.

Lemma zrange_In : forall l h x, In x (zrange l h) <-> l <= x <= h.
Proof. intros l h x. unfold zrange. rewrite zrange_n_In. lia. Qed.

Lemma zrange_sorted : forall l h, StronglySorted Z.lt (zrange l h).
Proof. intros. apply zrange_n_sorted. Qed.

Lemma zrange_nodup : forall l h, NoDup (zrange l h).
Proof. intros. apply sorted_lt_nodup, zrange_sorted. Qed.

Lemma zrange_nth : forall l h i, l + Z.of_nat i <= h -> nth i (zrange l h) 0 = l + Z.of_nat i.
Proof. intros l h i H. unfold zrange. apply zrange_n_nth. lia. Qed.

Lemma zrange_cons : forall l h, l <= h -> zrange l h = l :: zrange (l + 1) h.
Proof.
  intros l h H. unfold zrange.
  replace (Z.to_nat (h - l + 1)) with (S (Z.to_nat (h - (l + 1) + 1))) by lia. reflexivity.
Qed.

(* ------------------------------------------------------------------ between_ is the prefix of the range *)
Lemma between_first_spec : forall k l h, between_first k l h = firstn k (zrange l h).
Proof.
  induction k as [|k IH]; intros l h; [reflexivity|].
  cbn [between_first].
  destruct (Z.ltb_spec l h) as [Hlt|Hge].
  - rewrite (zrange_cons l h) by lia. cbn [firstn]. now rewrite IH.
  - destruct (Z.eqb_spec l h) as [He|Hne].
    + subst h. rewrite (zrange_cons l l) by lia. rewrite (zrange_empty (l + 1) l) by lia.
      cbn [firstn]. now destruct k.
    + now rewrite zrange_empty by lia.
Qed.

Lemma between_first_all : forall k l h, (Z.to_nat (h - l + 1) <= k)%nat -> between_first k l h = zrange l h.
Proof.
  intros k l h H. rewrite between_first_spec. apply firstn_all2.
  unfold zrange. now rewrite zrange_n_length.
Qed.

(* between/3 with integer bounds and an unbound third argument, enough answers requested: exactly the range *)
Lemma between_model_enum : forall k l h v, (Z.to_nat (h - l + 1) <= k)%nat ->
  between_model k (Int l) (Int h) (Var v) = Answers (map (fun z => [Int z]) (zrange l h)) false.
Proof.
  intros k l h v Hk. unfold between_model, must_be_int.
  destruct (Z.leb_spec l h) as [Hle|Hgt].
  - now rewrite between_first_all.
  - now rewrite zrange_empty by lia.
Qed.

Lemma between_model_prefix : forall k l h v,
  between_model k (Int l) (Int h) (Var v) = Answers (map (fun z => [Int z]) (firstn k (zrange l h))) false.
Proof.
  intros k l h v. unfold between_model, must_be_int.
  destruct (Z.leb_spec l h) as [Hle|Hgt].
  - now rewrite between_first_spec.
  - rewrite zrange_empty by lia. now rewrite firstn_nil.
Qed.

Lemma between_model_check : forall k l h x,
  between_model k (Int l) (Int h) (Int x) = if (l <=? x) && (x <=? h) then yes else no.
Proof. reflexivity. Qed.

Lemma between_check_iff : forall k l h x, between_model k (Int l) (Int h) (Int x) = yes <-> l <= x <= h.
Proof.
  intros k l h x. rewrite between_model_check.
  destruct (Z.leb_spec l x) as [H1|H1], (Z.leb_spec x h) as [H2|H2]; cbn [andb]; split; intro H0; try lia; try reflexivity; discriminate H0.
Qed.

(* the k-th answer (0-based) is l + k as long as it does not exceed h: this is the reading of an "infinite" upper bound
   for every finite prefix (2^64 in the correspondence) *)
Lemma between_nth : forall k l h i, (i < k)%nat -> l + Z.of_nat i <= h ->
  nth i (between_first k l h) 0 = l + Z.of_nat i.
Proof.
  intros k l h i Hi Hh. rewrite between_first_spec.
  rewrite nth_firstn_lt by exact Hi. now apply zrange_nth.
Qed.

(* ------------------------------------------------------------------ the error table of between/3 *)
Lemma between_inst : forall k L H X, between_model k L H X = Error FInst <->
  (exists v, L = Var v) \/ ((exists l, L = Int l) /\ exists v, H = Var v).
Proof.
  intros k L H X. unfold between_model, must_be_int. split.
  - destruct L; try discriminate; [intros _; left; eauto|].
    destruct H; try discriminate; [intros _; right; eauto|].
    destruct X; try discriminate; try (destruct (z <=? z0); discriminate).
    destruct ((z <=? z1) && (z1 <=? z0)); discriminate.
  - intros [[v ->]|[[l ->] [v ->]]]; reflexivity.
Qed.

Lemma between_type : forall k L H X c, between_model k L H X = Error (FType integer_nm c) <->
  (is_var L = false /\ (forall z, L <> Int z) /\ c = L) \/
  ((exists l, L = Int l) /\ is_var H = false /\ (forall z, H <> Int z) /\ c = H) \/
  ((exists l, L = Int l) /\ (exists h, H = Int h) /\ is_var X = false /\ (forall z, X <> Int z) /\ c = X).
Proof.
  intros k L H X c. unfold between_model, must_be_int. split.
  - destruct L; try discriminate;
      try (intros [= <-]; left; repeat split; congruence).
    destruct H; try discriminate;
      try (intros [= <-]; right; left; repeat split; eauto; congruence).
    destruct X; try (destruct (z <=? z0); discriminate);
      try (destruct ((z <=? z1) && (z1 <=? z0)); discriminate);
      intros [= <-]; right; right; repeat split; eauto; congruence.
  - intros [(Hv & Hn & ->)|[([l ->] & Hv & Hn & ->)|([l ->] & [h ->] & Hv & Hn & ->)]].
    + destruct L; try reflexivity; [discriminate Hv | now contradiction (Hn z)].
    + destruct H; try reflexivity; [discriminate Hv | now contradiction (Hn z)].
    + destruct X; try reflexivity; [discriminate Hv | now contradiction (Hn z)].
Qed.

(* ------------------------------------------------------------------ numlist/3 with both bounds given *)
Lemma match_var : forall v g, match_term (Var v) g = Some [(v, g)].
Proof. reflexivity. Qed.

Lemma numlist_plus_plus : forall win k l u v,
  numlist_model win k (Int l) (Int u) (Var v) =
  if l <=? u then Answers [[numlist_term l u]] false else no.
Proof.
  intros win k l u v. unfold numlist_model, can_be_int, numlist_candidates.
  cbn [filter fst snd]. destruct (l <=? u); reflexivity.
Qed.

Lemma numlist_term_length : forall l u, l <= u ->
  as_list (numlist_term l u) = Some (map Int (zrange l u)) /\ Z.of_nat (length (zrange l u)) = u - l + 1.
Proof.
  intros l u H. split; [|now apply zrange_length].
  unfold numlist_term. generalize (map Int (zrange l u)) as xs. intro xs.
  unfold as_list.
  assert (Hv : forall (ys : list term) fuel, (length ys < fuel)%nat -> list_view fuel (tlist ys) = (ys, tnil)).
  { induction ys as [|y ys IH]; intros fuel Hf; destruct fuel as [|fuel]; try (cbn [length] in Hf; lia).
    - reflexivity.
    - cbn [tlist tlist_tail tcons list_view dot]. fold (tlist ys).
      rewrite IH by (cbn [length] in Hf; lia). reflexivity. }
  assert (Hs : forall ys : list term, (length ys < term_size (tlist ys))%nat).
  { induction ys as [|y ys IH]; [cbn; lia|].
    cbn [tlist tlist_tail tcons term_size fold_right length]. fold (tlist ys).
    destruct y; cbn [term_size]; lia. }
  rewrite Hv by apply Hs. reflexivity.
Qed.

(* soundness in every mode: an answer of numlist/3 comes from a pair l <= u and the list l..u *)
Lemma numlist_sound : forall win k L U Lst ans inf a,
  numlist_model win k L U Lst = Answers ans inf -> In a ans ->
  exists l u b, l <= u /\ match_term Lst (numlist_term l u) = Some b /\
    (forall z, L = Int z -> z = l) /\ (forall z, U = Int z -> z = u) /\
    a = (if is_var L then [Int l] else []) ++ (if is_var U then [Int u] else []) ++ map snd b.
Proof.
  intros win k L U Lst ans inf a. unfold numlist_model.
  destruct (can_be_int L); [discriminate|]. destruct (can_be_int U); [discriminate|].
  set (cands := filter (fun p : Z * Z => fst p <=? snd p) (numlist_candidates win L U)).
  assert (Hc : forall p, In p cands -> In p (numlist_candidates win L U) /\ fst p <= snd p).
  { intros p Hp. apply filter_In in Hp. destruct Hp as [Hp Hle]. split; [exact Hp|lia]. }
  assert (Hb : forall p, In p (numlist_candidates win L U) ->
                         (forall z, L = Int z -> z = fst p) /\ (forall z, U = Int z -> z = snd p)).
  { intros p Hp. unfold numlist_candidates in Hp.
    destruct L as [vl|l| | | |]; destruct U as [vu|u| | | |];
      try (split; intros z Hz; discriminate Hz);
      try (cbn [In] in Hp; destruct Hp as [<-|[]]; split; intros z' [= ->]; reflexivity);
      try (apply in_map_iff in Hp; destruct Hp as (x & <- & _); split; intros z' Hz; try discriminate Hz;
           injection Hz as ->; reflexivity). }
  destruct cands as [|c0 cs] eqn:Ecs; [intros [= <- <-] []|].
  destruct (negb (list_or_partial Lst)); [discriminate|].
  intros [= <- <-] Hin.
  assert (Hin' : In a (flat_map (fun p : Z * Z =>
             match match_term Lst (numlist_term (fst p) (snd p)) with
             | Some b => [(if is_var L then [Int (fst p)] else []) ++ (if is_var U then [Int (snd p)] else []) ++ map snd b]
             | None => []
             end) (c0 :: cs))).
  { destruct (is_var L || is_var U); [|exact Hin]. eapply firstn_In_incl; exact Hin. }
  apply in_flat_map in Hin'. destruct Hin' as (p & Hp & Ha).
  destruct (match_term Lst (numlist_term (fst p) (snd p))) as [b|] eqn:Em; [|destruct Ha].
  destruct Ha as [<-|[]].
  destruct (Hc p Hp) as [Hp' Hle]. destruct (Hb p Hp') as [HL HU].
  exists (fst p), (snd p), b. repeat split; assumption.
Qed.

(* ------------------------------------------------------------------ succ/2 *)
Lemma succ_fwd : forall i v, 0 <= i -> succ_model (Int i) (Var v) = Answers [[Int (i + 1)]] false.
Proof.
  intros i v Hi. unfold succ_model, can_be_nlz.
  destruct (Z.ltb_spec i 0) as [Hn|_]; [lia|]. reflexivity.
Qed.

Lemma succ_bwd : forall s v, 0 < s -> succ_model (Var v) (Int s) = Answers [[Int (s - 1)]] false.
Proof.
  intros s v Hs. unfold succ_model, can_be_nlz.
  destruct (Z.ltb_spec s 0) as [Hn|_]; [lia|].
  destruct (Z.ltb_spec 0 s) as [_|Hn]; [reflexivity|lia].
Qed.

Lemma succ_zero : forall v, succ_model (Var v) (Int 0) = no.
Proof. reflexivity. Qed.

Lemma succ_check : forall i s, 0 <= i -> 0 <= s -> (succ_model (Int i) (Int s) = yes <-> s = i + 1).
Proof.
  intros i s Hi Hs. unfold succ_model, can_be_nlz.
  destruct (Z.ltb_spec i 0) as [Hn|_]; [lia|]. destruct (Z.ltb_spec s 0) as [Hn|_]; [lia|].
  destruct (Z.ltb_spec 0 s) as [Hp|Hz].
  - destruct (Z.eqb_spec i (s - 1)) as [He|Hne]; split; intro H0; try lia; try reflexivity; discriminate H0.
  - split; intro H0; [discriminate H0|lia].
Qed.

Lemma succ_neg_left : forall i S, i < 0 -> succ_model (Int i) S = Error (FDomNLZ (Int i)).
Proof.
  intros i S Hi. unfold succ_model, can_be_nlz. destruct (Z.ltb_spec i 0) as [_|Hn]; [reflexivity|lia].
Qed.

Lemma succ_neg_right : forall I s, can_be_nlz I = None -> s < 0 -> succ_model I (Int s) = Error (FDomNLZ (Int s)).
Proof.
  intros I s HI Hs. unfold succ_model. rewrite HI. unfold can_be_nlz.
  destruct (Z.ltb_spec s 0) as [_|Hn]; [reflexivity|lia].
Qed.

Lemma succ_inst : forall a b, succ_model (Var a) (Var b) = Error FInst.
Proof. reflexivity. Qed.

Lemma succ_type_left : forall I S, is_var I = false -> (forall z, I <> Int z) -> succ_model I S = Error (FType integer_nm I).
Proof.
  intros I S Hv Hn. unfold succ_model.
  destruct I; try reflexivity; [discriminate Hv | now contradiction (Hn z)].
Qed.

(* ------------------------------------------------------------------ length/2 *)
Definition simple_tail (t : term) : Prop := match t with Cmp _ _ => False | _ => True end.

Lemma list_view_tail : forall pre tail fuel, simple_tail tail -> (length pre < fuel)%nat ->
  list_view fuel (tlist_tail pre tail) = (pre, tail).
Proof.
  induction pre as [|x pre IH]; intros tail fuel Ht Hf; (destruct fuel as [|fuel]; [cbn [length] in Hf; lia|]).
  - cbn [tlist_tail]. destruct tail; try reflexivity. destruct Ht.
  - cbn [tlist_tail tcons list_view dot]. rewrite IH; [reflexivity | exact Ht | cbn [length] in Hf; lia].
Qed.

Lemma term_size_pos : forall t, (1 <= term_size t)%nat.
Proof. destruct t; cbn [term_size]; lia. Qed.

Lemma tlist_tail_size : forall pre tail, (length pre < term_size (tlist_tail pre tail))%nat.
Proof.
  induction pre as [|x pre IH]; intros tail.
  - cbn [tlist_tail length]. pose proof (term_size_pos tail). lia.
  - cbn [tlist_tail tcons term_size fold_right length]. specialize (IH tail). pose proof (term_size_pos x). lia.
Qed.

Lemma list_view_full : forall pre tail, simple_tail tail ->
  list_view (term_size (tlist_tail pre tail)) (tlist_tail pre tail) = (pre, tail).
Proof. intros. apply list_view_tail; [assumption | apply tlist_tail_size]. Qed.

(* a proper list, length unbound: one answer, the number of elements *)
Lemma length_proper : forall k l v, length_model k (tlist l) (Var v) = Answers [[Int (Z.of_nat (length l))]] false.
Proof.
  intros k l v. unfold length_model, tlist. rewrite list_view_full by exact I. reflexivity.
Qed.

(* a proper list, length given: true exactly for the number of elements *)
Lemma length_proper_check : forall k l n, 0 <= n ->
  (length_model k (tlist l) (Int n) = yes <-> n = Z.of_nat (length l)) /\
  (length_model k (tlist l) (Int n) = yes \/ length_model k (tlist l) (Int n) = no).
Proof.
  intros k l n Hn. unfold length_model, tlist. rewrite list_view_full by exact I.
  destruct (Z.ltb_spec n 0) as [Hneg|_]; [lia|].
  destruct (Z.ltb_spec n (Z.of_nat (length l))) as [Hlt|Hge].
  - split; [split; intro H0; [discriminate H0|lia] | now right].
  - cbn [tnil nil_name]. destruct (Z.eqb_spec n (Z.of_nat (length l))) as [He|Hne].
    + split; [split; intro; [exact He|reflexivity] | now left].
    + split; [split; intro H0; [discriminate H0|lia] | now right].
Qed.

(* a partial list (unbound tail v), length unbound (another variable): the lengths m, m+1, ... with fresh tails *)
Lemma length_partial_enum : forall k pre v nv, v <> nv ->
  length_model k (tlist_tail pre (Var v)) (Var nv) =
  Answers (map (fun i => [Int (Z.of_nat (length pre) + Z.of_nat i); fresh_list i]) (seq 0 k)) true.
Proof.
  intros k pre v nv Hv. unfold length_model. rewrite list_view_full by exact I.
  destruct (N.eqb_spec v nv) as [He|_]; [contradiction|]. reflexivity.
Qed.

Lemma length_partial_nth : forall k pre v nv i, v <> nv -> (i < k)%nat ->
  exists ans inf, length_model k (tlist_tail pre (Var v)) (Var nv) = Answers ans inf /\ inf = true /\ length ans = k /\
    nth i ans [] = [Int (Z.of_nat (length pre + i)); fresh_list i].
Proof.
  intros k pre v nv i Hv Hi. rewrite length_partial_enum by exact Hv.
  eexists. eexists. split; [reflexivity|]. split; [reflexivity|]. split.
  - now rewrite map_length, seq_length.
  - set (f := fun i0 : nat => [Int (Z.of_nat (length pre) + Z.of_nat i0); fresh_list i0]).
    change [] with (@nil term). 
    rewrite nth_indep with (d' := f O) by (now rewrite map_length, seq_length).
    rewrite map_nth. rewrite seq_nth by exact Hi. unfold f. cbn [Nat.add]. now rewrite Nat2Z.inj_add.
Qed.

Lemma length_same_var : forall k pre v, length_model k (tlist_tail pre (Var v)) (Var v) = Error (FRes RFiniteMemory).
Proof.
  intros k pre v. unfold length_model. rewrite list_view_full by exact I. now rewrite N.eqb_refl.
Qed.

(* a partial list with a given length *)
Lemma length_partial_bound : forall k pre v n, 0 <= n ->
  length_model k (tlist_tail pre (Var v)) (Int n) =
  if n <? Z.of_nat (length pre) then no
  else if mem_limit <=? n - Z.of_nat (length pre) then Error (FRes RMemory)
       else Answers [[fresh_list (Z.to_nat (n - Z.of_nat (length pre)))]] false.
Proof.
  intros k pre v n Hn. unfold length_model. rewrite list_view_full by exact I.
  destruct (Z.ltb_spec n 0) as [Hneg|_]; [lia|]. reflexivity.
Qed.

Lemma length_negative : forall k Xs n, n < 0 -> length_model k Xs (Int n) = Error (FDomNLZ (Int n)).
Proof.
  intros k Xs n Hn. unfold length_model. destruct (list_view (term_size Xs) Xs) as [pre tail].
  destruct (Z.ltb_spec n 0) as [_|Hge]; [reflexivity|lia].
Qed.

Lemma length_type : forall k Xs Nt, is_var Nt = false -> (forall z, Nt <> Int z) ->
  length_model k Xs Nt = Error (FType integer_nm Nt).
Proof.
  intros k Xs Nt Hv Hn. unfold length_model. destruct (list_view (term_size Xs) Xs) as [pre tail].
  destruct Nt; try reflexivity; [discriminate Hv | now contradiction (Hn z)].
Qed.

(* neither a list nor a partial list: no length *)
Lemma length_not_list : forall k pre tail Nt, simple_tail tail -> tail <> tnil -> is_var tail = false ->
  (exists v, Nt = Var v) \/ (exists n, Nt = Int n /\ 0 <= n) ->
  length_model k (tlist_tail pre tail) Nt = no.
Proof.
  intros k pre tail Nt Ht Hnil Hv HN. unfold length_model. rewrite list_view_full by exact Ht.
  assert (Hm : forall (A : Type) (a c : A) (b : N -> A),
             match tail with Atom [91%N; 93%N] => a | Var v0 => b v0 | _ => c end = c).
  { intros A a c b. destruct tail as [v|z|n d|b0|s|f args]; try reflexivity; try discriminate Hv.
    - destruct s as [|c0 s]; [reflexivity|].
      destruct c0 as [|p]; [reflexivity|].
      destruct (N.eq_dec (N.pos p) 91%N) as [E|E].
      + injection E as ->. destruct s as [|c1 s]; [reflexivity|].
        destruct (N.eq_dec c1 93%N) as [E1|E1].
        * subst c1. destruct s; [exfalso; apply Hnil; reflexivity | reflexivity].
        * destruct c1 as [|q]; [reflexivity|].
          do 7 (try destruct q as [q|q|]; try reflexivity); exfalso; apply E1; reflexivity.
      + do 7 (try destruct p as [p|p|]; try reflexivity); exfalso; apply E; reflexivity. }
  destruct HN as [[v ->]|(n & -> & Hn)].
  - apply (Hm _ _ _ (fun v0 => if (v0 =? v)%N then _ else _)).
  - destruct (Z.ltb_spec n 0) as [Hneg|_]; [lia|].
    destruct (n <? Z.of_nat (length pre)); [reflexivity|]. apply (Hm _ _ _ (fun _ => _)).
Qed.

(* fresh_list n is a proper list of n pairwise different variables *)
Lemma fresh_list_vars : forall n,
  fresh_list n = tlist (map (fun i => Var (N.of_nat i)) (seq 0 n)) /\
  length (seq 0 n) = n /\ NoDup (map N.of_nat (seq 0 n)).
Proof.
  intros n. split; [reflexivity|]. split; [apply seq_length|].
  apply Injective_map_NoDup; [|apply seq_NoDup].
  intros a b Hab. now apply Nat2N.inj.
Qed.

(* ------------------------------------------------------------------ enumerate_ints: every integer exactly once *)
Lemma enum_ints_In : forall fuel i0 z, 0 <= i0 ->
  (In z (enum_ints fuel i0) <-> i0 <= Z.abs z < i0 + Z.of_nat fuel).
Proof.
  induction fuel as [|f IH]; intros i0 z Hi.
  - cbn [enum_ints In]. lia.
  - cbn [enum_ints]. cbn [In]. rewrite in_app_iff. rewrite IH by lia.
    destruct (Z.ltb_spec 0 i0) as [Hp|Hz]; cbn [In]; lia.
Qed.

Lemma enum_ints_NoDup : forall fuel i0, 0 <= i0 -> NoDup (enum_ints fuel i0).
Proof.
  induction fuel as [|f IH]; intros i0 Hi; cbn [enum_ints]; [constructor|].
  assert (Hrest : forall z, In z (enum_ints f (i0 + 1)) -> i0 + 1 <= Z.abs z).
  { intros z Hz. apply enum_ints_In in Hz; lia. }
  destruct (Z.ltb_spec 0 i0) as [Hp|Hz]; cbn [app].
  - constructor.
    + cbn [In]. intros [H0|H0]; [lia|]. apply Hrest in H0. lia.
    + constructor; [|apply IH; lia]. intro H0. apply Hrest in H0. lia.
  - constructor; [|apply IH; lia]. intro H0. apply Hrest in H0. lia.
Qed.

Lemma gen_int_complete : forall z, In z (enum_ints (S (Z.to_nat (Z.abs z))) 0).
Proof. intros z. apply enum_ints_In; lia. Qed.

(* ------------------------------------------------------------------ the comparison is equality *)
Lemma list_eqb_eq : forall (A : Type) (eqb : A -> A -> bool) (l l' : list A),
  (forall x y, In x l -> (eqb x y = true <-> x = y)) -> (list_eqb eqb l l' = true <-> l = l').
Proof.
  intros A eqb. induction l as [|x l IH]; intros l' Hx; destruct l' as [|y l']; cbn [list_eqb];
    try (split; [discriminate|discriminate]); [split; reflexivity|].
  rewrite andb_true_iff. rewrite (Hx x y (or_introl eq_refl)).
  rewrite IH by (intros a b Ha; apply Hx; now right).
  split; [intros [-> ->]; reflexivity | intros [= -> ->]; split; reflexivity].
Qed.

Lemma name_eqb_eq : forall a b, name_eqb a b = true <-> a = b.
Proof. intros a b. apply list_eqb_eq. intros x y _. apply N.eqb_eq. Qed.

Lemma term_eqb_eq : forall a b, term_eqb a b = true <-> a = b.
Proof.
  induction a as [v|z|n d|bits|s|f args IH] using term_ind'; intros b; destruct b as [v'|z'|n' d'|bits'|s'|f' args'];
    cbn [term_eqb]; try (split; [discriminate|discriminate]).
  - rewrite N.eqb_eq. split; [now intros ->|now intros [= ->]].
  - rewrite Z.eqb_eq. split; [now intros ->|now intros [= ->]].
  - rewrite andb_true_iff, !Z.eqb_eq. split; [now intros [-> ->]|now intros [= -> ->]].
  - rewrite Z.eqb_eq. split; [now intros ->|now intros [= ->]].
  - rewrite name_eqb_eq. split; [now intros ->|now intros [= ->]].
  - rewrite andb_true_iff, name_eqb_eq.
    assert (Hargs : forall l', (fix go (l l' : list term) : bool :=
               match l, l' with
               | [], [] => true
               | x :: r, y :: r' => term_eqb x y && go r r'
               | _, _ => false
               end) args l' = true <-> args = l').
    { induction IH as [|x r Hx Hr IHr]; intros l'; destruct l' as [|y r'];
        try (split; [discriminate|discriminate]); [split; reflexivity|].
      rewrite andb_true_iff, Hx, IHr. split; [now intros [-> ->]|now intros [= -> ->]]. }
    rewrite Hargs. split; [now intros [-> ->]|now intros [= -> ->]].
Qed.

Lemma formal_eqb_eq : forall a b, formal_eqb a b = true <-> a = b.
Proof.
  intros a b. destruct a as [|t c|c|r], b as [|t' c'|c'|r']; cbn [formal_eqb]; try (split; [discriminate|discriminate]).
  - split; reflexivity.
  - rewrite andb_true_iff, name_eqb_eq, term_eqb_eq. split; [now intros [-> ->]|now intros [= -> ->]].
  - rewrite term_eqb_eq. split; [now intros ->|now intros [= ->]].
  - destruct r, r'; cbn [res_kind_eqb]; split; try discriminate; reflexivity.
Qed.

(* a successful comparison means that the observation is the model's (EOther never compares equal) *)
Lemma obs_eqb_sound : forall a b, obs_eqb a b = true -> a = b.
Proof.
  intros [la ea] [lb eb]. unfold obs_eqb. cbn [o_ans o_end]. rewrite andb_true_iff. intros [Hl He].
  assert (la = lb) as ->.
  { apply (proj1 (list_eqb_eq _ _ la lb (fun x y _ => list_eqb_eq _ _ x y (fun p q _ => term_eqb_eq p q)))). exact Hl. }
  destruct ea, eb; cbn [ending_eqb] in He; try discriminate He; try reflexivity.
  apply formal_eqb_eq in He. now subst.
Qed.

Lemma gen_int_exact_lemma : forall fuel,
  NoDup (enum_ints fuel 0) /\ (forall z, In z (enum_ints fuel 0) <-> Z.abs z < Z.of_nat fuel) /\
  (forall z, In z (enum_ints (S (Z.to_nat (Z.abs z))) 0)).
Proof.
  intros fuel. split; [apply enum_ints_NoDup; reflexivity|]. split; [|exact gen_int_complete].
  intros z. rewrite enum_ints_In by reflexivity. split; intro H; [apply H | split; [apply Z.abs_nonneg | exact H]].
Qed.

Lemma check_between_sound : forall L H X o,
  check_between L H X o = true -> o = observe K (between_model K L H X).
Proof.
  intros L H X o Hc. unfold check_between in Hc. apply andb_true_iff in Hc. destruct Hc as [_ Hc].
  symmetry. now apply obs_eqb_sound.
Qed.
