(* C49 -- between/3, succ/2, length/2, numlist/3 as mode-indexed enumerators over the shared term type.
   Definitions only.  The enumerators follow src/lib/between.pl, src/lib/iso_ext.pl (succ/2), src/lib/lists.pl
   (length/2 with '$skip_max_list' of src/machine/system_calls.rs) and src/lib/error.pl (must_be/can_be) arm by arm. *)
From Coq Require Import ZArith NArith List Bool.
From V Require Import Base.Term.
Import ListNotations.
Open Scope Z_scope.

(* ------------------------------------------------------------------ error formals *)
Inductive res_kind := RMemory | RFiniteMemory.
Inductive formal :=
| FInst                                   (* instantiation_error *)
| FType (ty : list N) (culprit : term)    (* type_error(ty, culprit), ty = integer | list *)
| FDomNLZ (culprit : term)                (* domain_error(not_less_than_zero, culprit) *)
| FRes (k : res_kind).                    (* resource_error(memory | finite_memory) *)

Definition integer_nm : list N := [105; 110; 116; 101; 103; 101; 114]%N.
Definition list_nm : list N := [108; 105; 115; 116]%N.

(* An answer is the list of the values of the query's unbound variables, in argument order (left to right);
   the answer of a query without variables is [].  `infinite` says that the relation has infinitely many
   tuples for this mode; then `l` holds the first k answers. *)
Inductive result :=
| Answers (l : list (list term)) (infinite : bool)
| Error (f : formal).

(* ------------------------------------------------------------------ integer ranges *)
Fixpoint zrange_n (l : Z) (n : nat) : list Z :=
  match n with O => [] | S m => l :: zrange_n (l + 1) m end.
(* [l; l+1; ...; h], empty when h < l *)
Definition zrange (l h : Z) : list Z := zrange_n l (Z.to_nat (h - l + 1)).

(* ------------------------------------------------------------------ library(error) *)
(* must_be(integer, T) *)
Definition must_be_int (t : term) : formal + Z :=
  match t with
  | Var _ => inl FInst
  | Int z => inr z
  | _ => inl (FType integer_nm t)
  end.
(* can_be(integer, T): None = passes *)
Definition can_be_int (t : term) : option formal :=
  match t with
  | Var _ | Int _ => None
  | _ => Some (FType integer_nm t)
  end.
(* can_be(not_less_than_zero, T) *)
Definition can_be_nlz (t : term) : option formal :=
  match t with
  | Var _ => None
  | Int n => if n <? 0 then Some (FDomNLZ t) else None
  | _ => Some (FType integer_nm t)
  end.

(* ------------------------------------------------------------------ between/3 *)
(* between_/3: the first k answers.
     between_(Lower, Upper, Lower1) :- Lower < Upper, !, ( Lower1 = Lower ; Lower0 is Lower + 1, between_(Lower0, Upper, Lower1) ).
     between_(Lower, Lower, Lower). *)
Fixpoint between_first (k : nat) (l h : Z) : list Z :=
  match k with
  | O => []
  | S k' => if l <? h then l :: between_first k' (l + 1) h
            else if l =? h then [l] else []
  end.

Definition yes : result := Answers [[]] false.
Definition no : result := Answers [] false.

Definition between_model (k : nat) (L H X : term) : result :=
  match must_be_int L with
  | inl e => Error e
  | inr l =>
    match must_be_int H with
    | inl e => Error e
    | inr h =>
      match X with
      | Var _ => if l <=? h then Answers (map (fun z => [Int z]) (between_first k l h)) false else no
      | Int x => if (l <=? x) && (x <=? h) then yes else no
      | _ => Error (FType integer_nm X)
      end
    end
  end.

(* ------------------------------------------------------------------ succ/2 *)
Definition succ_model (I S : term) : result :=
  match can_be_nlz I with
  | Some e => Error e
  | None =>
    match can_be_nlz S with
    | Some e => Error e
    | None =>
      match S with
      | Int s => if 0 <? s then
                   match I with
                   | Var _ => Answers [[Int (s - 1)]] false
                   | Int i => if i =? s - 1 then yes else no
                   | _ => no
                   end
                 else no
      | _ => match I with
             | Int i => Answers [[Int (i + 1)]] false
             | _ => Error FInst
             end
      end
    end
  end.

(* ------------------------------------------------------------------ length/2 *)
(* a list of n distinct fresh variables (numbered 0..n-1: answers are compared up to renaming) *)
Definition fresh_list (n : nat) : term := tlist (map (fun i => Var (N.of_nat i)) (seq 0 n)).

(* lists longer than this cannot be allocated: '$det_length_rundown' answers resource_error(memory) *)
Definition mem_limit : Z := 2 ^ 40.

Definition length_model (k : nat) (Xs Nt : term) : result :=
  let (pre, tail) := list_view (term_size Xs) Xs in
  let m := Z.of_nat (length pre) in
  match Nt with
  | Int n =>
    if n <? 0 then Error (FDomNLZ Nt)
    else if n <? m then no                      (* '$skip_max_list' stops after n elements at a cons cell *)
    else match tail with
         | Atom [91%N; 93%N] => if n =? m then yes else no
         | Var _ => if mem_limit <=? n - m then Error (FRes RMemory)
                    else Answers [[fresh_list (Z.to_nat (n - m))]] false
         | _ => no
         end
  | Var nv =>
    match tail with
    | Atom [91%N; 93%N] => Answers [[Int m]] false
    | Var v => if N.eqb v nv then Error (FRes RFiniteMemory)
               else Answers (map (fun i => [Int (m + Z.of_nat i); fresh_list i]) (seq 0 k)) true
    | _ => no
    end
  | _ => Error (FType integer_nm Nt)
  end.

(* ------------------------------------------------------------------ numlist/3 *)
(* enumerate_ints/2 started at i0, `fuel` rounds: i0, -i0 (when i0 > 0), i0+1, -(i0+1), ... *)
Fixpoint enum_ints (fuel : nat) (i0 : Z) : list Z :=
  match fuel with
  | O => []
  | S f => i0 :: (if 0 <? i0 then [- i0] else []) ++ enum_ints f (i0 + 1)
  end.

(* diag_nats/4 started at (m, n): the pairs of one anti-diagonal after the other *)
Fixpoint diag_nats_from (fuel : nat) (m n : Z) : list (Z * Z) :=
  match fuel with
  | O => []
  | S f => (m, n) :: (if n =? 0 then diag_nats_from f 0 (m + 1) else diag_nats_from f (m + 1) (n - 1))
  end.
(* diag_nats/2 *)
Definition diag_nats (fuel : nat) : list (Z * Z) := (0, 0) :: diag_nats_from fuel 0 1.
(* diag_nats_signs/4 *)
Definition diag_signs (p : Z * Z) : list (Z * Z) :=
  let (m, n) := p in
  if (m =? 0) && (n =? 0) then [(0, 0)]
  else if m =? 0 then [(0, n); (0, - n)]
  else if n =? 0 then [(m, 0); (- m, 0)]
  else [(m, n); (m, - n); (- m, n); (- m, - n)].
Definition diag_ints (fuel : nat) : list (Z * Z) := flat_map diag_signs (diag_nats fuel).

(* linear matching of a pattern (distinct variables) against a ground term: the bindings in traversal order *)
Fixpoint match_term (p g : term) : option (list (N * term)) :=
  match p with
  | Var v => Some [(v, g)]
  | Cmp f ps =>
    match g with
    | Cmp f' gs =>
      if name_eqb f f' then
        (fix go (ps gs : list term) : option (list (N * term)) :=
           match ps, gs with
           | [], [] => Some []
           | p1 :: pr, g1 :: gr =>
             match match_term p1 g1, go pr gr with
             | Some b1, Some b2 => Some (b1 ++ b2)
             | _, _ => None
             end
           | _, _ => None
           end) ps gs
      else None
    | _ => None
    end
  | _ => if term_eqb p g then Some [] else None
  end.

(* can_be(list, T): a list or a partial list *)
Definition list_or_partial (t : term) : bool :=
  match snd (list_view (term_size t) t) with
  | Atom [91%N; 93%N] | Var _ => true
  | _ => false
  end.

Definition numlist_term (l u : Z) : term := tlist (map Int (zrange l u)).

(* the candidate bounds in the order gen_ints/2 produces them; `win` is the size of the scanned window *)
Definition numlist_candidates (win : nat) (L U : term) : list (Z * Z) :=
  match L, U with
  | Int l, Int u => [(l, u)]
  | Int l, _ => map (fun u => (l, u)) (enum_ints win 0)
  | _, Int u => map (fun l => (l, u)) (enum_ints win 0)
  | _, _ => diag_ints (win * 8)
  end.

Definition is_var (t : term) : bool := match t with Var _ => true | _ => false end.

(* numlist(Lower, Upper, List) :- gen_ints(Lower, Upper), findall(X, between(Lower, Upper, X), List).
   With an unbound bound the candidates inside the window are scanned; the first k answers are returned and the
   relation is reported infinite when the window holds at least k answers. *)
Definition numlist_model (win k : nat) (L U Lst : term) : result :=
  match can_be_int L with
  | Some e => Error e
  | None =>
    match can_be_int U with
    | Some e => Error e
    | None =>
      let cands := filter (fun p => fst p <=? snd p) (numlist_candidates win L U) in
      match cands with
      | [] => no
      | _ =>
        if negb (list_or_partial Lst) then Error (FType list_nm Lst)
        else
          let one (p : Z * Z) : list (list term) :=
            match match_term Lst (numlist_term (fst p) (snd p)) with
            | Some b => [(if is_var L then [Int (fst p)] else []) ++ (if is_var U then [Int (snd p)] else []) ++ map snd b]
            | None => []
            end in
          let all := flat_map one cands in
          let unbound := is_var L || is_var U in
          Answers (if unbound then firstn k all else all) (unbound && (k <=? length all)%nat)
      end
    end
  end.

(* ------------------------------------------------------------------ observations *)
Inductive ending := EEnd | EMore | EErr (f : formal) | ETimeout | EOther.
Record obs := mkobs { o_ans : list (list term); o_end : ending }.

(* what the harness shows of a result when it stops after k answers *)
Definition observe (k : nat) (r : result) : obs :=
  match r with
  | Error f => mkobs [] (EErr f)
  | Answers l _ => if (k <=? length l)%nat then mkobs (firstn k l) EMore else mkobs l EEnd
  end.

Definition res_kind_eqb (a b : res_kind) : bool :=
  match a, b with RMemory, RMemory | RFiniteMemory, RFiniteMemory => true | _, _ => false end.
Definition formal_eqb (a b : formal) : bool :=
  match a, b with
  | FInst, FInst => true
  | FType t c, FType t' c' => name_eqb t t' && term_eqb c c'
  | FDomNLZ c, FDomNLZ c' => term_eqb c c'
  | FRes k, FRes k' => res_kind_eqb k k'
  | _, _ => false
  end.
Definition ending_eqb (a b : ending) : bool :=
  match a, b with
  | EEnd, EEnd | EMore, EMore | ETimeout, ETimeout => true
  | EErr f, EErr f' => formal_eqb f f'
  | _, _ => false         (* EOther equals nothing *)
  end.
Definition obs_eqb (a b : obs) : bool :=
  list_eqb (list_eqb term_eqb) (o_ans a) (o_ans b) && ending_eqb (o_end a) (o_end b).

(* a relation reported infinite must fill the k answers *)
Definition wf_result (k : nat) (r : result) : bool :=
  match r with
  | Answers l true => (k <=? length l)%nat
  | _ => true
  end.

Definition K : nat := 20.
Definition WIN : nat := 64.

Definition check_between (L H X : term) (o : obs) : bool :=
  let r := between_model K L H X in wf_result K r && obs_eqb (observe K r) o.
Definition check_succ (I S : term) (o : obs) : bool :=
  let r := succ_model I S in wf_result K r && obs_eqb (observe K r) o.
Definition check_length (Xs Nt : term) (o : obs) : bool :=
  let r := length_model K Xs Nt in wf_result K r && obs_eqb (observe K r) o.
Definition check_numlist (L U Lst : term) (o : obs) : bool :=
  let r := numlist_model WIN K L U Lst in wf_result K r && obs_eqb (observe K r) o.
