(* C10 -- reference model of unification over the shared term datatype.
   (a) finite trees: Robinson / Martelli-Montanari unification with occurs check on a worklist of
       equations (unify_oc), total by two fuels whose sufficiency is proved in Proofs.v;
   (b) rational trees: the same worklist without occurs check over a store of bindings with a
       visited set of already decomposed pairs (unify_rt), the shape of unify.rs unify_internal with
       its tabu list.
   Number leaves unify by kind and value: Int with Int of the same value (small integers and bignums
   are one kind), Rat with the same Rat, Flt with the same bit pattern (the generator of the check
   normalises -0.0 to 0.0, which the implementation identifies: `0.0 == -0.0` holds); an Int never
   unifies with a Flt.  Strings are lists of one-character atoms.
   No proofs in this file. *)
From Coq Require Import ZArith NArith List Bool.
From V Require Import Base.Term.
Import ListNotations.

Definition subst := list (N * term).
Definition eqn := (term * term)%type.

(* simultaneous substitution by an arbitrary function (used to quantify over ALL substitutions) *)
Fixpoint inst (f : N -> term) (t : term) : term :=
  match t with
  | Var v => f v
  | Cmp g l => Cmp g (map (inst f) l)
  | _ => t
  end.

Definition upd (x : N) (r : term) : N -> term := fun y => if N.eqb y x then r else Var y.
Definition subst1 (x : N) (r : term) (t : term) : term := inst (upd x r) t.

(* a substitution is an association list of elementary bindings applied from the head on *)
Definition apply (s : subst) (t : term) : term :=
  fold_left (fun u p => subst1 (fst p) (snd p) u) s t.

Fixpoint vars (t : term) : list N :=
  match t with
  | Var v => [v]
  | Cmp _ l => flat_map vars l
  | _ => []
  end.

Definition occurs (x : N) (t : term) : bool := existsb (N.eqb x) (vars t).

Fixpoint tsize (t : term) : nat :=
  match t with
  | Cmp _ l => S (list_sum (map tsize l))
  | _ => 1
  end.

Definition leaf_eqb (a b : term) : bool :=
  match a, b with
  | Int x, Int y => Z.eqb x y
  | Rat n d, Rat n' d' => Z.eqb n n' && Z.eqb d d'
  | Flt x, Flt y => Z.eqb x y
  | Atom s, Atom s' => name_eqb s s'
  | _, _ => false
  end.

Inductive res := OutOfFuel | Fail | Ok (s : subst).

Definition subst_eqs (x : N) (r : term) (l : list eqn) : list eqn :=
  map (fun p => (subst1 x r (fst p), subst1 x r (snd p))) l.

(* variable elimination: occurs check, substitute in the remaining equations, continue with [rec] *)
Definition bind_step (rec : list eqn -> res) (x : N) (t : term) (rest : list eqn) : res :=
  if occurs x t then Fail
  else match rec (subst_eqs x t rest) with
       | Ok s => Ok ((x, t) :: s)
       | r => r
       end.

(* what one equation asks for *)
Inductive action := ADelete | ABind (x : N) (t : term) | ADecomp (l m : list term) | AClash.

Definition classify (a b : term) : action :=
  match a, b with
  | Var x, Var y => if N.eqb x y then ADelete else ABind x b
  | Var x, _ => ABind x b
  | _, Var y => ABind y a
  | Cmp f l, Cmp g m =>
      if name_eqb f g && Nat.eqb (length l) (length m) then ADecomp l m else AClash
  | _, _ => if leaf_eqb a b then ADelete else AClash
  end.

(* one phase: decompose / delete until a variable is eliminated (then [rec] takes over) *)
Fixpoint unify_s (rec : list eqn -> res) (sf : nat) (eqs : list eqn) : res :=
  match eqs with
  | [] => Ok []
  | (a, b) :: rest =>
    match sf with
    | O => OutOfFuel
    | S k =>
      match classify a b with
      | ADelete => unify_s rec k rest
      | ABind x t => bind_step rec x t rest
      | ADecomp l m => unify_s rec k (combine l m ++ rest)
      | AClash => Fail
      end
    end
  end.

Definition eqs_size (l : list eqn) : nat :=
  list_sum (map (fun p => tsize (fst p) + tsize (snd p)) l).

Definition eqs_vars (l : list eqn) : list N :=
  flat_map (fun p => vars (fst p) ++ vars (snd p)) l.

(* outer fuel: one unit per eliminated variable; inner fuel: the size of the current equations *)
Fixpoint unify_v (vf : nat) (eqs : list eqn) : res :=
  match vf with
  | O => OutOfFuel
  | S k => unify_s (unify_v k) (eqs_size eqs) eqs
  end.

Definition unify_run (a b : term) : res :=
  unify_v (S (length (vars a ++ vars b))) [(a, b)].

Definition unify_oc (a b : term) : option subst :=
  match unify_run a b with Ok s => Some s | _ => None end.

(* ------------------------------------------------------------------ rational trees *)
Fixpoint lookup (x : N) (s : subst) : option term :=
  match s with
  | [] => None
  | (y, t) :: r => if N.eqb x y then Some t else lookup x r
  end.

Fixpoint walk (fuel : nat) (s : subst) (t : term) : term :=
  match fuel with
  | O => t
  | S k => match t with
           | Var x => match lookup x s with Some u => walk k s u | None => t end
           | _ => t
           end
  end.

Definition pair_in (a b : term) (vis : list eqn) : bool :=
  existsb (fun p => term_eqb a (fst p) && term_eqb b (snd p)) vis.

(* None = out of fuel; Some false = a functor/constant clash along a path; Some true = unifiable *)
Fixpoint rt_loop (fuel : nat) (s : subst) (vis : list eqn) (eqs : list eqn) : option bool :=
  match fuel with
  | O => None
  | S k =>
    match eqs with
    | [] => Some true
    | (a0, b0) :: rest =>
      let a := walk (S (length s)) s a0 in
      let b := walk (S (length s)) s b0 in
      match classify a b with
      | ADelete => rt_loop k s vis rest
      | ABind x t => rt_loop k ((x, t) :: s) vis rest
      | ADecomp l m =>
          if pair_in a b vis then rt_loop k s vis rest
          else rt_loop k s ((a, b) :: vis) (combine l m ++ rest)
      | AClash => Some false
      end
    end
  end.

Definition rt_fuel (a b : term) : nat := let n := tsize a + tsize b in S (2 * n * n).
Definition unify_rt (a b : term) : option bool := rt_loop (rt_fuel a b) [] [] [(a, b)].

(* ------------------------------------------------------------------ observables of the check *)
(* canonical renaming of variables by first occurrence over a list of terms (variant normal form) *)
Fixpoint lookupN (x : N) (s : list (N * N)) : option N :=
  match s with
  | [] => None
  | (y, k) :: r => if N.eqb x y then Some k else lookupN x r
  end.

Fixpoint canon_t (t : term) (st : list (N * N)) : term * list (N * N) :=
  match t with
  | Var v => match lookupN v st with
             | Some k => (Var k, st)
             | None => let k := N.of_nat (length st) in (Var k, (v, k) :: st)
             end
  | Cmp f l =>
      let (l', st') := (fix go (l : list term) (st : list (N * N)) : list term * list (N * N) :=
                          match l with
                          | [] => ([], st)
                          | x :: r => let (x', st1) := canon_t x st in
                                      let (r', st2) := go r st1 in (x' :: r', st2)
                          end) l st in
      (Cmp f l', st')
  | _ => (t, st)
  end.

Fixpoint canon_l (l : list term) (st : list (N * N)) : list term :=
  match l with
  | [] => []
  | x :: r => let (x', st1) := canon_t x st in x' :: canon_l r st1
  end.

Definition variant_lists (a b : list term) : bool := list_eqb term_eqb (canon_l a []) (canon_l b []).

(* what the implementation showed for one pair under one mode *)
Inductive impl_out :=
| IFail                                  (* the goal failed *)
| IOkBind (same : bool) (bs : list term) (* succeeded; A == B afterwards; values of [X1..Xn, W] (acyclic) *)
| IOkCyclic (same : bool)                (* succeeded with a cyclic unifier; A == B afterwards *)
| IOccursError                           (* error(representation_error(term), _) ... the documented ball *)
| IOther.

(* vs = the variables X1..Xn of the pair followed by the witness variable W *)
Definition model_bindings (s : subst) (vs : list N) : list term := map (fun v => apply s (Var v)) vs.

(* the three comparisons, over the two verdicts of the model (computed once per pair) *)
Definition chk_bind (oc : option subst) (vs : list N) (o : impl_out) : option bool :=
  match oc with
  | Some s => Some match o with
                   | IOkBind same bs => same && variant_lists (model_bindings s vs) bs
                   | _ => false
                   end
  | None => None
  end.

(* = with occurs_check=false: rational-tree unification *)
Definition chk_rt (oc : option subst) (rt : option bool) (vs : list N) (o : impl_out) : bool :=
  match chk_bind oc vs o with
  | Some r => r
  | None => match rt with
            | Some true => match o with IOkCyclic same => same | _ => false end
            | Some false => match o with IFail => true | _ => false end
            | None => false
            end
  end.

(* unify_with_occurs_check/2 and = with occurs_check=true: finite unification *)
Definition chk_oc (oc : option subst) (vs : list N) (o : impl_out) : bool :=
  match chk_bind oc vs o with
  | Some r => r
  | None => match o with IFail => true | _ => false end
  end.

(* = with occurs_check=error: as finite unification, but when the terms are unifiable only as rational
   trees (every processing order must attempt a cyclic binding; "a unification is performed that the
   occurs check would have prevented") the error is raised; when they are not unifiable at all,
   failure and the error are both allowed (which comes first depends on the processing order, which
   the property does not fix). *)
Definition chk_err (oc : option subst) (rt : option bool) (vs : list N) (o : impl_out) : bool :=
  match chk_bind oc vs o with
  | Some r => r
  | None => match rt with
            | Some true => match o with IOccursError => true | _ => false end
            | Some false => match o with IFail | IOccursError => true | _ => false end
            | None => false
            end
  end.

Definition check_rt (a b : term) (vs : list N) (o : impl_out) : bool := chk_rt (unify_oc a b) (unify_rt a b) vs o.
Definition check_oc (a b : term) (vs : list N) (o : impl_out) : bool := chk_oc (unify_oc a b) vs o.
Definition check_err (a b : term) (vs : list N) (o : impl_out) : bool := chk_err (unify_oc a b) (unify_rt a b) vs o.

(* all observations of one pair at once *)
Definition check_pair (a b : term) (vs : list N) (rts ocs errs : list impl_out) : bool :=
  let oc := unify_oc a b in
  let rt := unify_rt a b in
  forallb (chk_rt oc rt vs) rts && forallb (chk_oc oc vs) ocs && forallb (chk_err oc rt vs) errs.

(* 0 = finite unifier, 1 = unifiable as rational trees only, 2 = not unifiable, 3 = rational-tree model out of fuel *)
Definition verdict (a b : term) : N :=
  match unify_oc a b with
  | Some _ => 0%N
  | None => match unify_rt a b with Some true => 1%N | Some false => 2%N | None => 3%N end
  end.
