(* C10 -- proofs about the unification model *)
From Coq Require Import ZArith NArith List Bool Lia.
From V Require Import Base.Term C10.Model.
Import ListNotations.

(* ------------------------------------------------------------------ names and leaves *)
Lemma name_eqb_eq : forall a b : list N, name_eqb a b = true <-> a = b.
Proof.
  unfold name_eqb. induction a as [|x a IH]; intros [|y b]; simpl; split; intro H; try discriminate; auto.
  - apply andb_true_iff in H. destruct H as [H1 H2]. apply N.eqb_eq in H1. apply IH in H2. congruence.
  - inversion H; subst. apply andb_true_iff. split. apply N.eqb_refl. apply IH. reflexivity.
Qed.

Lemma name_eqb_refl : forall a, name_eqb a a = true.
Proof. intro a. apply name_eqb_eq. reflexivity. Qed.

(* ------------------------------------------------------------------ inst / subst1 / apply *)
Lemma inst_ext : forall f g t, (forall x, In x (vars t) -> f x = g x) -> inst f t = inst g t.
Proof.
  intros f g t. induction t as [v|z|n d|b|s|h args IH] using term_ind'; intro H; simpl; auto.
  - apply H. simpl. auto.
  - f_equal. apply map_ext_in. intros a Ha. rewrite Forall_forall in IH. apply IH; auto.
    intros x Hx. apply H. simpl. apply in_flat_map. exists a. auto.
Qed.

Lemma inst_id : forall t, inst Var t = t.
Proof.
  induction t as [v|z|n d|b|s|h args IH] using term_ind'; simpl; auto.
  f_equal. rewrite <- (map_id args) at 2. apply map_ext_in. rewrite Forall_forall in IH. auto.
Qed.

Lemma inst_comp : forall f g t, inst f (inst g t) = inst (fun x => inst f (g x)) t.
Proof.
  intros f g. induction t as [v|z|n d|b|s|h args IH] using term_ind'; simpl; auto.
  f_equal. rewrite map_map. apply map_ext_in. rewrite Forall_forall in IH. auto.
Qed.

Lemma subst1_notin : forall x r t, ~ In x (vars t) -> subst1 x r t = t.
Proof.
  intros x r t H. unfold subst1. rewrite <- (inst_id t) at 2. apply inst_ext.
  intros y Hy. unfold upd. destruct (N.eqb_spec y x); auto. subst. contradiction.
Qed.

Lemma subst1_var_same : forall x r, subst1 x r (Var x) = r.
Proof. intros. unfold subst1, upd. simpl. rewrite N.eqb_refl. reflexivity. Qed.

(* the key fact of variable elimination: a unifier of x = r does not see the substitution x := r *)
Lemma inst_subst1 : forall f x r t, f x = inst f r -> inst f (subst1 x r t) = inst f t.
Proof.
  intros f x r t H. unfold subst1. rewrite inst_comp. apply inst_ext.
  intros y _. unfold upd. destruct (N.eqb_spec y x); subst; auto.
Qed.

Lemma apply_cons : forall x r s t, apply ((x, r) :: s) t = apply s (subst1 x r t).
Proof. reflexivity. Qed.

Lemma apply_nil : forall t, apply [] t = t.
Proof. reflexivity. Qed.

Definition sfun (s : subst) : N -> term := fun x => apply s (Var x).

Lemma apply_inst : forall s t, apply s t = inst (sfun s) t.
Proof.
  induction s as [|[x r] s IH]; intro t.
  - rewrite apply_nil. symmetry. unfold sfun. simpl. apply inst_id.
  - rewrite apply_cons, IH. unfold subst1. rewrite inst_comp. apply inst_ext.
    intros y _. unfold sfun at 2. rewrite apply_cons, IH. reflexivity.
Qed.

Lemma apply_cmp : forall s f l, apply s (Cmp f l) = Cmp f (map (apply s) l).
Proof.
  intros. rewrite apply_inst. simpl. f_equal. apply map_ext. intro. symmetry. apply apply_inst.
Qed.

(* ------------------------------------------------------------------ variables *)
Lemma occurs_true : forall x t, occurs x t = true <-> In x (vars t).
Proof.
  intros. unfold occurs. rewrite existsb_exists. split.
  - intros [y [Hy E]]. apply N.eqb_eq in E. subst. auto.
  - intro H. exists x. split; auto. apply N.eqb_refl.
Qed.

Lemma occurs_false : forall x t, occurs x t = false <-> ~ In x (vars t).
Proof.
  intros. rewrite <- occurs_true. destruct (occurs x t); split; intro H; try discriminate; auto.
  exfalso. apply H. reflexivity.
Qed.

Lemma vars_inst : forall f t y, In y (vars (inst f t)) <-> exists x, In x (vars t) /\ In y (vars (f x)).
Proof.
  intros f t y. induction t as [v|z|n d|b|s|h args IH] using term_ind'; simpl.
  - split. intro H. exists v. auto. intros [x [[E|[]] H]]. subst. auto.
  - split. intros []. intros [x [[] _]].
  - split. intros []. intros [x [[] _]].
  - split. intros []. intros [x [[] _]].
  - split. intros []. intros [x [[] _]].
  - rewrite Forall_forall in IH. rewrite in_flat_map. split.
    + intros [a' [Ha' Hy]]. apply in_map_iff in Ha'. destruct Ha' as [a [E Ha]]. subst a'.
      apply IH in Hy; auto. destruct Hy as [x [Hx Hy]]. exists x. split; auto.
      apply in_flat_map. exists a. auto.
    + intros [x [Hx Hy]]. apply in_flat_map in Hx. destruct Hx as [a [Ha Hx]].
      exists (inst f a). split. apply in_map. auto. apply IH; auto. exists x. auto.
Qed.

Lemma vars_subst1 : forall x r t y, In y (vars (subst1 x r t)) ->
  (In y (vars t) /\ y <> x) \/ In y (vars r).
Proof.
  intros x r t y H. unfold subst1 in H. apply vars_inst in H. destruct H as [z [Hz Hy]].
  unfold upd in Hy. destruct (N.eqb_spec z x).
  - right. auto.
  - simpl in Hy. destruct Hy as [E|[]]. subst. left. auto.
Qed.

(* ------------------------------------------------------------------ sizes *)
Lemma tsize_pos : forall t, 1 <= tsize t.
Proof. destruct t; simpl; lia. Qed.

Lemma list_sum_in : forall (l : list nat) n, In n l -> n <= list_sum l.
Proof. induction l as [|a l IH]; simpl; intros n H. contradiction. destruct H as [E|H]. lia. apply IH in H. lia. Qed.

(* a variable that occurs in t below the root makes every instance of t larger than its own instance *)
Lemma tsize_occurs : forall f x t, In x (vars t) -> tsize (f x) <= tsize (inst f t).
Proof.
  intros f x t. induction t as [v|z|n d|b|s|h args IH] using term_ind'; simpl; intro H; try contradiction.
  - destruct H as [E|[]]. subst. lia.
  - apply in_flat_map in H. destruct H as [a [Ha Hx]]. rewrite Forall_forall in IH.
    specialize (IH a Ha Hx).
    assert (tsize (inst f a) <= list_sum (map tsize (map (inst f) args))).
    { apply list_sum_in. apply in_map. apply in_map. auto. }
    lia.
Qed.

Lemma occurs_no_unifier : forall f x t, In x (vars t) -> t <> Var x -> f x <> inst f t.
Proof.
  intros f x t H Hn E. destruct t as [v|z|n d|b|s|h args]; simpl in H; try contradiction.
  - destruct H as [H|[]]. subst. congruence.
  - apply in_flat_map in H. destruct H as [a [Ha Hx]].
    pose proof (tsize_occurs f x a Hx) as L.
    assert (tsize (inst f a) <= list_sum (map tsize (map (inst f) args))).
    { apply list_sum_in. apply in_map. apply in_map. auto. }
    rewrite E in L. simpl in L. lia.
Qed.

(* ------------------------------------------------------------------ classify *)
Definition unifies (f : N -> term) (eqs : list eqn) : Prop :=
  Forall (fun p => inst f (fst p) = inst f (snd p)) eqs.

Lemma leaf_eqb_true : forall a b, leaf_eqb a b = true -> a = b.
Proof.
  intros a b H. destruct a, b; simpl in H; try discriminate.
  - apply Z.eqb_eq in H. congruence.
  - apply andb_true_iff in H. destruct H as [H1 H2]. apply Z.eqb_eq in H1. apply Z.eqb_eq in H2. congruence.
  - apply Z.eqb_eq in H. congruence.
  - apply name_eqb_eq in H. congruence.
Qed.

Lemma classify_delete : forall a b, classify a b = ADelete -> a = b.
Proof.
  intros a b H. destruct a, b; cbn [classify] in H; try discriminate;
    try (match type of H with (if ?c then _ else _) = _ => destruct c eqn:E; try discriminate end);
    try (apply leaf_eqb_true in E; assumption).
  apply N.eqb_eq in E. congruence.
Qed.

Lemma classify_bind : forall a b x t, classify a b = ABind x t ->
  (a = Var x /\ b = t) \/ (b = Var x /\ a = t).
Proof.
  intros a b x t H. destruct a, b; simpl in H;
    try (match type of H with (if ?c then _ else _) = _ => destruct c eqn:E end);
    try discriminate; inversion H; subst; auto.
Qed.

Lemma classify_bind_neq : forall a b x t, classify a b = ABind x t -> t <> Var x.
Proof.
  intros a b x t H. destruct a, b; simpl in H;
    try (match type of H with (if ?c then _ else _) = _ => destruct c eqn:E end);
    try discriminate; inversion H; subst; try discriminate.
  apply N.eqb_neq in E. congruence.
Qed.

Lemma classify_decomp : forall a b l m, classify a b = ADecomp l m ->
  exists f, a = Cmp f l /\ b = Cmp f m /\ length l = length m.
Proof.
  intros a b l m H. destruct a, b; simpl in H;
    try (match type of H with (if ?c then _ else _) = _ => destruct c eqn:E end);
    try discriminate. inversion H; subst.
  apply andb_true_iff in E. destruct E as [E1 E2]. apply name_eqb_eq in E1. apply Nat.eqb_eq in E2.
  subst. eauto.
Qed.

Lemma leaf_eqb_false_neq : forall a b, leaf_eqb a b = false -> a <> b \/ (exists v, a = Var v) \/ (exists f l, a = Cmp f l).
Proof.
  intros a b H. destruct a; try (right; eauto; fail); left; intro E; subst b; simpl in H.
  - rewrite Z.eqb_refl in H. discriminate.
  - rewrite !Z.eqb_refl in H. discriminate.
  - rewrite Z.eqb_refl in H. discriminate.
  - rewrite name_eqb_refl in H. discriminate.
Qed.

Lemma classify_clash : forall a b f, classify a b = AClash -> inst f a <> inst f b.
Proof.
  intros a b f H. destruct a, b; simpl in H;
    try (match type of H with (if ?c then _ else _) = _ => destruct c eqn:E end);
    try discriminate; simpl; try (intro Q; discriminate Q);
    try (intro Q; injection Q; intros; subst;
         match goal with
         | E : (_ =? _)%Z = false |- _ => rewrite Z.eqb_refl in E; discriminate E
         | E : (_ =? _)%Z && (_ =? _)%Z = false |- _ => rewrite !Z.eqb_refl in E; discriminate E
         | E : name_eqb _ _ = false |- _ => rewrite name_eqb_refl in E; discriminate E
         end).
  intro Q. injection Q. intros Hm Hn. subst.
  rewrite name_eqb_refl in E. simpl in E. apply Nat.eqb_neq in E. apply E.
  rewrite <- (map_length (inst f) args), <- (map_length (inst f) args0). congruence.
Qed.

(* ------------------------------------------------------------------ lists of equations *)
Lemma unifies_combine : forall f l m, length l = length m ->
  (unifies f (combine l m) <-> map (inst f) l = map (inst f) m).
Proof.
  intros f. induction l as [|a l IH]; intros [|b m] L; simpl in *; try discriminate.
  - split; auto. intro. constructor.
  - injection L as L. split.
    + intro H. inversion H; subst. simpl in *. f_equal; auto. apply IH; auto.
    + intro H. injection H as H1 H2. constructor; auto. apply IH; auto.
Qed.

Lemma unifies_app : forall f l m, unifies f (l ++ m) <-> unifies f l /\ unifies f m.
Proof. intros. apply Forall_app. Qed.

Lemma unifies_subst_eqs : forall f x r l, f x = inst f r -> (unifies f (subst_eqs x r l) <-> unifies f l).
Proof.
  intros f x r l H. unfold unifies, subst_eqs. rewrite Forall_map. simpl.
  split; apply Forall_impl; intros [a b]; simpl; rewrite !inst_subst1; auto.
Qed.

(* ------------------------------------------------------------------ bind_step *)
Lemma bind_step_ok : forall rec x t rest s, bind_step rec x t rest = Ok s ->
  exists s', s = (x, t) :: s' /\ occurs x t = false /\ rec (subst_eqs x t rest) = Ok s'.
Proof.
  intros rec x t rest s H. unfold bind_step in H. destruct (occurs x t); try discriminate.
  destruct (rec (subst_eqs x t rest)) as [| |s'] eqn:E; try discriminate. inversion H; subst. eauto.
Qed.

Lemma bind_step_fail : forall rec x t rest, bind_step rec x t rest = Fail ->
  occurs x t = true \/ (occurs x t = false /\ rec (subst_eqs x t rest) = Fail).
Proof.
  intros rec x t rest H. unfold bind_step in H. destruct (occurs x t); auto.
  destruct (rec (subst_eqs x t rest)); try discriminate. auto.
Qed.

Lemma bind_step_oof : forall rec x t rest, bind_step rec x t rest = OutOfFuel ->
  occurs x t = false /\ rec (subst_eqs x t rest) = OutOfFuel.
Proof.
  intros rec x t rest H. unfold bind_step in H. destruct (occurs x t); try discriminate.
  destruct (rec (subst_eqs x t rest)); try discriminate. auto.
Qed.

(* ------------------------------------------------------------------ soundness *)
Definition sound_rec (rec : list eqn -> res) : Prop :=
  forall eqs s, rec eqs = Ok s -> unifies (sfun s) eqs.

Lemma sfun_cons_var : forall x t s, ~ In x (vars t) -> sfun ((x, t) :: s) x = inst (sfun ((x, t) :: s)) t.
Proof.
  intros x t s H. unfold sfun at 1. rewrite apply_cons, subst1_var_same.
  rewrite <- apply_inst, apply_cons, subst1_notin; auto.
Qed.

Lemma unify_s_sound : forall rec, sound_rec rec -> forall sf, sound_rec (unify_s rec sf).
Proof.
  intros rec Hrec. induction sf as [|k IH]; intros eqs s H.
  - destruct eqs as [|[a b] rest]; simpl in H; try discriminate. constructor.
  - destruct eqs as [|[a b] rest]; simpl in H. constructor.
    destruct (classify a b) as [|x t|l m|] eqn:C; try discriminate.
    + apply classify_delete in C. subst. apply IH in H. constructor; auto.
    + apply bind_step_ok in H. destruct H as [s' [E [Ho Hr]]]. subst s.
      apply occurs_false in Ho. pose proof (sfun_cons_var x t s' Ho) as Hx.
      apply Hrec in Hr.
      assert (Hrest : unifies (sfun ((x, t) :: s')) rest).
      { unfold unifies, subst_eqs in *. rewrite Forall_map in Hr. simpl in Hr.
        eapply Forall_impl; [|exact Hr]. intros [u v]. simpl.
        rewrite <- !apply_inst, !apply_cons. auto. }
      constructor; auto. simpl.
      apply classify_bind in C. destruct C as [[Ea Eb]|[Eb Ea]]; subst; simpl; auto.
    + apply classify_decomp in C. destruct C as [f [Ea [Eb L]]]. subst.
      apply IH in H. apply unifies_app in H. destruct H as [H1 H2].
      constructor; auto. simpl. f_equal. apply unifies_combine; auto.
Qed.

Lemma unify_v_sound : forall vf, sound_rec (unify_v vf).
Proof.
  induction vf as [|k IH]; intros eqs s H; simpl in H. discriminate.
  eapply unify_s_sound; eauto.
Qed.

(* ------------------------------------------------------------------ most general *)
Definition mgu_rec (rec : list eqn -> res) : Prop :=
  forall eqs s f, rec eqs = Ok s -> unifies f eqs -> forall t, inst f (apply s t) = inst f t.

Lemma unify_s_mgu : forall rec, mgu_rec rec -> forall sf, mgu_rec (unify_s rec sf).
Proof.
  intros rec Hrec. induction sf as [|k IH]; intros eqs s f H U t.
  - destruct eqs as [|[a b] rest]; simpl in H; try discriminate. inversion H. reflexivity.
  - destruct eqs as [|[a b] rest]; simpl in H. inversion H. reflexivity.
    inversion U as [|p q U1 U2]; subst. simpl in U1.
    destruct (classify a b) as [|x r|l m|] eqn:C; try discriminate.
    + eapply IH; eauto.
    + apply bind_step_ok in H. destruct H as [s' [E [Ho Hr]]]. subst s.
      assert (Hx : f x = inst f r).
      { apply classify_bind in C. destruct C as [[Ea Eb]|[Eb Ea]]; subst; simpl in U1; auto. }
      rewrite apply_cons. rewrite (Hrec _ _ f Hr).
      * apply inst_subst1. auto.
      * apply unifies_subst_eqs; auto.
    + apply classify_decomp in C. destruct C as [g [Ea [Eb L]]]. subst.
      eapply IH; eauto. apply unifies_app. split; auto.
      apply unifies_combine; auto. simpl in U1. congruence.
Qed.

Lemma unify_v_mgu : forall vf, mgu_rec (unify_v vf).
Proof.
  induction vf as [|k IH]; intros eqs s f H; simpl in H. discriminate.
  eapply unify_s_mgu; eauto.
Qed.

(* ------------------------------------------------------------------ completeness: Fail -> no unifier *)
Definition complete_rec (rec : list eqn -> res) : Prop :=
  forall eqs f, rec eqs = Fail -> ~ unifies f eqs.

Lemma unify_s_complete : forall rec, complete_rec rec -> forall sf, complete_rec (unify_s rec sf).
Proof.
  intros rec Hrec. induction sf as [|k IH]; intros eqs f H U.
  - destruct eqs as [|[a b] rest]; simpl in H; discriminate.
  - destruct eqs as [|[a b] rest]; simpl in H. discriminate.
    inversion U as [|p q U1 U2]; subst. simpl in U1.
    destruct (classify a b) as [|x r|l m|] eqn:C.
    + exact (IH _ f H U2).
    + assert (Hx : f x = inst f r).
      { pose proof C as C'. apply classify_bind in C'. destruct C' as [[Ea Eb]|[Eb Ea]]; subst; simpl in U1; auto. }
      apply bind_step_fail in H. destruct H as [Ho|[Ho Hr]].
      * apply occurs_true in Ho. apply classify_bind_neq in C.
        exact (occurs_no_unifier f x r Ho C Hx).
      * apply (Hrec _ f Hr). apply unifies_subst_eqs; auto.
    + apply classify_decomp in C. destruct C as [g [Ea [Eb L]]]. subst.
      apply (IH _ f H). apply unifies_app. split; auto.
      apply unifies_combine; auto. simpl in U1. congruence.
    + eapply classify_clash; eauto.
Qed.

Lemma unify_v_complete : forall vf, complete_rec (unify_v vf).
Proof.
  induction vf as [|k IH]; intros eqs f H; simpl in H. discriminate.
  eapply unify_s_complete; eauto.
Qed.

(* ------------------------------------------------------------------ fuel sufficiency *)
Lemma eqs_size_cons : forall a b rest, eqs_size ((a, b) :: rest) = tsize a + tsize b + eqs_size rest.
Proof. reflexivity. Qed.

Lemma eqs_size_app : forall l m, eqs_size (l ++ m) = eqs_size l + eqs_size m.
Proof. intros. unfold eqs_size. rewrite map_app, list_sum_app. reflexivity. Qed.

Lemma eqs_size_combine : forall l m, length l = length m ->
  eqs_size (combine l m) = list_sum (map tsize l) + list_sum (map tsize m).
Proof.
  induction l as [|a l IH]; intros [|b m] L; simpl in *; try discriminate; auto.
  injection L as L. rewrite eqs_size_cons, IH; auto. lia.
Qed.

Lemma eqs_vars_cons : forall a b rest, eqs_vars ((a, b) :: rest) = (vars a ++ vars b) ++ eqs_vars rest.
Proof. reflexivity. Qed.

Lemma eqs_vars_app : forall l m, eqs_vars (l ++ m) = eqs_vars l ++ eqs_vars m.
Proof. intros. unfold eqs_vars. apply flat_map_app. Qed.

Lemma eqs_vars_combine : forall l m y, In y (eqs_vars (combine l m)) ->
  In y (flat_map vars l) \/ In y (flat_map vars m).
Proof.
  induction l as [|a l IH]; intros [|b m] y H; simpl in *; try contradiction.
  rewrite !in_app_iff in *. destruct H as [[H|H]|H]; auto. apply IH in H. tauto.
Qed.

Lemma eqs_vars_subst_eqs : forall x r l y, In y (eqs_vars (subst_eqs x r l)) ->
  (In y (eqs_vars l) /\ y <> x) \/ In y (vars r).
Proof.
  intros x r l y H. unfold eqs_vars, subst_eqs in H. rewrite flat_map_concat_map, map_map in H.
  apply in_concat in H. destruct H as [vs [Hvs Hy]]. apply in_map_iff in Hvs.
  destruct Hvs as [[a b] [E Hab]]. subst vs. simpl in Hy. apply in_app_iff in Hy.
  assert (Hin : forall u, In u [a; b] -> In y (vars (subst1 x r u)) -> (In y (eqs_vars l) /\ y <> x) \/ In y (vars r)).
  { intros u Hu Q. apply vars_subst1 in Q. destruct Q as [[Q1 Q2]|Q]; auto. left. split; auto.
    unfold eqs_vars. apply in_flat_map. exists (a, b). split; auto. simpl. apply in_app_iff.
    destruct Hu as [Hu|[Hu|[]]]; subst; auto. }
  destruct Hy as [Hy|Hy]; [apply (Hin a)|apply (Hin b)]; simpl; auto.
Qed.

Lemma remove_length_lt' : forall (x : N) l, In x l -> length (remove N.eq_dec x l) < length l.
Proof.
  intros x. induction l as [|a l IH]; simpl; intro H. contradiction.
  destruct (N.eq_dec x a).
  - pose proof (remove_length_le N.eq_dec l x). lia.
  - simpl. destruct H as [H|H]. congruence. apply IH in H. lia.
Qed.

Definition fueled_rec (n : nat) (rec : list eqn -> res) : Prop :=
  forall eqs V, incl (eqs_vars eqs) V -> length V < n -> rec eqs <> OutOfFuel.

Lemma unify_s_fueled : forall n rec, fueled_rec n rec ->
  forall sf eqs V, incl (eqs_vars eqs) V -> length V <= n -> eqs_size eqs <= sf ->
  unify_s rec sf eqs <> OutOfFuel.
Proof.
  intros n rec Hrec. induction sf as [|k IH]; intros eqs V HV Ln Ls.
  - destruct eqs as [|[a b] rest]; simpl. discriminate.
    rewrite eqs_size_cons in Ls. pose proof (tsize_pos a). lia.
  - destruct eqs as [|[a b] rest]; simpl. discriminate.
    rewrite eqs_size_cons in Ls. rewrite eqs_vars_cons in HV.
    pose proof (tsize_pos a) as Pa. pose proof (tsize_pos b) as Pb.
    assert (HVrest : incl (eqs_vars rest) V). { intros y Hy. apply HV. apply in_app_iff. auto. }
    destruct (classify a b) as [|x r|l m|] eqn:C; try discriminate.
    + apply (IH rest V); auto. lia.
    + intro Q. apply bind_step_oof in Q. destruct Q as [Ho Q]. apply occurs_false in Ho.
      assert (Hxr : In x V /\ incl (vars r) V).
      { apply classify_bind in C. destruct C as [[Ea Eb]|[Eb Ea]]; subst; simpl in HV; split.
        - apply HV. simpl. auto.
        - intros y Hy. apply HV. simpl. right. apply in_app_iff. auto.
        - apply HV. apply in_app_iff. left. apply in_app_iff. right. simpl. auto.
        - intros y Hy. apply HV. apply in_app_iff. left. apply in_app_iff. auto. }
      destruct Hxr as [HxV HrV].
      apply (Hrec _ (remove N.eq_dec x V)) in Q; auto.
      * intros y Hy. apply eqs_vars_subst_eqs in Hy. apply in_in_remove.
        -- destruct Hy as [[_ Hy]|Hy]; auto. intro E. subst. contradiction.
        -- destruct Hy as [[Hy _]|Hy]; auto.
      * pose proof (remove_length_lt' x V HxV). lia.
    + apply classify_decomp in C. destruct C as [g [Ea [Eb L]]]. subst.
      apply (IH _ V); auto.
      * intros y Hy. rewrite eqs_vars_app in Hy. apply in_app_iff in Hy. destruct Hy as [Hy|Hy]; auto.
        apply eqs_vars_combine in Hy. apply HV. apply in_app_iff. left. apply in_app_iff. simpl. auto.
      * rewrite eqs_size_app, eqs_size_combine; auto. simpl in Ls. lia.
Qed.

Lemma unify_v_fueled : forall vf, fueled_rec vf (unify_v vf).
Proof.
  induction vf as [|k IH]; intros eqs V HV L. lia.
  simpl. apply (unify_s_fueled k (unify_v k) IH _ eqs V); auto. lia.
Qed.

Lemma unify_run_fueled : forall a b, unify_run a b <> OutOfFuel.
Proof.
  intros a b. unfold unify_run. apply (unify_v_fueled _ _ (vars a ++ vars b)).
  - rewrite eqs_vars_cons. simpl. rewrite app_nil_r. apply incl_refl.
  - lia.
Qed.

(* ------------------------------------------------------------------ the statements about unify_oc *)
Lemma unify_oc_some : forall a b s, unify_oc a b = Some s -> unify_run a b = Ok s.
Proof. intros a b s H. unfold unify_oc in H. destruct (unify_run a b); try discriminate. congruence. Qed.

Lemma unify_oc_none : forall a b, unify_oc a b = None -> unify_run a b = Fail.
Proof.
  intros a b H. unfold unify_oc in H. pose proof (unify_run_fueled a b).
  destruct (unify_run a b); try discriminate; congruence.
Qed.

Lemma oc_sound : forall a b s, unify_oc a b = Some s -> apply s a = apply s b.
Proof.
  intros a b s H. apply unify_oc_some in H. apply unify_v_sound in H.
  inversion H; subst. simpl in *. rewrite !apply_inst. auto.
Qed.

(* strong form: every unifier f absorbs the result, f = f o s *)
Lemma oc_mgu_fun : forall a b s, unify_oc a b = Some s ->
  forall f, inst f a = inst f b -> forall t, inst f (apply s t) = inst f t.
Proof.
  intros a b s H f U t. apply unify_oc_some in H.
  eapply unify_v_mgu; [exact H | repeat constructor; auto].
Qed.

Lemma oc_mgu : forall a b s, unify_oc a b = Some s ->
  forall s', apply s' a = apply s' b -> exists d, forall t, apply s' t = apply d (apply s t).
Proof.
  intros a b s H s' U. exists s'. intro t. rewrite !(apply_inst s'). rewrite !apply_inst in U.
  symmetry. eapply oc_mgu_fun; eauto.
Qed.

Lemma oc_complete_fun : forall a b, unify_oc a b = None -> forall f, inst f a <> inst f b.
Proof.
  intros a b H f U. apply unify_oc_none in H. apply (unify_v_complete _ _ f) in H.
  apply H. repeat constructor; auto.
Qed.

Lemma oc_complete : forall a b, unify_oc a b = None -> forall s, apply s a <> apply s b.
Proof. intros a b H s. rewrite !apply_inst. apply oc_complete_fun. auto. Qed.

Lemma oc_succeeds_iff : forall a b, (exists s, unify_oc a b = Some s) <-> (exists f, inst f a = inst f b).
Proof.
  intros a b. split.
  - intros [s H]. exists (sfun s). rewrite <- !apply_inst. apply oc_sound. auto.
  - intros [f U]. destruct (unify_oc a b) eqn:E; eauto. exfalso. eapply oc_complete_fun; eauto.
Qed.

(* ------------------------------------------------------------------ domain, range, idempotence *)
Definition binds_within (V : list N) (s : subst) : Prop :=
  Forall (fun p => In (fst p) V /\ incl (vars (snd p)) V) s.

Lemma binds_within_incl : forall V W s, incl V W -> binds_within V s -> binds_within W s.
Proof.
  intros V W s I H. unfold binds_within in *. eapply Forall_impl; [|exact H].
  intros [x r] [H1 H2]. simpl in *. split; auto. intros y Hy. auto.
Qed.

Lemma apply_var_outside : forall V s y, binds_within V s -> ~ In y V -> apply s (Var y) = Var y.
Proof.
  intros V. induction s as [|[x r] s IH]; intros y H Hy. reflexivity.
  inversion H as [|p q [H1 _] H2]; subst. simpl in H1.
  rewrite apply_cons. rewrite subst1_notin. apply IH; auto.
  simpl. intros [E|[]]. subst. contradiction.
Qed.

Lemma vars_apply : forall V s t z, binds_within V s -> In z (vars (apply s t)) -> In z (vars t) \/ In z V.
Proof.
  intros V. induction s as [|[x r] s IH]; intros t z H Hz. auto.
  inversion H as [|p q [_ H1] H2]; subst. simpl in H1.
  rewrite apply_cons in Hz. apply IH in Hz; auto. destruct Hz as [Hz|Hz]; auto.
  apply vars_subst1 in Hz. destruct Hz as [[Hz _]|Hz]; auto.
Qed.

Lemma apply_disjoint : forall s t, (forall x, In x (map fst s) -> ~ In x (vars t)) -> apply s t = t.
Proof.
  induction s as [|[x r] s IH]; intros t H. reflexivity.
  rewrite apply_cons. rewrite subst1_notin. apply IH. intros y Hy. apply H. simpl. auto.
  apply H. simpl. auto.
Qed.

Lemma classify_bind_vars : forall a b x r, classify a b = ABind x r ->
  In x (vars a ++ vars b) /\ incl (vars r) (vars a ++ vars b).
Proof.
  intros a b x r C. apply classify_bind in C. destruct C as [[Ea Eb]|[Eb Ea]]; subst; split.
  - apply in_app_iff. left. simpl. auto.
  - intros y Hy. apply in_app_iff. auto.
  - apply in_app_iff. right. simpl. auto.
  - intros y Hy. apply in_app_iff. auto.
Qed.

Definition good_rec (rec : list eqn -> res) : Prop :=
  forall eqs s, rec eqs = Ok s ->
    binds_within (eqs_vars eqs) s /\ (forall t x, In x (map fst s) -> ~ In x (vars (apply s t))).

Lemma unify_s_good : forall rec, good_rec rec -> forall sf, good_rec (unify_s rec sf).
Proof.
  intros rec Hrec. induction sf as [|k IH]; intros eqs s H.
  - destruct eqs as [|[a b] rest]; simpl in H; try discriminate. inversion H. split. constructor. simpl. tauto.
  - destruct eqs as [|[a b] rest]; simpl in H. inversion H. split. constructor. simpl. tauto.
    destruct (classify a b) as [|x r|l m|] eqn:C; try discriminate.
    + apply IH in H. destruct H as [H1 H2]. split; auto.
      eapply binds_within_incl; [|exact H1]. rewrite eqs_vars_cons. intros y Hy. apply in_app_iff. auto.
    + apply bind_step_ok in H. destruct H as [s' [E [Ho Hr]]]. subst s.
      apply occurs_false in Ho. apply Hrec in Hr. destruct Hr as [H1 H2].
      assert (Hxr : In x (eqs_vars ((a, b) :: rest)) /\ incl (vars r) (eqs_vars ((a, b) :: rest))).
      { rewrite eqs_vars_cons. apply classify_bind_vars in C. destruct C as [C1 C2]. split.
        - apply in_app_iff. auto.
        - intros y Hy. apply in_app_iff. auto. }
      destruct Hxr as [Hx Hr'].
      assert (Hsub : forall y, In y (eqs_vars (subst_eqs x r rest)) -> In y (eqs_vars ((a, b) :: rest)) /\ y <> x).
      { intros y Hy. apply eqs_vars_subst_eqs in Hy. destruct Hy as [[Hy Hn]|Hy].
        - split; auto. rewrite eqs_vars_cons. apply in_app_iff. auto.
        - split; auto. intro E. subst. contradiction. }
      split.
      * constructor. simpl. auto.
        eapply binds_within_incl; [|exact H1]. intros y Hy. apply Hsub in Hy. tauto.
      * intros t z Hz. rewrite apply_cons. simpl in Hz. destruct Hz as [Hz|Hz]; auto.
        subst z. intro Hin. apply (vars_apply _ _ _ _ H1) in Hin. destruct Hin as [Hin|Hin].
        -- apply vars_subst1 in Hin. destruct Hin as [[_ Hin]|Hin]; auto.
        -- apply Hsub in Hin. destruct Hin as [_ Hin]. auto.
    + apply classify_decomp in C. destruct C as [g [Ea [Eb L]]]. subst.
      apply IH in H. destruct H as [H1 H2]. split; auto.
      eapply binds_within_incl; [|exact H1]. rewrite eqs_vars_cons, eqs_vars_app.
      intros y Hy. apply in_app_iff in Hy. apply in_app_iff. destruct Hy as [Hy|Hy]; auto.
      left. apply eqs_vars_combine in Hy. apply in_app_iff. simpl. auto.
Qed.

Lemma unify_v_good : forall vf, good_rec (unify_v vf).
Proof.
  induction vf as [|k IH]; intros eqs s H; simpl in H. discriminate.
  eapply unify_s_good; eauto.
Qed.

Lemma eqs_vars_single : forall a b, eqs_vars [(a, b)] = vars a ++ vars b.
Proof. intros. rewrite eqs_vars_cons. simpl. apply app_nil_r. Qed.

Lemma oc_binds_within : forall a b s, unify_oc a b = Some s -> binds_within (vars a ++ vars b) s.
Proof.
  intros a b s H. apply unify_oc_some in H. apply unify_v_good in H. destruct H as [H _].
  rewrite eqs_vars_single in H. auto.
Qed.

Lemma oc_no_outside : forall a b s, unify_oc a b = Some s ->
  forall x, ~ In x (vars a ++ vars b) -> apply s (Var x) = Var x.
Proof. intros a b s H x Hx. eapply apply_var_outside; eauto. apply oc_binds_within; auto. Qed.

Lemma oc_range : forall a b s, unify_oc a b = Some s ->
  forall t z, In z (vars (apply s t)) -> In z (vars t) \/ In z (vars a ++ vars b).
Proof. intros a b s H t z. apply vars_apply. apply oc_binds_within; auto. Qed.

Lemma oc_dom_eliminated : forall a b s, unify_oc a b = Some s ->
  forall t x, In x (map fst s) -> ~ In x (vars (apply s t)).
Proof. intros a b s H. apply unify_oc_some in H. apply unify_v_good in H. tauto. Qed.

Lemma oc_idempotent : forall a b s, unify_oc a b = Some s -> forall t, apply s (apply s t) = apply s t.
Proof.
  intros a b s H t. apply apply_disjoint. intros x Hx. eapply oc_dom_eliminated; eauto.
Qed.

Lemma oc_identical_after : forall a b s, unify_oc a b = Some s -> term_eqb (apply s a) (apply s b) = true.
Proof.
  intros a b s H. rewrite (oc_sound a b s H).
  generalize (apply s b). clear.
  induction t as [v|z|n d|b|s|h args IH] using term_ind'; simpl.
  - apply N.eqb_refl. - apply Z.eqb_refl. - rewrite !Z.eqb_refl. reflexivity. - apply Z.eqb_refl.
  - apply name_eqb_refl.
  - rewrite name_eqb_refl. simpl. induction args as [|x r IHr]; auto.
    inversion IH; subst. rewrite H1. simpl. auto.
Qed.

(* ------------------------------------------------------------------ rational-tree model: partial agreement *)
Definition satisfies (f : N -> term) (s : subst) : Prop :=
  forall x t, lookup x s = Some t -> f x = inst f t.

Lemma walk_inst : forall f s, satisfies f s -> forall n t, inst f (walk n s t) = inst f t.
Proof.
  intros f s Hs. induction n as [|k IH]; intro t; simpl. reflexivity.
  destruct t; auto. destruct (lookup v s) as [u|] eqn:E; auto.
  rewrite IH. simpl. symmetry. apply Hs. auto.
Qed.

Lemma satisfies_cons : forall f s x t, satisfies f s -> f x = inst f t -> satisfies f ((x, t) :: s).
Proof.
  intros f s x t Hs Hx y u H. simpl in H. destruct (N.eqb_spec y x).
  - inversion H; subst. auto.
  - apply Hs. auto.
Qed.

Lemma rt_loop_no_false : forall f fuel s vis eqs,
  satisfies f s -> unifies f eqs -> rt_loop fuel s vis eqs <> Some false.
Proof.
  intros f. induction fuel as [|k IH]; intros s vis eqs Hs U; simpl. discriminate.
  destruct eqs as [|[a0 b0] rest]. discriminate.
  inversion U as [|p q U1 U2]; subst. simpl in U1.
  set (a := match a0 with Var x => match lookup x s with Some u => walk (length s) s u | None => a0 end | _ => a0 end).
  set (b := match b0 with Var x => match lookup x s with Some u => walk (length s) s u | None => b0 end | _ => b0 end).
  assert (Ea : inst f a = inst f a0) by (exact (walk_inst f s Hs (S (length s)) a0)).
  assert (Eb : inst f b = inst f b0) by (exact (walk_inst f s Hs (S (length s)) b0)).
  assert (Eab : inst f a = inst f b) by congruence.
  clearbody a b.
  destruct (classify a b) as [|x r|l m|] eqn:C.
  - apply IH; auto.
  - apply IH; auto. apply satisfies_cons; auto.
    apply classify_bind in C. destruct C as [[E1 E2]|[E1 E2]]; subst; simpl in Eab; auto.
  - apply classify_decomp in C. destruct C as [g [E1 [E2 L]]]. subst.
    destruct (pair_in _ _ vis); apply IH; auto.
    apply unifies_app. split; auto. apply unifies_combine; auto. simpl in Eab. congruence.
  - exfalso. eapply classify_clash; eauto.
Qed.

Lemma rt_never_false_when_unifiable : forall a b f, inst f a = inst f b -> unify_rt a b <> Some false.
Proof.
  intros a b f U. unfold unify_rt. apply (rt_loop_no_false f).
  - intros x t H. discriminate.
  - repeat constructor; auto.
Qed.

Lemma rt_agrees_oc_partial : forall a b s, unify_oc a b = Some s -> unify_rt a b <> Some false.
Proof.
  intros a b s H. apply (rt_never_false_when_unifiable a b (sfun s)).
  rewrite <- !apply_inst. apply oc_sound. auto.
Qed.

Lemma rt_false_no_finite_unifier : forall a b, unify_rt a b = Some false -> unify_oc a b = None.
Proof.
  intros a b H. destruct (unify_oc a b) eqn:E; auto. exfalso. eapply rt_agrees_oc_partial; eauto.
Qed.

(* ------------------------------------------------------------------ packaged statements for Props.v *)
Lemma oc_complete_both : forall a b, unify_oc a b = None ->
  (forall s, apply s a <> apply s b) /\ (forall f, inst f a <> inst f b).
Proof. intros a b H. split. exact (oc_complete a b H). exact (oc_complete_fun a b H). Qed.

Lemma oc_no_outside_both : forall a b s, unify_oc a b = Some s ->
  (forall x, ~ In x (vars a ++ vars b) -> apply s (Var x) = Var x) /\
  (forall t z, In z (vars (apply s t)) -> In z (vars t) \/ In z (vars a ++ vars b)).
Proof. intros a b s H. split. exact (oc_no_outside a b s H). exact (oc_range a b s H). Qed.

Lemma rt_clash_no_unifier : forall a b, unify_rt a b = Some false -> forall f, inst f a <> inst f b.
Proof. intros a b H. apply oc_complete_fun. apply rt_false_no_finite_unifier. exact H. Qed.

(* ------------------------------------------------------------------ the comparison functions say what they should *)
Lemma check_oc_fail_iff : forall a b vs, check_oc a b vs IFail = true <-> unify_oc a b = None.
Proof.
  intros. unfold check_oc, chk_oc, chk_bind. destruct (unify_oc a b); split; intro H; try discriminate; auto.
Qed.

Lemma check_oc_ok : forall a b vs same bs, check_oc a b vs (IOkBind same bs) = true ->
  exists s, unify_oc a b = Some s /\ same = true /\ variant_lists (model_bindings s vs) bs = true.
Proof.
  intros a b vs same bs H. unfold check_oc, chk_oc, chk_bind in H. destruct (unify_oc a b) as [s|]; try discriminate.
  apply andb_true_iff in H. destruct H. eauto.
Qed.

Lemma check_rt_fail_iff : forall a b vs, check_rt a b vs IFail = true <-> unify_oc a b = None /\ unify_rt a b = Some false.
Proof.
  intros. unfold check_rt, chk_rt, chk_bind. destruct (unify_oc a b); [split; [discriminate|intros [H _]; discriminate]|].
  destruct (unify_rt a b) as [[|]|]; split; try discriminate; auto; intros [_ H]; discriminate.
Qed.

Lemma check_err_error : forall a b vs, check_err a b vs IOccursError = true -> unify_oc a b = None.
Proof.
  intros a b vs H. unfold check_err, chk_err, chk_bind in H. destruct (unify_oc a b); auto. discriminate.
Qed.

Lemma check_pair_spec : forall a b vs rts ocs errs, check_pair a b vs rts ocs errs = true <->
  (forall o, In o rts -> check_rt a b vs o = true) /\ (forall o, In o ocs -> check_oc a b vs o = true) /\
  (forall o, In o errs -> check_err a b vs o = true).
Proof.
  intros. unfold check_pair, check_rt, check_oc, check_err. rewrite !andb_true_iff, !forallb_forall. tauto.
Qed.
