(* C10 -- pinned property theorems (nothing else lives here) *)
From Coq Require Import ZArith NArith List Bool.
From V Require Import Base.Term C10.Model C10.Proofs.
Import ListNotations.

(* the two fuels handed to the worklist algorithm are sufficient for ALL finite terms: "out of fuel" never happens,
   so unify_oc a b = None always means the algorithm reported a clash or an occurs-check failure *)
Theorem unify_fuel_sufficient : forall a b, unify_run a b <> OutOfFuel.
Proof. exact unify_run_fueled. Qed.
Print Assumptions unify_fuel_sufficient.

(* the result unifies the two terms *)
Theorem unify_oc_sound : forall a b s, unify_oc a b = Some s -> apply s a = apply s b.
Proof. exact oc_sound. Qed.
Print Assumptions unify_oc_sound.

(* ... so that they are identical (==) afterwards *)
Theorem after_unify_identical : forall a b s, unify_oc a b = Some s -> term_eqb (apply s a) (apply s b) = true.
Proof. exact oc_identical_after. Qed.
Print Assumptions after_unify_identical.

(* most general: every unifier s' (any list of bindings) factors through the result *)
Theorem unify_oc_mgu : forall a b s, unify_oc a b = Some s ->
  forall s', apply s' a = apply s' b -> exists d, forall t, apply s' t = apply d (apply s t).
Proof. exact oc_mgu. Qed.
Print Assumptions unify_oc_mgu.

(* the same for unifiers given as arbitrary functions from variables to terms, in the strong form f = f o s *)
Theorem unify_oc_mgu_fun : forall a b s, unify_oc a b = Some s ->
  forall f, inst f a = inst f b -> forall t, inst f (apply s t) = inst f t.
Proof. exact oc_mgu_fun. Qed.
Print Assumptions unify_oc_mgu_fun.

(* complete: failure means that no finite unifier exists (no list of bindings, no function) *)
Theorem unify_oc_complete : forall a b, unify_oc a b = None ->
  (forall s, apply s a <> apply s b) /\ (forall f, inst f a <> inst f b).
Proof. exact oc_complete_both. Qed.
Print Assumptions unify_oc_complete.

Theorem unify_oc_succeeds_iff_unifiable : forall a b,
  (exists s, unify_oc a b = Some s) <-> (exists f, inst f a = inst f b).
Proof. exact oc_succeeds_iff. Qed.
Print Assumptions unify_oc_succeeds_iff_unifiable.

(* idempotent: applying the result twice is applying it once (no bound variable survives in any image) *)
Theorem unify_oc_idempotent : forall a b s, unify_oc a b = Some s -> forall t, apply s (apply s t) = apply s t.
Proof. exact oc_idempotent. Qed.
Print Assumptions unify_oc_idempotent.

(* no variable outside the two terms is bound, and no such variable is introduced into a binding *)
Theorem no_outside_binding : forall a b s, unify_oc a b = Some s ->
  (forall x, ~ In x (vars a ++ vars b) -> apply s (Var x) = Var x) /\
  (forall t z, In z (vars (apply s t)) -> In z (vars t) \/ In z (vars a ++ vars b)).
Proof. exact oc_no_outside_both. Qed.
Print Assumptions no_outside_binding.

(* rational-tree model, partial: it never reports a clash when a finite unifier exists (so it agrees with
   unify_oc on success up to its own fuel; sufficiency of the fuel 2n^2+1 and bisimilarity of the two terms
   under the resulting store are NOT proved) *)
Theorem unify_rt_agrees_oc_partial : forall a b s, unify_oc a b = Some s -> unify_rt a b <> Some false.
Proof. exact rt_agrees_oc_partial. Qed.
Print Assumptions unify_rt_agrees_oc_partial.

Theorem unify_rt_clash_no_finite_unifier_partial : forall a b, unify_rt a b = Some false -> forall f, inst f a <> inst f b.
Proof. exact rt_clash_no_unifier. Qed.
Print Assumptions unify_rt_clash_no_finite_unifier_partial.

(* the comparison functions used by the correspondence mean what they should *)
Theorem check_pair_is_conjunction : forall a b vs rts ocs errs, check_pair a b vs rts ocs errs = true <->
  (forall o, In o rts -> check_rt a b vs o = true) /\ (forall o, In o ocs -> check_oc a b vs o = true) /\
  (forall o, In o errs -> check_err a b vs o = true).
Proof. exact check_pair_spec. Qed.
Print Assumptions check_pair_is_conjunction.

Theorem check_oc_accepts_failure_iff : forall a b vs, check_oc a b vs IFail = true <-> unify_oc a b = None.
Proof. exact check_oc_fail_iff. Qed.
Print Assumptions check_oc_accepts_failure_iff.

Theorem check_rt_accepts_failure_iff : forall a b vs, check_rt a b vs IFail = true <-> unify_oc a b = None /\ unify_rt a b = Some false.
Proof. exact check_rt_fail_iff. Qed.
Print Assumptions check_rt_accepts_failure_iff.

(* non-vacuity *)
Definition nm (c : N) : list N := [c].
Definition X := Var 0. Definition Y := Var 1. Definition Z' := Var 2.
Example ex_success : unify_oc (Cmp (nm 102) [X; Cmp (nm 103) [Y]]) (Cmp (nm 102) [Cmp (nm 103) [Y]; X]) = Some [(0%N, Cmp (nm 103) [Y])].
Proof. vm_compute. reflexivity. Qed.
Example ex_sharing : exists s, unify_oc (Cmp (nm 102) [X; Y; X]) (Cmp (nm 102) [Y; Z'; Atom (nm 97)]) = Some s
                               /\ apply s X = Atom (nm 97) /\ apply s Y = Atom (nm 97) /\ apply s Z' = Atom (nm 97).
Proof. eexists. split. vm_compute. reflexivity. vm_compute. auto. Qed.
Example ex_occurs : unify_oc X (Cmp (nm 102) [X]) = None /\ unify_rt X (Cmp (nm 102) [X]) = Some true.
Proof. vm_compute. auto. Qed.
Example ex_clash : unify_oc (Cmp (nm 102) [X; Int 1]) (Cmp (nm 102) [Atom (nm 97); Flt 4607182418800017408]) = None
                   /\ unify_rt (Cmp (nm 102) [X; Int 1]) (Cmp (nm 102) [Atom (nm 97); Flt 4607182418800017408]) = Some false.
Proof. vm_compute. auto. Qed.
Example ex_string_vs_partial_list : exists s, unify_oc (tstring [97; 98; 99]%N) (tlist_tail [tchar 97; Y] Z') = Some s
                                    /\ apply s Y = tchar 98 /\ apply s Z' = tstring [99%N].
Proof. eexists. split. vm_compute. reflexivity. vm_compute. auto. Qed.
Example ex_cyclic_pair_rt : unify_rt (Cmp (nm 102) [X; Y; X]) (Cmp (nm 102) [Cmp (nm 103) [Y]; Cmp (nm 103) [X]; Y]) = Some true.
Proof. vm_compute. reflexivity. Qed.
