"""Translator: the operator table a fresh Machine starts with -> coq/Gen/DefaultOps.v

Sources (in boot order, src/machine/config.rs): `default_op_dir()` in src/parser/ast.rs, then the `:- op(P, T, N).`
directives of src/lib/ops_and_meta_predicates.pl.  builtins.pl, loader.pl and toplevel.pl are scanned too and the
translator fails loudly if they start to declare operators outside a module-local scope it does not understand.
The output is a list of (priority, specifier, name) with the name as code points."""
import os, re, sys

FIXITY = {"XFX": "In", "XFY": "In", "YFX": "In", "FX": "Pre", "FY": "Pre", "XF": "Post", "YF": "Post"}
CLASS = {"xfx": "In", "xfy": "In", "yfx": "In", "fx": "Pre", "fy": "Pre", "xf": "Post", "yf": "Post"}


class ShapeError(Exception):
    pass


def strip_pl_comments(src):
    out = []
    for line in src.split("\n"):
        # a '%' starts a comment unless inside quotes; the files of interest never quote '%' on a directive line
        if line.lstrip().startswith("%"):
            out.append("")
        else:
            out.append(line)
    return "\n".join(out)


def parse_ast_rs(path):
    src = open(path).read()
    m = re.search(r"pub fn default_op_dir\(\) -> OpDir \{(.*?)\n\}", src, re.S)
    if not m:
        raise ShapeError("default_op_dir() not found in %s" % path)
    body = m.group(1)
    ops = []
    for line in body.split("\n"):
        line = line.strip()
        if not line or line.startswith("//") or line.startswith("let mut op_dir") or line == "op_dir":
            continue
        mm = re.fullmatch(r'op_dir\.insert\(\(atom!\("((?:[^"\\]|\\.)*)"\), Fixity::(In|Pre|Post)\), OpDesc::build_with\((\d+), (XFX|XFY|YFX|FX|FY|XF|YF)\)\);', line)
        if not mm:
            raise ShapeError("unrecognised line in default_op_dir(): %r" % line)
        name, fix, prio, spec = mm.group(1), mm.group(2), int(mm.group(3)), mm.group(4)
        if "\\" in name:
            name = bytes(name, "utf-8").decode("unicode_escape")
        if FIXITY[spec] != fix:
            raise ShapeError("fixity %s does not match specifier %s for %r" % (fix, spec, name))
        ops.append((prio, spec.lower(), name))
    if not ops:
        raise ShapeError("default_op_dir() declares no operator")
    return ops


ATOM_TOKEN = re.compile(r"(?:[a-z][A-Za-z0-9_]*|[+\-*/\\^<>=~:.?@#&$]+|;|!|\|)$")


def parse_pl_directives(path, must_have):
    src = strip_pl_comments(open(path).read())
    ops = []
    for line in src.split("\n"):
        s = line.strip()
        if not re.match(r":-\s*op\s*\(", s):
            if re.search(r"(^|[^A-Za-z0-9_'])op\s*\(\s*\d+\s*,\s*(xfx|xfy|yfx|fx|fy|xf|yf)\s*,", s) and s.startswith(":-"):
                raise ShapeError("operator declaration of unknown shape in %s: %r" % (path, s))
            continue
        mm = re.fullmatch(r":-\s*op\(\s*(\d+)\s*,\s*([a-z]+)\s*,\s*(.+?)\s*\)\.", s)
        if not mm:
            raise ShapeError("unrecognised op directive in %s: %r" % (path, s))
        prio, spec, name = int(mm.group(1)), mm.group(2), mm.group(3)
        if spec not in CLASS:
            raise ShapeError("unknown specifier in %s: %r" % (path, s))
        if name.startswith("'") and name.endswith("'") and len(name) >= 2:
            inner = name[1:-1]
            if "\\" in inner or "'" in inner:
                raise ShapeError("quoted operator name with escapes in %s: %r" % (path, s))
            name = inner
        elif name.startswith("(") and name.endswith(")") and ATOM_TOKEN.match(name[1:-1].strip()):
            name = name[1:-1].strip()
        elif not ATOM_TOKEN.match(name):
            raise ShapeError("operator name of unknown shape in %s: %r" % (path, s))
        if not (0 <= prio <= 1200):
            raise ShapeError("priority out of range in %s: %r" % (path, s))
        ops.append((prio, spec, name))
    if must_have and not ops:
        raise ShapeError("no op directive found in %s" % path)
    return ops


def boot_table(repo):
    table = {}     # (name, class) -> (prio, spec), insertion ordered
    decls = parse_ast_rs(os.path.join(repo, "src/parser/ast.rs"))
    decls += parse_pl_directives(os.path.join(repo, "src/lib/ops_and_meta_predicates.pl"), True)
    # files loaded at boot whose operator declarations would be visible to user code if they had any at top level
    for extra in ("src/lib/builtins.pl", "src/loader.pl", "src/toplevel.pl"):
        p = os.path.join(repo, extra)
        if os.path.exists(p):
            more = parse_pl_directives(p, False)
            if more:
                raise ShapeError("%s now declares operators (%r); extend gen/default_ops.py (module-local or global?)" % (extra, more[:3]))
    for prio, spec, name in decls:
        key = (name, CLASS[spec])
        if prio == 0:
            table.pop(key, None)
        else:
            if key in table:
                del table[key]
            table[key] = (prio, spec)
    return [(p, s, n) for (n, _c), (p, s) in table.items()]


def generate(repo, out):
    ops = boot_table(repo)
    lines = ["(* GENERATED by gen/default_ops.py from src/parser/ast.rs default_op_dir() and the op directives of",
             "   src/lib/ops_and_meta_predicates.pl -- do not edit.  (priority, specifier, name as code points) *)",
             "From Coq Require Import ZArith NArith List String.", "Import ListNotations.", "Open Scope string_scope.", "",
             "Definition default_ops : list (Z * string * list N) :=", "  ["]
    body = []
    for p, s, n in ops:
        body.append('    (%d%%Z, "%s", [%s])   (* %s *)' % (p, s, "; ".join("%d%%N" % ord(c) for c in n), n.replace("*)", "* )").replace("(*", "( *")))
    # the separator must precede the comment: emit "entry ; (* name *)"
    out_lines = []
    for i, b in enumerate(body):
        entry, comment = b.split("   (* ", 1)
        out_lines.append("%s%s   (* %s" % (entry, ";" if i + 1 < len(body) else "", comment))
    lines += out_lines
    lines += ["  ].", ""]
    txt = "\n".join(lines)
    old = open(out).read() if os.path.exists(out) else None
    if old != txt:
        os.makedirs(os.path.dirname(out), exist_ok=True)
        open(out, "w").write(txt)
    return ops


if __name__ == "__main__":
    r = generate(sys.argv[1] if len(sys.argv) > 1 else "/repo", sys.argv[2] if len(sys.argv) > 2 else "/verif/coq/Gen/DefaultOps.v")
    print(len(r), "operators")
