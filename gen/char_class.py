#!/usr/bin/env python3
"""Translator: src/parser/macros.rs (`*_char!` character-class macros)  ->  coq/Gen/CharClass.v

Every `macro_rules! name { ($c: expr) => { BODY }; }` becomes `Definition name (c : N) : bool := <BODY>` where BODY
is parsed with a small recursive-descent parser for exactly this expression language:

    e  ::= e '||' e | e '&&' e | '!' e | '(' e ')'
         | $c == 'x' | name!($c) | char_class!($c, ['x', ...])
         | $c.is_numeric() | $c.is_whitespace() | $c.is_control() | $c.is_uppercase() | $c.is_alphabetic() | $c.is_ascii_digit()
         | ('a'..='b').contains(&$c)

Anything else (another method, another macro shape, a second macro arm) raises ShapeError: a broken tie.

The Rust `char` methods are Unicode-table lookups.  They are modelled EXACTLY for ASCII (Rust std semantics: is_numeric =
0-9, is_alphabetic = A-Za-z, is_uppercase = A-Z, is_whitespace = 9..13 and 32, is_control = 0..31 and 127) and, for
non-ASCII code points, ONLY for the explicit table UNICODE_TABLE below (every entry is verified against the implementation
by checks/C55.py through char_type/2).  For any other code point the generated predicates answer `false`; the theorems of
C55/C15 are stated over `modelled` code points only (ASCII + the table)."""
import os, re, sys


class ShapeError(Exception):
    pass


# code point, comment, is_alphabetic, is_uppercase, is_numeric, is_whitespace, is_control   (Rust std / Unicode 15 values)
UNICODE_TABLE = [
    (0x85,    "NEL (Cc, White_Space)",          0, 0, 0, 1, 1),
    (0xA0,    "NO-BREAK SPACE (Zs)",            0, 0, 0, 1, 0),
    (0xB2,    "SUPERSCRIPT TWO (No)",           0, 0, 1, 0, 0),
    (0xC9,    "E acute capital (Lu)",           1, 1, 0, 0, 0),
    (0xDF,    "sharp s (Ll)",                   1, 0, 0, 0, 0),
    (0xE9,    "e acute small (Ll)",             1, 0, 0, 0, 0),
    (0x1C5,   "Dz caron titlecase (Lt)",        1, 0, 0, 0, 0),
    (0x3A9,   "GREEK CAPITAL OMEGA (Lu)",       1, 1, 0, 0, 0),
    (0x3BB,   "GREEK SMALL LAMDA (Ll)",         1, 0, 0, 0, 0),
    (0x1680,  "OGHAM SPACE MARK (Zs)",          0, 0, 0, 1, 0),
    (0x2003,  "EM SPACE (Zs)",                  0, 0, 0, 1, 0),
    (0x200B,  "ZERO WIDTH SPACE (Cf)",          0, 0, 0, 0, 0),
    (0x2028,  "LINE SEPARATOR (Zl)",            0, 0, 0, 1, 0),
    (0x2116,  "NUMERO SIGN (So)",               0, 0, 0, 0, 0),
    (0x3000,  "IDEOGRAPHIC SPACE (Zs)",         0, 0, 0, 1, 0),
    (0x2167,  "ROMAN NUMERAL EIGHT (Nl)",       1, 1, 1, 0, 0),
    (0x65E5,  "CJK sun/day (Lo)",               1, 0, 0, 0, 0),
    (0x672C,  "CJK origin/book (Lo)",           1, 0, 0, 0, 0),
    (0x1F600, "GRINNING FACE (So)",             0, 0, 0, 0, 0),
]

METHODS = {
    "is_numeric": "u_is_numeric", "is_whitespace": "u_is_whitespace", "is_control": "u_is_control",
    "is_uppercase": "u_is_uppercase", "is_alphabetic": "u_is_alphabetic", "is_ascii_digit": "u_is_ascii_digit",
}

CHAR_CLASS_MACRO = re.sub(r"\s+", "", r"""
macro_rules! char_class {
    ($c: expr, [$head:expr]) => ($c == $head);
    ($c: expr, [$head:expr $(, $cs:expr)+]) => ($c == $head || char_class!($c, [$($cs),*]));
}""")

ESC = {"n": 10, "r": 13, "t": 9, "\\": 92, "'": 39, '"': 34, "0": 0}


def char_lit(body):
    """the inside of a Rust char literal -> code point"""
    if len(body) == 1:
        return ord(body)
    if body[0] == "\\":
        if len(body) == 2 and body[1] in ESC:
            return ESC[body[1]]
        m = re.fullmatch(r"\\u\{([0-9A-Fa-f]{1,6})\}", body)
        if m:
            return int(m.group(1), 16)
        m = re.fullmatch(r"\\x([0-7][0-9A-Fa-f])", body)
        if m:
            return int(m.group(1), 16)
    raise ShapeError("unrecognised char literal '%s'" % body)


TOKEN = re.compile(r"""\s*(?:
    (?P<chr>'(?:\\u\{[0-9A-Fa-f]+\}|\\x[0-9A-Fa-f]{2}|\\.|[^\\'])')
  | (?P<var>\$c)
  | (?P<op>\|\||&&|==|\.\.=|!|\(|\)|\[|\]|,|\.|&)
  | (?P<id>[A-Za-z_][A-Za-z0-9_]*)
)""", re.X)


def tokenize(s):
    out, i = [], 0
    s = s.strip()
    while i < len(s):
        m = TOKEN.match(s, i)
        if not m or m.end() == i:
            raise ShapeError("cannot tokenise macro body at: %r" % s[i:i + 40])
        if m.group("chr"):
            out.append(("chr", char_lit(m.group("chr")[1:-1])))
        elif m.group("var"):
            out.append(("var", "$c"))
        elif m.group("op"):
            out.append(("op", m.group("op")))
        else:
            out.append(("id", m.group("id")))
        i = m.end()
        while i < len(s) and s[i].isspace():
            i += 1
    return out


class Parser:
    def __init__(self, toks, macro):
        self.t, self.i, self.macro, self.deps = toks, 0, macro, []

    def peek(self, k=0):
        return self.t[self.i + k] if self.i + k < len(self.t) else ("eof", None)

    def eat(self, kind, val=None):
        tk = self.peek()
        if tk[0] != kind or (val is not None and tk[1] != val):
            raise ShapeError("macro %s: expected %s %r, found %r" % (self.macro, kind, val, tk))
        self.i += 1
        return tk[1]

    def parse(self):
        e = self.p_or()
        if self.peek()[0] != "eof":
            raise ShapeError("macro %s: trailing tokens %r" % (self.macro, self.t[self.i:self.i + 5]))
        return e

    def p_or(self):
        e = self.p_and()
        while self.peek() == ("op", "||"):
            self.i += 1
            e = "(%s || %s)" % (e, self.p_and())
        return e

    def p_and(self):
        e = self.p_not()
        while self.peek() == ("op", "&&"):
            self.i += 1
            e = "(%s && %s)" % (e, self.p_not())
        return e

    def p_not(self):
        if self.peek() == ("op", "!"):
            self.i += 1
            return "(negb %s)" % self.p_not()
        return self.p_atom()

    def p_atom(self):
        tk = self.peek()
        if tk == ("op", "("):
            # either a parenthesised expression or ('a'..='b').contains(&$c)
            if self.peek(1)[0] == "chr" and self.peek(2) == ("op", "..="):
                self.i += 1
                lo = self.eat("chr"); self.eat("op", "..="); hi = self.eat("chr"); self.eat("op", ")")
                self.eat("op", "."); self.eat("id", "contains"); self.eat("op", "("); self.eat("op", "&"); self.eat("var")
                self.eat("op", ")")
                return "((%d <=? c) && (c <=? %d))" % (lo, hi)
            self.i += 1
            e = self.p_or()
            self.eat("op", ")")
            return e
        if tk[0] == "var":
            self.i += 1
            nxt = self.peek()
            if nxt == ("op", "=="):
                self.i += 1
                return "(c =? %d)" % self.eat("chr")
            if nxt == ("op", "."):
                self.i += 1
                m = self.eat("id")
                if m not in METHODS:
                    raise ShapeError("macro %s: char method .%s() is not modelled" % (self.macro, m))
                self.eat("op", "("); self.eat("op", ")")
                return "(%s c)" % METHODS[m]
            raise ShapeError("macro %s: unexpected token after $c: %r" % (self.macro, nxt))
        if tk[0] == "id":
            name = tk[1]
            self.i += 1
            self.eat("op", "!"); self.eat("op", "("); self.eat("var")
            if name == "char_class":
                self.eat("op", ","); self.eat("op", "[")
                cs = [self.eat("chr")]
                while self.peek() == ("op", ","):
                    self.i += 1
                    cs.append(self.eat("chr"))
                self.eat("op", "]"); self.eat("op", ")")
                return "(" + " || ".join("(c =? %d)" % x for x in cs) + ")"
            self.eat("op", ")")
            self.deps.append(name)
            return "(%s c)" % name
        raise ShapeError("macro %s: unexpected token %r" % (self.macro, tk))


def parse_macros(src):
    # split into macro_rules! blocks (top level braces)
    macros = {}
    pos = 0
    order = []
    rest_check = []
    for m in re.finditer(r"macro_rules!\s*([A-Za-z_0-9]+)\s*\{", src):
        rest_check.append(src[pos:m.start()])
        name = m.group(1)
        depth, i = 1, m.end()
        in_chr = False
        while depth and i < len(src):
            ch = src[i]
            if ch == "'":
                # char literal: skip to its end
                mm = re.match(r"'(?:\\u\{[0-9A-Fa-f]+\}|\\x[0-9A-Fa-f]{2}|\\.|[^\\'])'", src[i:])
                if mm:
                    i += mm.end(); continue
            if ch == "{": depth += 1
            elif ch == "}": depth -= 1
            i += 1
        if depth:
            raise ShapeError("unbalanced braces in macro %s" % name)
        body = src[m.end():i - 1]
        pos = i
        if name in macros:
            raise ShapeError("macro %s defined twice" % name)
        macros[name] = body
        order.append(name)
    rest_check.append(src[pos:])
    junk = "".join(rest_check).strip()
    if junk:
        raise ShapeError("unrecognised text outside macro_rules! blocks: %r" % junk[:80])
    return order, macros


def translate(repo):
    path = os.path.join(repo, "src/parser/macros.rs")
    src = open(path).read()
    order, macros = parse_macros(src)
    if "char_class" not in macros:
        raise ShapeError("char_class! not found")
    got = re.sub(r"\s+", "", "macro_rules! char_class {" + macros["char_class"] + "}")
    if got != CHAR_CLASS_MACRO:
        raise ShapeError("char_class! has changed shape: %r" % macros["char_class"])
    defs, deps = {}, {}
    for name in order:
        if name == "char_class":
            continue
        if not name.endswith("_char"):
            raise ShapeError("macro %s is not a *_char class macro; extend gen/char_class.py" % name)
        body = macros[name].strip()
        m = re.fullmatch(r"\(\$c:\s*expr\)\s*=>\s*(?:\{(.*)\}|\((.*)\))\s*;?", body, re.S)
        if not m:
            raise ShapeError("macro %s does not have the single-arm shape ($c: expr) => {...}: %r" % (name, body[:80]))
        inner = m.group(1) if m.group(1) is not None else m.group(2)
        p = Parser(tokenize(inner), name)
        defs[name] = p.parse()
        deps[name] = p.deps
    for n, ds in deps.items():
        for d in ds:
            if d not in defs:
                raise ShapeError("macro %s uses unknown macro %s!" % (n, d))
    # topological order
    out, done = [], set()

    def visit(n, stack=()):
        if n in done:
            return
        if n in stack:
            raise ShapeError("recursive macro %s" % n)
        for d in deps[n]:
            visit(d, stack + (n,))
        done.add(n)
        out.append(n)
    for n in sorted(defs):
        visit(n)
    return out, defs


REQUIRED = ["alpha_char", "alpha_numeric_char", "capital_letter_char", "small_letter_char", "decimal_digit_char",
            "graphic_char", "graphic_token_char", "solo_char", "layout_char", "meta_char", "symbolic_control_char",
            "semicolon_char", "cut_char", "variable_indicator_char", "sign_char", "single_quote_char", "backslash_char",
            "hexadecimal_digit_char", "octal_digit_char", "binary_digit_char"]


def coq_list(xs):
    return "[" + "; ".join("%d" % x for x in xs) + "]"


def generate(repo, out):
    order, defs = translate(repo)
    for r in REQUIRED:
        if r not in defs:
            raise ShapeError("required class macro %s! is missing from macros.rs" % r)
    tbl = UNICODE_TABLE
    for cp, *_ in tbl:
        if cp < 128:
            raise ShapeError("UNICODE_TABLE must hold non-ASCII code points only")
    L = []
    L.append("(* GENERATED by gen/char_class.py from src/parser/macros.rs -- do not edit.")
    L.append("   Rust char methods: exact for ASCII; for non-ASCII code points only the explicit table below is modelled")
    L.append("   (verified against the implementation through char_type/2 by checks/C55.py); other code points answer false. *)")
    L.append("From Coq Require Import NArith List Bool.")
    L.append("Import ListNotations.")
    L.append("Open Scope N_scope.")
    L.append("Open Scope bool_scope.")
    L.append("")
    L.append("Definition mem_N (c : N) (l : list N) : bool := existsb (N.eqb c) l.")
    L.append("")
    for cp, what, *_ in tbl:
        L.append("(* U+%04X %s *)" % (cp, what))
    L.append("Definition u_table : list N := %s." % coq_list([t[0] for t in tbl]))
    for col, nm in ((2, "alphabetic"), (3, "uppercase"), (4, "numeric"), (5, "whitespace"), (6, "control")):
        L.append("Definition u_tbl_%s : list N := %s." % (nm, coq_list([t[0] for t in tbl if t[col]])))
    L.append("")
    L.append("(* the modelled alphabet: ASCII and the table *)")
    L.append("Definition modelled (c : N) : bool := (c <? 128) || mem_N c u_table.")
    L.append("")
    L.append("Definition u_is_ascii_digit (c : N) : bool := (48 <=? c) && (c <=? 57).")
    L.append("Definition u_is_numeric (c : N) : bool := if c <? 128 then (48 <=? c) && (c <=? 57) else mem_N c u_tbl_numeric.")
    L.append("Definition u_is_alphabetic (c : N) : bool :=")
    L.append("  if c <? 128 then ((65 <=? c) && (c <=? 90)) || ((97 <=? c) && (c <=? 122)) else mem_N c u_tbl_alphabetic.")
    L.append("Definition u_is_uppercase (c : N) : bool := if c <? 128 then (65 <=? c) && (c <=? 90) else mem_N c u_tbl_uppercase.")
    L.append("Definition u_is_whitespace (c : N) : bool :=")
    L.append("  if c <? 128 then ((9 <=? c) && (c <=? 13)) || (c =? 32) else mem_N c u_tbl_whitespace.")
    L.append("Definition u_is_control (c : N) : bool := if c <? 128 then (c <=? 31) || (c =? 127) else mem_N c u_tbl_control.")
    L.append("")
    for n in order:
        L.append("Definition %s (c : N) : bool := %s." % (n, defs[n]))
    L.append("")
    txt = "\n".join(L)
    os.makedirs(os.path.dirname(out), exist_ok=True)
    if not os.path.exists(out) or open(out).read() != txt:
        open(out, "w").write(txt)
    return order, defs


if __name__ == "__main__":
    o, d = generate(sys.argv[1] if len(sys.argv) > 1 else "/repo",
                    sys.argv[2] if len(sys.argv) > 2 else
                    os.path.join(os.path.dirname(os.path.dirname(os.path.abspath(__file__))), "coq/Gen/CharClass.v"))
    print(len(o), "class predicates")
